#!/usr/bin/env python3
"""tools_seedprompt.py <round> <Cxx>: write /tmp/seed<round>prompt-<Cxx>.txt for a seeding sub-agent.

The prompt contains ONLY the property's text (title, statement, quantifier), the workspace rules and one sentence per
change already taken for the property (read from the tables of DESIGN.md section 10.5) — nothing else from /verif."""
import json, re, sys
rnd, pid = sys.argv[1], sys.argv[2]
prop = next(json.loads(l) for l in open('/verif/properties.jsonl') if json.loads(l)['id'] == pid)
taken = []
for l in open('/verif/DESIGN.md'):
    m = re.match(r'\| (C\d\d)[a-z]? \| (.*?) \| (.*?) \|', l)
    if m and m.group(1) == pid and not m.group(2).startswith('same '):
        taken.append("%s (it needed: %s)" % (m.group(2).strip(), m.group(3).strip()))
wt = f"/tmp/seed{rnd}-{pid}"
tmpl = open('/verif/seed_prompt_template.txt').read()
head = tmpl.split("THE PROPERTY YOUR CHANGE MUST BREAK:")[0].replace("/tmp/seed2-C05", wt)
tail = "REQUIREMENTS FOR THE CHANGE" + tmpl.split("REQUIREMENTS FOR THE CHANGE")[1].replace("/tmp/seed2-C05", wt)
mid = f"THE PROPERTY YOUR CHANGE MUST BREAK:\n{pid} — {prop['title']}\n\nSTATEMENT: {prop['statement']}\n\nQUANTIFIED OVER: {prop['quantifier']['text']}\n\n\n"
if int(rnd) >= 4:
    mid += "WHERE THE PROPERTY IS IMPLEMENTED (part of the property record; line numbers may have drifted a little):\n"
    for m in prop["anchors"]["mechanism"]:
        mid += " - %s  [%s]\n" % (m["name"], m["where"])
    mid += "Prefer a mechanism from this list that none of the changes below touches.\n\n"
mid += "ALREADY TAKEN (colleagues already wrote these changes for the same property; yours must be in a DIFFERENT part of the code and exercise a DIFFERENT sentence or mechanism of the property, or the same sentence through a clearly different code path):\n"
for t in taken: mid += " - " + t + "\n"
mid += "\n"
open(f"/tmp/seed{rnd}prompt-{pid}.txt", "w").write(head + mid + tail)
print(f"/tmp/seed{rnd}prompt-{pid}.txt", len(taken))
