#!/usr/bin/env python3
"""Run property checks against a seeded change WITHOUT touching /repo: the patch is applied to copies of the
affected files and given to `go build -overlay`.

  seedtest.py <patch.diff | seeded/<id>> <Cxx>[,Cyy...] [--tier quick|thorough]

Exit 0 if every listed check reports a VIOLATION (change detected), 1 otherwise.
"""
import os, re, shutil, subprocess, sys, tempfile, json

VERIF = os.path.dirname(os.path.abspath(__file__))

def overlay_for(patch, tmp):
    text = open(patch).read()
    files = sorted(set(re.findall(r'^\+\+\+ b/(\S+)', text, re.M)) | set(re.findall(r'^--- a/(\S+)', text, re.M)))
    tree = os.path.join(tmp, "tree")
    for f in files:
        src = os.path.join("/repo", f)
        dst = os.path.join(tree, f)
        os.makedirs(os.path.dirname(dst), exist_ok=True)
        if os.path.exists(src):
            shutil.copy(src, dst)
    p = subprocess.run(["patch", "-p1", "-s", "-d", tree, "-i", os.path.abspath(patch)], capture_output=True, text=True)
    if p.returncode != 0:
        raise SystemExit("patch does not apply to /repo's current tree:\n" + p.stdout + p.stderr)
    rep = {}
    for f in files:
        dst = os.path.join(tree, f)
        if os.path.exists(dst):
            # go -overlay wants the replacement outside a package dir name clash: rename to .txt
            alt = dst + ".ovl"
            os.rename(dst, alt)
            rep[os.path.join("/repo", f)] = alt
        else:
            rep[os.path.join("/repo", f)] = ""
    ov = os.path.join(tmp, "overlay.json")
    json.dump({"Replace": rep}, open(ov, "w"))
    return ov

def main():
    args = sys.argv[1:]
    tier = "quick"
    if "--tier" in args:
        i = args.index("--tier"); tier = args[i+1]; del args[i:i+2]
    patch, props = args[0], args[1].split(",")
    if os.path.isdir(patch):
        patch = os.path.join(patch, "patch.diff")
    tmp = tempfile.mkdtemp(prefix="seed")
    ok = True
    try:
        ov = overlay_for(patch, tmp)
        shutil.copy(os.path.join(VERIF, "known_findings.jsonl"), tmp)
        for prop in props:
            env = dict(os.environ, VERIF_OVERLAY=ov, VERIF_NO_EVIDENCE="1", VERIF_DIR=tmp)
            p = subprocess.run([os.path.join(VERIF, "check.sh"), prop, tier], env=env, capture_output=True, text=True)
            vio = [l for l in p.stdout.splitlines() if l.startswith("VIOLATION")]
            cls = [l.strip() for l in p.stdout.splitlines() if l.strip().startswith("class=")]
            summ = [l for l in p.stdout.splitlines() if l.startswith("SUMMARY")]
            status = "DETECTED" if (p.returncode == 1 and vio) else ("BUILD-FAILED" if p.returncode == 2 else "MISSED")
            print(f"{status} {prop} violations={len(vio)} {cls[:3]}")
            if summ: print("  ", summ[-1])
            if status != "DETECTED":
                ok = False
                if p.returncode == 2: print(p.stderr[-600:])
    finally:
        shutil.rmtree(tmp, ignore_errors=True)
    sys.exit(0 if ok else 1)

if __name__ == "__main__":
    main()
