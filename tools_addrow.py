#!/usr/bin/env python3
"""tools_addrow.py <row text>: insert one table row before the ROUND11_MORE placeholder of DESIGN.md."""
import sys
p='/verif/DESIGN.md'; s=open(p).read()
row=sys.argv[1].rstrip('\n')
assert 'ROUND11_MORE' in s
s=s.replace('ROUND11_MORE', row+'\nROUND11_MORE',1)
open(p,'w').write(s)
