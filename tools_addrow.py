#!/usr/bin/env python3
"""tools_addrow.py <row text> [round]: insert one table row before the ROUND<round>_MORE placeholder of DESIGN.md (default round 12)."""
import sys
p='/verif/DESIGN.md'; s=open(p).read()
row=sys.argv[1].rstrip('\n')
ph='ROUND%s_MORE' % (sys.argv[2] if len(sys.argv) > 2 else '12')
assert ph in s
s=s.replace(ph, row+'\n'+ph,1)
open(p,'w').write(s)
