#!/usr/bin/env python3
"""tools_addrow.py <row text>: insert one table row before the ROUND12_MORE placeholder of DESIGN.md."""
import sys
p='/verif/DESIGN.md'; s=open(p).read()
row=sys.argv[1].rstrip('\n')
assert 'ROUND12_MORE' in s
s=s.replace('ROUND12_MORE', row+'\nROUND12_MORE',1)
open(p,'w').write(s)
