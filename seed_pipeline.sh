#!/bin/bash
# seed_pipeline.sh <worktree-prefix> <suffix> <Cxx> [extra checks,...] : confirm a seeded change from /tmp/<prefix>-<Cxx>,
# keep it as seeded/<Cxx><suffix>, then run the property's own quick check (and any extra ones) against it.
pfx=$1; sfx=$2; id=$3; extra=${4:-}
mkdir -p /tmp/seedlogs
SEEDPFX=$pfx SEEDSFX=$sfx /verif/confirm_seed.sh $id > /tmp/seedlogs/confirm-$pfx-$id.log 2>&1
tail -1 /tmp/seedlogs/confirm-$pfx-$id.log
[ -f /verif/seeded/$id$sfx/patch.diff ] || exit 1
/verif/seedtest.py /verif/seeded/$id$sfx $id${extra:+,$extra}
