#!/usr/bin/env python3
"""Validate MANIFEST.json and every evidence file against the given schemas (python3-vt has jsonschema)."""
import json, sys, glob, jsonschema
ok = True
def check(path, schema):
    global ok
    try:
        jsonschema.validate(json.load(open(path)), json.load(open(schema)))
        print("ok  ", path)
    except Exception as e:
        ok = False
        print("FAIL", path, str(e)[:300])
check('/verif/MANIFEST.json', '/root/.vp/MANIFEST.schema.json')
for p in sorted(glob.glob('/verif/evidence/C*.json')):
    check(p, '/root/.vp/EVIDENCE.schema.json')
sys.exit(0 if ok else 1)
