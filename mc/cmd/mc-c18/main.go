package main

import (
	"verif/mc/core"
	_ "verif/mc/drivers/c18"
)

func main() { core.Main() }
