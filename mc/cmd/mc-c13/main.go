// Command mc-c13 is the development main of the C13 driver.
package main

import (
	"verif/mc/core"
	_ "verif/mc/drivers/c13"
)

func main() { core.Main() }
