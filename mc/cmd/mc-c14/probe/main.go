package main

import (
	"fmt"
	"os"

	"verif/mc/el"
)

func main() {
	for _, src := range os.Args[1:] {
		e := el.MustEnv(el.Opts{Stdlib: true})
		fmt.Printf("%s\n   => %s\n", src, e.Load(src).Full())
	}
}
