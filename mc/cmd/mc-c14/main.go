package main

import (
	"verif/mc/core"
	_ "verif/mc/drivers/c14"
)

func main() { core.Main() }
