// Command mc runs one property's model-checking driver.
//
//	mc -prop C19 -tier quick
//	mc -replay /verif/replay/C19/abcdef.json
package main

import (
	"verif/mc/core"
	_ "verif/mc/drivers"
)

func main() { core.Main() }
