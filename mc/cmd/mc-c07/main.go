// Command mc-c07 is the private development main of the C07 driver.
package main

import (
	"verif/mc/core"
	_ "verif/mc/drivers/c07"
)

func main() { core.Main() }
