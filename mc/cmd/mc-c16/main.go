package main

import (
	"verif/mc/core"
	_ "verif/mc/drivers/c16"
)

func main() { core.Main() }
