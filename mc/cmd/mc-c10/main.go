package main

import (
	"verif/mc/core"
	_ "verif/mc/drivers/c10"
)

func main() { core.Main() }
