package main

import (
	"verif/mc/core"
	_ "verif/mc/drivers/c08"
)

func main() { core.Main() }
