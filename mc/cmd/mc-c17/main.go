package main

import (
	"verif/mc/core"
	_ "verif/mc/drivers/c17"
)

func main() { core.Main() }
