// Command mc-c20 is the private development main of the C20 driver.
package main

import (
	"verif/mc/core"
	_ "verif/mc/drivers/c20"
)

func main() { core.Main() }
