package main

import (
	"verif/mc/core"
	_ "verif/mc/drivers/c04"
)

func main() { core.Main() }
