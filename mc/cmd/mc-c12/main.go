// Command mc-c12 is the private development main of the C12 driver.
package main

import (
	"verif/mc/core"
	_ "verif/mc/drivers/c12"
)

func main() { core.Main() }
