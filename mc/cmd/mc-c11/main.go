package main

import (
	"verif/mc/core"
	_ "verif/mc/drivers/c11"
)

func main() { core.Main() }
