// Private development main of the C01 driver: `mc-c01 -prop C01 -tier quick`, or
// `mc-c01 probe '<src>' ...` to print the reference's and the real interpreter's outcome side by side.
package main

import (
	"fmt"
	"os"
	"strings"

	"verif/mc/core"
	_ "verif/mc/drivers/c01"
	"verif/mc/el"
	"verif/mc/ri"
)

func main() {
	if len(os.Args) > 1 && os.Args[1] == "probe" {
		for _, src := range os.Args[2:] {
			in := ri.New()
			v, e, perr := in.Load(src)
			ref := ""
			switch {
			case perr != nil:
				ref = "parse: " + perr.Error()
			case e != nil:
				ref = "ERR<" + e.Cond + ": " + e.Msg + ">"
			default:
				ref = "VAL<" + v.String() + ">"
			}
			if s := in.Out.String(); s != "" {
				ref += fmt.Sprintf(" out=%q", s)
			}
			o := el.MustEnv(el.Opts{}).Load(src)
			fmt.Printf("%s\n   ref : %s\n   elps: %s\n", src, ref, strings.TrimSpace(o.Full()))
		}
		return
	}
	core.Main()
}
