package main

import (
	"verif/mc/core"
	_ "verif/mc/drivers/c05"
)

func main() { core.Main() }
