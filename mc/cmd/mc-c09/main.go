package main

import (
	"verif/mc/core"
	_ "verif/mc/drivers/c09"
)

func main() { core.Main() }
