package main

import (
	"verif/mc/core"
	_ "verif/mc/drivers/c02"
)

func main() { core.Main() }
