package main

import (
	"verif/mc/core"
	_ "verif/mc/drivers/c06"
)

func main() { core.Main() }
