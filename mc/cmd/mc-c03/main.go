// Command mc-c03 is the private development main of the C03 driver.
package main

import (
	"verif/mc/core"
	_ "verif/mc/drivers/c03"
)

func main() { core.Main() }
