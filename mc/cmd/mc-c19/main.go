package main

import (
	"verif/mc/core"
	_ "verif/mc/drivers/c19"
)

func main() { core.Main() }
