package main

import (
	"fmt"
	"os"
	"time"

	"github.com/luthersystems/elps/lisp"
	"github.com/luthersystems/elps/lisp/lisplib"
	"github.com/luthersystems/elps/parser"
)

func main() {
	env := lisp.NewEnv(nil)
	env.Runtime.Reader = parser.NewReader()
	if rc := lisp.InitializeUserEnv(env, lisp.WithMaxSteps(50_000_000), lisp.WithMaxAlloc(10_000_000)); !rc.IsNil() {
		panic(rc)
	}
	if rc := lisplib.LoadLibrary(env); !rc.IsNil() {
		panic(rc)
	}
	env.InPackage(lisp.String(lisp.DefaultUserPackage))
	t := time.Now()
	v := env.LoadString("p", os.Args[1])
	s := v.String()
	if len(s) > 200 {
		s = s[:200]
	}
	fmt.Println(time.Since(t), v.Type, s)
}
