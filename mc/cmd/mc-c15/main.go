// Command mc-c15 is the development main of the C15 driver.
package main

import (
	"verif/mc/core"
	_ "verif/mc/drivers/c15"
)

func main() { core.Main() }
