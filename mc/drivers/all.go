// Package drivers links every property driver into the mc binary.
package drivers

import (
	_ "verif/mc/drivers/c19"
)
