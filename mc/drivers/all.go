// Package drivers links every property driver into the mc binary.
package drivers

import (
	_ "verif/mc/drivers/c01"
	_ "verif/mc/drivers/c02"
	_ "verif/mc/drivers/c03"
	_ "verif/mc/drivers/c04"
	_ "verif/mc/drivers/c05"
	_ "verif/mc/drivers/c06"
	_ "verif/mc/drivers/c07"
	_ "verif/mc/drivers/c08"
	_ "verif/mc/drivers/c09"
	_ "verif/mc/drivers/c10"
	_ "verif/mc/drivers/c11"
	_ "verif/mc/drivers/c12"
	_ "verif/mc/drivers/c13"
	_ "verif/mc/drivers/c14"
	_ "verif/mc/drivers/c15"
	_ "verif/mc/drivers/c16"
	_ "verif/mc/drivers/c17"
	_ "verif/mc/drivers/c18"
	_ "verif/mc/drivers/c19"
	_ "verif/mc/drivers/c20"
)
