package c03

import (
	"fmt"
	"sort"
	"strconv"
	"strings"

	"github.com/luthersystems/elps/lisp"

	"verif/mc/el"
)

// Two-step HISTORIES: a container value v, then a MUTATING call on it that the
// configured limit may refuse (and whose refusal is survived: a later load,
// ignore-errors, handler-bind), then every READER over v.  A single-call sweep
// cannot see a builtin whose error path leaves a half-updated value behind;
// the value only bites at the next read.
//
// The mutators are found BY EFFECT (space hist-discover): every registered
// callable x every position holding v x small argument tuples, under a tight
// allocation limit, comparing a fingerprint of v (type, length, rendering)
// before and after the call -- whether the call answered a value or an error.

// ---------------------------------------------------------------------------
// containers

type histContainer struct{ name, expr string }

func seqExpr(head string, n int) string {
	var b strings.Builder
	b.WriteString("(" + head)
	for i := 1; i <= n; i++ {
		b.WriteString(" " + strconv.Itoa(i))
	}
	b.WriteString(")")
	return b.String()
}

func mapExpr(n int) string {
	var b strings.Builder
	b.WriteString("(sorted-map")
	for i := 0; i < n; i++ {
		fmt.Fprintf(&b, " \"%c\" %d", 'a'+i, i+1)
	}
	b.WriteString(")")
	return b.String()
}

func bytesExpr(n int) string {
	return `(to-bytes "` + strings.Repeat("z", n) + `")`
}

// histSizes are chosen around the tight limits 4, 8 and 16: empty, one, just
// under, exactly at, and (for the next limit up) between the limits.
var histSizes = []int{0, 1, 3, 4, 6, 7, 8, 15, 16}

func histContainers() []histContainer {
	var out []histContainer
	for _, n := range histSizes {
		out = append(out, histContainer{fmt.Sprintf("vector-%d", n), seqExpr("vector", n)})
	}
	for _, n := range []int{0, 3, 4, 8} {
		out = append(out, histContainer{fmt.Sprintf("list-%d", n), seqExpr("list", n)})
		out = append(out, histContainer{fmt.Sprintf("sorted-map-%d", n), mapExpr(n)})
		out = append(out, histContainer{fmt.Sprintf("bytes-%d", n), bytesExpr(n)})
	}
	out = append(out,
		histContainer{"quoted-list-3", `'(1 2 3)`},
		histContainer{"string-3", `"abc"`},
		histContainer{"vector-of-vectors", `(vector (vector 1 2) (vector 3))`},
		histContainer{"vector-of-maps", `(vector (sorted-map "a" 1) (sorted-map "a" 2))`},
		histContainer{"map-of-vectors", `(sorted-map "a" (vector 1 2 3) "b" (vector))`},
	)
	return out
}

// discoverContainers: the small ones, so that under MaxAlloc 4 some calls
// fit and some are refused.
func discoverContainers() []histContainer {
	return []histContainer{
		{"vector-1", seqExpr("vector", 1)}, {"vector-4", seqExpr("vector", 4)},
		{"list-3", seqExpr("list", 3)},
		{"sorted-map-1", mapExpr(1)}, {"sorted-map-4", mapExpr(4)},
		{"bytes-1", bytesExpr(1)}, {"bytes-4", bytesExpr(4)},
		{"string-3", `"abc"`},
	}
}

// histProfiles: tight per-operation allocation limits (the call is REFUSED for
// operands near the limit) and the ordinary fuzz limits (it succeeds).  A
// small step budget is not among them: a step refusal happens between
// evaluation steps, never inside a builtin, so it cannot cut a builtin's
// update of its operand in half.
func histProfilesFor(thorough bool) []string {
	if thorough {
		return []string{"alloc4", "alloc8", "alloc16", "fuzz"}
	}
	return []string{"alloc4", "alloc8", "fuzz"}
}

// survival modes: how the (possibly refused) mutating call is survived
var histModes = []struct{ name, tmpl string }{
	{"later-load", `$CALL`},
	{"ignore-errors", `(ignore-errors $CALL)`},
	{"handler-bind", `(handler-bind ([condition (lambda (c &rest a) 'refused)]) $CALL)`},
}

// histReaders: every way of reading v back.  Loops swallow ORDINARY errors
// with ignore-errors, which (by design) does not contain an internal-panic.
var histReaders = []string{
	`v`, `(length v)`, `(empty? v)`, `(nil? v)`, `(type v)`,
	`(dotimes (i (+ 2 (length v))) (ignore-errors (aref v i)))`,
	`(dotimes (i (+ 2 (length v))) (ignore-errors (nth v i)))`,
	`(aref v 0)`, `(aref v (- (length v) 1))`, `(aref v (length v))`, `(nth v (- (length v) 1))`, `(nth v (length v))`,
	`(first v)`, `(second v)`, `(rest v)`, `(car v)`, `(cdr v)`,
	`(to-string v)`, `(format-string "{}" v)`, `(debug-print v)`,
	`(json:dump-string v)`, `(json:dump-bytes v)`,
	`(map 'list identity v)`, `(map 'vector identity v)`, `(foldl (lambda (a x) x) () v)`, `(foldr (lambda (x a) x) () v)`,
	`(append 'list v 1)`, `(append 'vector v 1)`, `(append 'bytes v 1)`, `(append! v 1)`, `(append-bytes v "a")`,
	`(concat 'list v v)`, `(concat 'vector v v)`, `(concat 'string v v)`, `(concat 'bytes v v)`,
	`(slice 'list v 0 (length v))`, `(slice 'vector v 0 (length v))`,
	`(dotimes (i (+ 2 (length v))) (ignore-errors (slice 'vector v i (length v))) (ignore-errors (slice 'list v 0 i)))`,
	`(equal? v v)`, `(equal? v (map 'vector identity v))`,
	`(stable-sort < v)`, `(reverse 'list v)`, `(reverse 'vector v)`,
	`(select 'list identity v)`, `(reject 'vector identity v)`, `(zip 'list v v)`, `(all? identity v)`, `(any? identity v)`,
	`(insert-index 'vector v (length v) 1)`, `(insert-sorted 'list v < 1)`, `(search-sorted (length v) (lambda (i) (aref v i)))`,
	`(keys v)`, `(get v "a")`, `(key? v "a")`, `(assoc v "zz" 1)`, `(dissoc v "a")`, `(assoc! v "zz" 1)`, `(dissoc! v "a")`,
	`(dotimes (i (+ 2 (length v))) (ignore-errors (elpspath:? v i)))`, `(elpspath:? v "a")`, `(elpspath:?set v 0 1)`, `(elpspath:?del v 0)`,
	`(string:join v ",")`, `(to-bytes v)`, `(base64:encode v)`, `(apply list v)`, `(unpack list v)`, `(s:validate "any" v)`,
	`(vector v v)`, `(sorted-map "k" v)`, `(error 'boom v)`,
}

// lengthConsistency is a count-only observation (no oracle): does (length v)
// agree with the number of elements map visits / keys enumerates?
const lengthConsistency = `(cond ((sorted-map? v) (= (length v) (length (keys v)))) ((or (vector? v) (list? v)) (= (length v) (length (map 'list identity v)))) (true true))`

// ---------------------------------------------------------------------------
// discovery plan

func discoverPlan() *plan {
	p := &plan{}
	for _, ct := range discoverContainers() {
		pre := "(set 'v " + ct.expr + ")"
		for _, c := range registry() {
			hi := len(c.Req) + len(c.Opt)
			if c.Rest != "" {
				hi += 2
			}
			for n := len(c.Req); n <= hi; n++ {
				if n == 0 || !c.bindable(n) {
					continue
				}
				for pos := 0; pos < n; pos++ {
					slots := make([][]string, n)
					for i := 0; i < n; i++ {
						w := 3
						if n >= 4 {
							w = 2
						}
						slots[i] = othersAlpha(c, i, w)
					}
					slots[pos] = []string{"v"}
					p.add(c, pre, fmt.Sprintf("discover/%s/n=%d/pos=%d", ct.name, n, pos), slots)
				}
			}
		}
	}
	return p
}

// mutKey identifies a discovered mutator: callable, arity it was seen at, position of the operand.
func mutKey(fn string, pos int) string { return "mut\x00" + fn + "\x00" + strconv.Itoa(pos) }

type mutator struct {
	Fn  string `json:"fn"`
	Pos int    `json:"pos"`
}

func mutatorsFromKeys(keys []string) []mutator {
	var out []mutator
	for _, k := range keys {
		parts := strings.Split(k, "\x00")
		if len(parts) != 3 || parts[0] != "mut" {
			continue
		}
		pos, _ := strconv.Atoi(parts[2])
		out = append(out, mutator{parts[1], pos})
	}
	sort.Slice(out, func(i, j int) bool {
		if out[i].Fn != out[j].Fn {
			return out[i].Fn < out[j].Fn
		}
		return out[i].Pos < out[j].Pos
	})
	return out
}

// ---------------------------------------------------------------------------
// history plan: discovered mutator x argument tuples x container, then
// (profile, survival mode) as the outer product.

func historyPlan(muts []mutator) *plan {
	p := &plan{}
	restAlpha := []string{`9`, `"x"`}
	for _, m := range muts {
		c := lookupCallable(m.Fn)
		if c == nil {
			continue
		}
		lo := len(c.Req)
		if lo <= m.Pos {
			lo = m.Pos + 1
		}
		hi := len(c.Req) + len(c.Opt)
		if c.Rest != "" {
			hi += 3 // (append! v 9 10 11): enough extra values to cross a limit
		}
		for _, ct := range histContainers() {
			pre := "(set 'v " + ct.expr + ")"
			for n := lo; n <= hi; n++ {
				if !c.bindable(n) {
					continue
				}
				slots := make([][]string, n)
				for i := 0; i < n; i++ {
					if i >= len(c.Req)+len(c.Opt)+1 {
						slots[i] = restAlpha
					} else {
						slots[i] = othersAlpha(c, i, 3)
					}
				}
				slots[m.Pos] = []string{"v"}
				p.add(c, pre, fmt.Sprintf("%s/n=%d/pos=%d", ct.name, n, m.Pos), slots)
			}
		}
	}
	return p
}

// ---------------------------------------------------------------------------
// execution

func fingerprint(v *lisp.LVal) string {
	if v == nil {
		return "<unbound>"
	}
	s := ""
	if !tooDeepToRender(v) {
		s = v.String()
	}
	return fmt.Sprintf("%v|%d|%s", v.Type, v.Len(), s)
}

// readersProgram parses (once per worker) the program that runs every reader.
func (x *executor) readersProgram(readers []string) (lisp.Program, error) {
	key := strings.Join(readers, "\n")
	if p, ok := x.progs[key]; ok {
		return p, nil
	}
	var b strings.Builder
	for _, r := range readers {
		b.WriteString("(ignore-errors " + r + ")\n")
	}
	b.WriteString(lengthConsistency + "\n")
	p, err := el.Parse("readers", b.String())
	if err != nil {
		return p, err
	}
	if x.progs == nil {
		x.progs = map[string]lisp.Program{}
	}
	x.progs[key] = p
	return p, nil
}

func (x *executor) globalV(s *envSlot) *lisp.LVal {
	v := s.env.GetGlobal(lisp.Symbol("v"))
	if v == nil || v.Type == lisp.LError {
		return nil
	}
	return v
}

type histOutcome struct {
	v        verdict // first violating verdict (class != "") or the mutation's verdict
	skipped  bool
	changed  bool
	mutErr   bool
	evals    int64
	inconsis bool
	where    string // which step violated
}

// histOnce plays one history in env slot s: setup, mutation, readers.
func (x *executor) histOnce(s *envSlot, k *kase) (h histOutcome) {
	env := s.env
	var last *lisp.LVal
	step := func(name, src string) (v verdict) {
		c, g := guarded(name, func() {
			env.Err.Reset()
			last = env.LoadStringContext(x.ctx, name, src)
			v = judge(last)
		})
		h.evals++
		if c != "" {
			return verdict{class: c, got: g}
		}
		return v
	}
	s.uses++
	sv := step("setup", k.Pre)
	if sv.class != "" {
		h.v, h.where = sv, "setup"
		return h
	}
	if !sv.value {
		h.skipped = true
		h.v = sv
		return h
	}
	fp0 := ""
	var obj0 *lisp.LVal
	if c, _ := guarded("fingerprint", func() { obj0 = x.globalV(s); fp0 = fingerprint(obj0) }); c != "" {
		fp0 = "<unrenderable>"
	}
	mv := step("mutation", k.Mid)
	h.v = mv
	if mv.class != "" {
		h.where = "mutation"
		return h
	}
	h.mutErr = !mv.value
	fp1 := ""
	var obj1 *lisp.LVal
	if c, g := guarded("render-after-mutation", func() { obj1 = x.globalV(s); fp1 = fingerprint(obj1) }); c != "" {
		h.v, h.where = verdict{class: c, got: g}, "render-after-mutation"
		return h
	}
	// the SAME object reads differently: it was written in place.  (A call
	// that merely rebinds the name v -- defconst, defun, set! -- is not a
	// mutator of the value.)
	h.changed = obj0 == obj1 && fp0 != fp1
	if len(k.After) > 0 {
		// all readers in ONE pre-parsed program, one reader per line, each
		// wrapped in ignore-errors (which does not contain an internal-panic:
		// the load stops there and answers it), the length observation last
		prog, err := x.readersProgram(k.After)
		if err != nil {
			h.v, h.where = verdict{class: "harness-error", got: "readers do not parse: " + err.Error()}, "readers"
			return h
		}
		var rv verdict
		c, g := guarded("readers", func() {
			env.Err.Reset()
			last = env.LoadProgramContext(x.ctx, prog)
			rv = judge(last)
		})
		h.evals += int64(len(k.After)) + 1
		if c != "" {
			rv = verdict{class: c, got: g}
		}
		if rv.class != "" {
			which := "a reader"
			if last != nil {
				if loc, ok := last.Source(); ok && loc.Line >= 1 && loc.Line <= len(k.After) {
					which = k.After[loc.Line-1]
				}
			}
			rv.got = "after " + k.Mid + " the read " + which + " answered: " + rv.got
			h.v, h.where = rv, which
			return h
		}
		h.inconsis = rv.value && last != nil && last.Type == lisp.LSymbol && last.Str == "false"
	}
	return h
}

// runHistory executes a mutprobe / history case (shared runtime), and
// re-plays a disagreeing history 5x in fresh runtimes before reporting it.
func (x *executor) runHistory(k *kase, reuse int) (r result) {
	probe := *k
	probe.Pre = "" // the setup is replayed per case, it is not a once-per-runtime prelude
	s := x.slot(&probe, reuse)
	h := x.histOnce(s, k)
	r.Evals, r.Trans = h.evals, h.evals
	if h.skipped {
		r.Skipped = true
		r.Outcome = k.Space + ":setup-refused:" + h.v.cond
		return r
	}
	if h.v.class != "" || !hygienic(s.env) {
		x.drop(k.Limits)
	}
	if h.v.class != "" {
		n := 0
		for i := 0; i < 5; i++ {
			fs := &envSlot{env: newEnv(k.Limits), preOK: true}
			fh := x.histOnce(fs, k)
			r.Evals += fh.evals
			if fh.v.class == h.v.class {
				n++
			}
		}
		if n < 5 {
			r.Flaky = fmt.Sprintf("%s seen in a shared runtime, reproduced %d/5 in fresh runtimes", h.v.class, n)
			r.Outcome = k.Space + ":flaky"
			return r
		}
		r.Class, r.Got = h.v.class, h.v.got
		r.Outcome = k.Space + ":VIOLATION"
		return r
	}
	r.Nontriv = h.changed || !h.mutErr
	res := "value"
	if h.mutErr {
		res = "error:" + h.v.cond
	}
	eff := "operand-unchanged"
	if h.changed {
		eff = "operand-changed"
	}
	r.Value = !h.mutErr
	r.Outcome = k.Space + ":" + k.Limits + ":" + res + ":" + eff
	if h.inconsis {
		// count-only observation, not an oracle: the statement says nothing
		// about (length v); a half-updated value shows up here first
		r.Outcome += ":length-inconsistent"
		r.Obs = "length-inconsistent"
	}
	if h.changed {
		// position of v among the call's arguments is recorded in the stratum
		if i := strings.LastIndex(k.Stratum, "pos="); i >= 0 {
			pos, _ := strconv.Atoi(k.Stratum[i+4:])
			r.RepKey = mutKey(k.Fn, pos)
		}
	}
	return r
}
