package c03

import (
	"errors"
	"fmt"
	"math"
	"sort"
	"strings"

	"github.com/luthersystems/elps/lisp"
)

// ---------------------------------------------------------------------------
// Level-0 value alphabet V0.  Every entry is the SOURCE TEXT of an expression
// that evaluates to the value, so a case is an ordinary program a maintainer
// can paste into a REPL.  Values only an embedder can build (natives,
// multi-dimensional arrays, containers holding error values) come from the
// host builtin (c03-host "id").

var v0Base = []string{
	// nil / booleans
	`()`, `true`, `false`,
	// integers: small, negative, extreme
	`0`, `1`, `2`, `-1`, `9223372036854775807`, `-9223372036854775808`,
	// floats: ordinary, signed zero, huge, NaN, +-Inf
	`1.5`, `-0.0`, `1e308`, `(- math:inf math:inf)`, `math:inf`, `math:-inf`,
	// strings: empty, short, and the literals the stdlib parsers accept
	`""`, `"x"`, `"("`, `"1s"`, `"2020-01-02T03:04:05Z"`, `"[1,{\"a\":2}]"`, `"eA=="`, `"{} {}"`,
	// strings that are MALFORMED in a syntax some builtin parses out of a string: format directives (unclosed, stray
	// closer, escape at the end, index out of range, non-numeric), regexps, JSON cut short, durations, base64, timestamps
	`"{0"`, `"a{b"`, `"}"`, `"{{"`, `"{9}"`, `"{-1}"`, `"x{"`, `"(["`, `"a\\"`, `"{\"a\":"`, `"1h1"`, `"=A=="`, `"2020-13-01T00:00:00Z"`,
	// symbols: plain, type specifiers, qualified, keyword, unquoted, doubly quoted
	`'x`, `'bytes`, `'list`, `'vector`, `'string`, `'lisp:car`, `'condition`, `:a`, `(car '(x))`, `''x`,
	// bytes
	`(to-bytes "ab")`, `(to-bytes "")`,
	// sorted maps
	`(sorted-map)`, `(sorted-map "a" 1)`, `(sorted-map "a" '(1 ()) "b" (to-bytes "z") :k (sorted-map))`,
	// vectors
	`(vector)`, `(vector 1 2)`, `(vector (vector 1) "s")`,
	// lists: quoted literal, association list, built at run time, UNQUOTED (code as data)
	`'(1 2)`, `'(("a" 1))`, `(list 1 "a" 'b)`, `(car '((+ 1 2)))`,
	// functions: builtin, closures, a special operator and a macro as values
	`car`, `(lambda (x) x)`, `(lambda (&rest xs) xs)`, `(lambda () 1)`, `if`, `defun`,
	// tagged values and the type of types
	`(progn (deftype c03t (v) v) (new c03t 1))`, `lisp:typedef`,
	// forged tags: the type of types is an ordinary typedef, so a program can wrap ANY payload in the typedef tag, and
	// can tag a value with the name of a built-in type
	`(new (new lisp:typedef 'lisp:typedef (lambda (x) x)) 42)`, `(new (new lisp:typedef 'lisp:typedef (lambda (x) x)) ())`,
	`(new (new lisp:typedef 'lisp:typedef (lambda (x) x)) (list 'a))`, `(new (new lisp:typedef 'lisp:typedef (lambda (x) x)) (list 'a 7))`,
	`(new (new lisp:typedef 'lisp:typedef (lambda (x) x)) (list 5 car 6))`,
	`(new (new lisp:typedef 'error (lambda (x) x)) 1)`, `(new (new lisp:typedef 'sorted-map (lambda (x) x)) (vector))`,
	// natives reachable from lisp
	`testing:test-suite`, `json:null`,
	// host-built values
	`(c03-host "native-struct")`, `(c03-host "native-nil")`, `(c03-host "native-ptr")`, `(c03-host "native-nilptr")`,
	`(c03-host "native-string")`, `(c03-host "native-uint64")`, `(c03-host "native-error")`,
	`(c03-host "array-2x2")`, `(c03-host "array-3-nil")`,
	`(c03-host "list-with-error")`, `(c03-host "map-with-error")`, `(c03-host "tagged")`,
}

// s8 is the 8-value subset the remaining positions range over.  Ordered by
// priority: a shorter prefix is used when the arity makes 8^(n-1) too large.
var s8 = []string{
	`2`, `"x"`, `'(1 2)`, `'list`, `(lambda (&rest xs) xs)`, `(sorted-map "a" 1)`, `(vector 1 2)`, `()`,
}

// v0 returns V0: the base alphabet plus every &key keyword of the registry.
func v0() []string {
	out := append([]string(nil), v0Base...)
	out = append(out, registryKeys()...)
	return out
}

func inS8(s string) bool {
	for _, x := range s8 {
		if x == s {
			return true
		}
	}
	return false
}

// v0NotS8 is V0 without the S8 members (the two are enumerated as disjoint
// strata so that no tuple is generated twice).
func v0NotS8() []string {
	var out []string
	for _, s := range v0() {
		if !inS8(s) {
			out = append(out, s)
		}
	}
	return out
}

// defaultFor picks a plausible argument for a formal parameter from its NAME
// (read from the registry), so that the positions that are not under test let
// the call get past argument validation.
func defaultFor(formal string) string {
	f := strings.ToLower(formal)
	has := func(ss ...string) bool {
		for _, s := range ss {
			if f == s {
				return true
			}
		}
		return false
	}
	switch {
	case strings.Contains(f, "type-specifier"):
		return `'list`
	case has("fn", "fun", "f", "g", "predicate", "less-predicate", "binary-function", "key-fun", "constraint", "constraints"):
		return `(lambda (&rest xs) xs)`
	case has("seq", "list", "lis", "lists", "vec", "values", "args", "steps", "steps-and-value", "arguments", "allowed-values"):
		return `'(1 2)`
	case has("map", "object", "val", "input"):
		return `(sorted-map "a" 1)`
	case has("key", "field-name", "matchkey"):
		return `"a"`
	case has("bytes", "byte-sequence", "json-bytes", "data"):
		return `(to-bytes "ab")`
	case has("sym", "symbol", "condition"):
		return `'x`
	case has("str", "sep", "cutset", "pattern", "format", "name", "text", "source-code", "json-string", "timestamp",
		"duration-string", "source-location", "base64-data", "package-name", "type", "docstring"):
		return `"x"`
	}
	return `2`
}

// othersAlpha is the alphabet of a position that is not the one under test:
// the formal-aware default first, then S8 in priority order, `a` entries.
func othersAlpha(c *callable, pos, a int) []string {
	name, keyName := c.formalAt(pos)
	if keyName {
		out := []string{":" + name}
		for _, k := range c.Keys {
			if k != name && len(out) < a {
				out = append(out, ":"+k)
			}
		}
		return out
	}
	out := []string{defaultFor(name)}
	for _, s := range s8 {
		if len(out) >= a {
			break
		}
		dup := false
		for _, o := range out {
			if o == s {
				dup = true
			}
		}
		if !dup {
			out = append(out, s)
		}
	}
	return out
}

func slotDefault(c *callable, pos int) string {
	return othersAlpha(c, pos, 1)[0]
}

// ---------------------------------------------------------------------------
// Numeric edge alphabet N (space NUM).  V0 holds a handful of numbers and the
// level-0 sweep lets at most one or two positions leave the small "others"
// alphabet, so a call whose THREE arguments are all unusual numbers -- a start,
// a stop and a step, an index pair and a count -- is never built there.  N is
// chosen by the boundaries at which the two numeric representations change
// behaviour, not by any one builtin:
//
//	the identities and the sign            0  1  -1  -0.0
//	the ends of int                        MaxInt64  MinInt64   (x+1 wraps)
//	the end of exact floats                2^53 as int and as float, 2^53+1 as int (not
//	                                       representable), 2^53+2 as float (the next float):
//	                                       at and above 2^53, x+1 == x and x+0.5 == x
//	the end of float->int conversion       2^63 as float (int(x) is out of range)
//	fractions                              0.5 (exact), 5e-324 (the smallest positive
//	                                       float: 1/x is +Inf, x+y == y)
//	the ends of float                      1e308 (x+x is +Inf), NaN (every comparison is
//	                                       false), +Inf, -Inf
//
// `2`, the default of an unnamed formal, is deliberately NOT a member: the
// strata of numPlan are keyed by the set of positions holding a member of N.
var numEdge = []string{
	`0`, `1`, `-1`,
	`9007199254740992`, `9007199254740993`, `9223372036854775807`, `-9223372036854775808`,
	`0.5`, `-0.0`, `5e-324`,
	`9007199254740992.0`, `9007199254740994.0`, `9223372036854775808.0`, `1e308`,
	`(- math:inf math:inf)`, `math:inf`, `math:-inf`,
}

// numEdgeMore is added in the thorough tier: the 32-bit boundaries, a second
// scale of absorbed steps (ulp(1e16) = 2, ulp(1e300) is astronomically large),
// negative and inexact fractions, and a small count that is not the default.
var numEdgeMore = []string{
	`3`, `2147483648`, `4294967296`, `-9007199254740993`,
	`1.0`, `-0.5`, `0.1`, `1e-9`, `1e16`, `-1e308`,
}

func numAlphabet(thorough bool) []string {
	out := append([]string(nil), numEdge...)
	if thorough {
		out = append(out, numEdgeMore...)
	}
	return out
}

// ---------------------------------------------------------------------------
// Raw FORM alphabet F0 for special operators and macros: what they see is the
// unevaluated form, so binding lists, formals lists, patterns and malformed
// variants of each are the interesting inputs.

var f0 = []string{
	`x`, `:k`, `()`, `1`, `"s"`, `'x`, `'(1 2)`,
	`(x)`, `((x 1))`, `((x 1) (y 2))`, `(x y)`, `((x))`, `((x 1 2))`, `(1)`, `((1 2))`, `(("s" 1))`, `([x 1])`, `[x 1]`,
	`(x &rest y)`, `(&optional x)`, `(&rest)`, `(&key)`, `(&rest &rest)`, `(x x)`, `(&optional &key)`, `(x &rest y z)`,
	`((f (a) a))`, `((f))`, `((f x))`, `((f (&rest)))`, `((f ()) (f ()))`,
	`(quote)`, `(quote x y)`, `(unquote x)`, `(unquote-splicing x)`, `((unquote-splicing x))`, `(quasiquote (unquote x))`, `(quasiquote (unquote-splicing '(1)))`,
	`(lambda)`, `(lambda (x))`, `(car)`, `(error 'boom)`, `(car '(1))`,
	`(condition)`, `((condition car))`, `((condition (lambda (c &rest a) c)))`, `((1 car))`,
	`(i 3)`, `(i -1)`, `(i "s")`, `(i 3 4)`, `(3 i)`,
	`%`, `%2`, `%&rest`, `(% %2 %&rest)`, `(list %0)`, `(list %-1)`, `%&optional`,
	`(true 1)`, `((true 1))`, `(else 1)`,
	`(c03-host "native-struct")`, `(to-bytes "ab")`, `user:x`, `nosuch:x`, `a:b:c`,
}

var sf8 = []string{`x`, `()`, `((x 1))`, `(x)`, `1`, `"s"`, `'(1 2)`, `(car)`}

func inSF8(s string) bool {
	for _, x := range sf8 {
		if x == s {
			return true
		}
	}
	return false
}

func f0NotSF8() []string {
	var out []string
	for _, s := range f0 {
		if !inSF8(s) {
			out = append(out, s)
		}
	}
	return out
}

func formDefaultFor(formal string) string {
	f := strings.ToLower(formal)
	switch f {
	case "bindings":
		return `((x 1))`
	case "formals", "constructor-formals", "args":
		return `(x)`
	case "name", "var-name", "symbol", "pkg-name", "fun":
		return `x`
	case "control-sequence":
		return `(i 2)`
	case "pattern":
		return `%`
	case "branch":
		return `(true 1)`
	}
	return `1`
}

func formOthersAlpha(c *callable, pos, a int) []string {
	name, _ := c.formalAt(pos)
	out := []string{formDefaultFor(name)}
	for _, s := range sf8 {
		if len(out) >= a {
			break
		}
		dup := false
		for _, o := range out {
			if o == s {
				dup = true
			}
		}
		if !dup {
			out = append(out, s)
		}
	}
	return out
}

// ---------------------------------------------------------------------------
// host values

type hostStruct struct {
	A int
	S string
	P *hostStruct
	b int //nolint:unused // an unexported field is the point
}

var hostIDs = []string{
	"array-2x2", "array-3-nil", "list-with-error", "map-with-error",
	"native-error", "native-nil", "native-nilptr", "native-ptr", "native-string", "native-struct", "native-uint64",
	"tagged",
}

func hostValue(env *lisp.LEnv, id string) *lisp.LVal {
	ints := func(xs ...int) []*lisp.LVal {
		out := make([]*lisp.LVal, len(xs))
		for i, x := range xs {
			out[i] = lisp.Int(x)
		}
		return out
	}
	switch id {
	case "native-struct":
		return lisp.Native(struct{}{})
	case "native-nil":
		return lisp.Native(nil)
	case "native-ptr":
		return lisp.Native(&hostStruct{A: 1, S: "s", b: 2})
	case "native-nilptr":
		return lisp.Native((*hostStruct)(nil))
	case "native-string":
		return lisp.Native("go")
	case "native-uint64":
		return lisp.Native(uint64(math.MaxUint64))
	case "native-error":
		return lisp.Native(errors.New("goerr"))
	case "array-2x2":
		return lisp.Array(lisp.QExpr(ints(2, 2)), ints(1, 2, 3, 4))
	case "array-3-nil":
		return lisp.Array(lisp.QExpr(ints(3)), nil)
	case "list-with-error":
		return lisp.QExpr([]*lisp.LVal{lisp.Errorf("boom")})
	case "map-with-error":
		m := lisp.SortedMap()
		m.MapSet("a", lisp.Errorf("boom"))
		return m
	case "tagged":
		return env.TaggedValue(lisp.Symbol("sweep-type"), lisp.Int(1))
	}
	return env.Errorf("c03-host: unknown id %q", id)
}

func init() { sort.Strings(hostIDs) }

// ---------------------------------------------------------------------------
// depth generators.  A value generator yields a prelude (definitions) and an
// expression whose value is nested d levels deep.  An eval generator is a
// whole program whose EVALUATION (or reading) is d levels deep.

type valueGen struct {
	name string
	pre  string
	expr func(d int) string
}

const (
	preQQ   = `(defun c03-qq (n acc) (if (= n 0) acc (c03-qq (- n 1) (quasiquote ((unquote acc))))))`
	preAC   = `(defun c03-ac (n acc) (if (= n 0) acc (c03-ac (- n 1) (list apply acc))))`
	preNest = `(defmacro c03-nest (n) (if (= n 0) ''() (quasiquote (list (c03-nest (unquote (- n 1)))))))`
	preTag  = `(deftype c03d (v) v)`
)

func nestText(open, close, core string, d int) string {
	var b strings.Builder
	b.Grow(d*(len(open)+len(close)) + len(core))
	for i := 0; i < d; i++ {
		b.WriteString(open)
	}
	b.WriteString(core)
	for i := 0; i < d; i++ {
		b.WriteString(close)
	}
	return b.String()
}

var valueGens = []valueGen{
	// nesting written down in source text (a quoted literal)
	{"text", "", func(d int) string { return "'" + nestText("(", ")", "", d) }},
	// nesting produced by a recursive macro at expansion time
	{"macro", preNest, func(d int) string { return fmt.Sprintf("(c03-nest %d)", d) }},
	// nesting produced by a fold inside ONE builtin call (no evaluation steps)
	{"foldl-list", "", func(d int) string { return fmt.Sprintf("(foldl list () (make-sequence 0 %d))", d) }},
	{"foldl-cons", "", func(d int) string {
		return fmt.Sprintf("(foldl (lambda (a x) (cons a ())) () (make-sequence 0 %d))", d)
	}},
	// nesting produced by quasiquote in a tail loop
	{"quasiquote", preQQ, func(d int) string { return fmt.Sprintf("(c03-qq %d ())", d) }},
	// a chain of apply calls as data: (apply (apply ... (list '(1))))
	{"apply-chain", preAC, func(d int) string { return fmt.Sprintf("(c03-ac %d (list list '(1)))", d) }},
	// nested vectors, maps and tagged values (other walkers than lists)
	{"foldl-vector", "", func(d int) string { return fmt.Sprintf("(foldl vector (vector) (make-sequence 0 %d))", d) }},
	{"foldl-map", "", func(d int) string {
		return fmt.Sprintf(`(foldl (lambda (a x) (sorted-map "k" a)) (sorted-map) (make-sequence 0 %d))`, d)
	}},
	{"foldl-tagged", preTag, func(d int) string {
		return fmt.Sprintf("(foldl (lambda (a x) (new c03d a)) 1 (make-sequence 0 %d))", d)
	}},
}

// boundaryText pads with spaces so that tok begins log10(d) bytes before the
// 128 KiB mark of the production scanner's buffer.
func boundaryText(d int, tok string) string {
	k := 0
	for x := d; x >= 10; x /= 10 {
		k++
	}
	return strings.Repeat(" ", 128*1024-k) + tok
}

// windowLen: lengths 128 KiB-3 .. 128 KiB+2 for d = 10, 10^2, ...
func windowLen(d int) int {
	k := 0
	for x := d; x >= 10; x /= 10 {
		k++
	}
	return 128*1024 - 4 + k
}

type evalGen struct {
	name string
	prog func(d int) string
}

var evalGens = []evalGen{
	{"text-quoted-list", func(d int) string { return "'" + nestText("(", ")", "", d) }},
	{"text-calls", func(d int) string { return nestText("(list ", ")", "", d) }},
	{"text-plus", func(d int) string { return nestText("(+ 1 ", ")", "0", d) }},
	{"text-brackets", func(d int) string { return nestText("[", "]", "", d) }},
	{"text-empty-heads", func(d int) string { return nestText("(", ")", "", d) }},
	{"text-quote-chain", func(d int) string { return strings.Repeat("'", d) + "x" }},
	{"text-funref-chain", func(d int) string { return strings.Repeat("#'", d) + "car" }},
	{"text-exprlambda-chain", func(d int) string { return strings.Repeat("#^", d) + "(list %)" }},
	{"text-unclosed", func(d int) string { return strings.Repeat("(", d) }},
	{"text-closers", func(d int) string { return strings.Repeat(")", d) }},
	{"text-open-string", func(d int) string { return `"` + strings.Repeat("a", d) }},
	{"text-open-rawstring", func(d int) string { return `"""` + strings.Repeat("a", d) }},
	{"text-long-symbol", func(d int) string { return strings.Repeat("a", d) }},
	{"text-long-comment", func(d int) string { return ";" + strings.Repeat("c", d) }},
	{"text-long-number", func(d int) string { return strings.Repeat("9", d) }},
	{"text-many-forms", func(d int) string { return strings.Repeat("1 ", d) }},
	// tokens straddling the production scanner's 128 KiB read buffer: the
	// token starts log10(d) bytes before the boundary
	{"text-buffer-boundary-string", func(d int) string { return boundaryText(d, "\"h\u00e9llo w\u00f6rld\" (list 1)") }},
	{"text-buffer-boundary-symbol", func(d int) string { return boundaryText(d, "(quote some-long-symbol-name)") }},
	{"text-buffer-boundary-rawstring", func(d int) string { return boundaryText(d, `"""raw "" string""" 1`) }},
	{"text-buffer-boundary-badutf8", func(d int) string { return boundaryText(d, "ab\xffcd") }},
	// tokens about as long as the production scanner's 128 KiB window (since
	// 63e1616 an over-long token is an error instead of being split)
	{"text-window-sized-symbol", func(d int) string { return strings.Repeat("a", windowLen(d)) }},
	{"text-window-sized-string", func(d int) string { return `"` + strings.Repeat("a", windowLen(d)) + `"` }},
	{"text-window-sized-comment", func(d int) string { return ";" + strings.Repeat("c", windowLen(d)) + "\n1" }},
	{"text-let-nest", func(d int) string { return nestText("(let ((x 1)) ", ")", "x", d) }},
	{"text-lambda-nest", func(d int) string { return nestText("((lambda (x) ", ") 1)", "x", d) }},
	{"text-quasiquote-nest", func(d int) string { return nestText("(quasiquote ", ")", "x", d) }},
	{"text-handler-nest", func(d int) string {
		return nestText("(handler-bind ((condition (lambda (c &rest a) (rethrow)))) ", ")", "(error 'x)", d)
	}},
	{"macro-nest", func(d int) string { return preNest + fmt.Sprintf(" (c03-nest %d)", d) }},
	{"macro-loop", func(d int) string {
		return fmt.Sprintf("(defmacro m (n) (quasiquote (m (unquote (+ n 1))))) (m %d)", d)
	}},
	{"recur-nontail", func(d int) string {
		return fmt.Sprintf("(defun f (n) (if (= n 0) 0 (+ 1 (f (- n 1))))) (f %d)", d)
	}},
	{"recur-tail", func(d int) string { return fmt.Sprintf("(defun f (n) (if (= n 0) 0 (f (- n 1)))) (f %d)", d) }},
	{"recur-mutual", func(d int) string {
		return fmt.Sprintf("(defun f (n) (if (= n 0) 0 (+ 1 (g (- n 1))))) (defun g (n) (f n)) (f %d)", d)
	}},
	{"recur-infinite", func(d int) string { return fmt.Sprintf("(defun f (n) (+ %d (f n))) (f 1)", d) }},
	{"recur-infinite-tail", func(d int) string { return fmt.Sprintf("(defun f (n) (f %d)) (f 1)", d) }},
	{"recur-labels", func(d int) string {
		return fmt.Sprintf("(labels ((f (n) (if (= n 0) 0 (+ 1 (f (- n 1)))))) (f %d))", d)
	}},
	{"apply-chain", func(d int) string { return preAC + fmt.Sprintf(" (apply apply (c03-ac %d (list list '(1))))", d) }},
	{"compose-chain", func(d int) string {
		return fmt.Sprintf("(set 'h (foldl (lambda (acc x) (compose acc identity)) identity (make-sequence 0 %d))) (h 1)", d)
	}},
	{"funcall-self", func(d int) string {
		return fmt.Sprintf("(defun f (g n) (if (= n 0) 0 (+ 1 (funcall g g (- n 1))))) (f f %d)", d)
	}},
	{"map-recursion", func(d int) string {
		return fmt.Sprintf("(defun f (n) (if (= n 0) 0 (car (map 'list (lambda (x) (f (- n 1))) '(1))))) (f %d)", d)
	}},
	{"sort-recursion", func(d int) string {
		return fmt.Sprintf("(defun f (n) (if (= n 0) true (car (stable-sort (lambda (a b) (f (- n 1))) '(1 2))))) (f %d)", d)
	}},
	{"handler-recursion", func(d int) string {
		return fmt.Sprintf("(defun f (n) (if (= n 0) (error 'x) (handler-bind ((condition (lambda (c &rest a) (rethrow)))) (f (- n 1))))) (f %d)", d)
	}},
	{"load-string-recursion", func(d int) string {
		return fmt.Sprintf(`(defun f (n) (if (= n 0) 0 (load-string (format-string "(f {})" (- n 1))))) (f %d)`, d)
	}},
	{"eval-recursion", func(d int) string {
		return fmt.Sprintf("(defun f (n) (if (= n 0) 0 (eval (quasiquote (f (unquote (- n 1))))))) (f %d)", d)
	}},
	{"macroexpand-recursion", func(d int) string {
		return preNest + fmt.Sprintf(" (macroexpand '(c03-nest %d))", d)
	}},
	{"dotimes", func(d int) string { return fmt.Sprintf("(dotimes (i %d))", d) }},
	{"string-doubling", func(d int) string {
		return fmt.Sprintf(`(foldl (lambda (a x) (concat 'string a a)) "a" (make-sequence 0 %d))`, d)
	}},
	{"list-doubling", func(d int) string {
		return fmt.Sprintf(`(foldl (lambda (a x) (concat 'list a a)) '(1) (make-sequence 0 %d))`, d)
	}},
}

// flatReaderGens names the reader generators that turn out NOT to nest: a run
// of dashes reads as d sibling symbols.  They are kept (that they do not nest
// is itself checked by running them) but not beyond 10^6 forms.
var flatReaderGens = map[string]bool{"dash-run": true, "quote-negative-mix": true}

// readerGens: every way source text nests WITHOUT passing through a bracket
// (prefix runs and their mixtures), prefix/bracket alternations, prefix runs
// inside brackets, and plain bracket nesting for comparison.
var readerGens = []evalGen{
	{"quote-run", func(d int) string { return strings.Repeat("'", d) + "a" }},
	{"quote-run-no-operand", func(d int) string { return strings.Repeat("'", d) }},
	{"quote-run-spaced", func(d int) string { return strings.Repeat("' ", d) + "a" }},
	{"quote-run-newlines", func(d int) string { return strings.Repeat("'\n", d) + "a" }},
	{"quote-run-comments", func(d int) string { return strings.Repeat("';c\n", d) + "a" }},
	{"quote-run-then-list", func(d int) string { return strings.Repeat("'", d) + "(a b)" }},
	{"quote-run-then-funref", func(d int) string { return strings.Repeat("'", d) + "#'a" }},
	{"exprlambda-run", func(d int) string { return strings.Repeat("#^", d) + "a" }},
	{"exprlambda-run-then-list", func(d int) string { return strings.Repeat("#^", d) + "(list %)" }},
	{"funref-run", func(d int) string { return strings.Repeat("#'", d) + "a" }},
	{"quote-exprlambda-mix", func(d int) string { return strings.Repeat("'#^", d) + "a" }},
	{"exprlambda-quote-mix", func(d int) string { return strings.Repeat("#^'", d) + "a" }},
	{"quote-negative-mix", func(d int) string { return strings.Repeat("'-", d) + "1" }},
	{"dash-run", func(d int) string { return strings.Repeat("-", d) + "1" }},
	{"quote-paren-alternation", func(d int) string { return nestText("'(", ")", "a", d) }},
	{"quote-brace-alternation", func(d int) string { return nestText("'[", "]", "a", d) }},
	{"exprlambda-paren-alternation", func(d int) string { return nestText("#^(", ")", "a", d) }},
	{"quote-run-inside-parens", func(d int) string { return "(" + strings.Repeat("'", d) + "a)" }},
	{"exprlambda-run-inside-braces", func(d int) string { return "[" + strings.Repeat("#^", d) + "a]" }},
	{"quote-run-inside-100-parens", func(d int) string {
		return strings.Repeat("(", 100) + strings.Repeat("'", d) + "a" + strings.Repeat(")", 100)
	}},
	{"quote-run-after-hashbang", func(d int) string { return "#!/usr/bin/env elps\n" + strings.Repeat("'", d) + "a" }},
	{"paren-nest", func(d int) string { return nestText("(", ")", "", d) }},
	{"brace-nest", func(d int) string { return nestText("[", "]", "", d) }},
	{"paren-unclosed", func(d int) string { return strings.Repeat("(", d) }},
}

// ---------------------------------------------------------------------------
// cyclic containers, produced every way the language allows in-place mutation:
// append!, assoc! and elpspath:?set!.  Each prelude defines `d` (the cyclic
// value) and `k` (a second, separately built value of the same shape).

type cyclic struct{ name, pre string }

func twice(tmpl string) string {
	return strings.ReplaceAll(tmpl, "$", "d") + " " + strings.ReplaceAll(tmpl, "$", "k")
}

var cyclicsBase = []cyclic{
	{"vector-in-itself", twice(`(set '$ (vector 1)) (append! $ $)`)},
	{"map-in-itself", twice(`(set '$ (sorted-map)) (assoc! $ "a" $)`)},
	{"map-in-itself-2-keys", twice(`(set '$ (sorted-map)) (assoc! $ "a" $) (assoc! $ "b" $)`)},
	{"vector-map-2-cycle", twice(`(set '$ (vector)) (append! $ (sorted-map "v" $))`)},
	{"map-vector-2-cycle", twice(`(set '$ (sorted-map)) (assoc! $ "v" (vector $))`)},
	{"list-holding-cyclic-vector", twice(`(set '$v (vector 1)) (append! $v $v) (set '$ (list $v 2))`)},
	{"tagged-value-cycle", `(deftype c03cy (v) v) ` + twice(`(set '$m (sorted-map)) (set '$ (new c03cy $m)) (assoc! $m "t" $)`)},
	{"elpspath-set-cycle", twice(`(set '$ (sorted-map "a" 1)) (elpspath:?set! $ "a" $)`)},
	{"closure-capturing-its-vector", twice(`(set '$ (let* ((v (vector 1)) (f (lambda () v))) (append! v f) v))`)},
	{"vector-in-itself-wide", twice(`(set '$ (vector 1)) (append! $ $ $ $ $ $ $ $ $)`)},
}

// ---------------------------------------------------------------------------
// Self-containing values x the places the EVALUATOR walks a value on its own.
// Each value is an expression (so it can be built inside a macro body as well
// as bound to the global `d`), with self-multiplicity 1, 2 and 3 -- a walk
// that unrolls a cycle visits multiplicity^depth nodes, so 1 shows nothing --
// and two-container cycles in which each container holds the other twice.

type walkValue struct{ name, expr string }

var walkValuesBase = []walkValue{
	// a vector holding itself k times
	{"vector-x1", `(let ([v (vector 1)]) (append! v v) v)`},
	{"vector-x2", `(let ([v (vector 1)]) (append! v v) (append! v v) v)`},
	{"vector-x3", `(let ([v (vector 1)]) (append! v v) (append! v v) (append! v v) v)`},
	// a vector holding a list that holds the vector k times (the vector is the value)
	{"list-in-vector-x1", `(let* ([v (vector 1)] [l (list v)]) (append! v l) v)`},
	{"list-in-vector-x2", `(let* ([v (vector 1)] [l (list v v)]) (append! v l) v)`},
	{"list-in-vector-x3", `(let* ([v (vector 1)] [l (list v v v)]) (append! v l) v)`},
	// ... and the LIST as the value
	{"list-of-vector-x1", `(let* ([v (vector 1)] [l (list v)]) (append! v l) l)`},
	{"list-of-vector-x2", `(let* ([v (vector 1)] [l (list v v)]) (append! v l) l)`},
	{"list-of-vector-x3", `(let* ([v (vector 1)] [l (list v v v)]) (append! v l) l)`},
	// a sorted-map holding itself under k keys
	{"map-x1", `(let ([m (sorted-map)]) (assoc! m "a" m) m)`},
	{"map-x2", `(let ([m (sorted-map)]) (assoc! m "a" m) (assoc! m "b" m) m)`},
	{"map-x3", `(let ([m (sorted-map)]) (assoc! m "a" m) (assoc! m "b" m) (assoc! m "c" m) m)`},
	// two containers, each holding the other twice
	{"two-vectors-2x2", `(let* ([a (vector)] [b (vector)]) (append! a b b) (append! b a a) a)`},
	{"two-maps-2x2", `(let* ([a (sorted-map)] [b (sorted-map)]) (assoc! a "x" b) (assoc! a "y" b) (assoc! b "x" a) (assoc! b "y" a) a)`},
	{"vector-map-2x2", `(let* ([a (vector)] [b (sorted-map)]) (append! a b b) (assoc! b "x" a) (assoc! b "y" a) a)`},
	{"two-list-in-vectors-2x2", `(let* ([a (vector)] [b (vector)]) (append! a (list b b)) (append! b (list a a)) a)`},
	// a vector holding itself inside a tagged value, twice
	{"tagged-in-vector-x2", `(progn (deftype c03w (v) v) (let ([v (vector 1)]) (append! v (new c03w v)) (append! v (new c03w v)) v))`},
}

type walkContext struct{ name, tmpl string }

// In a template, $V is the value's expression written out in place, and `d`
// is the global the prelude binds to the value.
var walkContexts = []walkContext{
	// --- macro expansion results (stamped by the evaluator before evaluation)
	{"defmacro-toplevel", `(defmacro m () $V) (m)`},
	{"defmacro-toplevel-global", `(defmacro m () d) (m)`},
	{"defmacro-as-argument", `(defmacro m () $V) (format-string "{}" (m))`},
	{"defmacro-in-quote", `(defmacro m () (quasiquote (quote (unquote $V)))) (m)`},
	{"defmacro-in-call", `(defmacro m () (quasiquote (list 1 (unquote $V) 2))) (m)`},
	{"defmacro-in-nested-lists", `(defmacro m () (quasiquote (list (list (quote ((unquote d))))))) (m)`},
	{"defmacro-list-built", `(defmacro m () (list 'quote $V)) (m)`},
	{"defmacro-with-argument", `(defmacro m (x) (quasiquote (list (unquote x) (unquote $V)))) (m 1)`},
	{"defmacro-spliced", `(defmacro m () (quasiquote (list (unquote-splicing (list $V d))))) (m)`},
	{"defmacro-twice", `(defmacro m () d) (list (m) (m))`},
	{"defmacro-expanding-to-macro-call", `(defmacro inner () d) (defmacro outer () '(inner)) (outer)`},
	{"defmacro-in-function-body", `(defmacro m () d) (defun f () (m)) (f) (f)`},
	{"defmacro-in-lambda", `(defmacro m () $V) ((lambda () (m)))`},
	{"defmacro-returning-form-as-argument", `(defmacro m (x) x) (m d)`},
	{"macrolet-toplevel", `(macrolet ([m () $V]) (m))`},
	{"macrolet-global", `(macrolet ([m () d]) (m))`},
	{"macrolet-nested-in-list", `(macrolet ([m () (quasiquote (list (quote (unquote $V))))]) (list (m) (m)))`},
	{"macrolet-inside-defmacro", `(defmacro outer () '(macrolet ([m () d]) (m))) (outer)`},
	// --- quasiquote / unquote / unquote-splicing
	{"quasiquote-unquote", `(quasiquote (a (unquote $V) b))`},
	{"quasiquote-unquote-only", `(quasiquote (unquote d))`},
	{"quasiquote-unquote-splicing", `(quasiquote (a (unquote-splicing d)))`},
	{"quasiquote-unquote-splicing-list", `(quasiquote (a (unquote-splicing (list $V d))))`},
	{"quasiquote-nested", `(quasiquote (quasiquote (unquote (unquote d))))`},
	{"quasiquote-in-brackets", `(quasiquote [a (unquote d)])`},
	{"quasiquote-evaluated", `(eval (quasiquote (list (quote (unquote d)))))`},
	// --- macroexpand
	{"macroexpand", `(defmacro m () d) (macroexpand '(m))`},
	{"macroexpand-1", `(defmacro m () $V) (macroexpand-1 '(m))`},
	{"macroexpand-quoted-value", `(macroexpand (quasiquote (quote (unquote d))))`},
	{"macroexpand-value", `(macroexpand d)`},
	{"macroexpand-1-value", `(macroexpand-1 d)`},
	{"macroexpand-form-holding-value", `(defmacro m (x) x) (macroexpand (quasiquote (m (unquote d))))`},
	// --- error data and handler arguments
	{"error-data", `(error 'boom d)`},
	{"error-data-many", `(error 'boom "text" d $V)`},
	{"error-condition", `(error d)`},
	{"error-ignored", `(ignore-errors (error 'boom d))`},
	{"assert-message", `(assert false "{}" d)`},
	{"handler-arguments", `(handler-bind ([condition (lambda (c &rest args) args)]) (error 'boom d))`},
	{"handler-named-condition", `(handler-bind ([boom (lambda (c &rest args) (car args))]) (error 'boom d d))`},
	{"handler-rethrow", `(handler-bind ([condition (lambda (c &rest args) (rethrow))]) (error 'boom d))`},
	{"handler-raises-again", `(handler-bind ([condition (lambda (c &rest args) (error 'again args))]) (error 'boom d))`},
	{"handler-nested", `(handler-bind ([condition (lambda (c &rest a) a)]) (handler-bind ([other (lambda (c &rest a) 1)]) (error 'boom d)))`},
	{"handler-returns-value", `(handler-bind ([condition (lambda (c &rest args) d)]) (error 'boom 1))`},
	// --- sorted-map keys and values
	{"sorted-map-value", `(sorted-map "k" d)`},
	{"sorted-map-key", `(sorted-map d 1)`},
	{"sorted-map-assoc", `(assoc (sorted-map) "k" d)`},
	{"sorted-map-assoc!", `(assoc! (sorted-map) "k" d)`},
	{"sorted-map-get", `(get (sorted-map "k" d) "k")`},
	{"sorted-map-keys", `(keys (sorted-map "k" d))`},
	{"sorted-map-as-map", `(list (key? d "a") (get d "a") (keys d) (dissoc d "a"))`},
	{"sorted-map-get-default", `(get-default (sorted-map) "k" d)`},
	// --- to-string / format-string / printing
	{"to-string", `(to-string d)`},
	{"format-string", `(format-string "{}" d)`},
	{"format-string-twice", `(format-string "{} {}" d $V)`},
	{"format-string-as-format", `(format-string d)`},
	{"debug-print", `(debug-print d)`},
	// --- the evaluator itself: binding, calling, evaluating, defining
	{"value-alone", `d`},
	{"built-in-place", `$V`},
	{"eval", `(eval d)`},
	{"eval-quoted", `(eval (list 'quote d))`},
	{"let-binding", `(let ([x d]) x)`},
	{"let*-binding", `(let* ([x d] [y x]) (list x y))`},
	{"lambda-argument", `((lambda (x) x) d)`},
	{"rest-arguments", `(funcall (lambda (&rest xs) xs) d d)`},
	{"optional-and-key-arguments", `((lambda (&optional x &key y) (list x y)) d :y d)`},
	{"apply", `(apply list d d (list d))`},
	{"defun-argument", `(defun f (x) x) (f d)`},
	{"set-global", `(set 'y d) y`},
	{"set!-local", `(let ([x 1]) (set! x d) x)`},
	{"defconst", `(defconst c03-const d) c03-const`},
	{"if-condition", `(if d d d)`},
	{"cond-branch", `(cond (d d))`},
	{"and-or-not", `(list (and d d) (or d d) (not d))`},
	{"progn", `(progn d d)`},
	{"thread-first", `(thread-first d (list 1))`},
	{"thread-last", `(thread-last d (list 1))`},
	{"trace", `(trace d)`},
	{"closure-capture", `(let ([x d]) (lambda () x))`},
	{"labels", `(labels ([f () d]) (f))`},
	{"flet", `(flet ([f (x) x]) (f d))`},
	{"dotimes-result", `(dotimes (i 2 d) d)`},
	{"deftype-new", `(deftype c03t2 (v) v) (user-data (new c03t2 d))`},
	{"map-over-list", `(map 'list identity (list d d))`},
	{"foldl", `(foldl (lambda (a x) x) () (list d))`},
	{"load-string", `(load-string "d")`},
	{"expr-lambda", `(funcall (expr (list % d)) d)`},
	{"list-and-vector", `(list d (vector d d))`},
	{"curry-function", `(funcall (curry-function list d) d)`},
	{"equal", `(equal? d $V)`},
	{"json", `(json:dump-string d)`},
	{"elpspath", `(elpspath:? d 0)`},
	{"schema-validate", `(s:validate "any" d)`},
	{"type-and-predicates", `(list (type d) (nil? d) (empty? d) (length d))`},
	{"sequence-functions", `(list (reverse 'vector d) (concat 'vector d d) (first d) (rest d) (nth d 1))`},
	{"sort", `(stable-sort (lambda (a b) false) (list d d))`},
	{"testing-assert", `(testing:assert-equal d d)`},
	{"help", `(help:help d)`},
	// --- further consumers of a whole value
	{"sort-comparing-with-equal", `(stable-sort (lambda (a b) (equal? a b)) (list d $V d))`},
	{"insert-sorted", `(insert-sorted 'list (list d) (lambda (a b) (equal? a b)) d)`},
	{"json-bytes-and-message", `(list (ignore-errors (json:dump-bytes d)) (ignore-errors (json:dump-message d)))`},
	{"elpspath-set-del-nil", `(list (ignore-errors (elpspath:?set d 0 1)) (ignore-errors (elpspath:?del d 0)) (ignore-errors (elpspath:?nil d 0 0)))`},
	{"schema-validator", `(s:validate (s:make-validator "x" "any" (s:in d)) d)`},
	{"error-message-embedding-value", `(list (ignore-errors (to-int d)) (ignore-errors (+ d 1)) (ignore-errors (string:join d ",")) (ignore-errors (aref d 99)))`},
	{"error-message-returned", `(to-int d)`},
	{"map-key-lookup", `(list (ignore-errors (get (sorted-map "a" 1) d)) (ignore-errors (key? (sorted-map "a" 1) d)) (ignore-errors (assoc (sorted-map) d 1)))`},
	{"all-any-select", `(list (all? identity (list d)) (any? identity (list d)) (select 'list identity (list d d)))`},
}
