package c03

import (
	"context"
	"fmt"
	"runtime/debug"
	"sort"
	"strings"
	"time"

	"github.com/luthersystems/elps/lisp"
	"github.com/luthersystems/elps/parser"
	"github.com/luthersystems/elps/parser/rdparser"
	"github.com/luthersystems/elps/parser/token"

	"verif/mc/el"
)

// ---------------------------------------------------------------------------
// limits: the two configurations the repository itself uses

// limitsFor returns the execution limits of a profile.  "fuzz" is
// lisp/eval_fuzz_test.go's newFuzzEnv, "sweep" is
// lisp/lisplib/panicsweep_test.go's panicSweepEnv; both get the documented
// host ceiling on time:sleep (WithMaxSleep) so that sleeping is bounded by a
// limit rather than skipped.
func limitsFor(profile string) []lisp.Config {
	switch profile {
	case "fuzz":
		return []lisp.Config{
			lisp.WithMaxSteps(2_000_000),
			lisp.WithMaxTailIterations(100_000),
			lisp.WithMaximumPhysicalStackHeight(2_000),
			lisp.WithMaxEvalNesting(20_000),
			lisp.WithMaxAlloc(1_000_000),
			lisp.WithMaxMacroExpansionDepth(100),
			lisp.WithMaxSleep(time.Millisecond),
		}
	case "alloc4", "alloc8", "alloc16":
		// the fuzz limits with a tight per-operation allocation limit: small
		// operations are REFUSED, which is what exercises a builtin's error path
		n := 4
		fmt.Sscan(strings.TrimPrefix(profile, "alloc"), &n)
		return append(limitsFor("fuzz"), lisp.WithMaxAlloc(n))
	case "fuzz-dbg":
		// the fuzz limits with a (dormant) debugger attached: macro expansion
		// then also stamps per-node expansion metadata, and tail calls are
		// not elided
		return append(limitsFor("fuzz"), lisp.WithDebugger(el.Dormant{}))
	case "sweep-tight":
		// the sweep limits with the per-operation allocation limit at 10^3 -- the
		// only limit a loop inside a builtin can consult -- and the step budget at
		// 2*10^4 (the numeric edge tuples): a limit that is honoured refuses a
		// huge count early, so the enumeration stays cheap
		return append(limitsFor("sweep"), lisp.WithMaxAlloc(1000), lisp.WithMaxSteps(20_000))
	case "sweep":
		return []lisp.Config{
			lisp.WithMaxSteps(200_000),
			lisp.WithMaxTailIterations(10_000),
			lisp.WithMaximumPhysicalStackHeight(500),
			lisp.WithMaxAlloc(100_000),
			lisp.WithMaxSleep(time.Millisecond),
		}
	}
	return nil
}

// memLibrary is the source library handed to every runtime: load-file gets a
// safe target ("x" holds a one-form program) and can reach nothing else.
type memLibrary struct{}

func (memLibrary) LoadSource(ctx lisp.SourceContext, loc string) (string, string, []byte, error) {
	if loc == "x" {
		return "x", "mem:x", []byte("(+ 1 2)"), nil
	}
	return "", "", nil, fmt.Errorf("no such source: %q", loc)
}

func newEnv(profile string) *el.Env {
	// the fuzz profile (all text, depth and sink spaces) loads through the
	// production reader parser.NewReader(), exactly as newFuzzEnv does; the
	// registry sweeps use the same lexer and parser over a string scanner
	env := el.MustEnv(el.Opts{Stdlib: true, ProdReader: strings.HasPrefix(profile, "fuzz"), Configs: limitsFor(profile), Builtins: []lisp.LBuiltinDef{
		el.Fn("c03-host", []string{"id"}, func(env *lisp.LEnv, args *lisp.LVal) *lisp.LVal {
			id := args.Cells[0]
			if id.Type != lisp.LString {
				return env.Errorf("c03-host: id must be a string")
			}
			return hostValue(env, id.Str)
		}),
	}})
	env.Runtime.Library = memLibrary{}
	return env
}

// ---------------------------------------------------------------------------
// classification helpers

const elpsMod = "github.com/luthersystems/elps/"

// frames extracts the function names of a Go stack dump, innermost first,
// starting below the last panic( / runtime frame.
func frames(stack string) []string {
	lines := strings.Split(stack, "\n")
	var fns []string
	for _, ln := range lines {
		if ln == "" || ln[0] == '\t' || strings.HasPrefix(ln, "goroutine ") {
			continue
		}
		if i := strings.LastIndex(ln, "("); i > 0 {
			ln = ln[:i]
		}
		fns = append(fns, ln)
	}
	// drop everything up to and including the last panic frame
	start := 0
	for i, f := range fns {
		if f == "panic" || strings.HasPrefix(f, "runtime.gopanic") {
			start = i + 1
		}
	}
	var out []string
	for _, f := range fns[start:] {
		if strings.HasPrefix(f, "runtime.") || strings.HasPrefix(f, "runtime/") {
			continue
		}
		out = append(out, strings.TrimPrefix(f, elpsMod))
	}
	return out
}

// site names the code location of a panic: the innermost non-runtime frame
// and its caller.  It is stable across line-number changes.
func site(stack string) string {
	fs := frames(stack)
	switch len(fs) {
	case 0:
		return "unknown"
	case 1:
		return fs[0]
	}
	return fs[0] + "<" + fs[1]
}

// kindOf is the "result type" of the value closure: the lisp type refined by
// what distinguishes values a builtin treats differently.
func kindOf(v *lisp.LVal) string {
	switch v.Type {
	case lisp.LNative:
		return fmt.Sprintf("native:%T", v.Native)
	case lisp.LTaggedVal:
		return "tagged:" + v.Str
	case lisp.LFun:
		impl := "lambda"
		if v.Builtin() != nil {
			impl = "builtin"
		}
		return "fun:" + v.FunType.String() + ":" + impl
	case lisp.LSExpr:
		k := "list"
		if !v.IsQuoted() {
			k = "list:unquoted"
		}
		if len(v.Cells) == 0 {
			k += ":empty"
		}
		return k
	case lisp.LSymbol:
		if !v.IsQuoted() {
			return "symbol:unquoted"
		}
		return "symbol"
	case lisp.LArray:
		dims := v.ArrayDims()
		if dims != nil && len(dims.Cells) != 1 {
			return fmt.Sprintf("array:%dd", len(dims.Cells))
		}
		if v.Len() == 0 {
			return "array:empty"
		}
		return "array"
	case lisp.LString:
		if v.Str == "" {
			return "string:empty"
		}
		return "string"
	case lisp.LBytes:
		if len(v.Bytes()) == 0 {
			return "bytes:empty"
		}
		return "bytes"
	case lisp.LSortMap:
		if v.Len() == 0 {
			return "sorted-map:empty"
		}
		return "sorted-map"
	case lisp.LFloat:
		f := v.Float
		switch {
		case f != f:
			return "float:nan"
		case f > 1.7e308 || f < -1.7e308:
			return "float:inf"
		}
		return "float"
	}
	return v.Type.String()
}

const renderMaxDepth = 2000

// tooDeepToRender reports whether v nests deeper than renderMaxDepth.  It is
// iterative and cycle-safe: it must not itself be a recursive walk.
func tooDeepToRender(v *lisp.LVal) bool {
	type item struct {
		v *lisp.LVal
		d int
	}
	if v == nil || (len(v.Cells) == 0 && v.Type != lisp.LSortMap) {
		return false
	}
	stack := []item{{v, 1}}
	seen := map[*lisp.LVal]struct{}{}
	visited := 0
	for len(stack) > 0 {
		it := stack[len(stack)-1]
		stack = stack[:len(stack)-1]
		if it.v == nil {
			continue
		}
		if it.d > renderMaxDepth {
			return true
		}
		visited++
		if visited > 4_000_000 {
			return true // too large to render in reasonable time either way
		}
		kids := it.v.Cells
		if it.v.Type == lisp.LSortMap {
			if es := it.v.MapEntries(); es != nil && es.Type == lisp.LSExpr {
				kids = es.Cells
			}
		}
		if len(kids) == 0 {
			continue
		}
		if _, ok := seen[it.v]; ok {
			continue
		}
		seen[it.v] = struct{}{}
		for _, c := range kids {
			if c != nil && (len(c.Cells) > 0 || c.Type == lisp.LSortMap) {
				stack = append(stack, item{c, it.d + 1})
			}
		}
	}
	return false
}

var binderErrors = []string{
	"invalid number of arguments",
	"function called with an odd number of keyword arguments",
	"argument is not a keyword",
	"unrecognized keyword argument",
}

func isBinderError(msg string) bool {
	for _, p := range binderErrors {
		if strings.HasPrefix(msg, p) {
			return true
		}
	}
	return false
}

// ---------------------------------------------------------------------------
// execution

// result is what one case execution reports.
type result struct {
	Class   string // violation class, "" when the oracle holds
	Got     string
	Flaky   string // non-empty: a disagreement that did not reproduce 5/5
	Outcome string
	Nontriv bool
	RepKey  string // "<fn>\x00<kind>" when the call produced a value
	Value   bool   // the load produced a value (not an error)
	Evals   int64
	Trans   int64
	Skipped bool   // prelude refused: the call was not made
	Obs     string // count-only structural observation (reader verdicts), no oracle attached
}

type envSlot struct {
	env   *el.Env
	uses  int
	pre   string
	preOK bool
	preC  string
}

type executor struct {
	slots map[string]*envSlot
	ctx   context.Context
	progs map[string]lisp.Program // pre-parsed reader programs of the history spaces
}

func newExecutor() *executor {
	return &executor{slots: map[string]*envSlot{}, ctx: context.Background()}
}

type verdict struct {
	class, got string
	value      bool
	cond       string
	kind       string
	binder     bool
	rlen       int // bytes of the rendered result / error text
}

// judge applies the per-execution oracle to a load result: it returned, the
// result is not a recovered host panic, and it can be rendered.
func judge(res *lisp.LVal) (v verdict) {
	if res == nil {
		return verdict{class: "nil-result", got: "Load returned a nil *LVal"}
	}
	if lisp.IsInternalPanic(res) {
		st := ""
		if cs := res.CallStack(); cs != nil {
			st = string(cs.GoStack)
		}
		return verdict{class: "internal-panic:" + site(st), got: "internal-panic: " + el.ErrText(res), cond: res.Str}
	}
	if res.Type == lisp.LError {
		v.cond = res.Str
		v.binder = isBinderError(el.ErrText(res))
	} else {
		v.value = true
		v.kind = kindOf(res)
	}
	// rendering is what every host does with a result; a value nested deeper
	// than renderMaxDepth is left to the explicit render sinks
	if !tooDeepToRender(res) {
		v.rlen = len(res.String())
		if res.Type == lisp.LError {
			if n := len(el.ErrText(res)); n > v.rlen {
				v.rlen = n
			}
		}
	} else {
		v.kind += ":deep"
	}
	return v
}

// guarded runs f and converts an escaping Go panic into a class.
func guarded(phase string, f func()) (class, got string) {
	defer func() {
		if r := recover(); r != nil {
			class = "go-panic-escaped:" + phase + ":" + site(string(debug.Stack()))
			got = fmt.Sprintf("Go panic escaped %s: %v", phase, r)
		}
	}()
	f()
	return "", ""
}

func (x *executor) slot(k *kase, reuse int) *envSlot {
	s := x.slots[k.Limits]
	if s != nil && reuse > 0 && s.uses < reuse && s.pre == k.Pre && s.env != nil {
		return s
	}
	s = &envSlot{env: newEnv(k.Limits), pre: k.Pre, preOK: true}
	x.slots[k.Limits] = s
	return s
}

func (x *executor) drop(limits string) { delete(x.slots, limits) }

// loadOnce evaluates Pre (once per runtime) and Src in the slot's runtime.
func (x *executor) loadOnce(s *envSlot, k *kase, text string) (v verdict, skipped bool) {
	env := s.env
	if s.uses == 0 && k.Pre != "" {
		var pv verdict
		c, g := guarded("prelude", func() {
			env.Err.Reset()
			pv = judge(env.LoadStringContext(x.ctx, "prelude", k.Pre))
		})
		if c != "" {
			return verdict{class: c, got: g}, false
		}
		if pv.class != "" {
			return pv, false
		}
		if !pv.value {
			s.preOK, s.preC = false, pv.cond
		}
	}
	s.uses++
	if !s.preOK {
		return verdict{cond: s.preC}, true
	}
	c, g := guarded("load", func() {
		env.Err.Reset()
		v = judge(env.LoadStringContext(x.ctx, "case", text))
	})
	if c != "" {
		return verdict{class: c, got: g}, false
	}
	if k.MaxOut > 0 && v.class == "" {
		// output-size bound for the small self-containing inputs: a walk that
		// enumerates paths instead of nodes shows up as exponential output
		// long before it shows up as a wedge
		if n := env.Err.Len(); n > v.rlen {
			v.rlen = n
		}
		if v.rlen > k.MaxOut {
			v.class = "blowup:" + caseTarget(k)
			v.got = fmt.Sprintf("the case produced %d bytes of output (rendered result / error text / debug output), bound %d", v.rlen, k.MaxOut)
		}
	}
	return v, false
}

func hygienic(env *el.Env) bool {
	if env.Runtime.Package == nil || env.Runtime.Package.Name != lisp.DefaultUserPackage {
		return false
	}
	if env.Runtime.Stack != nil && len(env.Runtime.Stack.Frames) != 0 {
		return false
	}
	return env.Err.Len() < 1<<20
}

// caseTarget names what a case exercises: the callable under test, or the
// space and the context/generator part of its stratum.
func caseTarget(k *kase) string {
	if k.Fn != "" {
		return k.Fn
	}
	t := k.Space
	if k.Stratum != "" {
		root := k.Stratum
		if i := strings.IndexByte(root, '/'); i > 0 {
			root = root[:i]
		}
		t += ":" + root
	}
	return t
}

// runLoad executes a load case; a disagreement seen in a shared runtime is
// re-run 5x in fresh runtimes and only reported when it reproduces each time.
func (x *executor) runLoad(k *kase, text string, reuse int) (r result) {
	s := x.slot(k, reuse)
	shared := s.uses > 0 || reuse > 0
	v, skipped := x.loadOnce(s, k, text)
	if skipped {
		r.Skipped = true
		r.Outcome = k.Space + ":prelude-refused:" + v.cond
		return r
	}
	r.Evals, r.Trans = 1, 1
	if v.class != "" || !hygienic(s.env) {
		x.drop(k.Limits)
	}
	if v.class != "" {
		n := 1
		if shared {
			n = 0
			for i := 0; i < 5; i++ {
				fs := &envSlot{env: newEnv(k.Limits), pre: k.Pre, preOK: true}
				fv, _ := x.loadOnce(fs, k, text)
				r.Evals++
				if fv.class == v.class {
					n++
				}
			}
			if n < 5 {
				r.Flaky = fmt.Sprintf("%s seen in a shared runtime, reproduced %d/5 in fresh runtimes", v.class, n)
				r.Outcome = k.Space + ":flaky"
				return r
			}
		}
		r.Class, r.Got = v.class, v.got
		r.Outcome = k.Space + ":VIOLATION"
		return r
	}
	root := k.Stratum
	if i := strings.IndexByte(root, '/'); i > 0 {
		root = root[:i]
	}
	if v.value {
		r.Value = true
		r.Outcome = k.Space + ":" + root + ":value:" + v.kind
		r.Nontriv = true
		if k.Fn != "" {
			r.RepKey = k.Fn + "\x00" + v.kind
		}
	} else {
		r.Outcome = k.Space + ":" + root + ":error:" + v.cond
		r.Nontriv = !v.binder
		if v.binder {
			r.Outcome += ":binder"
		}
	}
	return r
}

type readOutcome struct {
	accepted bool
	class    string
	got      string
}

// runReaders reads text with the strict, the fault-tolerant and the
// formatting reader (and, when prod is set, the production buffered reader),
// with no limits configured anywhere.
func runReaders(text string, prod bool) (strictOK bool, sig string, evals int64, class, got string) {
	var accS, accF, accP bool
	var nft, nftErr int
	steps := []struct {
		name string
		f    func()
	}{
		{"read-strict", func() {
			_, err := rdparser.New(token.NewScannerString("c03", text)).ParseProgram()
			accS = err == nil
		}},
		{"read-fault-tolerant", func() {
			pr := rdparser.New(token.NewScannerString("c03", text)).ParseProgramFaultTolerant()
			nft, nftErr = len(pr.Exprs), len(pr.Errors)
		}},
		{"read-formatting", func() {
			_, err := rdparser.NewFormatting(token.NewScannerString("c03", text)).ParseProgram()
			accF = err == nil
		}},
	}
	if prod {
		steps = append(steps, struct {
			name string
			f    func()
		}{"read-production", func() {
			_, err := parser.NewReader().Read("c03", strings.NewReader(text))
			accP = err == nil
		}})
	}
	for _, st := range steps {
		evals++
		if c, g := guarded(st.name, st.f); c != "" {
			return accS, "", evals, c, g
		}
	}
	_ = nft
	sig = fmt.Sprintf("strict=%v fmt=%v ft-errors=%v", accS, accF, nftErr > 0)
	if prod {
		sig += fmt.Sprintf(" prod=%v", accP)
	}
	return accS, sig, evals, "", ""
}

// run executes one case.
func (x *executor) run(k *kase, reuse int) (r result) {
	text := k.text()
	switch k.Mode {
	case "mutprobe", "history":
		return x.runHistory(k, reuse)
	case "read4":
		// reader-only: the four readers, no limits configured, nothing evaluated
		ok, sig, ev, c, g := runReaders(text, true)
		r.Evals, r.Trans = ev, ev
		r.Class, r.Got = c, g
		r.Outcome = k.Space + ":" + sig
		r.Nontriv = ok
		r.Obs = sig
		return r
	case "read":
		ok, sig, ev, c, g := runReaders(text, false)
		r.Evals, r.Trans = ev, ev
		r.Class, r.Got = c, g
		r.Outcome = k.Space + ":" + sig
		r.Nontriv = ok
		return r
	case "readload", "readload-accepted":
		ok, sig, ev, c, g := runReaders(text, k.Mode == "readload")
		r.Evals, r.Trans = ev, ev
		if c != "" {
			r.Class, r.Got = c, g
			r.Outcome = k.Space + ":VIOLATION"
			return r
		}
		if k.Mode == "readload-accepted" && !ok {
			r.Outcome = k.Space + ":" + sig
			return r
		}
		lr := x.runLoad(k, text, reuse)
		lr.Evals += r.Evals
		lr.Trans += r.Trans
		lr.Nontriv = ok
		if lr.Class == "" && lr.Flaky == "" {
			lr.Outcome = lr.Outcome + " " + sig
		}
		return lr
	case "load":
		return x.runLoad(k, text, reuse)
	}
	r.Class, r.Got = "harness-error", "unknown mode "+k.Mode
	return r
}

// ---------------------------------------------------------------------------
// worker death classification (parent side)

// fatalClass names why a worker died from its stderr: the Go runtime's fatal
// error and the function that dominates the dying goroutine's stack.
func fatalClass(stderr string, wedged bool) (reason, where string) {
	reason = "killed"
	if wedged {
		reason = "wedge"
	}
	for _, ln := range strings.Split(stderr, "\n") {
		if wedged {
			break // the SIGQUIT dump of a wedged worker is not a fatal error of its own
		}
		if strings.HasPrefix(ln, "fatal error: ") {
			reason = strings.ReplaceAll(strings.TrimSpace(strings.TrimPrefix(ln, "fatal error: ")), " ", "-")
			break
		}
		if strings.HasPrefix(ln, "panic: ") {
			reason = "unrecovered-panic"
			break
		}
	}
	if i := strings.Index(reason, ":"); i > 0 {
		reason = reason[:i]
	}
	if wedged {
		// only the goroutine dump the worker wrote on request
		if i := strings.LastIndex(stderr, dumpBegin); i >= 0 {
			stderr = stderr[i:]
		} else {
			stderr = ""
		}
	}
	count := map[string]int{}
	for _, ln := range strings.Split(stderr, "\n") {
		if !strings.HasPrefix(ln, elpsMod) {
			continue
		}
		if i := strings.LastIndex(ln, "("); i > 0 {
			ln = ln[:i]
		}
		count[strings.TrimPrefix(ln, elpsMod)]++
	}
	type kv struct {
		k string
		n int
	}
	var l []kv
	for k, n := range count {
		l = append(l, kv{k, n})
	}
	sort.Slice(l, func(i, j int) bool {
		if l[i].n != l[j].n {
			return l[i].n > l[j].n
		}
		return l[i].k < l[j].k
	})
	// a recursive walk is a cycle of mutually recursive functions; which one
	// is the most frequent depends on where the dump is cut, so name the walk
	// by the alphabetically first function that is about as frequent as the top
	if len(l) > 0 {
		where = l[0].k
		for _, e := range l {
			if e.n*2 >= l[0].n && e.k < where {
				where = e.k
			}
		}
	}
	return reason, where
}
