// Package c03: no source text or data value can crash, wedge or panic the
// embedding host.
//
// Every execution happens in a WORKER SUBPROCESS (this binary re-executed with
// MC_C03_WORKER=1, an address-space rlimit and a per-batch watchdog held by the
// parent): a fatal stack overflow or an out-of-memory abort cannot be recovered
// in-process, so "the process survived" is observed from outside.  A dead or
// wedged worker's batch is bisected to the single case, which is re-run 5x in
// fresh workers before it is reported.
//
// Exhaustively enumerated spaces (DESIGN §C03); every case is an ordinary
// SOURCE TEXT, so a counter-example can be pasted into a REPL:
//
//	bytes2        every byte string of length <= 2: loaded under limits + read by the strict,
//	              fault-tolerant, formatting and production readers
//	bytes3        every byte string of length 3, read by the three readers, no limits
//	              (quick: every 3-byte string over one representative byte per lexer class)
//	tokens-*      every sequence of <= L tokens of the 16-token alphabet, space-joined and glued:
//	              read, and loaded under limits when the strict reader accepts it
//	gen-eval      every depth generator program x depth (nesting by source text, recursive macro,
//	              folds, quasiquote, apply/compose chains, recursion through builtins ...)
//	L0            every registered callable x every arity 0..max+1 x argument tuples over V0
//	RAW           every special operator / macro x raw FORM tuples over F0
//	NUM           every callable x every arity x every set of <= 3 positions x every assignment
//	              of the numeric edge alphabet N (int/float representation boundaries) to them
//	V1, V2        the value closure: one representative per (producing callable, result kind) of
//	              the previous level, in every position of every callable
//	sink-cyclic   every self-containing container x every callable x every position
//	sink-deep     every generated deep value x every callable x every position
//
// Oracle per execution: it returns; the result is not a recovered host panic
// (lisp.IsInternalPanic); no Go panic escapes the reader, the loader or the
// rendering of the result; the worker stays alive and under the watchdog.
package c03

import (
	"fmt"
	"os"
	"sort"
	"strings"

	"verif/mc/core"
)

func init() {
	core.Register(&core.Driver{Property: "C03", Run: run, Replay: replay})
}

func run(r *core.Run) {
	thorough := r.Thorough()
	pl := newPool(r)
	scratch, err := os.MkdirTemp("", "c03-")
	if err != nil {
		r.Violate("c03", "harness-error", nil, "scratch dir", err.Error(), "")
		return
	}
	defer os.RemoveAll(scratch)
	pl.scratch = scratch

	cs := registry()
	byKind := map[string]int{}
	pkgs := map[string]bool{}
	for _, c := range cs {
		byKind[c.Kind]++
		pkgs[c.Q[:strings.IndexByte(c.Q, ':')]] = true
	}
	r.Bound("registered_callables", len(cs))
	r.Bound("registered_callables_by_kind", byKind)
	r.Bound("registry_packages", len(pkgs))
	r.Bound("V0_size", len(v0()))
	r.Bound("S8_size", len(s8))
	r.Bound("F0_forms", len(f0))
	r.Bound("token_alphabet", tokenAlphabet)
	r.Bound("depths", depthsFor(thorough))
	r.Bound("value_generators", len(valueGens))
	r.Bound("eval_generators", len(evalGens))
	r.Bound("cyclic_constructions", len(cyclics))
	r.Bound("limits_fuzz", "MaxSteps 2e6, MaxTailIterations 1e5, physical height 2000, eval nesting 20000, MaxAlloc 1e6, macro depth 100, MaxSleep 1ms (lisp/eval_fuzz_test.go newFuzzEnv)")
	r.Bound("limits_sweep", "MaxSteps 2e5, MaxTailIterations 1e4, physical height 500, MaxAlloc 1e5, MaxSleep 1ms (lisplib/panicsweep_test.go panicSweepEnv)")
	r.Bound("worker_address_space_bytes", int64(workerAddressSpace))
	r.Bound("watchdog", fmt.Sprintf("%.0f CPU-seconds per batch (%s wall-clock backstop)", watchdogCPU, watchdogWall))

	only := map[string]bool{} // development aid: MC_C03_ONLY=space,space restricts the run (reported as a cap)
	if o := os.Getenv("MC_C03_ONLY"); o != "" {
		for _, n := range strings.Split(o, ",") {
			only[n] = true
		}
		r.Cap("MC_C03_ONLY=" + o + ": only the named spaces were run")
	}
	run1 := func(name string, aux auxData, auxName string) *space {
		if len(only) > 0 && !only[name] {
			return nil
		}
		path := ""
		if auxName != "" {
			p, err := writeAux(scratch, auxName, aux)
			if err != nil {
				r.Violate("c03", "harness-error", nil, "aux file", err.Error(), "")
				return nil
			}
			path = p
		}
		sp, err := buildSpace(name, thorough, aux)
		if err != nil {
			r.Violate("c03", "harness-error", nil, "build space "+name, err.Error(), "")
			return nil
		}
		r.Bound("space_"+name, sp.Size)
		if r.Expired() {
			r.Cap("soft deadline reached before space " + name)
			pl.mu.Lock()
			pl.reps, pl.okIdx = map[string]int64{}, map[int64]bool{}
			pl.mu.Unlock()
			return sp
		}
		pl.runSpace(sp, path)
		return sp
	}

	// (a) bytes
	run1("bytes2", auxData{}, "")
	if thorough {
		run1("bytes3", auxData{}, "")
	} else {
		run1("bytes3-classes", auxData{}, "")
	}
	// (b) token sequences
	run1("tokens-spaced", auxData{}, "")
	run1("tokens-glued", auxData{}, "")
	// (c1) depth generator programs
	run1("gen-eval", auxData{}, "")
	// (c1') reader nesting that does not pass through a bracket: read in
	// reader-only workers with a reduced stack ceiling, then loaded under limits
	r.Bound("reader_depths", readerDepthsFor(thorough))
	r.Bound("reader_generators", len(readerGens))
	r.Bound("reader_only_worker_stack_ceiling_bytes", readerStackCeiling)
	// (c1'') self-containing values through every place the evaluator walks a
	// value on its own (macro expansion stamping, quasiquote, macroexpand,
	// error data, handler arguments, map keys/values, printing, binding ...)
	r.Bound("evalwalk_values", len(walkValues))
	r.Bound("evalwalk_contexts", len(walkContexts))
	run1("evalwalk", auxData{}, "")
	// (e) two-step histories: mutators found by effect, refused or not, then every reader
	r.Bound("history_profiles", histProfilesFor(thorough))
	r.Bound("history_containers", len(histContainers()))
	r.Bound("history_readers", len(histReaders))
	r.Bound("history_survival_modes", len(histModes))
	if hd := run1("hist-discover", auxData{}, ""); hd != nil {
		keys, _ := repsOf(pl, hd)
		muts := mutatorsFromKeys(keys)
		var names []string
		for _, m := range muts {
			names = append(names, fmt.Sprintf("%s@%d", m.Fn, m.Pos))
		}
		r.Bound("mutators_found_by_effect", names)
		if len(muts) > 0 {
			run1("hist2", auxData{Muts: muts}, "muts")
		}
	}
	run1("reader-depth", auxData{}, "")
	run1("reader-depth-load", auxData{}, "")
	// (d) level 0: every callable x every V0 tuple
	l0 := run1("L0", auxData{}, "")
	v1keyList, v1 := repsOf(pl, l0)
	v1keys := map[string]bool{}
	for _, k := range v1keyList {
		v1keys[k] = true
	}
	r.Bound("V1_size", len(v1))
	run1("RAW", auxData{}, "")
	// (d') numeric edge tuples: up to three positions at once over N
	r.Bound("N_numeric_edge_alphabet", numAlphabet(thorough))
	r.Bound("N_positions_at_once", "arity<=3: 3, arity 4-5: 2, above: 1 (thorough: arity<=4: 3, arity 5-6: 2, above: 1)")
	r.Bound("limits_num", "the sweep limits with MaxAlloc 1000 and MaxSteps 20000 (NUM); the sweep limits unchanged (NUM-wide: thorough only, over the quick tier's alphabet and position sets)")
	r.Bound("watchdog_num", fmt.Sprintf("%d CPU-seconds per batch of 128 calls", numWatchCPU))
	run1("NUM", auxData{}, "")
	if thorough {
		run1("NUM-wide", auxData{}, "")
	}
	// (d'') callbacks that write into the container they were handed with: every function x arity x ordered pair of
	// positions (container, callback)
	ck, _ := cbCallbacks()
	r.Bound("CB_containers", len(cbContainers))
	r.Bound("CB_callbacks", ck)
	run1("CB", auxData{}, "")
	// registry states a fresh runtime is never in (exported-but-unbound names, the language package exporting one,
	// language names rebound to non-functions, import chains), then every callable
	r.Bound("PKG_registry_states", len(pkgStates))
	r.Bound("PKG_name_alphabet", pkgNameAlphabet)
	run1("PKG", auxData{}, "")
	// (d) level 1 and level 2 of the value closure
	var v2, v2kinds []string
	if len(v1) > 0 {
		sp := run1("V1", auxData{Vals: v1, Kinds: kindsOf(v1keyList)}, "v1")
		k2, e2 := repsOf(pl, sp)
		for i, k := range k2 {
			if !v1keys[k] {
				v2 = append(v2, e2[i])
				v2kinds = append(v2kinds, kindsOf([]string{k})[0])
			}
		}
	}
	r.Bound("V2_size", len(v2))
	if len(v2) > 0 {
		run1("V2", auxData{Vals: v2, Kinds: v2kinds}, "v2")
	}
	// (c2) cyclic containers and deep values into every callable
	run1("sink-cyclic", auxData{}, "")
	gv := run1("gen-value", auxData{}, "")
	var picks []genPick
	if gv != nil {
		ds := depthsFor(thorough)
		var idx []int64
		pl.mu.Lock()
		for i := range pl.okIdx {
			idx = append(idx, i)
		}
		pl.mu.Unlock()
		sort.Slice(idx, func(a, b int) bool { return idx[a] < idx[b] })
		for _, i := range idx {
			if i < 0 || i >= gv.Size {
				continue
			}
			d := ds[int(i)%len(ds)]
			if d == 100_000 {
				continue // see Assume: rendering is quadratic in depth, 10^5 would make the verdict load-dependent
			}
			picks = append(picks, genPick{Gen: int(i) / len(ds), Depth: d})
		}
	}
	var pickNames []string
	for _, p := range picks {
		pickNames = append(pickNames, fmt.Sprintf("%s/%d", valueGens[p.Gen].name, p.Depth))
	}
	r.Bound("deep_values_fed_to_sinks", pickNames)
	if len(picks) > 0 {
		run1("sink-deep", auxData{Picks: picks}, "picks")
		if thorough {
			run1("sink-deep-heavy", auxData{Picks: picks}, "picks")
		}
	}

	// ---- reporting
	pl.mu.Lock()
	stats := map[string]any{}
	for k, v := range pl.stats {
		stats[k] = *v
	}
	repeats := map[string]int64{}
	for k, v := range pl.repeats {
		repeats[k] = v
	}
	harness := append([]string(nil), pl.harness...)
	pl.mu.Unlock()
	r.Extra("spaces", stats)
	// count-only structural observation: what each reader said about each
	// depth generator.  Nothing is asserted about it (the statement does not
	// name the reader's nesting limit); a change shows up here.
	pl.mu.Lock()
	obs := map[string]string{}
	var accS, rejS int
	for k, v := range pl.obs {
		obs[k] = v
		if strings.HasPrefix(k, "reader-depth ") {
			if strings.Contains(v, "strict=true") {
				accS++
			} else {
				rejS++
			}
		}
	}
	pl.mu.Unlock()
	if len(obs) > 0 {
		r.Extra("reader_depth_verdicts", obs)
		r.Extra("reader_depth_strict_accepted", accS)
		r.Extra("reader_depth_strict_rejected", rejS)
	}
	if len(repeats) > 0 {
		r.Extra("further_worker_deaths_of_confirmed_classes", repeats)
	}
	for _, h := range harness {
		r.Violate("c03", "harness-error", nil, "worker protocol", h, "")
	}
	r.AddTraces(0)
	r.Rule("non-trivial = a text at least one reader accepts (text spaces), or a call that got past argument binding, i.e. produced a value or an error not raised by the binder (call spaces). " +
		"Distinct by exact text for the text spaces and by (callable, stratum, outcome class) for the call sweeps, whose tuples are distinct by construction (disjoint strata); the per-space non-trivial execution counts are in coverage.spaces. " +
		"The NUM family applies every registered callable to every tuple in which up to three argument positions at once hold a member of the numeric edge alphabet N " +
		"(the int and float representation boundaries: 0, +-1, -0.0, MaxInt64, MinInt64, 2^53 and its neighbours as int and as float, 2^63 as float, 0.5, the smallest positive float, 1e308, NaN, +-Inf), " +
		"the other positions at their formal-aware default, under a per-operation allocation limit of 1000 and a step budget of 20000; non-trivial there = the call got past argument binding")
	r.Assume("limits are configured as the repository's own harnesses configure them (fuzz profile for text and depth spaces, sweep profile for the registry sweeps) plus WithMaxSleep(1ms); no wall-clock context deadline is set, so every verdict depends on counts only")
	r.Assume("time:sleep is NOT skipped: the host ceiling WithMaxSleep(1ms) bounds it; load-file/load-string/load-bytes are NOT skipped: the runtime's source library is an in-memory one that serves a one-form program under the name \"x\" and nothing else; testing:* operators are not skipped (they only register tests)")
	r.Assume("a call's arguments are source expressions evaluated by the real evaluator; host-only values (natives, multi-dimensional arrays, containers holding error values) come from the host builtin (c03-host id); a bare error VALUE cannot be passed to a function (the evaluator raises it), so errors only occur inside containers")
	r.Assume("registry sweeps share one runtime for up to 64 consecutive cases (fresh one when the package, the stack or the prelude changed); every disagreement is re-run 5x in fresh runtimes / fresh workers and reported only if it reproduces each time")
	r.Assume("unspecified: WHICH ordinary error or value a call answers; memory growth that stays under the worker's address-space limit; results nested deeper than 2000 are not rendered by the harness itself (the explicit render sinks format-string/debug-print/error cover rendering); deep values of depth 10^5 are not fed to sinks because rendering is quadratic in depth (about 20 s there), which would make the watchdog verdict load-dependent")
}

// repsOf turns the (callable, result kind) -> lowest index map of the space
// just run into a sorted list of representative source expressions.
func repsOf(pl *pool, sp *space) (keys []string, exprs []string) {
	if sp == nil {
		return nil, nil
	}
	pl.mu.Lock()
	type kv struct {
		k string
		i int64
	}
	var l []kv
	for k, i := range pl.reps {
		l = append(l, kv{k, i})
	}
	pl.mu.Unlock()
	sort.Slice(l, func(a, b int) bool { return l[a].k < l[b].k })
	for _, e := range l {
		keys = append(keys, e.k)
		exprs = append(exprs, sp.Case(e.i).Src)
	}
	return keys, exprs
}

// kindsOf extracts the result kind from (callable \x00 kind) keys.
func kindsOf(keys []string) []string {
	out := make([]string, len(keys))
	for i, k := range keys {
		if j := strings.IndexByte(k, 0); j >= 0 {
			out[i] = k[j+1:]
		}
	}
	return out
}

func replay(v core.Violation) (bool, string) {
	k, err := core.CaseOf[kase](v)
	if err != nil {
		return false, err.Error()
	}
	var b strings.Builder
	fmt.Fprintf(&b, "space=%s idx=%d mode=%s limits=%s fn=%s\n", k.Space, k.Idx, k.Mode, k.Limits, k.Fn)
	if k.Pre != "" {
		fmt.Fprintf(&b, "prelude: %s\n", clip(k.Pre, 400))
	}
	fmt.Fprintf(&b, "source : %s\n", clip(fmt.Sprintf("%q", k.text()), 400))
	rp, f := runCaseIsolated(k)
	if f != nil {
		c, g := deathClass(f, &k)
		fmt.Fprintf(&b, "worker: %s\n  %s\n", c, g)
		return true, b.String()
	}
	if rp.Err != "" {
		fmt.Fprintf(&b, "harness error: %s\n", rp.Err)
		return false, b.String()
	}
	for _, vr := range rp.Vios {
		fmt.Fprintf(&b, "violation: %s\n  %s\n", vr.Class, vr.Got)
	}
	for o := range rp.Outcomes {
		fmt.Fprintf(&b, "outcome: %s\n", o)
	}
	return len(rp.Vios) > 0, b.String()
}

func clip(s string, n int) string {
	if len(s) > n {
		return s[:n] + "…"
	}
	return s
}
