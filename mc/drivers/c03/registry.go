package c03

import (
	"sort"
	"sync"

	"github.com/luthersystems/elps/lisp"

	"verif/mc/el"
)

// callable is one registered function, special operator or macro, read from
// the registry of a stdlib-loaded runtime.
type callable struct {
	Q       string   // qualified name pkg:sym
	Kind    string   // function | operator | macro
	Builtin bool     // implemented in Go
	Formals []string // every formal symbol, markers included, in order
	Req     []string // required parameter names
	Opt     []string // &optional names
	Rest    string   // &rest name ("" = none)
	Keys    []string // &key names
}

func (c *callable) special() bool { return c.Kind != "function" }

// slots returns the number of positional slots worth enumerating beyond
// which a call is only "too many arguments".
func (c *callable) maxBindable() int {
	n := len(c.Req) + len(c.Opt)
	if c.Rest != "" {
		n += 2
	}
	if k := len(c.Keys); k > 0 {
		if k > 2 {
			k = 2
		}
		n += 2 * k
	}
	return n
}

// bindable is the boring binder model: can a call with n arguments get past
// argument binding at all?
func (c *callable) bindable(n int) bool {
	fixed := len(c.Req) + len(c.Opt)
	if n < len(c.Req) {
		return false
	}
	if n <= fixed {
		return true
	}
	if c.Rest != "" {
		return true
	}
	if len(c.Keys) > 0 {
		return n-fixed <= 2*len(c.Keys)
	}
	return false
}

// formalAt names the formal that argument position i binds to, and whether
// that position is a keyword-name slot of a &key signature.
func (c *callable) formalAt(i int) (name string, keyName bool) {
	if i < len(c.Req) {
		return c.Req[i], false
	}
	i -= len(c.Req)
	if i < len(c.Opt) {
		return c.Opt[i], false
	}
	i -= len(c.Opt)
	if c.Rest != "" {
		return c.Rest, false
	}
	if len(c.Keys) > 0 {
		k := c.Keys[(i/2)%len(c.Keys)]
		return k, i%2 == 0
	}
	return "", false
}

func parseCallable(q string, v *lisp.LVal) (*callable, bool) {
	if v == nil || v.Type != lisp.LFun || len(v.Cells) == 0 || v.Cells[0] == nil {
		return nil, false
	}
	c := &callable{Q: q, Kind: v.FunType.String(), Builtin: v.Builtin() != nil}
	mode := 0
	for _, f := range v.Cells[0].Cells {
		if f.Type != lisp.LSymbol {
			return nil, false
		}
		c.Formals = append(c.Formals, f.Str)
		switch f.Str {
		case "&optional":
			mode = 1
			continue
		case "&rest":
			mode = 2
			continue
		case "&key":
			mode = 3
			continue
		}
		switch mode {
		case 0:
			c.Req = append(c.Req, f.Str)
		case 1:
			c.Opt = append(c.Opt, f.Str)
		case 2:
			c.Rest = f.Str
		case 3:
			c.Keys = append(c.Keys, f.Str)
		}
	}
	return c, true
}

var (
	regOnce sync.Once
	regList []*callable
	regKeys []string // every &key name of the registry, as ":name" keywords
)

// registry walks the real registry of a stdlib-loaded runtime: every package,
// every bound symbol (exported or not) whose value is a function, operator or
// macro.  A binding that merely re-exports another package's function (the
// whole `user` package) is skipped: it is the same LFun value.
func registry() []*callable {
	regOnce.Do(func() {
		env := el.MustEnv(el.Opts{Stdlib: true})
		reg := env.Runtime.Registry
		pkgs := reg.PackageNames()
		sort.Strings(pkgs)
		keyset := map[string]bool{}
		for _, pn := range pkgs {
			pkg := reg.Package(pn)
			syms := pkg.SymbolNames()
			sort.Strings(syms)
			for _, s := range syms {
				v, _ := pkg.Symbol(s)
				if v == nil || v.Type != lisp.LFun {
					continue
				}
				if v.Package() != pn {
					continue // imported binding of another package's function
				}
				c, ok := parseCallable(pn+":"+s, v)
				if !ok {
					continue
				}
				regList = append(regList, c)
				for _, k := range c.Keys {
					keyset[":"+k] = true
				}
			}
		}
		sort.Slice(regList, func(i, j int) bool { return regList[i].Q < regList[j].Q })
		for k := range keyset {
			regKeys = append(regKeys, k)
		}
		sort.Strings(regKeys)
	})
	return regList
}

func registryKeys() []string { registry(); return regKeys }

func lookupCallable(q string) *callable {
	for _, c := range registry() {
		if c.Q == q {
			return c
		}
	}
	return nil
}
