package c03

import (
	"encoding/base64"
	"encoding/json"
	"fmt"
	"os"
	"strings"
	"unicode/utf8"
)

// kase is one execution: a source text, how it is run and under which limits.
// It is self-contained: replay loads Pre+Src into a fresh runtime.
type kase struct {
	Space   string   `json:"space"`
	Idx     int64    `json:"idx"`
	Mode    string   `json:"mode"`              // load | read | readload | readload-accepted
	Limits  string   `json:"limits"`            // fuzz | sweep | none
	Fn      string   `json:"fn,omitempty"`      // the registered callable under test, if any
	Stratum string   `json:"stratum,omitempty"` // which enumeration stratum produced it
	Pre     string   `json:"pre,omitempty"`     // definitions evaluated before Src (same runtime)
	Mid     string   `json:"mid,omitempty"`     // history modes: the mutating step (its error is tolerated)
	After   []string `json:"after,omitempty"`   // history modes: the reads that follow, each its own load
	Src     string   `json:"src"`
	B64     bool     `json:"b64,omitempty"`       // Src is base64 (the text is not valid UTF-8)
	Stack   int      `json:"max_stack,omitempty"` // run in a reader-only worker with this goroutine stack ceiling (bytes)
	MaxOut  int      `json:"max_out,omitempty"`   // bound on the bytes of output the case may produce (0 = unchecked)
}

func (k *kase) setSrc(b string) {
	if utf8.ValidString(b) {
		k.Src, k.B64 = b, false
	} else {
		k.Src, k.B64 = base64.StdEncoding.EncodeToString([]byte(b)), true
	}
}

func (k *kase) text() string {
	if k.B64 {
		b, _ := base64.StdEncoding.DecodeString(k.Src)
		return string(b)
	}
	return k.Src
}

// space is one exhaustively enumerated, index-addressed case space.  The same
// (name, tier, aux) builds the same space in the parent and in every worker.
type space struct {
	Name     string
	Size     int64
	Batch    int64   // cases per worker batch
	Heavy    bool    // memory-hungry: bounded concurrency, one case per batch
	Reuse    int     // cases that may share one runtime (0 = fresh runtime per case)
	Stack    int     // >0: a reader-only space, run in workers with this goroutine stack ceiling
	WatchCPU float64 // CPU-seconds watchdog per batch for this space (0 = the default 60)
	Case     func(i int64) kase
}

// ---------------------------------------------------------------------------
// segment plans: callable x arity x per-position alphabets

type seg struct {
	fn      *callable
	pre     string
	stratum string
	slots   [][]string
	tied    bool // every position takes the SAME index of its alphabet (the diagonal)
	base    int64
	size    int64
}

type plan struct {
	segs []seg
	size int64
}

func (p *plan) add(fn *callable, pre, stratum string, slots [][]string) {
	size := int64(1)
	for _, a := range slots {
		if len(a) == 0 {
			return // an empty stratum
		}
		size *= int64(len(a))
	}
	p.segs = append(p.segs, seg{fn: fn, pre: pre, stratum: stratum, slots: slots, base: p.size, size: size})
	p.size += size
}

// addTied adds the diagonal: every position holds the same value of vals.
func (p *plan) addTied(fn *callable, stratum string, n int, vals []string) {
	if len(vals) == 0 || n == 0 {
		return
	}
	slots := make([][]string, n)
	for i := range slots {
		slots[i] = vals
	}
	p.segs = append(p.segs, seg{fn: fn, stratum: stratum, slots: slots, tied: true, base: p.size, size: int64(len(vals))})
	p.size += int64(len(vals))
}

func (p *plan) locate(i int64) *seg {
	lo, hi := 0, len(p.segs)
	for lo < hi {
		mid := (lo + hi) / 2
		if p.segs[mid].base+p.segs[mid].size <= i {
			lo = mid + 1
		} else {
			hi = mid
		}
	}
	return &p.segs[lo]
}

// call renders the i-th call of the plan: position 0 is the most significant
// digit, so consecutive indices vary the last argument fastest.
func (p *plan) call(i int64) (s *seg, src string) {
	s = p.locate(i)
	j := i - s.base
	args := make([]string, len(s.slots))
	for pos := len(s.slots) - 1; pos >= 0; pos-- {
		a := s.slots[pos]
		if s.tied {
			args[pos] = a[j]
			continue
		}
		args[pos] = a[j%int64(len(a))]
		j /= int64(len(a))
	}
	var b strings.Builder
	b.WriteByte('(')
	b.WriteString(s.fn.Q)
	for _, a := range args {
		b.WriteByte(' ')
		b.WriteString(a)
	}
	b.WriteByte(')')
	return s, b.String()
}

func minus(all, drop []string) []string {
	var out []string
	for _, s := range all {
		d := false
		for _, x := range drop {
			if x == s {
				d = true
				break
			}
		}
		if !d {
			out = append(out, s)
		}
	}
	return out
}

// subsets of {0..n-1} of size exactly k, in lexicographic order.
func subsets(n, k int) [][]int {
	var out [][]int
	var rec func(start int, cur []int)
	rec = func(start int, cur []int) {
		if len(cur) == k {
			out = append(out, append([]int(nil), cur...))
			return
		}
		for i := start; i < n; i++ {
			rec(i+1, append(cur, i))
		}
	}
	rec(0, nil)
	return out
}

func othersWidth(n int) int {
	switch {
	case n <= 3:
		return 8
	case n == 4:
		return 4
	case n == 5:
		return 3
	}
	return 2
}

// stratified adds, for one callable and one bindable arity, every tuple in
// which at most maxOut positions hold a value OUTSIDE that position's small
// "others" alphabet; the strata are disjoint, so no tuple is built twice.
func (p *plan) stratified(c *callable, n, maxOut int, full []string, others func(c *callable, pos, a int) []string, label string) {
	a := othersWidth(n)
	in := make([][]string, n)
	out := make([][]string, n)
	for i := 0; i < n; i++ {
		in[i] = others(c, i, a)
		out[i] = minus(full, in[i])
	}
	if maxOut > n {
		maxOut = n
	}
	for k := 0; k <= maxOut; k++ {
		for _, P := range subsets(n, k) {
			slots := make([][]string, n)
			for i := 0; i < n; i++ {
				slots[i] = in[i]
			}
			for _, i := range P {
				slots[i] = out[i]
			}
			p.add(c, "", fmt.Sprintf("%s/n=%d/out=%d", label, n, k), slots)
		}
	}
}

// unbindable adds the token coverage of an arity the binder refuses: the
// first argument over the full alphabet, the rest at their defaults.
func (p *plan) unbindable(c *callable, n int, full []string, def func(c *callable, pos int) string, label string) {
	slots := make([][]string, n)
	for i := 0; i < n; i++ {
		slots[i] = []string{def(c, i)}
	}
	if n > 0 {
		slots[0] = full
	}
	p.add(c, "", fmt.Sprintf("%s/n=%d/unbindable", label, n), slots)
}

func l0Plan(thorough bool) *plan {
	p := &plan{}
	full := v0()
	for _, c := range registry() {
		top := c.maxBindable() + 1
		for n := 0; n <= top; n++ {
			if !c.bindable(n) {
				p.unbindable(c, n, full, slotDefault, "L0")
				continue
			}
			maxOut := 1
			if n <= 2 {
				maxOut = 2
			}
			if thorough {
				switch {
				case n <= 3:
					maxOut = 3
				case n == 4:
					maxOut = 2
				}
			}
			p.stratified(c, n, maxOut, full, othersAlpha, "L0")
		}
	}
	return p
}

func rawPlan(thorough bool) *plan {
	p := &plan{}
	formDef := func(c *callable, pos int) string { return formOthersAlpha(c, pos, 1)[0] }
	for _, c := range registry() {
		if !c.special() {
			continue
		}
		top := c.maxBindable() + 1
		for n := 0; n <= top; n++ {
			if !c.bindable(n) {
				p.unbindable(c, n, f0, formDef, "RAW")
				continue
			}
			maxOut := 1
			if n <= 2 {
				maxOut = 2
			}
			if thorough {
				switch {
				case n <= 3:
					maxOut = 3
				case n == 4:
					maxOut = 2
				}
			}
			p.stratified(c, n, maxOut, f0, formOthersAlpha, "RAW")
		}
	}
	return p
}

// numWatchCPU is the per-batch CPU watchdog of the numeric edge space NUM.  A
// batch is 128 calls; measured on the unchanged tree (TestDevBatchCost, loaded
// machine) the slowest batch -- dotimes running into the step budget -- costs
// 0.3 s, so 30 leaves a >= 100x margin.  NUM-wide (thorough; ten times the
// step budget, batches of 32) keeps the default watchdog.
const numWatchCPU = 30

// numMaxSet is the largest number of positions that hold a member of N at
// once, by arity.
func numMaxSet(n int, thorough bool) int {
	if thorough {
		switch {
		case n <= 4:
			return 3
		case n <= 6:
			return 2
		}
		return 1
	}
	switch {
	case n <= 3:
		return 3
	case n <= 5:
		return 2
	}
	return 1
}

// numDefault is the argument of a position that holds no member of N: the
// formal-aware default for a function (a sequence where the formal says
// sequence, a type specifier, a function ...), the formal-aware FORM for a
// special operator or macro.
func numDefault(c *callable, pos int) string {
	if c.special() {
		if d := formOthersAlpha(c, pos, 1)[0]; d != `1` {
			return d
		}
		return `2` // the form default of an unnamed formal is `1`, a member of N
	}
	return slotDefault(c, pos)
}

// numSlot is the alphabet of a position that holds a member of N: the number
// itself, except where a special operator takes its count inside a control
// sequence -- (dotimes (i N) ...).
func numSlot(c *callable, pos int, nums []string) []string {
	if name, _ := c.formalAt(pos); c.special() && strings.EqualFold(name, "control-sequence") {
		out := make([]string, len(nums))
		for i, x := range nums {
			out[i] = "(i " + x + ")"
		}
		return out
	}
	return nums
}

// numPlan: every registered callable (functions, special operators and macros
// alike: a number is a form) x every bindable arity x every non-empty set P of
// at most numMaxSet positions x every assignment of N to P, the positions
// outside P at their default.  No default is a member of N (checked), so a
// tuple determines its P and the strata are disjoint.
func numPlan(thorough bool) *plan {
	p := &plan{}
	nums := numAlphabet(thorough)
	isNum := map[string]bool{}
	for _, x := range nums {
		isNum[x] = true
	}
	for _, c := range registry() {
		top := c.maxBindable()
		for n := 1; n <= top; n++ {
			if !c.bindable(n) {
				continue
			}
			defs := make([]string, n)
			for i := range defs {
				defs[i] = numDefault(c, i)
				if isNum[defs[i]] {
					panic("c03: numPlan default " + defs[i] + " is a member of N: strata would overlap")
				}
			}
			for k := 1; k <= numMaxSet(n, thorough) && k <= n; k++ {
				for _, P := range subsets(n, k) {
					slots := make([][]string, n)
					for i := range slots {
						slots[i] = []string{defs[i]}
					}
					for _, i := range P {
						slots[i] = numSlot(c, i, nums)
					}
					p.add(c, "", fmt.Sprintf("NUM/n=%d/set=%s", n, intsKey(P)), slots)
				}
			}
		}
	}
	return p
}

// cbContainers / cbCallbacks: a container bound to a global while it is passed as an argument, and function values
// that write into THAT container in place every time they are called.  A builtin that takes a sequence (or map, or
// byte string) together with a function runs user code in the middle of its own work: what it knew about the
// container before the call (length, cell slice, capacity) may no longer hold after it.
var cbContainers = []struct{ kind, expr string }{
	{"vector", `(progn (set 'c03mv (vector 1 3 5 7 9 11 13 15)) c03mv)`},
	{"vector-1", `(progn (set 'c03mv (vector 4)) c03mv)`},
	{"map", `(progn (set 'c03mv (sorted-map "a" 1 "b" 2 "c" 3)) c03mv)`},
	{"bytes", `(progn (set 'c03mv (to-bytes "abcdefgh")) c03mv)`},
}

var cbEffects = []struct{ kind, body string }{
	{"grow", `(ignore-errors (append! c03mv 0)) (ignore-errors (assoc! c03mv (to-string (length (keys c03mv))) 0)) (ignore-errors (append-bytes! c03mv "z"))`},
	{"shrink", `(ignore-errors (elpspath:?del! c03mv 0)) (ignore-errors (dissoc! c03mv (car (keys c03mv))))`},
	{"shrink-to-nothing", `(ignore-errors (elpspath:?del! c03mv '*)) (ignore-errors (map 'list (lambda (k) (dissoc! c03mv k)) (keys c03mv)))`},
	{"rewrite", `(ignore-errors (elpspath:?set! c03mv 0 99)) (ignore-errors (assoc! c03mv "a" 99)) (ignore-errors (stable-sort > c03mv))`},
}

var cbReturns = []struct{ kind, expr string }{{"true", `true`}, {"false", `false`}, {"first-arg", `(car xs)`}, {"int", `(length xs)`}}

func cbCallbacks() (kinds, exprs []string) {
	for _, e := range cbEffects {
		for _, r := range cbReturns {
			kinds = append(kinds, e.kind+"/"+r.kind)
			exprs = append(exprs, "(lambda (&rest xs) "+e.body+" "+r.expr+")")
		}
	}
	return
}

// cbPlan: every registered FUNCTION x every bindable arity >= 2 x every ordered pair of distinct positions (container,
// callback) x container kind x callback, the other positions at their formal-aware default.
func cbPlan(thorough bool) *plan {
	p := &plan{}
	_, cbs := cbCallbacks()
	for _, c := range registry() {
		if c.special() {
			continue
		}
		top := c.maxBindable()
		if !thorough && top > 5 {
			top = 5
		}
		for n := 2; n <= top; n++ {
			if !c.bindable(n) {
				continue
			}
			for i := 0; i < n; i++ {
				for j := 0; j < n; j++ {
					if i == j {
						continue
					}
					for _, ct := range cbContainers {
						slots := make([][]string, n)
						for k := range slots {
							slots[k] = []string{slotDefault(c, k)}
						}
						slots[i] = []string{ct.expr}
						slots[j] = cbs
						p.add(c, "", fmt.Sprintf("CB/n=%d/container=%d:%s/callback=%d", n, i, ct.kind, j), slots)
					}
				}
			}
		}
	}
	return p
}

// pkgStates are preludes that bring the package REGISTRY into a state a fresh
// runtime is never in: a package that exports a name it does not bind (the
// documentation allows exporting before defining), the language package itself
// doing so, exports given as strings / lists / duplicates, a package whose
// binding of a language name is not a function, a package that imported from
// such a package.  Every callable is then called once per bindable arity <= 2
// with its default arguments, and the callables that take a package or a
// symbol name over the whole name alphabet.
var pkgStates = []struct{ name, pre string }{
	{"export-unbound", "(in-package 'p) (export 'ghost)"},
	{"export-unbound+bound", "(in-package 'p) (set 'v 1) (defun f () 2) (export 'v 'ghost 'f)"},
	{"lang-exports-unbound", "(in-package 'lisp) (export 'ghost)"},
	{"export-forms", "(in-package 'p) (set 'v 1) (export \"v\" '(v v) 'v)"},
	{"language-name-rebound", "(in-package 'p) (set 'car 5) (set 'set 6) (export 'car 'set)"},
	{"chain", "(in-package 'p) (set 'v 1) (export 'v) (in-package 'q) (use-package 'p) (export 'v 'w)"},
}

var pkgNameAlphabet = []string{"'p", "\"p\"", "'q", "'lisp", "'user", "'nosuch", "'ghost", "'v", "'p:ghost", "5", "()", "'(p q)"}

func pkgPlan(thorough bool) *plan {
	p := &plan{}
	named := map[string]bool{"lisp:in-package": true, "lisp:use-package": true, "lisp:export": true}
	for _, st := range pkgStates {
		for _, c := range registry() {
			top := c.maxBindable()
			if top > 2 {
				top = 2
			}
			for n := 0; n <= top; n++ {
				if !c.bindable(n) {
					continue
				}
				slots := make([][]string, n)
				for k := range slots {
					slots[k] = []string{slotDefault(c, k)}
					if named[c.Q] {
						slots[k] = pkgNameAlphabet
					}
				}
				p.add(c, st.pre, "PKG/"+st.name+fmt.Sprintf("/n=%d", n), slots)
			}
		}
	}
	return p
}

func intsKey(P []int) string {
	s := make([]string, len(P))
	for i, x := range P {
		s[i] = fmt.Sprint(x)
	}
	return strings.Join(s, ",")
}

// closurePlan: every callable x every bindable arity x every position holding
// each value of vals, the other positions at their default (quick) or over a
// small alphabet (thorough).
func closurePlan(vals, kinds []string, thorough bool, label string) *plan {
	p := &plan{}
	// K1: one representative per distinct result kind that has no literal
	// syntax (natives, tagged values, functions); these are also paired up
	var k1 []string
	seenKind := map[string]bool{}
	for i, v := range vals {
		if i >= len(kinds) {
			break
		}
		k := kinds[i]
		if !(strings.HasPrefix(k, "native:") || strings.HasPrefix(k, "tagged:") || strings.HasPrefix(k, "fun:")) || seenKind[k] {
			continue
		}
		seenKind[k] = true
		k1 = append(k1, v)
	}
	notK1 := minus(vals, k1)
	for _, c := range registry() {
		top := c.maxBindable()
		for n := 1; n <= top; n++ {
			if !c.bindable(n) {
				continue
			}
			if n >= 2 {
				// two positions holding closure values at once (time< T T, time-add T D ...)
				for _, pq := range subsets(n, 2) {
					slots := make([][]string, n)
					for i := 0; i < n; i++ {
						slots[i] = othersAlpha(c, i, 1)
					}
					slots[pq[0]], slots[pq[1]] = k1, k1
					p.add(c, "", fmt.Sprintf("%s/n=%d/pair=%d,%d", label, n, pq[0], pq[1]), slots)
				}
				if n == 2 {
					p.addTied(c, fmt.Sprintf("%s/n=%d/diagonal", label, n), n, notK1)
				} else {
					p.addTied(c, fmt.Sprintf("%s/n=%d/diagonal", label, n), n, vals)
				}
			}
			a := 1
			if thorough {
				switch {
				case n <= 3:
					a = 8
				case n == 4:
					a = 4
				default:
					a = 2
				}
			}
			for pos := 0; pos < n; pos++ {
				slots := make([][]string, n)
				for i := 0; i < n; i++ {
					slots[i] = othersAlpha(c, i, a)
				}
				slots[pos] = vals
				p.add(c, "", fmt.Sprintf("%s/n=%d/pos=%d", label, n, pos), slots)
			}
		}
	}
	return p
}

// sinkPlan feeds the value bound to `d` (and its separately built twin `k`,
// when rich) to every callable in every argument position.  Segments are
// keyed by the FIRST position holding d, which keeps them disjoint.
func (p *plan) sinks(pre, label string, rich bool) {
	for _, c := range registry() {
		lo := len(c.Req)
		if lo < 1 {
			lo = 1
		}
		hi := len(c.Req) + len(c.Opt)
		if c.Rest != "" {
			hi++
		}
		if len(c.Keys) > 0 {
			hi += 2
		}
		for n := lo; n <= hi; n++ {
			if !c.bindable(n) {
				continue
			}
			for pos := 0; pos < n; pos++ {
				slots := make([][]string, n)
				for i := 0; i < n; i++ {
					def := slotDefault(c, i)
					switch {
					case i == pos:
						slots[i] = []string{"d"}
					case !rich:
						slots[i] = []string{def}
					case i < pos:
						slots[i] = []string{def, "k"}
					default:
						slots[i] = []string{def, "d", "k"}
					}
				}
				p.add(c, pre, fmt.Sprintf("%s/n=%d/first=%d", label, n, pos), slots)
			}
		}
	}
}

// ---------------------------------------------------------------------------
// the spaces

var tokenAlphabet = []string{"(", ")", "[", "]", "'", "#'", "#^", "#!", "a", ":k", "p:a", "-1", "1.5e3", `"s"`, `"""r"""`, ";c\n"}

// byteClasses holds one representative byte per lexer-relevant class; the
// quick tier reads every 3-byte string over it (the thorough tier reads all
// 2^24 of them).
var byteClasses = []byte{'(', ')', '[', ']', '\'', '#', '^', '!', '"', '\\', ';', '\n', ' ', '\t', '\r', '0', '1', '9', 'a', 'e', 'x', 'o',
	':', '-', '+', '.', '%', '&', '/', '_', '*', '@', ',', '`', '~', '{', '}', 0x00, 0x7f, 0x80, 0xa9, 0xc3, 0xe2, 0xf0, 0xff}

func pow(b, e int) int64 {
	r := int64(1)
	for i := 0; i < e; i++ {
		r *= int64(b)
	}
	return r
}

// seqSpaceSize is sum_{l=0..L} b^l.
func seqSpaceSize(b, L int) int64 {
	var t int64
	for l := 0; l <= L; l++ {
		t += pow(b, l)
	}
	return t
}

// seqAt decodes index i of the length-then-lexicographic enumeration of all
// sequences over b symbols of length <= L.
func seqAt(b, L int, i int64) []int {
	for l := 0; l <= L; l++ {
		n := pow(b, l)
		if i < n {
			out := make([]int, l)
			for p := l - 1; p >= 0; p-- {
				out[p] = int(i % int64(b))
				i /= int64(b)
			}
			return out
		}
		i -= n
	}
	return nil
}

type genPick struct {
	Gen   int `json:"gen"`
	Depth int `json:"depth"`
}

type auxData struct {
	Vals  []string  `json:"vals,omitempty"`  // V1 / V2 expressions
	Kinds []string  `json:"kinds,omitempty"` // result kind of each of Vals
	Picks []genPick `json:"picks,omitempty"` // (generator, depth) pairs that produced a value
	Muts  []mutator `json:"muts,omitempty"`  // callables found (by effect) to change an operand
}

func loadAux(path string) (auxData, error) {
	var a auxData
	if path == "" {
		return a, nil
	}
	b, err := os.ReadFile(path)
	if err != nil {
		return a, err
	}
	err = json.Unmarshal(b, &a)
	return a, err
}

// readerStackCeiling is the goroutine stack ceiling of the reader-only
// workers.  Measured on the unchanged tree (TestDevReaderStack, power-of-two
// ceilings because Go stacks grow by doubling): the deepest parses the reader
// accepts -- 10000 nested brackets (survive from 4 MiB), 9999 prefixes and the
// prefix/bracket and prefix/prefix alternations (survive from 8 MiB), in all
// four readers, the fault-tolerant reader's 50 recovery rounds included --
// need at most 8 MiB, so 128 MiB leaves a >= 16x margin.  Nothing but reading
// happens in such a worker.
const readerStackCeiling = 128 << 20

func readerDepthsFor(thorough bool) []int {
	if thorough {
		return []int{10, 100, 10_000, 100_000, 1_000_000, 2_000_000, 4_000_000, 8_000_000}
	}
	return []int{10, 100, 10_000, 100_000, 1_000_000}
}

func depthsFor(thorough bool) []int {
	if thorough {
		return []int{10, 100, 1000, 10_000, 100_000, 1_000_000}
	}
	return []int{10, 100, 1000, 10_000}
}

func planSpace(name string, p *plan, limits string, batch int64, reuse int) *space {
	return &space{Name: name, Size: p.size, Batch: batch, Reuse: reuse, Case: func(i int64) kase {
		s, src := p.call(i)
		return kase{Space: name, Idx: i, Mode: "load", Limits: limits, Fn: s.fn.Q, Stratum: s.stratum, Pre: s.pre, Src: src}
	}}
}

func buildSpace(name string, thorough bool, aux auxData) (*space, error) {
	switch name {
	case "bytes2":
		// every byte string of length <= 2: loaded under limits AND read by the three readers
		size := seqSpaceSize(256, 2)
		return &space{Name: name, Size: size, Batch: 4096, Reuse: 64, Case: func(i int64) kase {
			seq := seqAt(256, 2, i)
			b := make([]byte, len(seq))
			for j, x := range seq {
				b[j] = byte(x)
			}
			k := kase{Space: name, Idx: i, Mode: "readload", Limits: "fuzz"}
			k.setSrc(string(b))
			return k
		}}, nil
	case "bytes3":
		// every byte string of length exactly 3, read with no limits configured
		size := pow(256, 3)
		return &space{Name: name, Size: size, Batch: 1 << 16, Case: func(i int64) kase {
			b := []byte{byte(i >> 16), byte(i >> 8), byte(i)}
			k := kase{Space: name, Idx: i, Mode: "read", Limits: "none"}
			k.setSrc(string(b))
			return k
		}}, nil
	case "bytes3-classes":
		n := len(byteClasses)
		size := pow(n, 3)
		return &space{Name: name, Size: size, Batch: 1 << 14, Case: func(i int64) kase {
			b := []byte{byteClasses[i/int64(n*n)], byteClasses[(i/int64(n))%int64(n)], byteClasses[i%int64(n)]}
			k := kase{Space: name, Idx: i, Mode: "read", Limits: "none"}
			k.setSrc(string(b))
			return k
		}}, nil
	case "tokens-spaced", "tokens-glued":
		L := 4
		if thorough {
			L = 6
			if name == "tokens-glued" {
				L = 5
			}
		}
		sep := " "
		if name == "tokens-glued" {
			sep = ""
		}
		nt := len(tokenAlphabet)
		size := seqSpaceSize(nt, L)
		return &space{Name: name, Size: size, Batch: 8192, Reuse: 64, Case: func(i int64) kase {
			seq := seqAt(nt, L, i)
			parts := make([]string, len(seq))
			for j, x := range seq {
				parts[j] = tokenAlphabet[x]
			}
			return kase{Space: name, Idx: i, Mode: "readload-accepted", Limits: "fuzz", Src: strings.Join(parts, sep)}
		}}, nil
	case "gen-eval":
		ds := depthsFor(thorough)
		size := int64(len(evalGens) * len(ds))
		return &space{Name: name, Size: size, Batch: 1, Heavy: true, Case: func(i int64) kase {
			g := evalGens[int(i)/len(ds)]
			d := ds[int(i)%len(ds)]
			k := kase{Space: name, Idx: i, Mode: "readload", Limits: "fuzz", Stratum: fmt.Sprintf("%s/d=%d", g.name, d)}
			k.setSrc(g.prog(d))
			return k
		}}, nil
	case "reader-depth", "reader-depth-load":
		// every reader nesting construct that does not go through a bracket
		// (and the bracket ones, for comparison) x depth: read by the four
		// readers with no limits in a reduced-stack reader-only worker, and
		// loaded under limits in an ordinary worker
		type gd struct {
			g evalGen
			d int
		}
		var pairs []gd
		for _, g := range readerGens {
			for _, d := range readerDepthsFor(thorough) {
				if flatReaderGens[g.name] && d > 1_000_000 {
					// d sibling forms, not nesting: memory is linear in the
					// input (about 350 bytes per form and reader), so 8*10^6
					// forms only measure the worker's address-space limit
					continue
				}
				pairs = append(pairs, gd{g, d})
			}
		}
		sp := &space{Name: name, Size: int64(len(pairs)), Batch: 1, Heavy: true, Case: func(i int64) kase {
			g, d := pairs[i].g, pairs[i].d
			k := kase{Space: name, Idx: i, Mode: "read4", Limits: "none", Stack: readerStackCeiling, Stratum: fmt.Sprintf("%s/d=%d", g.name, d)}
			if name == "reader-depth-load" {
				k.Mode, k.Limits, k.Stack = "load", "fuzz", 0
			}
			k.setSrc(g.prog(d))
			return k
		}}
		if name == "reader-depth" {
			sp.Stack = readerStackCeiling
		}
		return sp, nil
	case "evalwalk":
		// every self-containing value x every place the evaluator walks a
		// value on its own x {no debugger, debugger attached}
		profiles := []string{"fuzz", "fuzz-dbg"}
		nc, nv := len(walkContexts), len(walkValues)
		size := int64(nc * nv * len(profiles))
		return &space{Name: name, Size: size, Batch: 8, WatchCPU: 20, Case: func(i int64) kase {
			prof := profiles[int(i)%len(profiles)]
			j := int(i) / len(profiles)
			v := walkValues[j%nv]
			c := walkContexts[j/nv]
			k := kase{Space: name, Idx: i, Mode: "load", Limits: prof, Stratum: c.name + "/" + v.name, MaxOut: maxOutputBytes,
				Pre: "(set 'd " + v.expr + ")", Src: strings.ReplaceAll(c.tmpl, "$V", v.expr)}
			return k
		}}, nil
	case "hist-discover":
		// every callable x every position holding a small container x small
		// argument tuples, under a tight allocation limit: which calls change
		// their operand (whether they answer a value or an error)?
		p := discoverPlan()
		return &space{Name: name, Size: p.size, Batch: 2048, Reuse: 64, Case: func(i int64) kase {
			s, call := p.call(i)
			return kase{Space: name, Idx: i, Mode: "mutprobe", Limits: "alloc4", Fn: s.fn.Q, Stratum: s.stratum, Pre: s.pre, Mid: call}
		}}, nil
	case "hist2":
		// discovered mutator x argument tuples x container x limit profile x
		// survival mode, followed by every reader
		p := historyPlan(aux.Muts)
		profs := histProfilesFor(thorough)
		np, nm := int64(len(profs)), int64(len(histModes))
		return &space{Name: name, Size: p.size * np * nm, Batch: 256, Reuse: 64, Case: func(i int64) kase {
			prof := profs[i%np]
			mode := histModes[(i/np)%nm]
			s, call := p.call(i / (np * nm))
			return kase{Space: name, Idx: i, Mode: "history", Limits: prof, Fn: s.fn.Q, Stratum: mode.name + "/" + s.stratum,
				Pre: s.pre, Mid: strings.ReplaceAll(mode.tmpl, "$CALL", call), After: histReaders}
		}}, nil
	case "gen-value":
		ds := depthsFor(thorough)
		size := int64(len(valueGens) * len(ds))
		return &space{Name: name, Size: size, Batch: 1, Heavy: true, Case: func(i int64) kase {
			g := valueGens[int(i)/len(ds)]
			d := ds[int(i)%len(ds)]
			return kase{Space: name, Idx: i, Mode: "load", Limits: "fuzz", Stratum: fmt.Sprintf("%s/d=%d", g.name, d), Pre: g.pre, Src: g.expr(d)}
		}}, nil
	case "L0":
		return planSpace(name, l0Plan(thorough), "sweep", 2048, 64), nil
	case "RAW":
		return planSpace(name, rawPlan(thorough), "sweep", 2048, 64), nil
	case "NUM", "NUM-wide":
		// numeric edge tuples.  What bounds a loop INSIDE a builtin is the
		// per-operation allocation limit alone (steps and deadlines are consulted
		// between evaluation steps), so NUM runs under the sweep limits with
		// MaxAlloc 1000 and MaxSteps 2*10^4: a loop that consults its limit is
		// refused after 10^3 turns, one that does not is seen by the watchdog.
		// NUM-wide (thorough) repeats the QUICK tier's tuples under the sweep
		// profile itself (MaxAlloc 10^5, MaxSteps 2*10^5: every refusal costs a
		// hundred times more, so the larger alphabet stays with NUM).
		if name == "NUM-wide" {
			return planSpace(name, numPlan(false), "sweep", 32, 64), nil
		}
		sp := planSpace(name, numPlan(thorough), "sweep-tight", 128, 64)
		sp.WatchCPU = numWatchCPU
		return sp, nil
	case "CB":
		return planSpace(name, cbPlan(thorough), "sweep-tight", 128, 64), nil
	case "PKG":
		// a fresh runtime per case: the prelude changes the registry, and so may the call
		return planSpace(name, pkgPlan(thorough), "sweep", 256, 0), nil
	case "V1", "V2":
		return planSpace(name, closurePlan(aux.Vals, aux.Kinds, thorough && name == "V1", name), "sweep", 2048, 64), nil
	case "sink-cyclic":
		p := &plan{}
		for _, cy := range cyclics {
			p.sinks(cy.pre, "cyc:"+cy.name, true)
		}
		sp := planSpace(name, p, "fuzz", 512, 256)
		inner := sp.Case
		sp.Case = func(i int64) kase {
			k := inner(i)
			k.MaxOut = maxOutputBytes
			return k
		}
		sp.WatchCPU = 30
		return sp, nil
	case "sink-deep", "sink-deep-heavy":
		// the light space holds depths <= 10^4, the heavy one the rest
		p := &plan{}
		for _, pk := range aux.Picks {
			heavy := pk.Depth > 10_000
			if heavy != (name == "sink-deep-heavy") {
				continue
			}
			g := valueGens[pk.Gen]
			rich := pk.Depth <= 1000
			pre := g.pre + " (set 'd " + g.expr(pk.Depth) + ")"
			if rich {
				pre += " (set 'k " + g.expr(pk.Depth) + ")"
			}
			p.sinks(strings.TrimSpace(pre), fmt.Sprintf("deep:%s/d=%d", g.name, pk.Depth), rich)
		}
		if name == "sink-deep-heavy" {
			sp := planSpace(name, p, "fuzz", 8, 8)
			sp.Heavy = true
			return sp, nil
		}
		return planSpace(name, p, "fuzz", 256, 256), nil
	}
	return nil, fmt.Errorf("unknown space %q", name)
}
