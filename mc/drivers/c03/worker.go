package c03

import (
	"bufio"
	"encoding/binary"
	"encoding/json"
	"fmt"
	"os"
	"os/signal"
	"runtime"
	"runtime/debug"
	"syscall"
)

// Worker subprocess: the parent re-executes os.Args[0] with MC_C03_WORKER=1.
// Everything that can kill a process (fatal stack overflow, out of memory) or
// wedge it happens here, under an address-space limit; the parent holds the
// watchdog.  Protocol: one JSON request per line on stdin, one JSON reply per
// line on stdout; "progress" lines ({"p":idx}) are written before each case
// when the request asks for them.

const (
	workerEnvVar   = "MC_C03_WORKER"
	progressEnvVar = "MC_C03_PROGRESS" // a 16-byte file the worker maps: [index+1 of the case being run, request id]
	maxStackEnvVar = "MC_C03_MAXSTACK" // reader-only worker kind: goroutine stack ceiling in bytes (debug.SetMaxStack)
)

// progressMap maps the progress file shared with the parent.  Writing the
// index of the case about to run is two stores, so it is done for every case
// of every space: when a worker dies or wedges the parent reads which case it
// was on instead of bisecting (bisection remains the fallback).
func progressMap() []byte {
	path := os.Getenv(progressEnvVar)
	if path == "" {
		return nil
	}
	f, err := os.OpenFile(path, os.O_RDWR|os.O_CREATE, 0o600)
	if err != nil {
		return nil
	}
	defer f.Close()
	if f.Truncate(16) != nil {
		return nil
	}
	m, err := syscall.Mmap(int(f.Fd()), 0, 16, syscall.PROT_READ|syscall.PROT_WRITE, syscall.MAP_SHARED)
	if err != nil {
		return nil
	}
	return m
}

type request struct {
	ID       int64  `json:"id"`
	Space    string `json:"space,omitempty"`
	Thorough bool   `json:"thorough,omitempty"`
	Aux      string `json:"aux,omitempty"` // path of the auxData file the space is built from
	Lo       int64  `json:"lo"`
	Hi       int64  `json:"hi"`
	Progress bool   `json:"progress,omitempty"`
	Fresh    bool   `json:"fresh,omitempty"` // fresh runtime per case regardless of the space's reuse
	Case     *kase  `json:"case,omitempty"`  // run this literal case instead of a space range
}

type vioRec struct {
	Class string `json:"class"`
	Got   string `json:"got"`
	Case  kase   `json:"case"`
}

type flakyRec struct {
	Note string `json:"note"`
	Case kase   `json:"case"`
}

type reply struct {
	ID       int64             `json:"id"`
	P        *int64            `json:"p,omitempty"` // progress line: index about to run; the rest of the line is the cumulative reply for [lo, p)
	Err      string            `json:"err,omitempty"`
	Cases    int64             `json:"cases"`
	Evals    int64             `json:"evals"`
	Trans    int64             `json:"trans"`
	Skipped  int64             `json:"skipped"`
	Values   int64             `json:"values"`
	Nontriv  int64             `json:"nontriv"`
	NKeys    []string          `json:"nkeys,omitempty"`
	Outcomes map[string]int64  `json:"outcomes,omitempty"`
	Reps     map[string]int64  `json:"reps,omitempty"` // (fn \x00 kind) -> lowest index in this batch producing it
	OKIdx    []int64           `json:"ok_idx,omitempty"`
	Vios     []vioRec          `json:"vios,omitempty"`
	Flaky    []flakyRec        `json:"flaky,omitempty"`
	Samples  []kase            `json:"samples,omitempty"`
	Obs      map[string]string `json:"obs,omitempty"` // structural observation per case (stratum -> reader verdicts)
}

func init() {
	if os.Getenv(workerEnvVar) == "1" {
		workerMain()
		os.Exit(0)
	}
}

const (
	dumpBegin = "--c03-goroutine-dump--"
	dumpEnd   = "--c03-goroutine-dump-end--"
)

const workerAddressSpace = 4 << 30 // bytes of virtual memory a worker may map (`ulimit -v` 4 GiB)

func workerMain() {
	// `ulimit -v` for this process only.  The Go runtime's default 1 GB
	// goroutine stack ceiling is deliberately left alone: it is what an
	// embedding host runs with.
	lim := syscall.Rlimit{Cur: workerAddressSpace, Max: workerAddressSpace}
	_ = syscall.Setrlimit(syscall.RLIMIT_AS, &lim)
	debug.SetMemoryLimit(3 << 30)
	// A READER-ONLY worker runs with a reduced goroutine stack ceiling, so
	// that unbounded recursion in the reader is caught after megabytes rather
	// than gigabytes.  Only spaces that do nothing but read are sent to such
	// a worker; everything that evaluates keeps Go's default 1 GB ceiling.
	if v := os.Getenv(maxStackEnvVar); v != "" {
		var n int
		if _, err := fmt.Sscan(v, &n); err == nil && n > 0 {
			debug.SetMaxStack(n)
		}
	}
	prog := progressMap()
	// When the parent's watchdog fires it first asks for a goroutine dump
	// (SIGUSR1) so that a wedge can be named by the function it is stuck in.
	// runtime.Stack(all) stops the world, so it also shows the goroutine that
	// is busy on another thread -- which a SIGQUIT dump does not.
	sigc := make(chan os.Signal, 1)
	signal.Notify(sigc, syscall.SIGUSR1)
	go func() {
		for range sigc {
			buf := make([]byte, 4<<20)
			n := runtime.Stack(buf, true)
			_, _ = os.Stderr.Write(append(append([]byte("\n"+dumpBegin+"\n"), buf[:n]...), []byte("\n"+dumpEnd+"\n")...))
		}
	}()

	in := bufio.NewReaderSize(os.Stdin, 1<<20)
	out := bufio.NewWriterSize(os.Stdout, 1<<20)
	enc := json.NewEncoder(out)
	spaces := map[string]*space{}
	x := newExecutor()
	for {
		line, err := in.ReadBytes('\n')
		if len(line) == 0 && err != nil {
			return
		}
		var rq request
		if e := json.Unmarshal(line, &rq); e != nil {
			_ = enc.Encode(reply{Err: "bad request: " + e.Error()})
			_ = out.Flush()
			continue
		}
		rp := reply{ID: rq.ID, Outcomes: map[string]int64{}, Reps: map[string]int64{}}
		if rq.Case == nil && rq.Space == "" {
			// handshake: the parent checks that a fresh worker came up before it
			// attributes anything to a case
			_ = enc.Encode(rp)
			_ = out.Flush()
			continue
		}
		if rq.Case != nil {
			k := *rq.Case
			r := x.run(&k, 0)
			merge(&rp, &k, &r, true)
			_ = enc.Encode(rp)
			_ = out.Flush()
			continue
		}
		key := fmt.Sprintf("%s|%v|%s", rq.Space, rq.Thorough, rq.Aux)
		sp := spaces[key]
		if sp == nil {
			aux, e := loadAux(rq.Aux)
			if e == nil {
				sp, e = buildSpace(rq.Space, rq.Thorough, aux)
			}
			if e != nil {
				rp.Err = e.Error()
				_ = enc.Encode(rp)
				_ = out.Flush()
				continue
			}
			spaces[key] = sp
		}
		reuse := sp.Reuse
		if rq.Fresh {
			reuse = 0
		}
		nkeys := map[string]struct{}{}
		if prog != nil {
			binary.LittleEndian.PutUint64(prog[8:16], uint64(rq.ID))
		}
		for i := rq.Lo; i < rq.Hi && i < sp.Size; i++ {
			if prog != nil {
				binary.LittleEndian.PutUint64(prog[0:8], uint64(i)+1)
			}
			if rq.Progress {
				p := i
				part := rp
				part.P = &p
				part.NKeys = nil
				for s := range nkeys {
					part.NKeys = append(part.NKeys, s)
				}
				_ = enc.Encode(part)
				_ = out.Flush()
			}
			k := sp.Case(i)
			r := x.run(&k, reuse)
			merge(&rp, &k, &r, r.Value && len(k.Src) < 200 && len(k.Pre) < 200)
			if r.Nontriv {
				nkeys[nontrivKey(&k, &r)] = struct{}{}
			}
		}
		for s := range nkeys {
			rp.NKeys = append(rp.NKeys, s)
		}
		_ = enc.Encode(rp)
		_ = out.Flush()
	}
}

// nontrivKey: exact text for the text spaces (bounded sizes), and
// (callable, stratum, outcome) for the call sweeps, whose tuples are distinct
// by construction.
func nontrivKey(k *kase, r *result) string {
	if k.Fn == "" {
		if k.Idx < 300_000 {
			return k.Space + "\x00" + k.Src
		}
		return k.Space + "\x00" + r.Outcome
	}
	return k.Fn + "\x00" + k.Stratum + "\x00" + r.Outcome
}

func merge(rp *reply, k *kase, r *result, sample bool) {
	rp.Cases++
	rp.Evals += r.Evals
	rp.Trans += r.Trans
	if r.Skipped {
		rp.Skipped++
	}
	if r.Value {
		rp.Values++
		rp.OKIdx = appendCapped(rp.OKIdx, k.Idx, 64)
	}
	if r.Nontriv {
		rp.Nontriv++
	}
	if r.Outcome != "" {
		rp.Outcomes[r.Outcome]++
	}
	if r.Obs != "" {
		if rp.Obs == nil {
			rp.Obs = map[string]string{}
		}
		rp.Obs[k.Stratum] = r.Obs
	}
	if r.RepKey != "" {
		if old, ok := rp.Reps[r.RepKey]; !ok || k.Idx < old {
			rp.Reps[r.RepKey] = k.Idx
		}
	}
	if r.Class != "" {
		rp.Vios = append(rp.Vios, vioRec{Class: r.Class, Got: r.Got, Case: *k})
	}
	if r.Flaky != "" {
		rp.Flaky = append(rp.Flaky, flakyRec{Note: r.Flaky, Case: *k})
	}
	if sample && len(rp.Samples) < 1 {
		rp.Samples = append(rp.Samples, *k)
	}
}

func appendCapped(l []int64, v int64, n int) []int64 {
	if len(l) < n {
		return append(l, v)
	}
	return l
}
