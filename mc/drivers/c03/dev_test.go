package c03

import (
	"fmt"
	"os"
	"sort"
	"strings"
	"testing"
	"time"
)

// TestDevShow prints the outcome of every case of small spaces (development aid).
func TestDevShow(t *testing.T) {
	name := os.Getenv("C03_SHOW")
	if name == "" {
		t.Skip()
	}
	sp, err := buildSpace(name, os.Getenv("C03_THOROUGH") != "", auxData{})
	if err != nil {
		t.Fatal(err)
	}
	x := newExecutor()
	max := int64(400)
	for i := int64(0); i < sp.Size && i < max; i++ {
		k := sp.Case(i)
		if os.Getenv("C03_MAXDEPTH") != "" && len(k.Src) > 3000 {
			continue
		}
		r := x.run(&k, 0)
		fmt.Printf("%3d %-40s %-60s class=%s %s\n   %s\n", i, k.Stratum, r.Outcome, r.Class, r.Got, clip(k.Pre+" "+k.Src, 160))
	}
}

func TestDevSizes(t *testing.T) {
	if os.Getenv("C03_SIZES") == "" {
		t.Skip()
	}
	fmt.Println("callables", len(registry()), "V0", len(v0()), "F0", len(f0))
	for _, th := range []bool{false, true} {
		for _, n := range []string{"L0", "RAW", "NUM", "sink-cyclic"} {
			sp, _ := buildSpace(n, th, auxData{})
			fmt.Println(n, "thorough=", th, sp.Size)
		}
		vals := make([]string, 600)
		for i := range vals {
			vals[i] = "1"
		}
		fmt.Println("V1(600) thorough=", th, closurePlan(vals, nil, th, "V1").size)
		var picks []genPick
		for g := range valueGens {
			for _, d := range depthsFor(th) {
				picks = append(picks, genPick{g, d})
			}
		}
		for _, n := range []string{"sink-deep", "sink-deep-heavy"} {
			sp, _ := buildSpace(n, th, auxData{Picks: picks})
			fmt.Println(n, "thorough=", th, sp.Size)
		}
	}
}

func TestDevStrata(t *testing.T) {
	if os.Getenv("C03_STRATA") == "" {
		t.Skip()
	}
	for _, th := range []bool{false, true} {
		for _, mk := range []func(bool) *plan{l0Plan, rawPlan} {
			p := mk(th)
			tot := map[string]int64{}
			for _, s := range p.segs {
				tot[s.stratum] += s.size
			}
			fmt.Println("thorough=", th, "total", p.size)
			for k, v := range tot {
				if v*50 > p.size {
					fmt.Println("   ", k, v)
				}
			}
		}
	}
}

// TestDevReaderStack measures, on the tree it is built against, the smallest
// power-of-two goroutine stack ceiling under which a reader-only worker
// survives the deepest parses the reader accepts.
func TestDevReaderStack(t *testing.T) {
	if os.Getenv("C03_READERSTACK") == "" {
		t.Skip()
	}
	texts := map[string]string{
		"paren-nest-10000":        nestText("(", ")", "", 10000),
		"brace-nest-10000":        nestText("[", "]", "", 10000),
		"quote-run-9999":          strings.Repeat("'", 9999) + "a",
		"exprlambda-run-9999":     strings.Repeat("#^", 9999) + "a",
		"quote-paren-alt-5000":    nestText("'(", ")", "a", 4999),
		"quote-exprlambda-5000":   strings.Repeat("'#^", 4999) + "a",
		"quote-run-10^6-rejected": strings.Repeat("'", 1000000) + "a",
		"paren-unclosed-10^6":     strings.Repeat("(", 1000000),
	}
	for name, src := range texts {
		smallest := -1
		sig := ""
		for c := 64 << 10; c <= 64<<20; c *= 2 {
			k := kase{Space: "dev", Mode: "read4", Limits: "none", Stack: c, Stratum: name}
			k.setSrc(src)
			rp, f := runCaseIsolated(k)
			if f == nil && rp.Err == "" {
				smallest = c
				sig = rp.Obs[name]
				break
			}
		}
		fmt.Printf("%-26s survives from ceiling %8d KiB   %s\n", name, smallest>>10, sig)
	}
}

func TestDevSlow(t *testing.T) {
	name := os.Getenv("C03_SLOW")
	if name == "" {
		t.Skip()
	}
	sp, err := buildSpace(name, false, auxData{})
	if err != nil {
		t.Fatal(err)
	}
	x := newExecutor()
	byVal := map[string]float64{}
	byCtx := map[string]float64{}
	for i := int64(0); i < sp.Size; i += 2 {
		k := sp.Case(i)
		t0 := time.Now()
		r := x.run(&k, 0)
		dt := time.Since(t0).Seconds()
		parts := strings.SplitN(k.Stratum, "/", 2)
		byCtx[parts[0]] += dt
		byVal[parts[1]] += dt
		if dt > 0.2 {
			fmt.Printf("SLOW %.2fs %s %s\n", dt, k.Stratum, r.Outcome)
		}
	}
	top := func(m map[string]float64) {
		type kv struct {
			k string
			v float64
		}
		var l []kv
		for k, v := range m {
			l = append(l, kv{k, v})
		}
		sort.Slice(l, func(i, j int) bool { return l[i].v > l[j].v })
		for i := 0; i < 12 && i < len(l); i++ {
			fmt.Printf("  %-50s %.2fs\n", l[i].k, l[i].v)
		}
	}
	top(byVal)
	top(byCtx)
}

func TestDevCounts(t *testing.T) {
	if os.Getenv("C03_COUNTS") == "" {
		t.Skip()
	}
	fmt.Println("readers", len(histReaders), "containers", len(histContainers()), "walkValues", len(walkValues), "walkContexts", len(walkContexts), "cyclics", len(cyclics), "evalGens", len(evalGens))
}

// TestDevBatchCost measures the CPU cost of every batch of a space in-process
// (one executor, the space's own reuse), and prints the slowest batches and cases.
func TestDevBatchCost(t *testing.T) {
	name := os.Getenv("C03_BATCHCOST")
	if name == "" {
		t.Skip()
	}
	sp, err := buildSpace(name, os.Getenv("C03_THOROUGH") != "", auxData{})
	if err != nil {
		t.Fatal(err)
	}
	x := newExecutor()
	type bc struct {
		lo int64
		s  float64
	}
	var l []bc
	byFn := map[string]float64{}
	for lo := int64(0); lo < sp.Size; lo += sp.Batch {
		t0 := time.Now()
		for i := lo; i < lo+sp.Batch && i < sp.Size; i++ {
			k := sp.Case(i)
			c0 := time.Now()
			r := x.run(&k, sp.Reuse)
			dt := time.Since(c0).Seconds()
			byFn[k.Fn] += dt
			if dt > 0.02 {
				fmt.Printf("SLOW %.3fs %s %s\n", dt, k.Src, r.Outcome)
			}
			if r.Class != "" {
				fmt.Printf("VIOLATION %s %s %s\n", r.Class, k.Src, r.Got)
			}
		}
		l = append(l, bc{lo, time.Since(t0).Seconds()})
	}
	sort.Slice(l, func(i, j int) bool { return l[i].s > l[j].s })
	for i := 0; i < 5 && i < len(l); i++ {
		fmt.Printf("batch at %d: %.3fs\n", l[i].lo, l[i].s)
	}
	type kv struct {
		k string
		v float64
	}
	var f []kv
	for k, v := range byFn {
		f = append(f, kv{k, v})
	}
	sort.Slice(f, func(i, j int) bool { return f[i].v > f[j].v })
	for i := 0; i < 12 && i < len(f); i++ {
		fmt.Printf("  %-40s %.2fs\n", f[i].k, f[i].v)
	}
}
