package c03

import (
	"bufio"
	"bytes"
	"encoding/binary"
	"encoding/json"
	"fmt"
	"io"
	"os"
	"os/exec"
	"strconv"
	"strings"
	"sync"
	"sync/atomic"
	"syscall"
	"time"

	"verif/mc/core"
)

// ---------------------------------------------------------------------------
// one worker subprocess

type ring struct {
	mu  sync.Mutex
	buf []byte
}

func (r *ring) Write(p []byte) (int, error) {
	r.mu.Lock()
	r.buf = append(r.buf, p...)
	if len(r.buf) > 256<<10 {
		// keep the head (the fatal error line and the top of the dying stack)
		// and the tail
		head := r.buf[:64<<10]
		tail := r.buf[len(r.buf)-(64<<10):]
		r.buf = append(append([]byte(nil), head...), tail...)
	}
	r.mu.Unlock()
	return len(p), nil
}

func (r *ring) String() string {
	r.mu.Lock()
	defer r.mu.Unlock()
	return string(r.buf)
}

type proc struct {
	cmd      *exec.Cmd
	in       io.WriteCloser
	lines    chan []byte
	stderr   *ring
	exited   chan struct{}
	progress string // path of the progress file ("" = none)
}

var procSeq int64

func startProc(scratch string, maxStack int) (*proc, error) {
	cmd := exec.Command(os.Args[0])
	cmd.Env = append(os.Environ(), workerEnvVar+"=1", "GOMAXPROCS=2", "GOTRACEBACK=single")
	if maxStack > 0 {
		cmd.Env = append(cmd.Env, fmt.Sprintf("%s=%d", maxStackEnvVar, maxStack))
	}
	progress := ""
	if scratch != "" {
		progress = fmt.Sprintf("%s/progress-%d", scratch, atomic.AddInt64(&procSeq, 1))
		cmd.Env = append(cmd.Env, progressEnvVar+"="+progress)
	}
	in, err := cmd.StdinPipe()
	if err != nil {
		return nil, err
	}
	out, err := cmd.StdoutPipe()
	if err != nil {
		return nil, err
	}
	p := &proc{cmd: cmd, in: in, lines: make(chan []byte, 64), stderr: &ring{}, exited: make(chan struct{}), progress: progress}
	cmd.Stderr = p.stderr
	if err := cmd.Start(); err != nil {
		return nil, err
	}
	go func() {
		rd := bufio.NewReaderSize(out, 1<<20)
		for {
			line, err := rd.ReadBytes('\n')
			if len(line) > 0 {
				p.lines <- line
			}
			if err != nil {
				break
			}
		}
		_ = cmd.Wait()
		close(p.exited)
	}()
	return p, nil
}

func (p *proc) kill() {
	if p == nil || p.cmd == nil || p.cmd.Process == nil {
		return
	}
	_ = p.cmd.Process.Kill()
	_ = p.in.Close()
	select {
	case <-p.exited:
	case <-time.After(10 * time.Second):
	}
	if p.progress != "" {
		_ = os.Remove(p.progress)
	}
}

// suspect reads which case the worker was running for request id (-1 if unknown).
func (p *proc) suspect(id int64) int64 {
	if p.progress == "" {
		return -1
	}
	b, err := os.ReadFile(p.progress)
	if err != nil || len(b) < 16 {
		return -1
	}
	if int64(binary.LittleEndian.Uint64(b[8:16])) != id {
		return -1
	}
	return int64(binary.LittleEndian.Uint64(b[0:8])) - 1
}

// cpuSeconds reads the worker's consumed CPU time (user+system, all threads).
func (p *proc) cpuSeconds() float64 {
	b, err := os.ReadFile("/proc/" + strconv.Itoa(p.cmd.Process.Pid) + "/stat")
	if err != nil {
		return -1
	}
	s := string(b)
	i := strings.LastIndexByte(s, ')')
	if i < 0 {
		return -1
	}
	f := strings.Fields(s[i+1:])
	if len(f) < 13 {
		return -1
	}
	ut, _ := strconv.ParseFloat(f[11], 64)
	st, _ := strconv.ParseFloat(f[12], 64)
	return (ut + st) / 100.0
}

// Watchdog per batch: 60 s of CPU time consumed by the worker (robust against
// a loaded machine: time the worker was not scheduled is not charged), with a
// 20 min wall-clock backstop for a worker that blocks without computing.
const (
	watchdogCPU  = 60.0
	watchdogWall = 20 * time.Minute
)

type failure struct {
	wedged  bool
	stderr  string
	last    int64  // last progress index seen, -1 if none
	partial *reply // cumulative results of the cases before `last`, when the worker streamed them
}

func (p *proc) do(rq request, cpuLimit float64) (reply, *failure) {
	if cpuLimit <= 0 {
		cpuLimit = watchdogCPU
	}
	b, _ := json.Marshal(rq)
	b = append(b, '\n')
	last := int64(-1)
	var partial *reply
	if _, err := p.in.Write(b); err != nil {
		<-p.exited
		return reply{}, &failure{stderr: p.stderr.String(), last: last}
	}
	start := time.Now()
	cpu0 := p.cpuSeconds()
	tick := time.NewTicker(500 * time.Millisecond)
	defer tick.Stop()
	for {
		select {
		case line := <-p.lines:
			var rp reply
			if err := json.Unmarshal(line, &rp); err != nil {
				continue
			}
			if rp.ID != rq.ID {
				continue
			}
			if rp.P != nil {
				last = *rp.P
				cp := rp
				cp.P = nil
				partial = &cp
				continue
			}
			return rp, nil
		case <-p.exited:
			// drain anything already produced
			for {
				select {
				case line := <-p.lines:
					var rp reply
					if json.Unmarshal(line, &rp) == nil && rp.ID == rq.ID {
						if rp.P != nil {
							last = *rp.P
							cp := rp
							cp.P = nil
							partial = &cp
						} else {
							return rp, nil
						}
					}
					continue
				default:
				}
				break
			}
			if last < 0 {
				last = p.suspect(rq.ID)
			}
			return reply{}, &failure{stderr: p.stderr.String(), last: last, partial: partial}
		case <-tick.C:
			cpu := p.cpuSeconds()
			if (cpu0 >= 0 && cpu >= 0 && cpu-cpu0 > cpuLimit) || time.Since(start) > watchdogWall {
				if last < 0 {
					last = p.suspect(rq.ID)
				}
				// ask the Go runtime for a goroutine dump first (it names the
				// function the worker is stuck in), then make sure it is dead
				_ = p.cmd.Process.Signal(syscall.SIGUSR1)
				for t0 := time.Now(); time.Since(t0) < 15*time.Second; time.Sleep(200 * time.Millisecond) {
					if strings.Contains(p.stderr.String(), dumpEnd) {
						break
					}
				}
				p.kill()
				return reply{}, &failure{wedged: true, stderr: p.stderr.String(), last: last, partial: partial}
			}
		}
	}
}

// ---------------------------------------------------------------------------
// the pool

type pool struct {
	r        *core.Run
	thorough bool
	n        int
	nextID   int64
	scratch  string
	abandon  int32 // set when the current space is given up after mass failures of confirmed classes
	known    []string
	sampled  map[string]bool
	obs      map[string]string

	mu        sync.Mutex
	classSeen map[string]int
	repeats   map[string]int64 // deaths of an already thrice-confirmed class, not re-confirmed
	reps      map[string]int64 // (fn \x00 kind) -> lowest producing index, per current space
	okIdx     map[int64]bool
	stats     map[string]*spaceStat
	harness   []string
}

type spaceStat struct {
	Size, Cases, Evals, Skipped, Values, Nontriv, Deaths int64
	WallS                                                float64
	Capped                                               bool
}

func newPool(r *core.Run) *pool {
	return &pool{r: r, thorough: r.Thorough(), n: r.Workers, classSeen: map[string]int{}, repeats: map[string]int64{},
		stats: map[string]*spaceStat{}, known: knownClasses(), sampled: map[string]bool{}, obs: map[string]string{}}
}

// knownClasses reads the class globs of the recorded C03 findings.  They are
// used for ONE thing only: a space is not abandoned because of repeated deaths
// of a recorded class (the enumeration must go on so that a different failure
// is still found).  Whether a violation is "known" is decided by core.Finish.
func knownClasses() []string {
	b, err := os.ReadFile(core.VerifDir + "/known_findings.jsonl")
	if err != nil {
		return nil
	}
	var out []string
	for _, ln := range strings.Split(string(b), "\n") {
		var k struct{ Status, Property, Class string }
		if json.Unmarshal([]byte(strings.TrimSpace(ln)), &k) == nil && k.Status == "known" && k.Property == "C03" {
			out = append(out, k.Class)
		}
	}
	return out
}

func (pl *pool) isKnown(class string) bool {
	for _, g := range pl.known {
		if core.Glob(g, class) {
			return true
		}
	}
	return false
}

type wslot struct {
	pl    *pool
	p     *proc
	stack int     // goroutine stack ceiling of this slot's workers (0 = Go's default)
	cpu   float64 // CPU-seconds watchdog per batch (0 = watchdogCPU)
}

func (w *wslot) ensure() error {
	if w.p != nil {
		select {
		case <-w.p.exited:
			w.p = nil
		default:
			return nil
		}
	}
	// start a worker and shake hands with it; a worker that cannot even answer
	// a no-op (fork failure, address-space limit too small for the Go runtime
	// on this machine, ...) is a HARNESS problem and must never be attributed
	// to a case
	var lastErr error
	for attempt := 0; attempt < 6; attempt++ {
		if attempt > 0 {
			time.Sleep(time.Duration(attempt) * 2 * time.Second)
		}
		p, err := startProc(w.pl.scratch, w.stack)
		if err != nil {
			lastErr = err
			continue
		}
		_, f := p.do(request{ID: atomic.AddInt64(&w.pl.nextID, 1)}, 0)
		if f != nil {
			lastErr = fmt.Errorf("worker did not answer the handshake: %s", tail(strings.TrimSpace(f.stderr), 200))
			p.kill()
			continue
		}
		w.p = p
		return nil
	}
	return lastErr
}

func (w *wslot) restart() {
	if w.p != nil {
		w.p.kill()
		w.p = nil
	}
}

func (w *wslot) do(rq request) (reply, *failure) {
	if err := w.ensure(); err != nil {
		return reply{Err: "cannot start worker: " + err.Error()}, nil
	}
	rq.ID = atomic.AddInt64(&w.pl.nextID, 1)
	rp, f := w.p.do(rq, w.cpu)
	if f != nil {
		w.restart()
	}
	return rp, f
}

func (pl *pool) absorb(sp *space, rp *reply) {
	r := pl.r
	if rp.Err != "" {
		pl.mu.Lock()
		pl.harness = append(pl.harness, rp.Err)
		pl.mu.Unlock()
		r.Cap("harness error in space " + sp.Name + " (a batch was not run): " + rp.Err)
		return
	}
	r.AddEvals(rp.Evals)
	r.AddTransitions(rp.Trans)
	r.AddStates(rp.Cases - rp.Skipped)
	for c, n := range rp.Outcomes {
		for i := int64(0); i < n; i++ {
			r.Outcome(c)
		}
	}
	for _, k := range rp.NKeys {
		r.Nontrivial(k)
	}
	for _, s := range rp.Samples {
		// one real, value-producing case per space
		pl.mu.Lock()
		first := !pl.sampled[sp.Name]
		pl.sampled[sp.Name] = true
		pl.mu.Unlock()
		if first {
			r.Sample(s)
		}
	}
	for _, v := range rp.Vios {
		pl.violate(v.Class, v.Case, v.Got, "")
	}
	for _, f := range rp.Flaky {
		r.Flaky(f)
	}
	if len(rp.Obs) > 0 {
		pl.mu.Lock()
		for k, v := range rp.Obs {
			pl.obs[sp.Name+" "+k] = v
		}
		pl.mu.Unlock()
	}
	pl.mu.Lock()
	st := pl.stats[sp.Name]
	st.Cases += rp.Cases
	st.Evals += rp.Evals
	st.Skipped += rp.Skipped
	st.Values += rp.Values
	st.Nontriv += rp.Nontriv
	for k, i := range rp.Reps {
		if old, ok := pl.reps[k]; !ok || i < old {
			pl.reps[k] = i
		}
	}
	for _, i := range rp.OKIdx {
		pl.okIdx[i] = true
	}
	pl.mu.Unlock()
}

const expectation = "the load returns a value or an ordinary error: no recovered host panic (lisp.IsInternalPanic false), no Go panic escapes, the process survives and answers within the watchdog"

func (pl *pool) violate(class string, k kase, got, note string) {
	pl.mu.Lock()
	pl.classSeen[class]++
	pl.mu.Unlock()
	pl.r.Violate("c03", class, k, expectation, got, note)
}

func (pl *pool) request(sp *space, aux string, lo, hi int64) request {
	return request{Space: sp.Name, Thorough: pl.thorough, Aux: aux, Lo: lo, Hi: hi, Progress: sp.Heavy}
}

// runRange runs [lo,hi) on w; a dead or wedged worker's range is bisected to
// single cases, each of which is re-run 5x before it is reported.
func (pl *pool) runRange(w *wslot, sp *space, aux string, lo, hi int64) (localized bool) {
	if lo >= hi || atomic.LoadInt32(&pl.abandon) != 0 {
		return true
	}
	rp, f := w.do(pl.request(sp, aux, lo, hi))
	if f == nil {
		pl.absorb(sp, &rp)
		return true
	}
	pl.mu.Lock()
	pl.stats[sp.Name].Deaths++
	pl.mu.Unlock()
	if hi-lo == 1 {
		pl.confirm(w, sp, aux, lo, f)
		return true
	}
	if f.last >= lo && f.last < hi {
		// the worker told us which case it was running, and streamed the
		// results of the cases before it
		s := f.last
		if f.partial != nil {
			pl.absorb(sp, f.partial)
		} else {
			pl.runRange(w, sp, aux, lo, s)
		}
		pl.confirm(w, sp, aux, s, f)
		pl.runRange(w, sp, aux, s+1, hi)
		return true
	}
	mid := (lo + hi) / 2
	pl.runRange(w, sp, aux, lo, mid)
	pl.runRange(w, sp, aux, mid, hi)
	return true
}

func tail(s string, n int) string {
	if len(s) > n {
		return s[:n]
	}
	return s
}

func deathClass(f *failure, k *kase) (class, got string) {
	reason, where := fatalClass(f.stderr, f.wedged)
	target := caseTarget(k)
	if where == "" {
		where = target
	}
	if !f.wedged && k.Fn != "" && !strings.Contains(reason, "stack") {
		// a death that is not a stack overflow (out of memory: a loop that grows
		// without asking a limit) has no recursion for the dump to name -- the
		// most frequent frames are the ones every load shares (LoadContext) --
		// so in a call space the callable under test is the specific identity
		where = target
	}
	if f.wedged {
		// named by the function that dominates the stuck goroutine's stack
		// (from the SIGQUIT dump), or by the case's context when there is none
		return "wedge:" + where, "the worker did not return: it consumed its CPU-time watchdog (or " + watchdogWall.String() + " of wall clock) on this single case and was killed; stuck in " + where
	}
	return "fatal:" + reason + ":" + where, "the worker process died: " + tail(strings.TrimSpace(f.stderr), 300)
}

// confirm re-runs one case 5x, each in a fresh worker and a fresh runtime.
func (pl *pool) confirm(w *wslot, sp *space, aux string, idx int64, first *failure) {
	k := sp.Case(idx)
	class, got := deathClass(first, &k)
	pl.mu.Lock()
	seen := pl.classSeen[class]
	if seen >= 3 {
		pl.repeats[class]++
		if pl.repeats[class] >= 3 && !pl.isKnown(class) {
			// a systematic failure: three confirmed cases and three more deaths of
			// the same class; enumerating the rest of this space only costs time
			atomic.StoreInt32(&pl.abandon, 1)
		}
	}
	pl.mu.Unlock()
	if seen >= 3 {
		return // this class already has three confirmed cases; counted, not re-confirmed
	}
	// five re-runs, each in a fresh worker process and a fresh runtime; they run
	// side by side unless the space is memory-hungry
	type outcome struct {
		rp   reply
		fail *failure
	}
	res := make([]outcome, 5)
	runOne := func(i int, ws *wslot) {
		ws.restart()
		rq := pl.request(sp, aux, idx, idx+1)
		rq.Fresh = true
		rq.Progress = false
		res[i].rp, res[i].fail = ws.do(rq)
	}
	if sp.Heavy {
		for i := range res {
			runOne(i, w)
		}
	} else {
		var wg sync.WaitGroup
		for i := range res {
			wg.Add(1)
			go func(i int) {
				defer wg.Done()
				ws := &wslot{pl: pl, stack: sp.Stack, cpu: sp.WatchCPU}
				defer ws.restart()
				runOne(i, ws)
			}(i)
		}
		wg.Wait()
	}
	fails := 0
	var okReply *reply
	for i := range res {
		if res[i].fail != nil {
			fails++
		} else if okReply == nil {
			okReply = &res[i].rp
		}
	}
	if fails == 5 {
		pl.violate(class, k, got, "reproduced 5/5 in fresh worker processes")
		return
	}
	if okReply != nil {
		pl.absorb(sp, okReply)
	}
	pl.r.Flaky(flakyRec{Note: fmt.Sprintf("%s: worker died/wedged on this case, reproduced %d/5 alone in fresh workers", class, fails), Case: k})
}

// runSpace enumerates a whole space over the worker pool.
func (pl *pool) runSpace(sp *space, aux string) {
	t0 := time.Now()
	pl.mu.Lock()
	pl.stats[sp.Name] = &spaceStat{Size: sp.Size}
	pl.reps = map[string]int64{}
	pl.okIdx = map[int64]bool{}
	pl.mu.Unlock()
	atomic.StoreInt32(&pl.abandon, 0)
	n := pl.n
	if sp.Heavy && n > 6 {
		n = 6
	}
	var next int64
	var capped int32
	var wg sync.WaitGroup
	for i := 0; i < n; i++ {
		wg.Add(1)
		go func() {
			defer wg.Done()
			w := &wslot{pl: pl, stack: sp.Stack, cpu: sp.WatchCPU}
			defer w.restart()
			for {
				lo := atomic.AddInt64(&next, sp.Batch) - sp.Batch
				if lo >= sp.Size {
					return
				}
				if pl.r.Expired() {
					atomic.StoreInt32(&capped, 1)
					return
				}
				if atomic.LoadInt32(&pl.abandon) != 0 {
					atomic.StoreInt32(&capped, 2)
					return
				}
				hi := lo + sp.Batch
				if hi > sp.Size {
					hi = sp.Size
				}
				pl.runRange(w, sp, aux, lo, hi)
			}
		}()
	}
	wg.Wait()
	pl.mu.Lock()
	st := pl.stats[sp.Name]
	st.WallS = time.Since(t0).Seconds()
	st.Capped = capped != 0
	pl.mu.Unlock()
	switch capped {
	case 1:
		pl.r.Cap(fmt.Sprintf("soft deadline reached in space %s (%d of %d cases run)", sp.Name, st.Cases, sp.Size))
	case 2:
		pl.r.Cap(fmt.Sprintf("space %s abandoned after a systematic worker failure (3 confirmed + 3 further deaths of one class; %d of %d cases run)", sp.Name, st.Cases, sp.Size))
	}
}

// runCase runs one literal case in a fresh worker (used by replay).
func runCaseIsolated(k kase) (reply, *failure) {
	p, err := startProc("", k.Stack)
	if err != nil {
		return reply{Err: err.Error()}, nil
	}
	defer p.kill()
	return p.do(request{ID: 1, Case: &k}, 0)
}

func writeAux(dir, name string, a auxData) (string, error) {
	b, err := json.Marshal(a)
	if err != nil {
		return "", err
	}
	path := dir + "/" + name + ".json"
	return path, os.WriteFile(path, b, 0o644)
}

var _ = bytes.MinRead
