package c03

import (
	"fmt"
	"strings"
)

// Shared-substructure cycles.  A TOWER of depth d holds, at every level, the
// level below k times (so its bottom is reachable along k^d distinct paths),
// and is closed into a cycle by storing the top inside the bottom container.
// A walk that visits every NODE once handles it in d steps; a walk that
// enumerates every PATH needs k^d of them -- which is what distinguishes a
// visited-set guard from a path-scoped one, and what a plain self-containing
// value cannot show.  The acyclic towers are controls: they are genuinely
// exponential for the unchanged code too (an acyclic value is walked in full),
// so they exist only at depths where k^d is small.

type towerKind struct {
	name   string
	bottom string             // expression building the (empty, mutable) bottom container
	level  func(k int) string // expression building one level from `cur`
	close  string             // statement storing the top (cur) inside the bottom
}

func rep(s string, k int) string { return strings.TrimSpace(strings.Repeat(s+" ", k)) }

func mapLevel(k int) string {
	var b strings.Builder
	b.WriteString("(sorted-map")
	for i := 0; i < k; i++ {
		fmt.Fprintf(&b, " \"k%d\" cur", i)
	}
	b.WriteString(")")
	return b.String()
}

var towerKinds = []towerKind{
	{"vectors", `(vector)`, func(k int) string { return "(vector " + rep("cur", k) + ")" }, `(append! bottom cur)`},
	{"lists-in-vectors", `(vector)`, func(k int) string { return "(vector (list " + rep("cur", k) + "))" }, `(append! bottom (list cur))`},
	{"sorted-maps", `(sorted-map)`, mapLevel, `(assoc! bottom "up" cur)`},
	{"mixed", `(vector)`, func(k int) string { return "(vector " + mapLevel(k-1) + " (list cur))" }, `(append! bottom (sorted-map "up" cur))`},
}

var (
	towerDepths        = []int{8, 16, 24, 32, 48}
	towerWidths        = []int{2, 3}
	acyclicTowerDepths = map[int][]int{2: {4, 8}, 3: {4, 6}} // k^d <= 729 leaves (measured: 4096 and 6561 leaves cost 0.2-0.6 s per case on the unchanged tree)
)

// towerExpr is an expression whose value is the top of the tower.
func towerExpr(t towerKind, k, d int, cyclic bool) string {
	cl := ""
	if cyclic {
		cl = " " + t.close
	}
	return fmt.Sprintf("(let* ([bottom %s] [cur bottom]) (dotimes (i %d) (set! cur %s))%s cur)", t.bottom, d, t.level(k), cl)
}

func towerWalkValues() []walkValue {
	var out []walkValue
	for _, t := range towerKinds {
		for _, k := range towerWidths {
			for _, d := range towerDepths {
				out = append(out, walkValue{fmt.Sprintf("cyclic-tower-%s-x%d-d%d", t.name, k, d), towerExpr(t, k, d, true)})
			}
			for _, d := range acyclicTowerDepths[k] {
				out = append(out, walkValue{fmt.Sprintf("acyclic-tower-%s-x%d-d%d", t.name, k, d), towerExpr(t, k, d, false)})
			}
		}
	}
	return out
}

// towerCyclics feeds a spread of the cyclic towers to every registered
// callable in every position (sink-cyclic).
func towerCyclics() []cyclic {
	var out []cyclic
	for _, t := range towerKinds {
		for _, k := range towerWidths {
			for _, d := range []int{8, 24, 48} {
				e := towerExpr(t, k, d, true)
				out = append(out, cyclic{fmt.Sprintf("tower-%s-x%d-d%d", t.name, k, d), "(set 'd " + e + ") (set 'k " + e + ")"})
			}
		}
	}
	return out
}

var (
	walkValues = append(append([]walkValue(nil), walkValuesBase...), towerWalkValues()...)
	cyclics    = append(append([]cyclic(nil), cyclicsBase...), towerCyclics()...)
)

// maxOutputBytes bounds what a case over these small self-containing inputs
// may produce (rendered result, error text, debug output).  The unchanged
// code renders the 17-container tower in 305 bytes; the per-operation limit
// MaxAlloc (10^6) caps every string a builtin may build; 4*10^6 is above both
// by a wide margin and far below what a walk enumerating k^d paths emits.
const maxOutputBytes = 4_000_000
