package c16

// The form space: whole forms instead of tokens, so that one file can hold
// several occurrences of the same head under different layouts, and a
// history dimension: files formatted one after the other with ONE *Config
// (what `elps fmt a.lisp b.lisp` does) against the same file formatted alone
// with a fresh one.
//
//	head   x  every indent style, from the default table, from a caller's table, from no table
//	layout x  first argument inline / on a new line, later arguments inline / wrapped, a comment after the head
//	nest   x  top level / inside (progn ...)
//
// For every ordered pair (quick) or triple (thorough) of forms and every
// configuration of formConfigs:
//
//	history   Format(last, cfg) after formatting the earlier forms with the same cfg == Format(last, fresh cfg)
//	file      the forms joined into one file go through checkText (trees, comments, idempotence with the
//	          one reused cfg) and Format(file, reused cfg) == Format(file, fresh cfg), and
//	          Format(Format(file, fresh), another fresh) == Format(file, fresh)
//	config    cfg equals its snapshot afterwards (guard.go)

import (
	"fmt"
	"strings"

	"github.com/luthersystems/elps/formatter"

	"verif/mc/core"
)

var formHeads = []string{
	"thread-first", "thread-last", // IndentAlign entries of the default table
	"progn",      // IndentBody, default table
	"when",       // IndentSpecial 1, default table
	"defun",      // IndentSpecial 2, default table
	"defoo",      // no entry: RuleFor synthesizes the def* rule
	"foo",        // no entry: RuleFor synthesizes the align rule
	"my-align",   // caller-supplied IndentAlign
	"my-body",    // caller-supplied IndentBody
	"my-special", // caller-supplied IndentSpecial 1
	"pkg:my-align",
}

var formLayouts = []string{
	"(H x y z)",
	"(H\n  x\n  y)",
	"(H x\n  y\n  z)",
	"(H\n x y)",
	"(H x y\n z)",
	"(H ; c\n x\n y)",
	"(H x ; c\n y)",
}

var formNests = []string{"F", "(progn\n  F)"}

func customFormRules() map[string]*formatter.IndentRule {
	m := formatter.DefaultRules()
	m["my-align"] = &formatter.IndentRule{Style: formatter.IndentAlign}
	m["my-body"] = &formatter.IndentRule{Style: formatter.IndentBody}
	m["my-special"] = &formatter.IndentRule{Style: formatter.IndentSpecial, HeaderArgs: 1}
	return m
}

// formConfigs are the configurations of the form space.
func formConfigs() []namedCfg {
	var out []namedCfg
	for _, n := range []string{"forms-default", "forms-custom-rules", "forms-custom-rules-indent4"} {
		out = append(out, namedCfg{n, formCfg(n)})
	}
	return out
}

// formCfg builds a fresh configuration object.
func formCfg(name string) *formatter.Config {
	c := formatter.DefaultConfig()
	switch name {
	case "forms-default":
	case "forms-custom-rules":
		c.Rules = customFormRules()
	case "forms-custom-rules-indent4":
		c.Rules = customFormRules()
		c.IndentSize = 4
	default:
		panic("form configuration " + name)
	}
	return c
}

func allForms() []string {
	var out []string
	for _, n := range formNests {
		for _, h := range formHeads {
			for _, l := range formLayouts {
				out = append(out, strings.Replace(n, "F", strings.Replace(l, "H", h, 1), 1))
			}
		}
	}
	return out
}

type formCase struct {
	Space string   `json:"space"`
	Forms []string `json:"forms"`
	Cfg   string   `json:"cfg"`
}

// checkHistory checks one sequence of forms under one configuration of set.
func checkHistory(forms []string, set *cfgSet, ci int) ([]finding, checkStats) {
	var fs []finding
	var st checkStats
	c := set.cfgs[ci]
	one := &cfgSet{cfgs: set.cfgs[ci : ci+1], snaps: set.snaps[ci : ci+1]}
	fresh := func() *formatter.Config { return formCfg(c.name) }
	add := func(f finding) {
		f.Cfg = c.name
		fs = append(fs, f)
	}
	last := forms[len(forms)-1]
	// history: earlier files, then the last one, all with the one shared configuration
	want, werr := fastFormat(last, fresh())
	st.formats++
	for _, f := range forms[:len(forms)-1] {
		_, _ = fastFormat(f, c.cfg)
		st.formats++
	}
	got, gerr := fastFormat(last, c.cfg)
	st.formats++
	st.comparisons++
	if (werr == nil) != (gerr == nil) || string(want) != string(got) {
		add(finding{Class: "history:shared-config", Expected: fmt.Sprintf("Format(%q) with a fresh config: %q %v", last, want, werr),
			Got: fmt.Sprintf("after formatting %q with the same *Config: %q %v", forms[:len(forms)-1], got, gerr)})
	}
	fs = append(fs, one.verify(true)...)
	// the forms as one file, one reused configuration for every pass
	file := strings.Join(forms, "\n") + "\n"
	gfs, gst := checkGuarded(file, one, false, true)
	st.formats += gst.formats
	st.comparisons += gst.comparisons
	st.accepted, st.nodes, st.comments, st.outcome = gst.accepted, gst.nodes, gst.comments, gst.outcome
	fs = append(fs, gfs...)
	// reused against fresh, and idempotence with a fresh configuration per pass
	reused, rerr := fastFormat(file, c.cfg)
	f1, f1err := fastFormat(file, fresh())
	st.formats += 2
	st.comparisons++
	if (rerr == nil) != (f1err == nil) || string(reused) != string(f1) {
		add(finding{Class: "reused-vs-fresh-config", Expected: fmt.Sprintf("%q %v", f1, f1err), Got: fmt.Sprintf("%q %v", reused, rerr)})
	}
	if f1err == nil {
		f2, f2err := fastFormat(string(f1), fresh())
		st.formats++
		st.comparisons++
		if f2err != nil || string(f2) != string(f1) {
			add(finding{Class: "idempotence:fresh-configs", Expected: fmt.Sprintf("%q", f1), Got: fmt.Sprintf("%q %v", f2, f2err)})
		}
		again, aerr := fastFormat(string(reused), c.cfg)
		st.formats++
		st.comparisons++
		if rerr == nil && (aerr != nil || string(again) != string(reused)) {
			add(finding{Class: "idempotence:reused-config", Expected: fmt.Sprintf("%q", reused), Got: fmt.Sprintf("%q %v", again, aerr)})
		}
	}
	fs = append(fs, one.verify(true)...)
	for i := range fs {
		if fs[i].Cfg == "" {
			fs[i].Cfg = c.name
		}
	}
	return fs, st
}

// exploreForms enumerates every sequence of `depth` forms x every form configuration.
func (e *explorer) exploreForms(name string, depth int, forms []string, workers []*wstats) {
	like := formConfigs()
	n := pow(len(forms), depth) * int64(len(like))
	sets := make([]*cfgSet, len(workers))
	core.ParallelRange(e.r, n, func(id int) *wstats {
		sets[id] = ownCfgSet(like)
		return workers[id]
	}, func(w *wstats, idx int64) {
		set := sets[w.id]
		ci := int(idx % int64(len(like)))
		x := idx / int64(len(like))
		seq := make([]string, depth)
		for i := depth - 1; i >= 0; i-- {
			seq[i] = forms[x%int64(len(forms))]
			x /= int64(len(forms))
		}
		fs, st := checkHistory(seq, set, ci)
		w.texts++
		w.formats += int64(st.formats)
		w.comparisons += int64(st.comparisons)
		if st.accepted {
			w.accepted++
			if st.comments > 0 {
				w.withComment++
			}
			if st.outcome == "accepted/reformatted" {
				w.reformatted++
			}
			w.outcomes[fmt.Sprintf("forms:%s findings=%d", st.outcome, len(fs))]++
		} else {
			w.rejected++
			w.outcomes["forms:rejected"]++
		}
		if idx%997 == 0 && len(w.samples) < 3 {
			w.samples = append(w.samples, kase{Space: name, Text: strings.Join(seq, "\n"), Cfg: like[ci].name})
		}
		for _, f := range fs {
			cl := f.Cfg + "/" + f.Class
			w.classes[cl]++
			if w.classes[cl] <= 2 {
				e.reportForms(name, seq, f)
			}
		}
	})
}

// reportForms re-confirms a form-space finding five times with fresh configurations.
func (e *explorer) reportForms(space string, forms []string, f finding) {
	class := f.Cfg + "/" + f.Class
	e.mu.Lock()
	e.reported[class]++
	n := e.reported[class]
	e.mu.Unlock()
	if n > 2 {
		return
	}
	k := formCase{Space: space, Forms: forms, Cfg: f.Cfg}
	hits := 0
	for i := 0; i < 5; i++ {
		if replayForms(k, f.Class) {
			hits++
		}
	}
	if hits == 5 {
		e.r.Violate("c16", class, k, f.Expected, f.Got, "reproduced 5/5 with fresh configuration objects")
	} else {
		e.r.Flaky(map[string]any{"case": k, "class": class, "hits": hits})
	}
}

func replayForms(k formCase, class string) bool {
	for _, c := range formConfigs() {
		if c.name != k.Cfg {
			continue
		}
		set := ownCfgSet([]namedCfg{c})
		fs, _ := checkHistory(k.Forms, set, 0)
		for _, g := range fs {
			if g.Class == class {
				return true
			}
		}
	}
	return false
}
