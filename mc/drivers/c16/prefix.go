package c16

// The longhand prefix-form space.  The reader desugars #'x and #^x to
// (lisp:function x) and (lisp:expr x), and the printer re-sugars a longhand
// form it finds in the source whenever it believes nothing is lost.  This
// space puts a two-element form
//
//	OPEN t1 HEAD t2 OPERAND t3 CLOSE
//
// with every head (the two re-sugared ones, qualified and unqualified
// look-alikes, quoted heads, a plain symbol as control), every operand shape,
// both bracket kinds and EVERY trivia assignment to t1 t2 t3 into every
// context (top level, quoted, nested as an argument, in a bracketed list, in
// a quoted list, as an argument followed by a same-line comment).  The
// oracles are the ones of every other text (checkText + configuration guard).

import (
	"fmt"
	"strings"

	"verif/mc/core"
)

var prefixHeads = []string{"lisp:function", "lisp:expr", "quote", "lisp:quote", "function", "'lisp:function", "'lisp:expr", "a"}

var prefixOperands = []string{"a", "a:b", ":k", "1", "2.0", `"s\t"`, "()", "(a)", "(a b)", "[a]", "(a (b))", "'a", "#'a",
	// operands with a line break INSIDE: the re-sugared form's own newline bookkeeping must come from its prefix, not from
	// the last token of its operand (a closing bracket that starts a line)
	"(a\n)", "(a\n b)", "[a\n]"}

// prefixOperandShapes: the operand-shape sub-space.  The printer may only
// re-sugar (lisp:expr X) / (lisp:function X) when the READER accepts the
// shorthand for that X, and the reader's rule looks INSIDE X (an unbound
// expression may not hold an unquoted nested expression, whatever quoting X
// itself carries): every operand is a quoting prefix (none, ', ”, #', #^) on a
// body from atoms, flat lists, lists holding an unquoted / quoted / bracketed /
// empty list, in both bracket kinds.
func prefixOperandShapes() []string {
	quotes := []string{"", "'", "''", "#'", "#^"}
	bodies := []string{"a", "()", "(a)", "(a b)", "(a (b))", "((a) b)", "(a ())", "((x 1) (y 2))", "(a '(b))", "(a [b])", "(a 'b)", "(a #'b)",
		"[a]", "[(a)]", "[a (b)]", "[(a) (b)]", "[a [b]]", "[]"}
	var out []string
	for _, q := range quotes {
		for _, b := range bodies {
			if (q == "#'" || q == "#^") && b != "a" && b != "(a)" && b != "(a b)" {
				continue // the shorthand itself is only accepted over these
			}
			out = append(out, q+b)
		}
	}
	return out
}

var prefixOpens = []string{"()", "[]"}

var prefixContexts = []string{"F", "'F", "(a F b)", "[F]", "'(a F)", "(a\n  F ; z\n  b)"}

// explorePrefix enumerates the space.  inner are the trivia kinds of t1..t3;
// before / after are the trivia kinds in front of and behind the whole text.
func (e *explorer) explorePrefix(name string, prefixOperands []string, inner, before, after []int, cfgs []namedCfg, workers []*wstats) {
	nh, no, nb, nc := len(prefixHeads), len(prefixOperands), len(prefixOpens), len(prefixContexts)
	n := int64(nh * no * nb * nc)
	nm := func(l []int) string {
		var x []string
		for _, k := range l {
			x = append(x, triviaNames[k])
		}
		return "{" + strings.Join(x, ",") + "}"
	}
	e.r.Bound("space:"+name, fmt.Sprintf("contexts %q x brackets %q x heads %q x operands %q x t1,t2,t3 in %s x leading trivia %s x trailing trivia %s",
		prefixContexts, prefixOpens, prefixHeads, prefixOperands, nm(inner), nm(before), nm(after)))
	core.ParallelRange(e.r, n, func(id int) *wstats {
		workers[id].set = ownCfgSet(cfgs)
		return workers[id]
	}, func(w *wstats, idx int64) {
		x := int(idx)
		head := prefixHeads[x%nh]
		x /= nh
		opnd := prefixOperands[x%no]
		x /= no
		br := prefixOpens[x%nb]
		x /= nb
		ctx := prefixContexts[x%nc]
		acc, intr := false, false
		for _, k0 := range before {
			for _, k1 := range inner {
				for _, k2 := range inner {
					for _, k3 := range inner {
						form := br[:1] + trivia(k1, 1) + head + trivia(k2, 2) + opnd + trivia(k3, 3) + br[1:]
						body := strings.Replace(ctx, "F", form, 1)
						for _, k4 := range after {
							a, i := e.leaf(w, name, trivia(k0, 0)+body+trivia(k4, 4), false)
							acc = acc || a
							intr = intr || i
						}
					}
				}
			}
		}
		if acc && intr {
			e.r.Nontrivial("prefix\x00" + ctx + "\x00" + br + "\x00" + head + "\x00" + opnd)
		}
	})
}
