package c16

import (
	"fmt"
	"github.com/luthersystems/elps/formatter"
	"os"
	"strings"
	"testing"
)

// TestProbe prints the verdicts for the texts in $C16_PROBE (separated by "|||"); a development aid.
func TestProbe(t *testing.T) {
	p := os.Getenv("C16_PROBE")
	if p == "" {
		t.Skip("no C16_PROBE")
	}
	for _, text := range strings.Split(p, "|||") {
		text = strings.NewReplacer(`\n`, "\n", `\t`, "\t", `\r`, "\r", `\v`, "\v", `\f`, "\f").Replace(text)
		fs, st := checkText(text, allConfigs(), true)
		fmt.Printf("TEXT %q accepted=%v outcome=%s nodes=%d comments=%d\n", text, st.accepted, st.outcome, st.nodes, st.comments)
		if st.accepted {
			rd, _ := analyse(text)
			fmt.Printf("  tree %s\n  comments %+v\n", rd.tree, rd.comments)
			for _, c := range allConfigs() {
				out, err := fastFormat(text, c.cfg)
				fmt.Printf("  %-20s %q %v\n", c.name, out, err)
			}
		}
		for _, f := range fs {
			fmt.Printf("  FINDING %s/%s\n     expected %s\n     got      %s\n", f.Cfg, f.Class, f.Expected, f.Got)
		}
	}
}

func BenchmarkCheck(b *testing.B) {
	texts := []string{"(a ; c1\n b)", "'(a\n;; d1\n b)\n", "(a b) ; c2", "[a \"s\\t\"\n\n\n#xFF]", "(\n\n; e1\n\na)", "a b 1"}
	cfgs := allConfigs()
	b.ResetTimer()
	for i := 0; i < b.N; i++ {
		checkText(texts[i%len(texts)], cfgs, false)
	}
}

func BenchmarkReject(b *testing.B) {
	texts := []string{"(a ; c1\n b", "'(a\n;; d1\n b]\n", "(a b)) ; c2", "#' a"}
	cfgs := allConfigs()
	b.ResetTimer()
	for i := 0; i < b.N; i++ {
		checkText(texts[i%len(texts)], cfgs, false)
	}
}

func BenchmarkReal(b *testing.B) {
	texts := []string{"(a ; c1\n b)", "'(a\n;; d1\n b)\n", "(a b) ; c2", "(a b", "#' a"}
	cfgs := allConfigs()
	b.ResetTimer()
	for i := 0; i < b.N; i++ {
		checkText(texts[i%len(texts)], cfgs, true)
	}
}

// TestTables runs the hand-listed tables only and prints every finding.
func TestTables(t *testing.T) {
	if os.Getenv("C16_TABLES") == "" {
		t.Skip("no C16_TABLES")
	}
	table := append([]string{}, extras...)
	for _, l := range literals {
		for _, c := range literalContexts {
			table = append(table, strings.ReplaceAll(c, "%s", l))
		}
	}
	acc := 0
	for _, text := range table {
		fs, st := checkText(text, allConfigs(), true)
		if st.accepted {
			acc++
		}
		for _, f := range fs {
			if f.Cfg == "compact" && strings.HasPrefix(f.Class, "comment-lost:nested") {
				continue
			}
			fmt.Printf("TEXT %q FINDING %s/%s\n     expected %s\n     got      %s\n", text, f.Cfg, f.Class, f.Expected, f.Got)
		}
	}
	fmt.Printf("%d texts, %d accepted\n", len(table), acc)
}

// TestForms runs the form pairs and prints the finding classes; a development aid.
func TestForms(t *testing.T) {
	if os.Getenv("C16_FORMS") == "" {
		t.Skip("no C16_FORMS")
	}
	forms := allForms()
	set := ownCfgSet(formConfigs())
	classes := map[string]int{}
	var first = map[string]string{}
	n := 0
	for _, a := range forms {
		for _, b := range forms {
			for ci := range set.cfgs {
				fs, _ := checkHistory([]string{a, b}, set, ci)
				n++
				for _, f := range fs {
					cl := f.Cfg + "/" + f.Class
					classes[cl]++
					if first[cl] == "" {
						first[cl] = fmt.Sprintf("%q then %q\n     expected %s\n     got      %s", a, b, f.Expected, f.Got)
					}
				}
			}
		}
	}
	fmt.Printf("%d histories over %d forms\n", n, len(forms))
	for cl, c := range classes {
		fmt.Printf("%7d %s\n        %s\n", c, cl, first[cl])
	}
}

// TestStrip shows non-compact StripComments passes; a development aid.
func TestStrip(t *testing.T) {
	p := os.Getenv("C16_STRIP")
	if p == "" {
		t.Skip("no C16_STRIP")
	}
	for _, text := range strings.Split(p, "|||") {
		text = strings.NewReplacer(`\n`, "\n").Replace(text)
		c := formatter.DefaultConfig()
		c.StripComments = true
		o1, e1 := formatter.Format([]byte(text), c)
		o2, e2 := formatter.Format(o1, c)
		o3, e3 := formatter.Format(o2, c)
		fmt.Printf("%q\n  1: %q %v\n  2: %q %v\n  3: %q %v\n", text, o1, e1, o2, e2, o3, e3)
	}
}

// TestBoundary runs the token-size boundary space and prints verdicts; a development aid.
func TestBoundary(t *testing.T) {
	if os.Getenv("C16_BOUND") == "" {
		t.Skip("no C16_BOUND")
	}
	set := ownCfgSet(allConfigs())
	for _, k := range boundKinds {
		for _, n := range boundLengths() {
			for _, ctx := range boundContexts {
				bc := boundCase{Kind: k, Len: n, Ctx: ctx.name}
				fs, st := checkBoundary(k, ctx.name, bc.text(), set)
				if len(fs) == 0 {
					continue
				}
				fmt.Printf("%-10s %7d %-12q accepted=%v findings=%d\n", k, n, ctx.name, st.accepted, len(fs))
				for _, f := range fs {
					fmt.Printf("    %s/%s: %s\n", f.Cfg, f.Class, f.Got)
				}
			}
		}
	}
}

func TestBoundDbg(t *testing.T) {
	if os.Getenv("C16_BDBG") == "" {
		t.Skip("")
	}
	for _, n := range []int{1000, 65536, 131070} {
		text := "(a " + longToken("comment", n) + "\n)\n"
		out, err := formatter.Format([]byte(text), nil)
		s := string(out)
		fmt.Printf("n=%d in=%d out=%d err=%v semis=%d newlines=%d head=%q tail=%q\n", n, len(text), len(s), err, strings.Count(s, ";"), strings.Count(s, "\n"), s[:12], s[len(s)-12:])
		if i := strings.Index(s, "\n"); i >= 0 {
			fmt.Printf("   first line %d bytes; second line starts %q\n", i, s[i+1:i+1+20])
		}
	}
}
