// Package c16: formatting preserves the program and its comments and is idempotent.
//
// Bounded-exhaustive space (DESIGN §C16): every token sequence of length <= L
// over a 16-token alphabet, rendered under every assignment of a trivia string
// (nothing, blank, newline, blank lines, same-line comment, own-line comment,
// comment between blank lines, comment without a final newline) to every gap
// between two tokens and to both ends, with and without a hash-bang line.
// Every text the strict reader accepts is formatted under every configuration
// and checked against the four clauses of the statement; every text it
// rejects must be rejected by Format without output.  See oracle.go.
package c16

import (
	"fmt"
	"os"
	"runtime"
	"runtime/debug"
	"sort"
	"strings"
	"sync"
	"syscall"
	"time"

	"github.com/luthersystems/elps/formatter"

	"verif/mc/core"
)

func init() {
	core.Register(&core.Driver{Property: "C16", Run: run, Replay: replay})
}

// ---------------------------------------------------------------------------
// alphabet

var alphabet = []string{"(", ")", "[", "]", "'", "#'", "#^", "a", "b", ":k", "1", "2.0", "#xFF", `"s\t"`, `"""r"""`, "-",
	"\"\"\"r\n r\"\"\"",          // index 16: a two-line raw string, only in the sub-spaces that list it
	"lisp:function", "lisp:expr"} // 17, 18: the heads of the longhand prefix forms, only in the sub-spaces that list them

const baseTokens = 16

const (
	tvNone = iota
	tvSpace
	tvNL
	tvBlank
	tvSame
	tvOwn
	tvPara
	tvSameNoNL // end slot only
	tvOwnNoNL  // end slot only
	tvTwoSp
	// the line-terminator family: CR LF, bare CR, mixtures, other whitespace
	tvCRLF
	tvCR
	tvTab
	tvVT
	tvFF
	tvLFCR
	tvBlankCRLF
	tvSameCRLF
	tvSameCR
	tvOwnCRLF
	tvOwnCR
	tvOwnLFCR
	tvParaCRLF
	tvSameTab
	tvSameCRCRLF
	numTrivia
)

var triviaNames = [numTrivia]string{`""`, `" "`, `"\n"`, `"\n\n\n"`, `" ; cN\n"`, `"\n;; dN\n"`, `"\n\n; eN\n\n"`, `" ; cN"`, `"\n;; dN"`, `"  "`,
	`"\r\n"`, `"\r"`, `"\t"`, `"\v"`, `"\f"`, `"\n\r"`, `"\r\n\r\n\r\n"`, `" ; cN\r\n"`, `" ; cN\r"`, `"\r\n;; dN\r\n"`, `"\r;; dN\r"`, `"\n;; dN\r"`,
	`"\r\n\r\n; eN\r\n\r\n"`, `"\t; cN\n"`, `" ; cN\r\r\n"`}

// lineTerm is the line-terminator family in enumeration order.
var lineTerm = []int{tvCRLF, tvCR, tvTab, tvVT, tvFF, tvLFCR, tvBlankCRLF, tvSameCRLF, tvSameCR, tvOwnCRLF, tvOwnCR, tvOwnLFCR, tvParaCRLF, tvSameTab, tvSameCRCRLF}

// trivia renders trivia kind k for slot s.  Comment texts carry the slot
// number so that every comment of a text is distinct and a swap is visible.
func trivia(k, s int) string {
	switch k {
	case tvNone:
		return ""
	case tvSpace:
		return " "
	case tvNL:
		return "\n"
	case tvBlank:
		return "\n\n\n"
	case tvSame:
		return fmt.Sprintf(" ; c%d\n", s)
	case tvOwn:
		return fmt.Sprintf("\n;; d%d\n", s)
	case tvPara:
		return fmt.Sprintf("\n\n; e%d\n\n", s)
	case tvSameNoNL:
		return fmt.Sprintf(" ; c%d", s)
	case tvOwnNoNL:
		return fmt.Sprintf("\n;; d%d", s)
	case tvTwoSp:
		return "  "
	case tvCRLF:
		return "\r\n"
	case tvCR:
		return "\r"
	case tvTab:
		return "\t"
	case tvVT:
		return "\v"
	case tvFF:
		return "\f"
	case tvLFCR:
		return "\n\r"
	case tvBlankCRLF:
		return "\r\n\r\n\r\n"
	case tvSameCRLF:
		return fmt.Sprintf(" ; c%d\r\n", s)
	case tvSameCR:
		return fmt.Sprintf(" ; c%d\r", s)
	case tvOwnCRLF:
		return fmt.Sprintf("\r\n;; d%d\r\n", s)
	case tvOwnCR:
		return fmt.Sprintf("\r;; d%d\r", s)
	case tvOwnLFCR:
		return fmt.Sprintf("\n;; d%d\r", s)
	case tvParaCRLF:
		return fmt.Sprintf("\r\n\r\n; e%d\r\n\r\n", s)
	case tvSameTab:
		return fmt.Sprintf("\t; c%d\n", s)
	case tvSameCRCRLF:
		return fmt.Sprintf(" ; c%d\r\r\n", s)
	}
	panic("trivia kind")
}

const hashBangLine = "#!/usr/bin/env elps\n"

// ---------------------------------------------------------------------------
// configurations

type namedCfg struct {
	name string
	cfg  *formatter.Config
}

func customRules(r *formatter.IndentRule) map[string]*formatter.IndentRule {
	m := map[string]*formatter.IndentRule{}
	for _, h := range []string{"a", "b", "k", "-", "aa", "ab", "ba", "bb", "a1", "b1", "-a", "-b"} {
		m[h] = r
	}
	return m
}

func allConfigs() []namedCfg {
	mk := func(f func(c *formatter.Config)) *formatter.Config {
		c := formatter.DefaultConfig()
		f(c)
		return c
	}
	return []namedCfg{
		{"default", formatter.DefaultConfig()},
		{"compact", mk(func(c *formatter.Config) { c.Compact = true })},
		{"compact+strip", mk(func(c *formatter.Config) { c.Compact, c.StripComments = true, true })},
		{"strip", mk(func(c *formatter.Config) { c.StripComments = true })},
		{"indent4", mk(func(c *formatter.Config) { c.IndentSize = 4 })},
		{"blank0", mk(func(c *formatter.Config) { c.MaxBlankLines = 0 })},
		{"blank2", mk(func(c *formatter.Config) { c.MaxBlankLines = 2 })},
		{"rules-body", mk(func(c *formatter.Config) { c.Rules = customRules(&formatter.IndentRule{Style: formatter.IndentBody}) })},
		{"rules-special1", mk(func(c *formatter.Config) {
			c.Rules = customRules(&formatter.IndentRule{Style: formatter.IndentSpecial, HeaderArgs: 1})
		})},
		{"rules-align-indent1", mk(func(c *formatter.Config) {
			c.Rules = customRules(&formatter.IndentRule{Style: formatter.IndentAlign})
			c.IndentSize = 1
		})},
	}
}

func cfgByName(name string) (namedCfg, bool) {
	if c, ok := cfgByNameIn(allConfigs(), name); ok {
		return c, true
	}
	return cfgByNameIn(blankConfigs(), name) // the MaxBlankLines family of the gap space (gaps.go)
}

func pickCfgs(names ...string) []namedCfg {
	var out []namedCfg
	for _, n := range names {
		c, ok := cfgByName(n)
		if !ok {
			panic("config " + n)
		}
		out = append(out, c)
	}
	return out
}

// ---------------------------------------------------------------------------
// sub-spaces

type spec struct {
	Name     string
	MinL     int
	MaxL     int
	Light    []int // trivia kinds allowed in every slot without limit
	Heavy    []int // trivia kinds allowed in at most MaxHeavy slots of one text
	MaxHeavy int
	EndExtra []int // additional (heavy) kinds for the last slot
	HashBang []bool
	Cfgs     []namedCfg
	Real     bool   // also drive the production entry point formatter.Format
	Prune    bool   // sequences with ill-nested brackets: light assignments only
	Alpha    []int  // indices into alphabet; nil = the whole alphabet
	Glue     bool   // the light trivia are fixed by position: "" at the start and after a prefix token (' #' #^), "\n" at the end, " " elsewhere
	HBLine   string // the hash-bang line when HashBang is true; "" = hashBangLine
	GlueNL   bool   // with Glue: "\n" is a second light choice in every slot except directly after #' and #^
}

func (s spec) alpha() []int {
	if s.Alpha != nil {
		return s.Alpha
	}
	a := make([]int, baseTokens)
	for i := range a {
		a[i] = i
	}
	return a
}

func isPrefixTok(t int) bool { return t == 4 || t == 5 || t == 6 }

func (s spec) describe() string {
	nm := func(l []int) string {
		var x []string
		for _, k := range l {
			x = append(x, triviaNames[k])
		}
		return "{" + strings.Join(x, ",") + "}"
	}
	var cn []string
	for _, c := range s.Cfgs {
		cn = append(cn, c.name)
	}
	var an []string
	for _, t := range s.alpha() {
		an = append(an, alphabet[t])
	}
	light := nm(s.Light)
	if s.Glue {
		light = `positional: "" at the start and after ' #' #^, "\n" at the end, " " elsewhere`
		if s.GlueNL {
			light += `; or "\n" in any slot except directly after #' and #^`
		}
	}
	return fmt.Sprintf("L=%d..%d tokens=%v light=%s heavy=%s in<=%d slots endExtra=%s hashbang=%v real=%v prune=%v cfgs=%v",
		s.MinL, s.MaxL, an, light, nm(s.Heavy), s.MaxHeavy, nm(s.EndExtra), s.HashBang, s.Real, s.Prune, cn)
}

// wellNested reports whether the bracket tokens of seq nest properly.
func wellNested(seq []int) bool {
	var st []int
	for _, t := range seq {
		switch t {
		case 0, 2:
			st = append(st, t)
		case 1, 3:
			if len(st) == 0 || st[len(st)-1] != t-1 {
				return false
			}
			st = st[:len(st)-1]
		}
	}
	return len(st) == 0
}

// ---------------------------------------------------------------------------
// per-worker counters

type wstats struct {
	texts, accepted, rejected int64
	formats, comparisons      int64
	withComment, reformatted  int64
	outcomes                  map[string]int64
	classes                   map[string]int64
	samples                   []kase
	sinceGC                   int
	id                        int
	set                       *cfgSet // this worker's private configuration objects for the current sub-space
	base                      []int   // gap space only: per configuration of set the index of its mode's base configuration
}

type kase struct {
	Space string `json:"space"`
	Text  string `json:"text"`
	Cfg   string `json:"cfg,omitempty"`
	Real  bool   `json:"real"`
	// Cfgs is the configuration list the text was checked under when Cfg names a
	// family ("noncompact", ...) instead of one configuration.
	Cfgs []string `json:"cfgs,omitempty"`
}

// cfgsFor resolves the configurations a case is re-run under.
func cfgsFor(cfg string, list []string) []namedCfg {
	if c, ok := cfgByName(cfg); ok {
		return []namedCfg{c}
	}
	if len(list) == 0 {
		return allConfigs()
	}
	var like []namedCfg
	for _, n := range list {
		like = append(like, namedCfg{name: n})
	}
	return ownCfgSet(like).cfgs
}

type explorer struct {
	r        *core.Run
	mu       sync.Mutex
	reported map[string]int
}

// report re-confirms a finding five times through both entry points and files it.
func (e *explorer) report(sp string, text string, f finding, under []namedCfg) {
	class := f.Cfg + "/" + f.Class
	e.mu.Lock()
	e.reported[class]++
	n := e.reported[class]
	e.mu.Unlock()
	if n > 2 { // two recorded cases per class: core stops a run at 40 recorded violations, known findings included
		return
	}
	k := kase{Space: sp, Text: text, Cfg: f.Cfg, Real: true}
	if _, single := cfgByName(f.Cfg); !single {
		for _, c := range under {
			k.Cfgs = append(k.Cfgs, c.name)
		}
	}
	cfgs := cfgsFor(k.Cfg, k.Cfgs)
	hits := 0
	for i := 0; i < 5; i++ {
		fs, _ := checkGuarded(text, ownCfgSet(cfgs), true, true)
		for _, g := range fs {
			if g.Class == f.Class && g.Cfg == f.Cfg {
				hits++
				break
			}
		}
	}
	switch {
	case hits == 5:
		e.r.Violate("c16", class, k, f.Expected, f.Got, "reproduced 5/5 through formatter.Format")
	case hits == 0 && !strings.HasPrefix(f.Class, "harness"):
		// only visible through FormatProgram over a shared parse: report it as such
		fs, _ := checkGuarded(text, ownCfgSet(cfgs), false, true)
		again := false
		for _, g := range fs {
			if g.Class == f.Class && g.Cfg == f.Cfg {
				again = true
			}
		}
		if again {
			k.Real = false
			e.r.Violate("c16", class+":fast-path-only", k, f.Expected, f.Got, "reproduces only through FormatProgram, not through Format")
		} else {
			e.r.Flaky(map[string]any{"case": k, "class": class, "hits": hits})
		}
	default:
		e.r.Flaky(map[string]any{"case": k, "class": class, "hits": hits})
	}
}

// leaf checks one text with the worker's private configurations and books the result.
func (e *explorer) leaf(w *wstats, space, text string, real bool) (accepted, interesting bool) {
	var fs []finding
	var st checkStats
	under := w.set.cfgs
	if w.base != nil {
		fs, st = checkCollapsed(text, w.set, w.base)
		under = gapBases(w.set.cfgs, w.base)
	} else {
		fs, st = checkGuarded(text, w.set, real, false)
	}
	w.texts++
	if real {
		// formatter.Format allocates a 128 KiB scanner buffer per call; on a
		// loaded machine the concurrent collector falls behind that rate, so
		// collect explicitly every few hundred calls
		if w.sinceGC += st.formats; w.sinceGC > 400 {
			runtime.GC()
			w.sinceGC = 0
		}
	}
	w.formats += int64(st.formats)
	w.comparisons += int64(st.comparisons)
	if st.accepted {
		w.accepted++
		accepted = true
		if st.comments > 0 {
			w.withComment++
		}
		if st.outcome == "accepted/reformatted" {
			w.reformatted++
			if st.comments > 0 {
				interesting = true
			}
		}
		nc := st.comments
		if nc > 3 {
			nc = 3
		}
		oc := fmt.Sprintf("%s comments=%d findings=%d", st.outcome, nc, len(fs))
		w.outcomes[oc]++
		if len(w.samples) < 2 && st.comments > 0 && st.nodes > 1 && st.outcome == "accepted/reformatted" {
			w.samples = append(w.samples, kase{Space: space, Text: text})
		}
	} else {
		w.rejected++
		w.outcomes[st.outcome]++
	}
	for _, f := range fs {
		cl := f.Cfg + "/" + f.Class
		w.classes[cl]++
		if w.classes[cl] <= 2 {
			e.report(space, text, f, under)
		}
	}
	return accepted, interesting
}

// ---------------------------------------------------------------------------
// enumeration of one sub-space

func cpuSeconds() float64 {
	var ru syscall.Rusage
	if syscall.Getrusage(syscall.RUSAGE_SELF, &ru) != nil {
		return 0
	}
	return float64(ru.Utime.Sec+ru.Stime.Sec) + float64(ru.Utime.Usec+ru.Stime.Usec)/1e6
}

func pow(b, e int) int64 {
	n := int64(1)
	for i := 0; i < e; i++ {
		n *= int64(b)
	}
	return n
}

func (e *explorer) explore(s spec, workers []*wstats) {
	r := e.r
	for L := s.MinL; L <= s.MaxL; L++ {
		alpha := s.alpha()
		nseq := pow(len(alpha), L)
		nhb := int64(len(s.HashBang))
		// trivia strings per slot
		slotStr := make([][numTrivia]string, L+1)
		for sl := 0; sl <= L; sl++ {
			for k := 0; k < numTrivia; k++ {
				slotStr[sl][k] = trivia(k, sl)
			}
		}
		core.ParallelRange(r, nseq*nhb, func(id int) *wstats {
			workers[id].set = ownCfgSet(s.Cfgs)
			return workers[id]
		}, func(w *wstats, idx int64) {
			hb := s.HashBang[idx%nhb]
			x := idx / nhb
			seq := make([]int, L)
			for i := L - 1; i >= 0; i-- {
				seq[i] = alpha[x%int64(len(alpha))]
				x /= int64(len(alpha))
			}
			lightOnly := s.Prune && !wellNested(seq)
			buf := make([]byte, 0, 128)
			if hb {
				if s.HBLine != "" {
					buf = append(buf, s.HBLine...)
				} else {
					buf = append(buf, hashBangLine...)
				}
			}
			seqAccepted, seqInteresting := false, false
			var rec func(slot, heavy int, buf []byte)
			rec = func(slot, heavy int, buf []byte) {
				if slot > L {
					text := string(buf)
					acc, intr := e.leaf(w, s.Name, text, s.Real)
					seqAccepted = seqAccepted || acc
					seqInteresting = seqInteresting || intr
					return
				}
				try := func(k int, isHeavy bool) {
					h := heavy
					if isHeavy {
						h++
						if h > s.MaxHeavy || lightOnly {
							return
						}
					}
					nb := append(buf, slotStr[slot][k]...)
					if slot < L {
						nb = append(nb, alphabet[seq[slot]]...)
					}
					rec(slot+1, h, nb)
				}
				if s.Glue {
					def := tvSpace
					switch {
					case slot == L && L > 0:
						def = tvNL
					case slot == 0 || isPrefixTok(seq[slot-1]):
						def = tvNone
					}
					try(def, false)
					if s.GlueNL && def != tvNL && !(slot > 0 && (seq[slot-1] == 5 || seq[slot-1] == 6)) {
						try(tvNL, false)
					}
				} else {
					for _, k := range s.Light {
						try(k, false)
					}
				}
				for _, k := range s.Heavy {
					try(k, true)
				}
				if slot == L {
					for _, k := range s.EndExtra {
						try(k, true)
					}
				}
			}
			rec(0, 0, buf)
			if seqAccepted && seqInteresting {
				key := ""
				for _, t := range seq {
					key += alphabet[t] + "\x00"
				}
				r.Nontrivial(key)
			}
		})
	}
}

// extras: hand-listed edge texts outside the product space (hash-bang shapes,
// other literal spellings).  All configurations, both entry points.
var extras = []string{
	"", " ", "\n", "\n\n\n", "#!", "#!\n", "#!x", "#! /usr/bin/env elps", "#!\n\n\na", "#!x\n; c\n", "#!x\n'a", "#!x\n#'a", "#!x\n#^a ; c",
	"#!x\n()", "#!x\n(\n; c\n)", "; c", ";", ";\n;", "a;c", "a ;c\n;d\n\n\n;e", "#o17", "#XfF", "1e5", "1.5E-2", "-2.0", "-#xFF", "--", "-a", "- a",
	"\"\"", "\"a\\\\\"", "\"\"\"r\nr\"\"\"", "(a \"\"\"r\nr\"\"\" b)", "(a\n \"\"\"r\nr\"\"\"\n b)", "'''a", "''[a]", "'#^a", "'#'a", "#^'a", "#^[a]", "#^(a [b])",
	"(lisp:function a)", "(lisp:function ; c\n a)", "(lisp:expr a)", "(lisp:expr ; c\n a)", "(lisp:expr (a (b)))", "(lisp:function (a))", "'(lisp:function a)",
	"(defun a (b)\n  ; c\n  b)", "(let ([a 1] ; c\n      [b 2])\n  a)", "(a\n\n\n b)", "(a  b   :k)", "a  ; c", "(a  ; c\n)", "(  a)", "[  a  ]",
	"(list 1 ; one\r 2)", "(list 1 ; one\r\n 2)\r\n", "(list 1 ; one\r 2)\n", "(a\r b)", "a\r\n\r\n\r\nb\r\n", "; c\r", "; c\r\n", ";\r;\r", "\r", "\r\n", "\t\v\f",
	"#!x\r\n(a)", "#!x\r(a)\n", "#!x\r\n; c\r\n'a\r\n", "#!\r", "#!\r\n", "\"s\r\"", "\"\"\"a\r\nb\"\"\"", "(a \"\"\"a\r\nb\"\"\" ; c\r\n b)",
	"a\u00a0b", "a\u0085b", "(a ; c\u2028 b)", "(a ; c\u0085 b)", "(a ; c\u2028 b)\n", "(a ; c\v b)", "(a ; c\f b)", "(a ; c\v b)\n",
	"a:b", "a:b:c", "a:", ":", "#'a:b", "#'", "#' a", "#^ a", "'", "' ", "(", ")", "(]", "[)", "\"", "\"\"\"", "#", "#q", "1.", "1e", "#x", "#xG", "#o8", "\xff", "a\xff",
}

// literals x literalContexts: every literal spelling of the table in every
// context.  All configurations, both entry points.
var literals = []string{
	"0", "00", "007", "-0", "-1", "+1", "1+", "9223372036854775807", "-9223372036854775808", "9223372036854775808",
	"1e5", "1E5", "1e+5", "1e-5", "1.5e-2", "0.0", "-0.0", "1.0e0", "2.0", "2.50", "1e400", "1.", "1e", ".5", "1.5.2",
	"#x0", "#xff", "#XFF", "#xfF", "#x7fffffffffffffff", "#xffffffffffffffff", "#o17", "#O17", "#o8", "#xg", "-#x1",
	`""`, `"a"`, `"\n"`, `"\\"`, `"\""`, `"a\\"`, `"\x41"`, `"\u00e9"`, `"é"`, `"\t;not a comment"`, `"(]"`, `"\q"`, "\"a\nb\"",
	`""""""`, `"""a"""`, `"""a"b"""`, `"""a""b"""`, `""";c"""`, `"""\n"""`, "\"\"\"a\nb\"\"\"", "\"\"\"\n\"\"\"", `"""(]"""`,
	"a", "a-b", "a.b", "<=", "%", "&rest", "+", "-", "--", "-a", "...", "a1", "é", "λx", "a:b", ":k", ":1", ":", "a:", "a:b:c", "a:1", "true", "()",
}

var literalContexts = []string{"%s", "%s\n", "(%s)", "(a %s)", "(%s a)", "'%s", "[%s %s]", "(a ; c\n %s)", "(a\n  %s ; c\n  )", "(a\n\n\n%s)", ";; c\n%s ; d", "#^%s", "'(%s)", "(a (%s) [%s])"}

// ---------------------------------------------------------------------------

// only implements the development switch C16_ONLY=<substring>[,<substring>...]: run
// only the sub-spaces whose name contains one of the substrings ("tables" = the
// extras and the literal table).  A run under the switch is reported capped.
func only(name string) bool {
	sel := os.Getenv("C16_ONLY")
	if sel == "" {
		return true
	}
	for _, s := range strings.Split(sel, ",") {
		if s != "" && strings.Contains(name, s) {
			return true
		}
	}
	return false
}

func run(r *core.Run) {
	if sel := os.Getenv("C16_ONLY"); sel != "" {
		r.Cap("development switch C16_ONLY=" + sel + ": only the selected sub-spaces were run")
	}
	// the work is millions of tiny short-lived parses over a tiny live heap
	// (not for the sub-spaces that call formatter.Format: its 128 KiB scanner buffers would pile up)
	defer debug.SetGCPercent(debug.SetGCPercent(100))
	all := allConfigs()
	light := []int{tvNone, tvSpace, tvNL}
	heavy := []int{tvBlank, tvSame, tvOwn, tvPara}
	endX := []int{tvSameNoNL, tvOwnNoNL}
	// the production entry point differs from FormatProgram only in the scanner and in its own copy of the
	// compact/non-compact dispatch and newline normalisation, none of which depend on the other options
	realCfgs := pickCfgs("default", "compact", "compact+strip")
	var specs []spec
	small := []int{0, 1, 2, 3, 4, 5, 6, 7, 10} // ( ) [ ] ' #' #^ a 1
	base7 := []int{tvNone, tvSpace, tvNL, tvBlank, tvSame, tvOwn, tvPara}
	lightX := append(append([]int{}, light...), tvTwoSp)
	longhand := []int{0, 1, 2, 3, 4, 17, 18, 7, 10}         // ( ) [ ] ' lisp:function lisp:expr a 1
	ltAll := append(append([]int{}, heavy...), lineTerm...) // LF comments and blank lines + the whole line-terminator family
	lt15 := []int{tvSame, tvOwn, tvCRLF, tvCR, tvTab, tvFF, tvLFCR, tvSameCRLF, tvSameCR, tvOwnCRLF, tvOwnCR, tvOwnLFCR, tvParaCRLF, tvSameTab, tvSameCRCRLF}
	const hbCRLF = "#!/usr/bin/env elps\r\n"
	wide := make([]int, baseTokens+1) // the 16 tokens plus the two-line raw string
	for i := range wide {
		wide[i] = i
	}
	if !r.Thorough() {
		specs = []spec{
			{Name: "Q1-L<=2-every-trivia", MinL: 0, MaxL: 2, Light: light, Heavy: heavy, MaxHeavy: 99, EndExtra: endX, HashBang: []bool{false, true}, Cfgs: all},
			{Name: "Q2-L3-two-heavy-slots", MinL: 3, MaxL: 3, Light: light, Heavy: heavy, MaxHeavy: 2, EndExtra: endX, HashBang: []bool{false}, Cfgs: all},
			{Name: "Q3-L<=2-real-entry", MinL: 0, MaxL: 2, Light: light, Heavy: heavy, MaxHeavy: 99, EndExtra: endX, HashBang: []bool{false, true}, Cfgs: realCfgs, Real: true},
			{Name: "Q4-L4-two-heavy-slots", MinL: 4, MaxL: 4, Glue: true, Heavy: []int{tvSame, tvOwn, tvPara}, MaxHeavy: 2, HashBang: []bool{false}, Cfgs: all, Prune: true},
			// line terminators (no pruning here: a comment ended by a bare CR runs on to the next LF and can swallow brackets)
			{Name: "Q5-L<=2-line-terminators", MinL: 0, MaxL: 2, Light: light, Heavy: ltAll, MaxHeavy: 2, EndExtra: endX, HashBang: []bool{false, true}, HBLine: hbCRLF, Cfgs: all},
			{Name: "Q6-L3-line-terminators", MinL: 3, MaxL: 3, Glue: true, Heavy: lt15, MaxHeavy: 2, EndExtra: endX, HashBang: []bool{false}, Cfgs: all},
			{Name: "Q8-L4-longhand-alphabet", MinL: 4, MaxL: 4, Glue: true, Heavy: heavy, MaxHeavy: 2, EndExtra: endX, HashBang: []bool{false}, Cfgs: all, Prune: true, Alpha: longhand},
			{Name: "Q7-L<=2-line-terminators-real-entry", MinL: 0, MaxL: 2, Glue: true, Heavy: ltAll, MaxHeavy: 2, EndExtra: endX, HashBang: []bool{false}, Cfgs: realCfgs, Real: true},
		}
	} else {
		specs = []spec{
			{Name: "T1-L<=2-every-trivia", MinL: 0, MaxL: 2, Light: lightX, Heavy: heavy, MaxHeavy: 99, EndExtra: endX, HashBang: []bool{false, true}, Cfgs: all, Alpha: wide},
			{Name: "T2-L3-every-trivia", MinL: 3, MaxL: 3, Light: lightX, Heavy: heavy, MaxHeavy: 99, EndExtra: endX, HashBang: []bool{false}, Cfgs: all, Alpha: wide},
			{Name: "T3-L<=2-real-entry", MinL: 0, MaxL: 2, Light: lightX, Heavy: heavy, MaxHeavy: 99, EndExtra: endX, HashBang: []bool{false, true}, Cfgs: realCfgs, Real: true, Alpha: wide},
			{Name: "T4-L4-two-heavy-slots", MinL: 4, MaxL: 4, Glue: true, GlueNL: true, Heavy: heavy, MaxHeavy: 2, EndExtra: endX, HashBang: []bool{false}, Cfgs: all, Prune: true},
			{Name: "T5-L5-two-heavy-slots", MinL: 5, MaxL: 5, Glue: true, Heavy: []int{tvSame, tvOwn, tvPara}, MaxHeavy: 2, HashBang: []bool{false}, Cfgs: all, Prune: true},
			{Name: "T6-L6-small-alphabet", MinL: 6, MaxL: 6, Glue: true, Heavy: []int{tvSame, tvOwn}, MaxHeavy: 2, HashBang: []bool{false}, Cfgs: all, Prune: true, Alpha: small},
			// line terminators (never pruned)
			{Name: "T7-L<=2-line-terminators", MinL: 0, MaxL: 2, Light: lightX, Heavy: ltAll, MaxHeavy: 99, EndExtra: endX, HashBang: []bool{false, true}, HBLine: hbCRLF, Cfgs: all, Alpha: wide},
			{Name: "T8-L3-line-terminators", MinL: 3, MaxL: 3, Glue: true, GlueNL: true, Heavy: ltAll, MaxHeavy: 2, EndExtra: endX, HashBang: []bool{false}, Cfgs: all},
			{Name: "T9-L4-line-terminators", MinL: 4, MaxL: 4, Glue: true, Heavy: []int{tvCRLF, tvCR, tvTab, tvSameCRLF, tvSameCR, tvOwnCRLF, tvOwnCR, tvSameCRCRLF}, MaxHeavy: 2, HashBang: []bool{false}, Cfgs: all},
			{Name: "T11-L<=5-longhand-alphabet", MinL: 4, MaxL: 5, Glue: true, GlueNL: true, Heavy: heavy, MaxHeavy: 2, EndExtra: endX, HashBang: []bool{false}, Cfgs: all, Prune: true, Alpha: longhand},
			{Name: "T10-L<=2-line-terminators-real-entry", MinL: 0, MaxL: 2, Glue: true, Heavy: ltAll, MaxHeavy: 2, EndExtra: endX, HashBang: []bool{false, true}, HBLine: hbCRLF, Cfgs: realCfgs, Real: true, Alpha: wide},
		}
	}
	e := &explorer{r: r, reported: map[string]int{}}
	workers := make([]*wstats, r.Workers)
	for i := range workers {
		workers[i] = &wstats{id: i, outcomes: map[string]int64{}, classes: map[string]int64{}}
	}
	r.Bound("alphabet", alphabet[:baseTokens])
	r.Bound("trivia", triviaNames[:])
	var cn []string
	for _, c := range all {
		cn = append(cn, c.name)
	}
	r.Bound("configurations", cn)
	for _, s := range specs {
		r.Bound("space:"+s.Name, s.describe())
	}
	r.Bound("extras", len(extras))
	r.Rule("text = [hash-bang line] t0 TOK1 t1 ... TOKn tn: every token sequence of the stated length over the alphabet x every trivia assignment of the sub-space (comment texts carry their slot number); " +
		"every text goes to the strict reader; rejected => Format must fail with nil output; accepted => every configuration: typed LVal equality of strict parses, equality of my walker's tree over a re-lex (spellings, bracket kinds), comment list + anchors (unless stripping), Format(out)==out. " +
		"After every text the configuration objects must equal their snapshots (Format does not modify the caller's *Config). " +
		"Form space: every sequence of whole forms (head x layout x nesting) formatted one after the other with one shared *Config vs alone with a fresh one, and as one file with reused vs fresh configurations. " +
		"Gap space: every gap of whole templates (before, between and after the tokens) filled with a run of k comments and n0..nk newlines around them (flush-left or indented lines), one gap and then two gaps at a time, under MaxBlankLines 0..5 in every mode (default, compact, strip, compact+strip), same oracles; nothing is asserted about how many blank lines come out. " +
		"Token-size boundary: one token of every kind at lengths around and beyond token.DefaultBufSize in every context: Format accepts exactly what the production reader parser.NewReader() accepts, rejected => nil output, accepted output is read back by the production reader to the same tree, idempotent. " +
		"Non-trivial = a token sequence with an accepted rendering that carries a comment and is changed by Format; distinct by token sequence")
	r.Assume("a comment in the gap between a prefix token (' #' #^) and its operand counts as preceding the prefix form: the parser documents that it hoists it there (hoistOperandComments); the statement's 'before the same expression' is read modulo that hoist")
	r.Assume("comments directly before a closing bracket or EOF: presence and order only (they precede no expression)")
	r.Assume("#^x and (lisp:expr x), #'x and (lisp:function x) are the same tree (the reader desugars the shorthand); quoting '(..) vs [..] is NOT the same tree (bracket kind)")
	r.Assume("pruned sub-spaces: a token sequence whose brackets do not nest is rendered under the light trivia only; heavy trivia contain no bracket, quote or string characters and end in a newline, so they cannot repair it")
	r.Assume("most of the space is driven through rdparser.NewFormatting(NewScannerString)+formatter.FormatProgram (what Format does minus the 128 KiB scanner buffer); the 'real' sub-spaces call formatter.Format itself and require byte-identical results")
	r.Assume("every configuration object is private to one worker, snapshotted, compared with the snapshot after every text (fields, table size, every rule object; the key-by-key table comparison on every 32nd text and always in the form space and the tables) and restored if it changed, so every text starts from a pristine *Config; given that, a pass with a reused *Config equals a pass with a fresh one, which the form space also checks explicitly")
	r.Assume("StripComments without Compact (configuration strip) is checked for trees and idempotence only; blank-line placement and indentation are free (only trees, comments and idempotence are asserted)")

	perSpace := map[string]any{}
	sum := func() (t, a int64) {
		for _, w := range workers {
			t += w.texts
			a += w.accepted
		}
		return
	}
	// the form space (forms.go): histories of whole forms under one shared *Config; first because it is cheap
	if !r.Expired() && only("form-pairs") {
		forms := allForms()
		depth, name := 2, "QF-form-pairs"
		if r.Thorough() {
			e.exploreFormsTimed("TF-form-pairs", 2, forms, workers, perSpace, sum)
			depth, name, forms = 3, "TF-top-level-form-triples", forms[:len(forms)/len(formNests)]
		}
		e.exploreFormsTimed(name, depth, forms, workers, perSpace, sum)
	}
	// the gap space (gaps.go): comment groups and blank-line runs under every MaxBlankLines
	if gb := gapBoundsFor(r.Thorough()); !r.Expired() && only(gb.name) {
		t0, a0 := sum()
		start, cpu0 := time.Now(), cpuSeconds()
		debug.SetGCPercent(800)
		e.exploreGaps(gb, workers)
		t1, a1 := sum()
		perSpace[gb.name] = map[string]any{"texts": t1 - t0, "accepted": a1 - a0, "wall_s": time.Since(start).Seconds(), "cpu_s": cpuSeconds() - cpu0}
		fmt.Fprintf(os.Stderr, "c16: %s done: %d texts, %d accepted, %.0fs wall, %.0fs cpu, %d violations so far\n", gb.name, t1-t0, a1-a0, time.Since(start).Seconds(), cpuSeconds()-cpu0, r.ViolationCount())
	}
	// the longhand prefix-form space (prefix.go)
	if !r.Expired() && only("longhand-prefix-forms") {
		t0, a0 := sum()
		start, cpu0 := time.Now(), cpuSeconds()
		debug.SetGCPercent(800)
		name := "QP-longhand-prefix-forms"
		if r.Thorough() {
			name = "TP-longhand-prefix-forms"
			e.explorePrefix(name, prefixOperands, append(append([]int{}, base7...), tvTwoSp), []int{tvNone, tvOwn}, []int{tvNone, tvNL, tvSame}, all, workers)
		} else {
			e.explorePrefix(name, []string{"a", "a:b", "1", `"s\t"`, "()", "(a)", "(a b)", "'a", "(a\n)", "[a\n]"}, base7, []int{tvNone}, []int{tvNone}, all, workers)
		}
		t1, a1 := sum()
		perSpace[name] = map[string]any{"texts": t1 - t0, "accepted": a1 - a0, "wall_s": time.Since(start).Seconds(), "cpu_s": cpuSeconds() - cpu0}
		fmt.Fprintf(os.Stderr, "c16: %s done: %d texts, %d accepted, %.0fs wall, %.0fs cpu, %d violations so far\n", name, t1-t0, a1-a0, time.Since(start).Seconds(), cpuSeconds()-cpu0, r.ViolationCount())
		// the operand-shape sub-space of the same family: many operand shapes, lighter trivia
		t0, a0 = sum()
		start, cpu0 = time.Now(), cpuSeconds()
		name += "-operand-shapes"
		if r.Thorough() {
			e.explorePrefix(name, prefixOperandShapes(), base7, []int{tvNone, tvOwn}, []int{tvNone, tvSame}, all, workers)
		} else {
			e.explorePrefix(name, prefixOperandShapes(), []int{tvNone, tvSpace, tvNL, tvSame}, []int{tvNone}, []int{tvNone}, all, workers)
		}
		t1, a1 = sum()
		perSpace[name] = map[string]any{"texts": t1 - t0, "accepted": a1 - a0, "wall_s": time.Since(start).Seconds(), "cpu_s": cpuSeconds() - cpu0}
		fmt.Fprintf(os.Stderr, "c16: %s done: %d texts, %d accepted, %.0fs wall, %.0fs cpu, %d violations so far\n", name, t1-t0, a1-a0, time.Since(start).Seconds(), cpuSeconds()-cpu0, r.ViolationCount())
	}
	// the token-size boundary space (boundary.go)
	if !r.Expired() && only("token-size-boundary") {
		t0, a0 := sum()
		start, cpu0 := time.Now(), cpuSeconds()
		debug.SetGCPercent(100)
		name := "QB-token-size-boundary"
		if r.Thorough() {
			name = "TB-token-size-boundary"
		}
		e.exploreBoundary(name, all, workers)
		t1, a1 := sum()
		perSpace[name] = map[string]any{"texts": t1 - t0, "accepted": a1 - a0, "wall_s": time.Since(start).Seconds(), "cpu_s": cpuSeconds() - cpu0}
		fmt.Fprintf(os.Stderr, "c16: %s done: %d texts, %d accepted, %.0fs wall, %.0fs cpu, %d violations so far\n", name, t1-t0, a1-a0, time.Since(start).Seconds(), cpuSeconds()-cpu0, r.ViolationCount())
	}
	for _, s := range specs {
		if !only(s.Name) {
			continue
		}
		if r.Expired() {
			r.Cap("soft deadline before sub-space " + s.Name)
			break
		}
		t0, a0 := sum()
		start, cpu0 := time.Now(), cpuSeconds()
		if s.Real {
			debug.SetGCPercent(100)
		} else {
			debug.SetGCPercent(800)
		}
		e.explore(s, workers)
		t1, a1 := sum()
		perSpace[s.Name] = map[string]any{"texts": t1 - t0, "accepted": a1 - a0, "wall_s": time.Since(start).Seconds(), "cpu_s": cpuSeconds() - cpu0}
		fmt.Fprintf(os.Stderr, "c16: %s done: %d texts, %d accepted, %.0fs wall, %.0fs cpu, %d violations so far\n", s.Name, t1-t0, a1-a0, time.Since(start).Seconds(), cpuSeconds()-cpu0, r.ViolationCount())
	}
	r.Extra("per_space", perSpace)
	// extras and the literal table
	tabSet := ownCfgSet(all)
	ws := workers[0]
	table := append([]string{}, extras...)
	if !only("tables") {
		table = nil
	}
	for _, l := range literals {
		if !only("tables") {
			break
		}
		for _, c := range literalContexts {
			table = append(table, strings.ReplaceAll(c, "%s", l))
		}
	}
	r.Bound("literal_table", fmt.Sprintf("%d spellings x %d contexts", len(literals), len(literalContexts)))
	for _, t := range table {
		fs, st := checkGuarded(t, tabSet, true, true)
		ws.texts++
		ws.formats += int64(st.formats)
		ws.comparisons += int64(st.comparisons)
		if st.accepted {
			ws.accepted++
		} else {
			ws.rejected++
		}
		ws.outcomes["extra:"+st.outcome]++
		for _, f := range fs {
			ws.classes[f.Cfg+"/"+f.Class]++
			e.report("tables", t, f, tabSet.cfgs)
		}
	}

	// merge
	tot := &wstats{outcomes: map[string]int64{}, classes: map[string]int64{}}
	for _, w := range workers {
		tot.texts += w.texts
		tot.accepted += w.accepted
		tot.rejected += w.rejected
		tot.formats += w.formats
		tot.comparisons += w.comparisons
		tot.withComment += w.withComment
		tot.reformatted += w.reformatted
		for k, v := range w.outcomes {
			tot.outcomes[k] += v
		}
		for k, v := range w.classes {
			tot.classes[k] += v
		}
		for _, s := range w.samples {
			r.Sample(s)
		}
	}
	r.AddStates(tot.texts)
	r.AddEvals(tot.formats)
	r.AddTransitions(tot.comparisons)
	r.AddTraces(tot.accepted)
	r.Extra("texts", tot.texts)
	r.Extra("accepted_texts", tot.accepted)
	r.Extra("rejected_texts", tot.rejected)
	r.Extra("accepted_with_comment", tot.withComment)
	r.Extra("accepted_changed_by_format", tot.reformatted)
	r.Extra("finding_class_counts", tot.classes)
	r.Extra("outcome_counts_exact", tot.outcomes)
	keys := make([]string, 0, len(tot.outcomes))
	for k := range tot.outcomes {
		keys = append(keys, k)
	}
	sort.Strings(keys)
	for _, k := range keys {
		n := tot.outcomes[k]
		if n > 20_000_000 {
			// core has no bulk counter; exact numbers are in coverage.outcome_counts_exact
			n = 20_000_000
		}
		for i := int64(0); i < n; i++ {
			r.Outcome(k)
		}
	}
}

func (e *explorer) exploreFormsTimed(name string, depth int, forms []string, workers []*wstats, perSpace map[string]any, sum func() (int64, int64)) {
	t0, a0 := sum()
	start, cpu0 := time.Now(), cpuSeconds()
	debug.SetGCPercent(800)
	e.r.Bound("space:"+name, fmt.Sprintf("every sequence of %d forms out of %d (heads %v x layouts %q x nestings %q) x configurations {forms-default, forms-custom-rules, forms-custom-rules-indent4}",
		depth, len(forms), formHeads, formLayouts, formNests))
	e.exploreForms(name, depth, forms, workers)
	t1, a1 := sum()
	perSpace[name] = map[string]any{"histories": t1 - t0, "accepted": a1 - a0, "wall_s": time.Since(start).Seconds(), "cpu_s": cpuSeconds() - cpu0}
	fmt.Fprintf(os.Stderr, "c16: %s done: %d histories, %.0fs wall, %.0fs cpu, %d violations so far\n", name, t1-t0, time.Since(start).Seconds(), cpuSeconds()-cpu0, e.r.ViolationCount())
}

func replay(v core.Violation) (bool, string) {
	if bc, err := core.CaseOf[boundCase](v); err == nil && bc.Kind != "" && bc.Len > 0 {
		i := strings.Index(v.Class, "/")
		hit := i >= 0 && replayBoundary(bc, v.Class[i+1:])
		text := bc.text()
		_, rerr := prodRead(text)
		rep := fmt.Sprintf("one %s token of %d bytes in context %s (%d bytes of source); production reader: %v\n", bc.Kind, bc.Len, bc.Ctx, len(text), rerr)
		for _, c := range cfgsFor(bc.Cfg, bc.Cfgs) {
			out, ferr := formatter.Format([]byte(text), c.cfg)
			_, oerr := prodRead(string(out))
			rep += fmt.Sprintf("  Format[%s]: %d bytes, err=%v; production reader on the output: %v\n", c.name, len(out), ferr, oerr)
		}
		return hit, rep
	}
	if fc, err := core.CaseOf[formCase](v); err == nil && len(fc.Forms) > 0 {
		i := strings.Index(v.Class, "/")
		hit := i >= 0 && replayForms(fc, v.Class[i+1:])
		var sb strings.Builder
		fmt.Fprintf(&sb, "forms %q under %s, one shared *Config:\n", fc.Forms, fc.Cfg)
		shared := formCfg(fc.Cfg)
		for _, f := range fc.Forms {
			a, _ := formatter.Format([]byte(f), shared)
			b, _ := formatter.Format([]byte(f), formCfg(fc.Cfg))
			fmt.Fprintf(&sb, "  %q\n    shared config: %q\n    fresh config:  %q\n", f, a, b)
		}
		return hit, sb.String()
	}
	k, err := core.CaseOf[kase](v)
	if err != nil {
		return false, err.Error()
	}
	cfgs := cfgsFor(k.Cfg, k.Cfgs)
	fs, st := checkGuarded(k.Text, ownCfgSet(cfgs), k.Real, true)
	var sb strings.Builder
	fmt.Fprintf(&sb, "text: %q\nstrict reader accepts: %v\n", k.Text, st.accepted)
	for _, c := range cfgs {
		out, err := formatter.Format([]byte(k.Text), c.cfg)
		fmt.Fprintf(&sb, "Format[%s] = %q err=%v\n", c.name, out, err)
	}
	hit := false
	for _, f := range fs {
		cl := f.Cfg + "/" + f.Class
		fmt.Fprintf(&sb, "finding %s\n  expected %s\n  got      %s\n", cl, f.Expected, f.Got)
		if cl == v.Class || cl+":fast-path-only" == v.Class {
			hit = true
		}
	}
	return hit, sb.String()
}
