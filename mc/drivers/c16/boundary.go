package c16

// The token-size boundary space.  token.DefaultBufSize (128 KiB) is the
// production scanner's window and therefore the largest single token any
// reader of the project accepts; a longer one fails with "token exceeds
// maximum allowable size".  The formatter has to share that limit: input the
// reader rejects is rejected without output, and what Format returns must be
// readable.  Every text here goes through the real entry point
// formatter.Format and through the production reader parser.NewReader() (the
// rest of the driver reads with the string scanner, whose window is the
// source and which has no such limit).
//
//	kind    x  symbol, keyword, string, raw string, comment, integer, a run of blanks
//	length  x  limit-2 .. limit+2, 2*limit, 3*limit+7   (length of the one long token)
//	context x  top level, argument of a list, directly after the head, quoted, after other forms, nested deeper
//	config  x  every configuration

import (
	"fmt"
	"strings"

	"github.com/luthersystems/elps/formatter"
	"github.com/luthersystems/elps/lisp"
	"github.com/luthersystems/elps/parser"
	"github.com/luthersystems/elps/parser/lexer"
	"github.com/luthersystems/elps/parser/token"

	"verif/mc/core"
)

var boundKinds = []string{"symbol", "keyword", "string", "raw-string", "comment", "integer", "spaces"}

var boundContexts = []struct{ name, tpl string }{
	{"top", "T\n"},
	{"arg", "(a b T\n)\n"},
	{"after-head", "(a T\n)\n"},
	{"quoted", "'T\n"},
	{"after-forms", "(a b)\n\n(c d T\n   e)\n"},
	{"deep", "(a (b [c T\n]))"},
}

func boundLengths() []int {
	b := token.DefaultBufSize
	return []int{b - 2, b - 1, b, b + 1, b + 2, 2 * b, 3*b + 7}
}

// longToken builds one token of exactly n bytes.
func longToken(kind string, n int) string {
	switch kind {
	case "symbol":
		return strings.Repeat("a", n)
	case "keyword":
		return ":" + strings.Repeat("k", n-1)
	case "string":
		return `"` + strings.Repeat("s", n-2) + `"`
	case "raw-string":
		return `"""` + strings.Repeat("r", n-6) + `"""`
	case "comment":
		return ";" + strings.Repeat("c", n-1)
	case "integer":
		return strings.Repeat("1", n)
	case "spaces": // not a token of the grammar, but one scan of the lexer: a run of blanks before a symbol
		return strings.Repeat(" ", n) + "z"
	}
	panic("token kind " + kind)
}

type boundCase struct {
	Space string   `json:"space"`
	Kind  string   `json:"kind"`
	Len   int      `json:"len"`
	Ctx   string   `json:"ctx"`
	Cfg   string   `json:"cfg"`
	Cfgs  []string `json:"cfgs,omitempty"`
}

func (b boundCase) text() string {
	for _, c := range boundContexts {
		if c.name == b.Ctx {
			return strings.Replace(c.tpl, "T", longToken(b.Kind, b.Len), 1)
		}
	}
	panic("context " + b.Ctx)
}

func prodRead(text string) ([]*lisp.LVal, error) {
	return parser.NewReader().Read("prod", strings.NewReader(text))
}

// prodComments lists the comment texts of text as the lexer over the production scanner delivers them.
func prodComments(text string) []string {
	lx := lexer.New(token.NewScanner("prod", strings.NewReader(text)))
	var out []string
	for i := 0; i < len(text)+8; i++ {
		for _, t := range lx.ReadToken() {
			switch t.Type {
			case token.EOF, token.ERROR, token.INVALID:
				return out
			case token.COMMENT:
				out = append(out, t.Text)
			}
		}
	}
	return out
}

// checkBoundary checks one text against the production reader under cfgs.
func checkBoundary(kind, ctx, text string, set *cfgSet) ([]finding, checkStats) {
	var fs []finding
	var st checkStats
	short := func(s string) string {
		if len(s) > 80 {
			return fmt.Sprintf("%q...(%d bytes)", s[:60], len(s))
		}
		return fmt.Sprintf("%q", s)
	}
	inLV, rerr := prodRead(text)
	st.comparisons++
	st.accepted = rerr == nil
	st.outcome = "boundary:rejected"
	if rerr == nil {
		st.outcome = "boundary:accepted"
	}
	var inComments []string
	if rerr == nil {
		inComments = prodComments(text)
	}
	for _, c := range set.cfgs {
		add := func(class, exp, got string) {
			fs = append(fs, finding{Cfg: c.name, Class: "boundary:" + class + ":" + kind + "@" + ctx, Expected: exp, Got: got})
		}
		out, ferr := formatter.Format([]byte(text), c.cfg)
		st.formats++
		st.comparisons++
		switch {
		case rerr != nil && ferr == nil:
			add("format-accepts-what-the-reader-rejects", "error (production reader: "+rerr.Error()+")", "output "+short(string(out)))
			continue
		case rerr != nil:
			if out != nil {
				add("rejected-input-output", "nil output with the error", short(string(out)))
			}
			continue
		case ferr != nil:
			add("format-rejects-what-the-reader-accepts", "Format accepts "+short(text), ferr.Error())
			continue
		}
		outLV, oerr := prodRead(string(out))
		st.comparisons++
		if oerr != nil {
			add("output-rejected-by-the-reader", "output the production reader accepts", oerr.Error()+" on "+short(string(out)))
			continue
		}
		if d := programEqual(inLV, outLV); d != "" {
			add("tree-changed", "identical typed trees", d)
		}
		nested := !strings.HasPrefix(text, ";") && strings.Contains(text, ";")
		if !c.cfg.StripComments && !(c.cfg.Compact && nested) {
			oc := prodComments(string(out))
			st.comparisons++
			if len(oc) != len(inComments) || (len(oc) > 0 && oc[0] != inComments[0]) {
				add("comment-lost", fmt.Sprintf("%d comments", len(inComments)), fmt.Sprintf("%d comments", len(oc)))
			}
		}
		again, aerr := formatter.Format(out, c.cfg)
		st.formats++
		st.comparisons++
		if aerr != nil {
			add("idempotence:output-rejected", "Format accepts its own output", aerr.Error())
		} else if string(again) != string(out) {
			add("idempotence", short(string(out)), short(string(again)))
		}
	}
	fs = append(fs, set.verify(true)...)
	return mergeFindings(fs, set.cfgs), st
}

func (e *explorer) exploreBoundary(name string, cfgs []namedCfg, workers []*wstats) {
	lens := boundLengths()
	n := int64(len(boundKinds) * len(lens) * len(boundContexts))
	e.r.Bound("space:"+name, fmt.Sprintf("one long token: kinds %v x lengths %v (token.DefaultBufSize=%d) x contexts %q x every configuration, through formatter.Format and parser.NewReader()",
		boundKinds, lens, token.DefaultBufSize, boundContexts))
	core.ParallelRange(e.r, n, func(id int) *wstats {
		workers[id].set = ownCfgSet(cfgs)
		return workers[id]
	}, func(w *wstats, idx int64) {
		x := int(idx)
		bc := boundCase{Space: name, Kind: boundKinds[x%len(boundKinds)]}
		x /= len(boundKinds)
		bc.Len = lens[x%len(lens)]
		x /= len(lens)
		bc.Ctx = boundContexts[x].name
		fs, st := checkBoundary(bc.Kind, bc.Ctx, bc.text(), w.set)
		w.texts++
		w.formats += int64(st.formats)
		w.comparisons += int64(st.comparisons)
		if st.accepted {
			w.accepted++
		} else {
			w.rejected++
		}
		w.outcomes[fmt.Sprintf("%s findings=%d", st.outcome, len(fs))]++
		for _, f := range fs {
			cl := f.Cfg + "/" + f.Class
			w.classes[cl]++
			if w.classes[cl] > 2 {
				continue
			}
			e.mu.Lock()
			e.reported[cl]++
			k := e.reported[cl]
			e.mu.Unlock()
			if k > 2 {
				continue
			}
			c := bc
			c.Cfg = f.Cfg
			if _, single := cfgByName(f.Cfg); !single {
				for _, nc := range w.set.cfgs {
					c.Cfgs = append(c.Cfgs, nc.name)
				}
			}
			hits := 0
			for i := 0; i < 5; i++ {
				if replayBoundary(c, f.Class) {
					hits++
				}
			}
			if hits == 5 {
				e.r.Violate("c16", cl, c, f.Expected, f.Got, "reproduced 5/5 through formatter.Format and parser.NewReader()")
			} else {
				e.r.Flaky(map[string]any{"case": c, "class": cl, "hits": hits})
			}
		}
	})
}

func replayBoundary(c boundCase, class string) bool {
	set := ownCfgSet(cfgsFor(c.Cfg, c.Cfgs))
	fs, _ := checkBoundary(c.Kind, c.Ctx, c.text(), set)
	for _, f := range fs {
		if f.Class == class && f.Cfg == c.Cfg {
			return true
		}
	}
	return false
}
