package c16

// "Format does not modify the caller's *Config": every configuration object a
// worker formats with is private to that worker, is snapshotted when it is
// built, compared with its snapshot after every text, and put back if it
// changed, so that a modification is attributed to the text that caused it
// and every text starts from a pristine configuration.

import (
	"fmt"
	"sort"

	"github.com/luthersystems/elps/formatter"
)

type cfgSnap struct {
	indent, blank  int
	compact, strip bool
	nrules         int
	ptrs           []*formatter.IndentRule // the distinct rule objects, in sorted key order of first use
	vals           []formatter.IndentRule
	names          []string                         // a key that maps to ptrs[i]
	keys           map[string]*formatter.IndentRule // the whole table
}

func snapshot(c *formatter.Config) cfgSnap {
	s := cfgSnap{indent: c.IndentSize, blank: c.MaxBlankLines, compact: c.Compact, strip: c.StripComments,
		nrules: len(c.Rules), keys: map[string]*formatter.IndentRule{}}
	ks := make([]string, 0, len(c.Rules))
	for k := range c.Rules {
		ks = append(ks, k)
	}
	sort.Strings(ks)
	seen := map[*formatter.IndentRule]bool{}
	for _, k := range ks {
		p := c.Rules[k]
		s.keys[k] = p
		if p != nil && !seen[p] {
			seen[p] = true
			s.ptrs = append(s.ptrs, p)
			s.vals = append(s.vals, *p)
			s.names = append(s.names, k)
		}
	}
	return s
}

func styleName(s formatter.IndentStyle) string {
	switch s {
	case formatter.IndentAlign:
		return "Align"
	case formatter.IndentBody:
		return "Body"
	case formatter.IndentSpecial:
		return "Special"
	}
	return fmt.Sprintf("Style(%d)", int(s))
}

// diff reports how c differs from its snapshot ("" = unchanged).  The flat
// part (scalar fields, table size, every rule object's value) is cheap; deep
// additionally compares the table key by key.
func (s *cfgSnap) diff(c *formatter.Config, deep bool) (class, detail string) {
	switch {
	case c.IndentSize != s.indent:
		return "field:IndentSize", fmt.Sprintf("IndentSize %d -> %d", s.indent, c.IndentSize)
	case c.MaxBlankLines != s.blank:
		return "field:MaxBlankLines", fmt.Sprintf("MaxBlankLines %d -> %d", s.blank, c.MaxBlankLines)
	case c.Compact != s.compact:
		return "field:Compact", fmt.Sprintf("Compact %v -> %v", s.compact, c.Compact)
	case c.StripComments != s.strip:
		return "field:StripComments", fmt.Sprintf("StripComments %v -> %v", s.strip, c.StripComments)
	case len(c.Rules) != s.nrules:
		return "rules-table:size", fmt.Sprintf("len(Rules) %d -> %d", s.nrules, len(c.Rules))
	}
	for i, p := range s.ptrs {
		if *p != s.vals[i] {
			return fmt.Sprintf("rule:%s->%s", styleName(s.vals[i].Style), styleName(p.Style)),
				fmt.Sprintf("Rules[%q] {%s %d} -> {%s %d}", s.names[i], styleName(s.vals[i].Style), s.vals[i].HeaderArgs, styleName(p.Style), p.HeaderArgs)
		}
	}
	if deep {
		for k, p := range c.Rules {
			if q, ok := s.keys[k]; !ok || q != p {
				return "rules-table:entry", fmt.Sprintf("Rules[%q] was replaced or added", k)
			}
		}
	}
	return "", ""
}

func (s *cfgSnap) restore(c *formatter.Config) {
	c.IndentSize, c.MaxBlankLines, c.Compact, c.StripComments = s.indent, s.blank, s.compact, s.strip
	for i, p := range s.ptrs {
		*p = s.vals[i]
	}
	if c.Rules == nil && s.nrules > 0 {
		c.Rules = map[string]*formatter.IndentRule{}
	}
	for k := range c.Rules {
		if _, ok := s.keys[k]; !ok {
			delete(c.Rules, k)
		}
	}
	for k, p := range s.keys {
		c.Rules[k] = p
	}
}

// cfgSet is one worker's private configurations with their snapshots.
type cfgSet struct {
	cfgs  []namedCfg
	snaps []cfgSnap
	tick  int
}

func newCfgSet(cfgs []namedCfg) *cfgSet {
	s := &cfgSet{cfgs: cfgs}
	for _, c := range cfgs {
		s.snaps = append(s.snaps, snapshot(c.cfg))
	}
	return s
}

// ownCfgSet builds fresh, private copies of the named configurations.
func ownCfgSet(like []namedCfg) *cfgSet {
	pool := append(append(allConfigs(), formConfigs()...), blankConfigs()...)
	var mine []namedCfg
	for _, l := range like {
		for _, c := range pool {
			if c.name == l.name {
				mine = append(mine, c)
				break
			}
		}
	}
	if len(mine) != len(like) {
		panic("unknown configuration name")
	}
	return newCfgSet(mine)
}

// verify compares every configuration with its snapshot, restores the ones
// that changed and returns one finding per changed configuration.  The
// key-by-key table comparison runs when deep is set and otherwise on every
// 32nd call.
func (s *cfgSet) verify(deep bool) []finding {
	s.tick++
	if s.tick%32 == 0 {
		deep = true
	}
	var fs []finding
	for i, c := range s.cfgs {
		if cl, detail := s.snaps[i].diff(c.cfg, deep); cl != "" {
			fs = append(fs, finding{Cfg: c.name, Class: "config-modified:" + cl,
				Expected: "Format leaves the caller's *Config as it found it", Got: detail})
			s.snaps[i].restore(c.cfg)
		}
	}
	return fs
}

// checkGuarded is checkText over a private configuration set followed by the
// configuration check.
func checkGuarded(text string, set *cfgSet, real, deep bool) ([]finding, checkStats) {
	fs, st := checkText(text, set.cfgs, real)
	g := set.verify(deep)
	st.comparisons += len(set.cfgs)
	return mergeFindings(append(fs, g...), set.cfgs), st
}

// cfgGroups are the configuration families a finding is attributed to when
// every member (at least two) shows it: a defect that does not depend on the
// configuration is one class, not one per configuration.
var cfgGroups = []struct {
	name string
	in   func(c *formatter.Config) bool
}{
	{"all", func(c *formatter.Config) bool { return true }},
	{"keeping-comments", func(c *formatter.Config) bool { return !c.StripComments }},
	{"noncompact", func(c *formatter.Config) bool { return !c.Compact }},
	{"noncompact-keeping-comments", func(c *formatter.Config) bool { return !c.Compact && !c.StripComments }},
}

func mergeFindings(fs []finding, cfgs []namedCfg) []finding {
	if len(fs) < 2 || len(cfgs) < 2 {
		return fs
	}
	byClass := map[string]map[string]int{} // class -> cfg name -> index of its first finding
	var order []string
	for i, f := range fs {
		m := byClass[f.Class]
		if m == nil {
			m = map[string]int{}
			byClass[f.Class] = m
			order = append(order, f.Class)
		}
		if _, ok := m[f.Cfg]; !ok {
			m[f.Cfg] = i
		}
	}
	var out []finding
	for _, cl := range order {
		m := byClass[cl]
		merged := false
		for _, g := range cfgGroups {
			n, all := 0, true
			for _, c := range cfgs {
				if g.in(c.cfg) {
					n++
					if _, ok := m[c.name]; !ok {
						all = false
					}
				}
			}
			if all && n >= 2 && n == len(m) {
				first := len(fs)
				for _, i := range m {
					if i < first {
						first = i
					}
				}
				f := fs[first]
				f.Got += fmt.Sprintf(" [under every %s configuration, first %s]", g.name, f.Cfg)
				f.Cfg = g.name
				out = append(out, f)
				merged = true
				break
			}
		}
		if !merged {
			for _, f := range fs {
				if f.Class == cl {
					out = append(out, f)
				}
			}
		}
	}
	return out
}
