package c16

// The gap space: comment GROUPS and blank-line RUNS in every gap of whole
// templates, under every MaxBlankLines in every mode.
//
// The token spaces of c16.go put ONE trivia string (at most one comment, at
// most two blank lines, always flush-left) into a gap and know MaxBlankLines
// 0, 1 and 2 only.  The formatter, however, carries a blank-line COUNT from
// the source to the output at seven sites (between top-level forms, before a
// child, before the first and between the later comments in front of an
// expression, between the last such comment and the expression, between the
// comments in front of a closing bracket, between and before the comments at
// the end of the file) and clamps each of them to Config.MaxBlankLines.  A count
// that is off by one, or clamped at one site and not at another, is invisible
// whenever the clamp hides it, and shows as a text that grows or shrinks on
// every pass otherwise.  So this space enumerates
//
//	template x  whole programs (atoms, calls, bracketed and quoted lists, empty forms, data lists, prefix forms,
//	            nested special / body / align forms, several top-level forms, a hash-bang line)
//	gap      x  EVERY gap of the template: before the first token, between any two tokens, after the last one
//	run      x  k comments (k <= K), n0 newlines before the first (0 = on the line of the token before it),
//	            n1..nk newlines after each, every n up to N, comment lines flush-left or indented
//	config   x  MaxBlankLines 0..5 x {default, compact, strip, compact+strip}
//
// first with one gap filled (the others keep the template's own white space),
// then with two gaps filled, over a smaller run alphabet.  The oracles are the
// ones of every other text (checkText + the configuration guard): trees,
// comments and anchors, Format(out) == out.  Nothing is asserted about HOW
// MANY blank lines come out.

import (
	"fmt"
	"strings"

	"github.com/luthersystems/elps/formatter"

	"verif/mc/core"
)

// ---------------------------------------------------------------------------
// configurations: MaxBlankLines x mode

var gapModes = []string{"default", "compact", "strip", "compact+strip"}

const gapMaxBlank = 5

// blankCfgName names the configuration of a mode with MaxBlankLines m.  The
// value 1 is the mode's configuration of allConfigs(), and default mode with 0
// and 2 are its blank0 and blank2, so that one behaviour has one name.
func blankCfgName(mode string, m int) string {
	switch {
	case m == 1:
		return mode
	case mode == "default":
		return fmt.Sprintf("blank%d", m)
	}
	return fmt.Sprintf("%s+blank%d", mode, m)
}

// blankConfigs are the members of the family that allConfigs() does not have.
func blankConfigs() []namedCfg {
	var out []namedCfg
	have := allConfigs()
	for _, mode := range gapModes {
		for m := 0; m <= gapMaxBlank; m++ {
			name := blankCfgName(mode, m)
			if _, ok := cfgByNameIn(have, name); ok {
				continue
			}
			c := formatter.DefaultConfig()
			c.MaxBlankLines = m
			c.Compact = strings.HasPrefix(mode, "compact")
			c.StripComments = strings.HasSuffix(mode, "strip")
			out = append(out, namedCfg{name, c})
		}
	}
	return out
}

func cfgByNameIn(l []namedCfg, name string) (namedCfg, bool) {
	for _, c := range l {
		if c.name == name {
			return c, true
		}
	}
	return namedCfg{}, false
}

// gapConfigs lists the family for the given MaxBlankLines values, and for
// every member the index of its mode's base configuration (MaxBlankLines 1).
func gapConfigs(ms []int) (cfgs []namedCfg, base []int) {
	for _, mode := range gapModes {
		b := -1
		for _, m := range ms {
			if m == 1 {
				b = len(cfgs)
			}
			cfgs = append(cfgs, namedCfg{name: blankCfgName(mode, m)})
			base = append(base, -1)
		}
		if b < 0 {
			panic("the family needs MaxBlankLines 1: it is the base of every mode")
		}
		for i := len(base) - len(ms); i < len(base); i++ {
			base[i] = b
		}
	}
	return cfgs, base
}

// checkCollapsed is checkGuarded for the MaxBlankLines family: a finding
// that a mode's base configuration (MaxBlankLines 1) shows as well does not
// depend on MaxBlankLines and is attributed to the base configuration alone
// (the name every other sub-space reports it under); what is left is merged
// over the base configurations like everywhere else.
func checkCollapsed(text string, set *cfgSet, base []int) ([]finding, checkStats) {
	fs, st := checkText(text, set.cfgs, false)
	st.comparisons += len(set.cfgs)
	fs = append(fs, set.verify(false)...)
	if len(fs) == 0 {
		return fs, st
	}
	idx := map[string]int{}
	for i, c := range set.cfgs {
		idx[c.name] = i
	}
	has := map[string]bool{}
	for _, f := range fs {
		has[f.Cfg+"\x00"+f.Class] = true
	}
	var kept []finding
	for _, f := range fs {
		if i, ok := idx[f.Cfg]; ok && base[i] != i && has[set.cfgs[base[i]].name+"\x00"+f.Class] {
			continue
		}
		kept = append(kept, f)
	}
	return mergeFindings(kept, gapBases(set.cfgs, base)), st
}

func gapBases(cfgs []namedCfg, base []int) []namedCfg {
	var out []namedCfg
	for i, c := range cfgs {
		if base[i] == i {
			out = append(out, c)
		}
	}
	return out
}

// ---------------------------------------------------------------------------
// templates

type gapTemplate struct {
	src  string   // as written in gapTemplates
	head string   // a hash-bang line or ""
	toks []string // the tokens
	seps []string // the template's own white space: seps[i] stands before toks[i], seps[len(toks)] at the end
}

// gapTemplates: whole programs; every position between two tokens is a gap.
var gapTemplates = []string{
	"a\n",
	"a\nb\n",
	"(a b c)\n",
	"[a b c]\n",
	"'(a b c)\n",
	"()\n",
	"[]\n",
	"'()\n",
	"((a b) c)\n",
	"(a (b c) d)\n",
	"'a\n",
	"#'a\n",
	"#^a\n",
	"#^(a b)\n",
	"(a b)\n(c d)\n",
	"a\n(b)\n:k\n",
	"(a\n b\n c)\n",
	"[a\n b]\n",
	"(a '(b c) [d])\n",
	"(progn (a) (b))\n",
	"(progn\n  (a)\n  (b)\n  )\n",
	"(cond ((a) b)\n      (:else c))\n",
	"(defun f (x)\n  (let ([y 1])\n    (+ x y)))\n",
	"#!/usr/bin/env elps\n(a b)\n(c)\n",
}

// splitTemplate cuts a template into tokens and the white space between them.
func splitTemplate(src string) gapTemplate {
	t := gapTemplate{src: src}
	s := src
	if strings.HasPrefix(s, "#!") {
		i := strings.IndexByte(s, '\n') + 1
		t.head, s = s[:i], s[i:]
	}
	i := 0
	for {
		j := i
		for j < len(s) && (s[j] == ' ' || s[j] == '\n') {
			j++
		}
		t.seps = append(t.seps, s[i:j])
		if j == len(s) {
			return t
		}
		k := j + 1
		switch {
		case strings.ContainsRune("()[]'", rune(s[j])):
		case s[j] == '#' && k < len(s) && (s[k] == '\'' || s[k] == '^'):
			k++
		default:
			for k < len(s) && !strings.ContainsRune("()[]' \n", rune(s[k])) {
				k++
			}
		}
		t.toks = append(t.toks, s[j:k])
		i = k
	}
}

// ---------------------------------------------------------------------------
// runs

// gapRun is the content of one gap: len(n)-1 comments; n[0] newlines before
// the first one (0: it stands on the line of the token before it; without a
// comment n[0] >= 1), n[i] >= 1 newlines after the i-th.  Every line the run
// starts (comment lines and the line of the token after it) begins with indent.
type gapRun struct {
	N      []int  `json:"n"`
	Indent string `json:"indent"`
}

func (g gapRun) render(gap int) string {
	var sb strings.Builder
	nl := func(n int) {
		sb.WriteString(strings.Repeat("\n", n))
		sb.WriteString(g.Indent)
	}
	if len(g.N) == 1 {
		nl(g.N[0])
		return sb.String()
	}
	for i := 1; i < len(g.N); i++ {
		if i == 1 && g.N[0] == 0 {
			sb.WriteString(" ")
		} else if i == 1 {
			nl(g.N[0])
		}
		fmt.Fprintf(&sb, ";; g%dc%d", gap, i)
		nl(g.N[i])
	}
	return sb.String()
}

// gapRuns lists every run with at most maxK comments whose newline counts are
// taken from ns (plus 0 for n[0] of a run with a comment), for every indent.
func gapRuns(maxK int, ns []int, indents []string) []gapRun {
	var out []gapRun
	for _, ind := range indents {
		for k := 0; k <= maxK; k++ {
			first := ns
			if k > 0 {
				first = append([]int{0}, ns...)
			}
			n := make([]int, k+1)
			var rec func(i int)
			rec = func(i int) {
				if i > k {
					out = append(out, gapRun{N: append([]int{}, n...), Indent: ind})
					return
				}
				for _, v := range ns {
					n[i] = v
					rec(i + 1)
				}
			}
			for _, v := range first {
				n[0] = v
				rec(1)
			}
		}
	}
	return out
}

// text renders the template with the given gaps filled (fill[gap] = run).
func (t gapTemplate) text(fill map[int]gapRun) string {
	var sb strings.Builder
	sb.WriteString(t.head)
	for i := 0; i <= len(t.toks); i++ {
		if r, ok := fill[i]; ok {
			sb.WriteString(r.render(i))
		} else {
			sb.WriteString(t.seps[i])
		}
		if i < len(t.toks) {
			sb.WriteString(t.toks[i])
		}
	}
	return sb.String()
}

// ---------------------------------------------------------------------------
// enumeration

type gapSite struct {
	tpl  int
	gaps []int
}

type gapBounds struct {
	name    string
	ms      []int    // MaxBlankLines values
	singleK int      // one gap filled: at most this many comments,
	singleN []int    // newline counts
	extraK  int      // ... plus runs of exactly extraK comments over extraN (0 = none)
	extraN  []int    //
	indents []string //
	pairK   int      // two gaps filled
	pairN   []int
	pairInd []string
	allPair bool // every pair of gaps of a template; false: the two gaps around one token only
}

func quickGapBounds() gapBounds {
	return gapBounds{name: "QG-comment-groups-and-blank-line-runs", ms: []int{0, 1, 2, 3, 4, 5},
		singleK: 2, singleN: []int{1, 2, 3, 4}, extraK: 3, extraN: []int{1, 2, 3}, indents: []string{"", "  "},
		pairK: 2, pairN: []int{1, 3}, pairInd: []string{"  "}, allPair: true}
}

func thoroughGapBounds() gapBounds {
	return gapBounds{name: "TG-comment-groups-and-blank-line-runs", ms: []int{0, 1, 2, 3, 4, 5},
		singleK: 3, singleN: []int{1, 2, 3, 4, 5}, indents: []string{"", "  ", " "},
		pairK: 2, pairN: []int{1, 2, 3}, pairInd: []string{"  "}, allPair: true}
}

func gapBoundsFor(thorough bool) gapBounds {
	if thorough {
		return thoroughGapBounds()
	}
	return quickGapBounds()
}

func (e *explorer) exploreGaps(b gapBounds, workers []*wstats) {
	cfgs, base := gapConfigs(b.ms)
	var tpls []gapTemplate
	for _, s := range gapTemplates {
		tpls = append(tpls, splitTemplate(s))
	}
	singles := gapRuns(b.singleK, b.singleN, b.indents)
	if b.extraK > 0 {
		for _, r := range gapRuns(b.extraK, b.extraN, b.indents) {
			if len(r.N) == b.extraK+1 {
				singles = append(singles, r)
			}
		}
	}
	pairs := gapRuns(b.pairK, b.pairN, b.pairInd)
	var one, two []gapSite
	ngaps := 0
	for ti, t := range tpls {
		ng := len(t.toks) + 1
		ngaps += ng
		for g := 0; g < ng; g++ {
			one = append(one, gapSite{ti, []int{g}})
			for h := g + 1; h < ng; h++ {
				if b.allPair || h == g+1 {
					two = append(two, gapSite{ti, []int{g, h}})
				}
			}
		}
	}
	var cn []string
	for _, c := range cfgs {
		cn = append(cn, c.name)
	}
	which := "the two gaps around one token"
	if b.allPair {
		which = "every two gaps of a template"
	}
	extra := ""
	if b.extraK > 0 {
		extra = fmt.Sprintf(", plus %d comments with newline counts %v", b.extraK, b.extraN)
	}
	e.r.Bound("space:"+b.name, fmt.Sprintf("templates %q (%d gaps: before, between and after the tokens) x "+
		"[one gap filled: runs of <=%d comments, newline counts %v%s, line indents %q = %d runs in %d gaps] + "+
		"[%s filled: runs of <=%d comments, newline counts %v, line indents %q = %d runs each in %d pairs of gaps] x cfgs=%v",
		gapTemplates, ngaps, b.singleK, b.singleN, extra, b.indents, len(singles), len(one),
		which, b.pairK, b.pairN, b.pairInd, len(pairs), len(two), cn))
	e.r.Assume("gap space: a finding that the MaxBlankLines-1 configuration of the same mode shows as well for the same text does not depend on MaxBlankLines and is reported under that configuration alone; the number of blank lines in the output is not asserted (the statement asks for trees, comments and a fixed point only)")
	prep := func(id int) *wstats {
		w := workers[id]
		w.set = ownCfgSet(cfgs)
		w.base = base
		return w
	}
	done := func() {
		for _, w := range workers {
			w.base = nil
		}
	}
	defer done()
	// the templates themselves
	w0 := prep(0)
	for _, t := range tpls {
		e.leaf(w0, b.name, t.text(nil), false)
	}
	seen := make([]map[string]bool, len(workers)) // non-trivial keys already booked by a worker
	for i := range seen {
		seen[i] = map[string]bool{}
	}
	visit := func(w *wstats, s gapSite, fill map[int]gapRun) {
		t := tpls[s.tpl]
		acc, intr := e.leaf(w, b.name, t.text(fill), false)
		if acc && intr {
			key := fmt.Sprintf("gap\x00%s\x00%v", t.src, s.gaps)
			if !seen[w.id][key] {
				seen[w.id][key] = true
				e.r.Nontrivial(key)
			}
		}
	}
	// one gap
	ns := int64(len(singles))
	core.ParallelRange(e.r, int64(len(one))*ns, prep, func(w *wstats, idx int64) {
		s := one[idx/ns]
		visit(w, s, map[int]gapRun{s.gaps[0]: singles[idx%ns]})
	})
	// two gaps
	np := int64(len(pairs))
	core.ParallelRange(e.r, int64(len(two))*np*np, prep, func(w *wstats, idx int64) {
		s := two[idx/(np*np)]
		x := idx % (np * np)
		visit(w, s, map[int]gapRun{s.gaps[0]: pairs[x/np], s.gaps[1]: pairs[x%np]})
	})
}
