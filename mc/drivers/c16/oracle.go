package c16

// The oracle of C16.  Everything here is a pure function of a source text and
// a formatter configuration; no interpreter runtime is involved.
//
//	analyse(text)   my own reading of a text: the public lexer's token stream,
//	                grouped by a small independent walker into a typed tree that
//	                keeps literal spellings and bracket kinds, plus the ordered
//	                list of comments, each with the expression it precedes.
//	lvalEqual       typed comparison of two strict parses (lisp.LVal trees).
//	checkText       all clauses of the statement for one text under a list of
//	                configurations.

import (
	"bytes"
	"fmt"
	"math"
	"strings"

	"github.com/luthersystems/elps/formatter"
	"github.com/luthersystems/elps/lisp"
	"github.com/luthersystems/elps/parser/lexer"
	"github.com/luthersystems/elps/parser/rdparser"
	"github.com/luthersystems/elps/parser/token"
)

// ---------------------------------------------------------------------------
// re-lex

type tk struct {
	typ  token.Type
	text string
	nl   int // newlines in the whitespace before the token
}

// relex returns every token of text up to (not including) EOF.  ok is false
// when the lexer produced an ERROR / INVALID token.
func relex(text string) (toks []tk, ok bool) {
	lx := lexer.New(token.NewScannerString("relex", text))
	for n := 0; n < len(text)+8; n++ {
		for _, t := range lx.ReadToken() {
			switch t.Type {
			case token.EOF:
				return toks, true
			case token.ERROR, token.INVALID:
				return toks, false
			}
			toks = append(toks, tk{t.Type, t.Text, t.PrecedingNewlines})
		}
	}
	return toks, false
}

// ---------------------------------------------------------------------------
// the walker: token stream -> typed tree with spellings

type node struct {
	kind   byte   // 'P' (...)  'B' [...]  'Q' quote  'A' atom
	atom   string // INT FLOAT STR RAW SYM for atoms
	text   string // literal spelling for atoms
	kids   []*node
	first  int // index of the node's first token in the raw stream; -1 when synthesized
	id     int // pre-order number over the whole program
	parent *node
	prefix bool // the node is a prefix form (' #' #^) and kids[len-1] is its operand
}

type comment struct {
	Text   string `json:"text"`
	Anchor int    `json:"anchor"` // pre-order id of the expression the comment precedes; -1: before a closing bracket or EOF
	Depth  int    `json:"depth"`  // bracket depth at the comment
	Same   bool   `json:"same"`   // on the same line as the token before it
	Where  string `json:"where"`  // before-expr | before-closer | eof
	Head   bool   `json:"head"`   // the expression it precedes is the first element of a bracketed list
}

type reading struct {
	roots    []*node
	tree     string
	nodes    int
	comments []comment
	hashbang bool
}

type walker struct {
	toks    []tk
	i       int
	nextID  int
	byFirst map[int]*node
	err     string
}

func (w *walker) skipComments() {
	for w.i < len(w.toks) && w.toks[w.i].typ == token.COMMENT {
		w.i++
	}
}

func (w *walker) newNode(kind byte, first int, parent *node) *node {
	n := &node{kind: kind, first: first, id: w.nextID, parent: parent}
	w.nextID++
	if first >= 0 {
		w.byFirst[first] = n
	}
	return n
}

func (w *walker) atomNode(at, text string, first int, parent *node) *node {
	n := w.newNode('A', first, parent)
	n.atom, n.text = at, text
	return n
}

func atomKind(t token.Type) string {
	switch t {
	case token.INT:
		return "INT"
	case token.FLOAT:
		return "FLOAT"
	case token.STRING:
		return "STR"
	case token.STRING_RAW:
		return "RAW"
	case token.SYMBOL:
		return "SYM"
	}
	return ""
}

// expr reads one expression starting at the next non-comment token.
func (w *walker) expr(parent *node) *node {
	w.skipComments()
	if w.i >= len(w.toks) {
		w.err = "unexpected end of tokens"
		return nil
	}
	first := w.i
	t := w.toks[w.i]
	switch t.typ {
	case token.INT, token.FLOAT, token.STRING, token.STRING_RAW, token.SYMBOL:
		w.i++
		return w.atomNode(atomKind(t.typ), t.text, first, parent)
	case token.INT_HEX_MACRO, token.INT_OCTAL_MACRO:
		want := token.INT_HEX
		if t.typ == token.INT_OCTAL_MACRO {
			want = token.INT_OCTAL
		}
		if w.i+1 >= len(w.toks) || w.toks[w.i+1].typ != want {
			w.err = "dangling " + t.text
			return nil
		}
		w.i += 2
		return w.atomNode("INT", t.text+w.toks[first+1].text, first, parent)
	case token.NEGATIVE:
		// the sign merges with the token glued to it when that is a number or a
		// symbol; otherwise it is the symbol "-" on its own.  A comment is a
		// token too: "-;c" leaves the sign alone.
		if w.i+1 < len(w.toks) {
			if k := atomKind(w.toks[w.i+1].typ); k == "INT" || k == "FLOAT" || k == "SYM" {
				w.i += 2
				return w.atomNode(k, t.text+w.toks[first+1].text, first, parent)
			}
		}
		w.i++
		return w.atomNode("SYM", t.text, first, parent)
	case token.QUOTE:
		w.i++
		n := w.newNode('Q', first, parent)
		n.prefix = true
		k := w.expr(n)
		if k == nil {
			return nil
		}
		n.kids = []*node{k}
		return n
	case token.UNBOUND, token.FUN_REF:
		w.i++
		n := w.newNode('P', first, parent)
		n.prefix = true
		head := "lisp:expr"
		if t.typ == token.FUN_REF {
			head = "lisp:function"
		}
		h := w.atomNode("SYM", head, -1, n)
		k := w.expr(n)
		if k == nil {
			return nil
		}
		n.kids = []*node{h, k}
		return n
	case token.PAREN_L, token.BRACE_L:
		w.i++
		kind, closer := byte('P'), token.PAREN_R
		if t.typ == token.BRACE_L {
			kind, closer = 'B', token.BRACE_R
		}
		n := w.newNode(kind, first, parent)
		for {
			w.skipComments()
			if w.i >= len(w.toks) {
				w.err = "unclosed " + t.text
				return nil
			}
			if w.toks[w.i].typ == closer {
				w.i++
				return n
			}
			k := w.expr(n)
			if k == nil {
				return nil
			}
			n.kids = append(n.kids, k)
		}
	}
	w.err = fmt.Sprintf("unexpected token %v %q", t.typ, t.text)
	return nil
}

func render(sb *strings.Builder, n *node) {
	switch n.kind {
	case 'A':
		sb.WriteString(n.atom)
		sb.WriteByte(':')
		sb.WriteString(n.text)
	default:
		sb.WriteByte(n.kind)
		sb.WriteByte('(')
		for i, k := range n.kids {
			if i > 0 {
				sb.WriteByte(' ')
			}
			render(sb, k)
		}
		sb.WriteByte(')')
	}
}

// analyse reads a text the strict reader accepted.  An error means the walker
// could not group the token stream, which is a harness problem, never a verdict.
func analyse(text string) (*reading, error) {
	toks, ok := relex(text)
	if !ok {
		return nil, fmt.Errorf("re-lex reports an error token")
	}
	rd := &reading{}
	start := 0
	var hb string
	if len(toks) > 0 && toks[0].typ == token.HASH_BANG {
		rd.hashbang = true
		hb = toks[0].text
		start = 1
		if len(toks) > 1 && toks[1].typ == token.COMMENT {
			hb += toks[1].text
			start = 2
		}
	}
	w := &walker{toks: toks, i: start, byFirst: map[int]*node{}}
	var sb strings.Builder
	for {
		w.skipComments()
		if w.i >= len(toks) {
			break
		}
		n := w.expr(nil)
		if n == nil {
			return nil, fmt.Errorf("walker: %s", w.err)
		}
		if sb.Len() > 0 {
			sb.WriteByte(' ')
		}
		rd.roots = append(rd.roots, n)
		render(&sb, n)
	}
	rd.tree = sb.String()
	rd.nodes = w.nextID

	// comments, in order, each with the expression it precedes
	depthAt := make([]int, len(toks)+1)
	d := 0
	for i, t := range toks {
		switch t.typ {
		case token.PAREN_R, token.BRACE_R:
			d--
		}
		depthAt[i] = d
		switch t.typ {
		case token.PAREN_L, token.BRACE_L:
			d++
		}
	}
	anchorOf := func(j int) (int, string) {
		k := j
		for k < len(toks) && toks[k].typ == token.COMMENT {
			k++
		}
		if k >= len(toks) {
			return -1, "eof"
		}
		n := w.byFirst[k]
		if n == nil {
			return -1, "before-closer"
		}
		for n.parent != nil && n.parent.prefix && n.parent.kids[len(n.parent.kids)-1] == n {
			n = n.parent
		}
		if p := n.parent; p != nil && !p.prefix && len(p.kids) > 0 && p.kids[0] == n {
			return n.id, "before-expr:head"
		}
		return n.id, "before-expr"
	}
	if rd.hashbang {
		a, where := anchorOf(start)
		rd.comments = append(rd.comments, comment{Text: hb, Anchor: a, Where: strings.TrimSuffix(where, ":head")})
	}
	for j := start; j < len(toks); j++ {
		if toks[j].typ != token.COMMENT {
			continue
		}
		a, where := anchorOf(j)
		head := strings.HasSuffix(where, ":head")
		where = strings.TrimSuffix(where, ":head")
		rd.comments = append(rd.comments, comment{Text: toks[j].text, Anchor: a, Depth: depthAt[j], Same: j > start && toks[j].nl == 0, Where: where, Head: head})
	}
	return rd, nil
}

// ---------------------------------------------------------------------------
// typed comparison of strict parses

func strictParse(text string) ([]*lisp.LVal, error) {
	return rdparser.New(token.NewScannerString("strict", text)).ParseProgram()
}

func lvalEqual(a, b *lisp.LVal) string {
	if a == nil || b == nil {
		if a == b {
			return ""
		}
		return "nil vs non-nil node"
	}
	if a.Type != b.Type {
		return fmt.Sprintf("node kind %v vs %v", a.Type, b.Type)
	}
	if a.IsQuoted() != b.IsQuoted() {
		return fmt.Sprintf("quoting of %v node: %v vs %v", a.Type, a.IsQuoted(), b.IsQuoted())
	}
	switch a.Type {
	case lisp.LInt:
		if a.Int != b.Int {
			return fmt.Sprintf("int %d vs %d", a.Int, b.Int)
		}
	case lisp.LFloat:
		if math.Float64bits(a.Float) != math.Float64bits(b.Float) {
			return fmt.Sprintf("float %v vs %v", a.Float, b.Float)
		}
	case lisp.LString, lisp.LSymbol:
		if a.Str != b.Str {
			return fmt.Sprintf("%v %q vs %q", a.Type, a.Str, b.Str)
		}
	}
	if len(a.Cells) != len(b.Cells) {
		return fmt.Sprintf("%v node with %d vs %d children", a.Type, len(a.Cells), len(b.Cells))
	}
	for i := range a.Cells {
		if d := lvalEqual(a.Cells[i], b.Cells[i]); d != "" {
			return d
		}
	}
	return ""
}

func programEqual(a, b []*lisp.LVal) string {
	if len(a) != len(b) {
		return fmt.Sprintf("%d vs %d top-level forms", len(a), len(b))
	}
	for i := range a {
		if d := lvalEqual(a[i], b[i]); d != "" {
			return fmt.Sprintf("form %d: %s", i, d)
		}
	}
	return ""
}

// ---------------------------------------------------------------------------
// formatting through the two entry points

// fastFormat is formatter.Format with the string scanner instead of the
// 128 KiB buffered one: format-preserving parse, then formatter.FormatProgram.
func fastFormat(text string, cfg *formatter.Config) ([]byte, error) {
	p := rdparser.NewFormatting(token.NewScannerString("<stdin>", text))
	exprs, err := p.ParseProgram()
	if err != nil {
		return nil, err
	}
	return formatter.FormatProgram(exprs, p.PendingComments(), cfg), nil
}

// ---------------------------------------------------------------------------
// findings

type finding struct {
	Class    string
	Cfg      string
	Expected string
	Got      string
}

type checkStats struct {
	accepted    bool
	formats     int // formatter invocations
	comparisons int
	outcome     string
	nodes       int
	comments    int
}

// describeNode names a node for a class: its kind, and its text only for the
// lisp: symbols the reader and printer treat specially.
func describeNode(n *node) string {
	if n == nil {
		return "none"
	}
	switch n.kind {
	case 'A':
		if n.atom == "SYM" && strings.HasPrefix(n.text, "lisp:") {
			return "SYM:" + n.text
		}
		return n.atom
	case 'Q':
		return "Q(" + describeNode(n.kids[0]) + ")"
	}
	return string(n.kind) + "(..)"
}

// diffSig walks two forests in lockstep and names the first difference:
// "<input node>-><output node>@<position>".
func diffSig(a, b []*node, parent *node) string {
	pos := "@top"
	if parent != nil {
		pos = "@arg"
		if parent.kind == 'Q' {
			pos = "@quoted"
		}
	}
	for i := 0; i < len(a) || i < len(b); i++ {
		var x, y *node
		if i < len(a) {
			x = a[i]
		}
		if i < len(b) {
			y = b[i]
		}
		at := pos
		if i == 0 && parent != nil && parent.kind != 'Q' {
			at = "@head"
		}
		if x == nil || y == nil || x.kind != y.kind || x.atom != y.atom || x.text != y.text {
			return describeNode(x) + "->" + describeNode(y) + at
		}
		if len(x.kids) != len(y.kids) || x.kind != 'A' {
			if d := diffSig(x.kids, y.kids, x); d != "" {
				return d
			}
		}
	}
	return ""
}

func firstDiffClass(in, out string) string {
	// classify a tree difference by the kind of the first differing atom
	i := 0
	for i < len(in) && i < len(out) && in[i] == out[i] {
		i++
	}
	// walk back to the start of the item
	j := i
	for j > 0 && in[j-1] != ' ' && in[j-1] != '(' {
		j--
	}
	rest := in[j:]
	switch {
	case strings.HasPrefix(rest, "INT:"), strings.HasPrefix(rest, "FLOAT:"):
		return "number-spelling"
	case strings.HasPrefix(rest, "STR:"), strings.HasPrefix(rest, "RAW:"):
		return "string-spelling"
	case strings.HasPrefix(rest, "SYM:"):
		return "symbol"
	case strings.HasPrefix(rest, "B("), strings.HasPrefix(rest, "P("):
		return "bracket-or-shape"
	case strings.HasPrefix(rest, "Q("):
		return "quote"
	}
	return "shape"
}

func commentPos(c comment) string {
	d := "top"
	if c.Depth > 0 {
		d = "nested"
	}
	l := "ownline"
	if c.Same {
		l = "sameline"
	}
	return d + ":" + l + ":" + c.Where
}

// checkOutput checks clauses (1) and (2) for one output of one text.
func checkOutput(in *reading, inLV []*lisp.LVal, out string, strip bool) (fs []finding, cmp int) {
	outLV, err := strictParse(out)
	cmp++
	if err != nil {
		return []finding{{Class: "output-rejected", Expected: "output the strict reader accepts", Got: fmt.Sprintf("%q: %v", out, err)}}, cmp
	}
	lvDiff := programEqual(inLV, outLV)
	cmp++
	or, err := analyse(out)
	if err != nil {
		if lvDiff != "" {
			fs = append(fs, finding{Class: "tree-changed:lval:walker-failed", Expected: "identical typed trees", Got: fmt.Sprintf("%s; output %q", lvDiff, out)})
		}
		return append(fs, finding{Class: "harness:walker-output", Expected: "walker reads accepted output", Got: fmt.Sprintf("%v on %q", err, out)}), cmp
	}
	cmp++
	sig := "walker-equal"
	if or.tree != in.tree {
		sig = diffSig(in.roots, or.roots, nil)
	}
	switch {
	case or.tree != in.tree:
		got := fmt.Sprintf("%s; output %q", or.tree, out)
		if lvDiff != "" {
			got += "; strict parses differ too: " + lvDiff
		} else {
			got += "; the strict parses are equal (spelling / bracket kind only)"
		}
		fs = append(fs, finding{Class: "tree-changed:" + firstDiffClass(in.tree, or.tree) + ":" + sig, Expected: in.tree, Got: got})
	case lvDiff != "":
		fs = append(fs, finding{Class: "tree-changed:lval-only", Expected: "identical typed trees", Got: fmt.Sprintf("%s; output %q", lvDiff, out)})
	}
	if strip {
		return fs, cmp
	}
	cmp++
	// (2) comments: same texts in the same order ...
	lost := false
	if len(in.comments) != len(or.comments) {
		lost = true
	} else {
		for i := range in.comments {
			if in.comments[i].Text != or.comments[i].Text {
				lost = true
			}
		}
	}
	if lost {
		// name the first input comment that is missing from the output's sequence
		j := 0
		var miss *comment
		for i := range in.comments {
			if j < len(or.comments) && or.comments[j].Text == in.comments[i].Text {
				j++
				continue
			}
			miss = &in.comments[i]
			break
		}
		cls := "comment-list-changed"
		if miss != nil {
			cls = "comment-lost:" + commentPos(*miss)
		}
		fs = append(fs, finding{Class: cls, Expected: fmt.Sprintf("comments %s", commentTexts(in.comments)),
			Got: fmt.Sprintf("comments %s; output %q", commentTexts(or.comments), out)})
		return fs, cmp
	}
	// ... and each one still before the same expression (expression numbers are
	// only comparable between equal trees; a changed tree is already reported)
	if or.tree != in.tree {
		return fs, cmp
	}
	for i := range in.comments {
		a, b := in.comments[i], or.comments[i]
		if a.Anchor >= 0 && a.Anchor != b.Anchor {
			fs = append(fs, finding{Class: "comment-moved:" + commentPos(a),
				Expected: fmt.Sprintf("comment %q before expression #%d", a.Text, a.Anchor),
				Got:      fmt.Sprintf("before #%d (%s); output %q", b.Anchor, b.Where, out)})
			break
		}
	}
	return fs, cmp
}

// feature names the input shape for the class of an idempotence failure.
func feature(text string, in *reading) string {
	switch {
	case in.hashbang:
		return "hash-bang:" + commentTag(in)
	case len(in.comments) > 0 && strings.Contains(text, "\n\n"):
		return "comments+blank-lines:" + commentTag(in)
	case len(in.comments) > 0:
		return "comments:" + commentTag(in)
	case strings.Contains(text, "\n\n"):
		return "blank-lines"
	case strings.Contains(text, "\n"):
		return "multi-line"
	}
	return "one-line"
}

// commentTag names the most specific position any comment of the input stands
// in: before the head of a list, before a closing bracket, at the end of the
// file, or before some other expression.
func commentTag(in *reading) string {
	tag, rank := "no-comment", 0
	for _, c := range in.comments {
		t, r := "expr-comment", 1
		switch {
		case c.Head:
			t, r = "head-comment", 4
		case c.Where == "before-closer":
			t, r = "closer-comment", 3
		case c.Where == "eof":
			t, r = "eof-comment", 2
		}
		if r > rank {
			tag, rank = t, r
		}
	}
	return tag
}

func commentTexts(cs []comment) string {
	var l []string
	for _, c := range cs {
		l = append(l, c.Text)
	}
	return fmt.Sprintf("%q", l)
}

// checkText checks one text under cfgs.  real selects the production entry
// point formatter.Format (128 KiB scanner) in addition to the string-scanner
// path; its bytes must equal the fast path's.
func checkText(text string, cfgs []namedCfg, real bool) ([]finding, checkStats) {
	var fs []finding
	var st checkStats
	add := func(cfg string, f finding) {
		f.Cfg = cfg
		fs = append(fs, f)
	}
	inLV, serr := strictParse(text)
	st.comparisons++
	if serr != nil {
		// (4) rejected input is rejected without output
		st.outcome = "rejected"
		for ci, c := range cfgs {
			if ci > 1 || (!real && ci > 0) {
				break // the format-preserving parse does not depend on the configuration
			}
			var out []byte
			var err error
			if real {
				out, err = formatter.Format([]byte(text), c.cfg)
			} else {
				out, err = fastFormat(text, c.cfg)
			}
			st.formats++
			if err == nil {
				add(c.name, finding{Class: "rejected-input-formatted", Expected: "error (strict reader: " + serr.Error() + ")", Got: fmt.Sprintf("output %q", out)})
			} else if out != nil {
				add(c.name, finding{Class: "rejected-input-output", Expected: "nil output with the error", Got: fmt.Sprintf("%q", out)})
			}
		}
		return fs, st
	}
	st.accepted = true
	in, err := analyse(text)
	if err != nil {
		add("", finding{Class: "harness:walker-input", Expected: "walker reads accepted input", Got: err.Error()})
		return fs, st
	}
	st.nodes, st.comments = in.nodes, len(in.comments)
	// one format-preserving parse serves every configuration (the printer only reads it)
	p := rdparser.NewFormatting(token.NewScannerString("<stdin>", text))
	fexprs, ferr := p.ParseProgram()
	if ferr != nil {
		add("", finding{Class: "accepted-input-rejected", Expected: "Format accepts what the strict reader accepts", Got: ferr.Error()})
		st.outcome = "accepted/format-rejects"
		return fs, st
	}
	pending := p.PendingComments()
	// Format under every configuration, then group the configurations by the
	// bytes they produced: clauses (1) and (2) are functions of the output
	// alone, and the format-preserving parse of an output (needed for clause
	// (3)) does not depend on the configuration either.
	outs := make([]string, len(cfgs))
	skip := make([]bool, len(cfgs))
	for i, c := range cfgs {
		outB := formatter.FormatProgram(fexprs, pending, c.cfg)
		st.formats++
		outs[i] = string(outB)
		if real {
			rb, rerr := formatter.Format([]byte(text), c.cfg)
			st.formats++
			st.comparisons++
			if rerr != nil {
				add(c.name, finding{Class: "accepted-input-rejected", Expected: "Format accepts what the strict reader accepts", Got: rerr.Error()})
				skip[i] = true
				continue
			}
			if !bytes.Equal(rb, outB) {
				add(c.name, finding{Class: "entry-points-differ", Expected: fmt.Sprintf("Format == FormatProgram over the same parse: %q", outs[i]), Got: fmt.Sprintf("%q", rb)})
				outs[i] = string(rb)
			}
		}
	}
	changed := false
	done := make([]bool, len(cfgs))
	for i := range cfgs {
		if done[i] || skip[i] {
			continue
		}
		out := outs[i]
		var group []int
		allStrip := true
		for j := i; j < len(cfgs); j++ {
			if !done[j] && !skip[j] && outs[j] == out {
				done[j] = true
				group = append(group, j)
				if !cfgs[j].cfg.StripComments {
					allStrip = false
				}
			}
		}
		oexprs, opending := fexprs, pending
		var operr error
		if out != text {
			changed = true
			ofs, n := checkOutput(in, inLV, out, allStrip)
			st.comparisons += n
			for _, f := range ofs {
				commentFinding := strings.HasPrefix(f.Class, "comment-")
				for _, j := range group {
					if commentFinding && cfgs[j].cfg.StripComments {
						continue
					}
					add(cfgs[j].name, f)
				}
			}
			p2 := rdparser.NewFormatting(token.NewScannerString("<stdin>", out))
			oexprs, operr = p2.ParseProgram()
			opending = p2.PendingComments()
		}
		// (3) idempotence under the same configuration
		for _, j := range group {
			c := cfgs[j]
			var again []byte
			aerr := operr
			if aerr == nil {
				again = formatter.FormatProgram(oexprs, opending, c.cfg)
			}
			st.formats++
			st.comparisons++
			if real {
				rb, rerr := formatter.Format([]byte(out), c.cfg)
				st.formats++
				if (rerr == nil) != (aerr == nil) || !bytes.Equal(rb, again) {
					add(c.name, finding{Class: "entry-points-differ", Expected: fmt.Sprintf("Format == FormatProgram on %q: %q %v", out, again, aerr), Got: fmt.Sprintf("%q %v", rb, rerr)})
				}
				again, aerr = rb, rerr
			}
			if aerr != nil {
				add(c.name, finding{Class: "idempotence:output-rejected:" + feature(text, in), Expected: "Format accepts its own output", Got: fmt.Sprintf("%v on %q", aerr, out)})
			} else if string(again) != out {
				add(c.name, finding{Class: "idempotence:" + feature(text, in), Expected: fmt.Sprintf("Format(out) == out == %q", out), Got: fmt.Sprintf("%q", again)})
			}
		}
	}
	st.outcome = "accepted/fixed-point"
	if changed {
		st.outcome = "accepted/reformatted"
	}
	return fs, st
}
