package c09

import (
	"fmt"
	"strings"

	"verif/mc/core"
)

// P. path table.  The generic routing table gives every callable its arguments from a short filler list, which never
// forms a well-shaped (target, steps.., value) call of the elpspath operators: their in-place and copying variants
// take a document, a path of steps (index, key, '*, '(range a b)) and, for the setters, a replacement value that the
// documentation says is "stored by reference".  Stored by reference is fine for a value the program built; a program
// LITERAL (or a view of one) that ends up as the storage of an unsealed container is a window onto the parsed tree.
// Here every operator x target document x step sequence (length 0..2 over 7 steps) is enumerated with the literal
// routed in as the document, as a member of the document, and as the replacement value; the result is then written
// in place in every way the language offers and the literal is evaluated again, under the same oracle as table A.

var pathOps = []struct {
	name  string
	value bool // takes a replacement value
}{
	{"?", false}, {"?set!", true}, {"?set", true}, {"?del!", false}, {"?del", false}, {"?nil!", false}, {"?nil", false},
}

// documents: LIT is the routed literal (as the whole document or inside it); documents without LIT receive the literal
// as the replacement value only.
var pathDocs = []string{
	"LIT",
	"(vector 0 0 0)",
	"(vector LIT 0)",
	"(list 0 0 0)",
	"(sorted-map \"a\" (vector 0 0 0) \"b\" LIT)",
	"(vector (vector 0 0 0) (vector 1 1 1))",
	"(append 'vector LIT)",
}

var pathSteps = []string{"0", "1", "\"a\"", "\"b\"", "'*", "'(range 0 3)", "'(range 0 2)", "'(range 1 3)"}

// in-place writers applied to the result r (errors swallowed)
var pathMutators = []string{
	"()",
	"(stable-sort < r)",
	"(append! r 9)",
	"(elpspath:?set! r 0 99)",
	"(elpspath:?nil! r 1)",
	"(elpspath:?del! r 0)",
	"(elpspath:?set! r 0 0 99)",
	"(elpspath:?set! r '(range 0 1) (vector 77))",
	"(assoc! r 0 55)",
	"(stable-sort (lambda (a b) (< (to-string a) (to-string b))) (elpspath:? r 0))",
}

var pathRoutings = []int{0, 1, 2, 12} // quoted, cdr view, slice view, constant top level of a quasiquote template

func pathProgram(op, doc, steps, val string, rt, lit, mut int) string {
	r := routings[rt].expr
	r = strings.ReplaceAll(r, "%b", strings.TrimPrefix(literals[lit].text, "'"))
	if strings.Contains(r, "%s") {
		r = fmt.Sprintf(r, literals[lit].text)
	}
	d := strings.ReplaceAll(doc, "LIT", "lit")
	call := "(elpspath:" + op + " " + d
	if steps != "" {
		call += " " + steps
	}
	if val != "" {
		call += " " + val
	}
	call += ")"
	return fmt.Sprintf("(let* ([lit %s] [r (ignore-errors %s)]) (ignore-errors %s) (list lit r %s))",
		r, call, pathMutators[mut], literals[lit].text)
}

func tablePaths(r *core.Run) {
	var stepSeqs []string
	stepSeqs = append(stepSeqs, "")
	for _, a := range pathSteps {
		stepSeqs = append(stepSeqs, a)
	}
	firsts := []string{"0", "\"b\"", "'*"} // quick: two-step paths that descend into a member first
	lits := []int{0}
	if r.Thorough() {
		firsts = pathSteps
		lits = []int{0, 1}
	}
	for _, a := range firsts {
		for _, b := range pathSteps {
			stepSeqs = append(stepSeqs, a+" "+b)
		}
	}
	var srcs []string
	seen := map[string]bool{}
	for _, op := range pathOps {
		for _, doc := range pathDocs {
			vals := []string{""}
			if op.value {
				vals = []string{"lit", "(vector 5 6 7)"}
			}
			for _, val := range vals {
				if !strings.Contains(doc, "LIT") && val != "lit" {
					continue // the literal would not take part
				}
				for _, st := range stepSeqs {
					for _, rt := range pathRoutings {
						for _, lit := range lits {
							for mut := range pathMutators {
								s := pathProgram(op.name, doc, st, val, rt, lit, mut)
								if !seen[s] {
									seen[s] = true
									srcs = append(srcs, s)
								}
							}
						}
					}
				}
			}
		}
	}
	r.Bound("P_path_programs", len(srcs))
	r.Bound("P_step_sequences", len(stepSeqs))
	core.ParallelRange(r, int64(len(srcs)), nil, func(_ struct{}, i int64) {
		src := srcs[i]
		r.Nontrivial(src)
		checkProgram(r, "P-path", src, true, pathClass(src))
		if i%30011 == 7 {
			r.Sample(rcase{src, true})
		}
	})
	r.AddStates(int64(len(pathOps) * len(pathDocs)))
}

// pathClass: the operator of the program (stable identity of a finding).
func pathClass(src string) string {
	i := strings.Index(src, "(elpspath:")
	if i < 0 {
		return "?"
	}
	rest := src[i+1:]
	if j := strings.IndexByte(rest, ' '); j > 0 {
		return rest[:j]
	}
	return "?"
}
