// Package c09: parsed programs are immutable and runtimes isolated under any
// interleaving (DESIGN §C09).
//
//	A. routing table   every registered callable x argument position x routing of a
//	                   program literal into that position x follow-up mutator; the
//	                   shared parse is loaded twice in one runtime and once in a
//	                   fresh one; results must equal a fresh parse's, the sealed-tree
//	                   fingerprint, an independent structural dump and the singleton
//	                   snapshot must be unchanged.
//	B. histories       BFS over load histories of one shared Program across runtimes.
//	C. schedules       K runtimes sharing one Program under the controlled scheduler,
//	                   all schedules up to a preemption bound; the shared tree is
//	                   checked in EVERY global state, every runtime must equal its
//	                   solo run.
//	D. race pass       the same bodies free-running on goroutines (meaningful in the
//	                   -race build; see check.sh).
//	H. held values     every callable (up to four positional slots) x literal position x
//	                   fillers carrying a per-load datum x routing x literal capacity class;
//	                   what every load handed out is held and rendered again after every
//	                   later load (held.go).
//
// In every family the observed state of the parsed tree includes the spare capacity
// behind its cell arrays (held.go, spareAll).
package c09

import (
	"bytes"
	"context"
	"fmt"
	"io"
	"os"
	"regexp"
	"sort"
	"strings"
	"sync"

	"github.com/luthersystems/elps/lisp"

	"verif/mc/core"
	"verif/mc/el"
	"verif/mc/sched"
)

func init() {
	core.Register(&core.Driver{Property: "C09", Run: run, Replay: replay})
}

// shared is one parse held by the harness and shared between loads.
type shared struct {
	src   string
	exprs []*lisp.LVal
	fp    uint64
	dump  string
	prog  lisp.Program
	std   bool   // the program names a standard-library package: its runtimes are built with the stdlib loaded
	spare string // rendering of the spare capacity behind every node's cells (see spareAll)
}

// sharedReader hands out the SAME parsed expressions on every Read.
type sharedReader struct{ exprs []*lisp.LVal }

func (s sharedReader) Read(string, io.Reader) ([]*lisp.LVal, error) { return s.exprs, nil }

func parseShared(src string) (*shared, error) {
	exprs, err := el.FastReader().Read("shared", strings.NewReader(src))
	if err != nil {
		return nil, err
	}
	s := &shared{src: src, exprs: exprs, std: needsStdlib(src)}
	s.fp = lisp.SealedASTFingerprint(exprs)
	s.dump = dumpAll(exprs)
	s.spare = spareAll(exprs)
	s.prog, _ = lisp.ReadProgram(sharedReader{exprs}, "shared", strings.NewReader(""))
	return s, nil
}

var stdlibPrefixes = []string{"elpspath:", "json:", "string:", "s:", "regexp:", "base64:", "time:", "math:"}

func needsStdlib(src string) bool {
	for _, p := range stdlibPrefixes {
		if strings.Contains(src, "("+p) || strings.Contains(src, " "+p) || strings.Contains(src, "'"+p) {
			return true
		}
	}
	return false
}

// dump is an independent structural rendering of a parsed tree: type, name,
// numbers, quote and seal flags, position and children.
func dumpAll(exprs []*lisp.LVal) string {
	var sb strings.Builder
	for _, e := range exprs {
		dump(&sb, e, 0)
		sb.WriteByte('\n')
	}
	return sb.String()
}

func dump(sb *strings.Builder, v *lisp.LVal, depth int) {
	if v == nil {
		sb.WriteString("<nil>")
		return
	}
	if depth > 200 {
		sb.WriteString("<deep>")
		return
	}
	fmt.Fprintf(sb, "{%v %q %d %v q=%v s=%v", v.Type, v.Str, v.Int, v.Float, v.IsQuoted(), v.IsSealed())
	if src, ok := v.Source(); ok {
		fmt.Fprintf(sb, " @%d:%d:%d", src.Pos, src.Line, src.Col)
	}
	if len(v.Cells) > 0 {
		sb.WriteString(" [")
		for _, c := range v.Cells {
			dump(sb, c, depth+1)
		}
		sb.WriteString("]")
	}
	sb.WriteString("}")
}

func (s *shared) intact() string {
	if fp := lisp.SealedASTFingerprint(s.exprs); fp != s.fp {
		return fmt.Sprintf("sealed-tree fingerprint changed %x -> %x", s.fp, fp)
	}
	if d := dumpAll(s.exprs); d != s.dump {
		return "structural dump of the parsed tree changed: " + firstDiff(s.dump, d)
	}
	if sp := spareAll(s.exprs); sp != s.spare {
		return fmt.Sprintf("spare capacity behind a parsed list was written: at parse %q, now %q", s.spare, sp)
	}
	return ""
}

// treeClass names the kind of change intact reported.
func treeClass(d string) string {
	if strings.HasPrefix(d, "spare capacity") {
		return "spare-capacity-written"
	}
	return "tree-changed"
}

func firstDiff(a, b string) string {
	n := len(a)
	if len(b) < n {
		n = len(b)
	}
	i := 0
	for i < n && a[i] == b[i] {
		i++
	}
	lo := i - 60
	if lo < 0 {
		lo = 0
	}
	ha, hb := i+80, i+80
	if ha > len(a) {
		ha = len(a)
	}
	if hb > len(b) {
		hb = len(b)
	}
	return fmt.Sprintf("…%s… => …%s…", a[lo:ha], b[lo:hb])
}

func newEnv(stdlib bool) *el.Env { return el.MustEnv(el.Opts{Stdlib: stdlib}) }

func loadShared(env *el.Env, s *shared, ctx context.Context) el.Outcome {
	env.Err.Reset()
	var v *lisp.LVal
	if ctx != nil {
		v = env.LoadProgramContext(ctx, s.prog)
	} else {
		v = env.LoadProgram(s.prog)
	}
	return el.Observe(v, env.Err.String())
}

func freshParseOutcome(src string, stdlib bool) el.Outcome {
	return newEnv(stdlib).Load(src)
}

// ---------------------------------------------------------------------------
// A. routing table

type callable struct {
	pkg, name string
	arity     int // number of positional slots to try (1..3)
}

var skipCallable = map[string]bool{
	"time:sleep": true, "lisp:load-file": true, "lisp:debug-stack": true, "lisp:trace": true,
	"testing:test": true, "testing:test-let": true, "testing:test-let*": true, "testing:benchmark": true,
	"testing:benchmark-simple": true,
}

func registry(stdlib bool) []callable { return registryMax(stdlib, 3) }

// registryMax lists every registered callable with its number of positional slots clamped to maxArity (a &rest callable
// gets at least three).
func registryMax(stdlib bool, maxArity int) []callable {
	env := newEnv(stdlib)
	reg := env.Runtime.Registry
	var out []callable
	names := reg.PackageNames()
	sort.Strings(names)
	for _, pn := range names {
		if pn == "user" {
			continue
		}
		pkg := reg.Package(pn)
		syms := pkg.SymbolNames()
		sort.Strings(syms)
		ext := map[string]bool{}
		for _, e := range pkg.Externals() {
			ext[e] = true
		}
		for _, sn := range syms {
			v, ok := pkg.Symbol(sn)
			if !ok || v == nil || v.Type != lisp.LFun {
				continue
			}
			if pn != "lisp" && !ext[sn] {
				continue
			}
			if skipCallable[pn+":"+sn] {
				continue
			}
			// count positional formals
			n := 0
			rest := false
			if len(v.Cells) > 0 && v.Cells[0] != nil {
				for _, f := range v.Cells[0].Cells {
					if f.Type == lisp.LSymbol && strings.HasPrefix(f.Str, "&") {
						if f.Str == "&rest" {
							rest = true
						}
						continue
					}
					n++
				}
			}
			if rest && n < 3 {
				n = 3
			}
			if n > maxArity {
				n = maxArity
			}
			if n == 0 {
				continue
			}
			out = append(out, callable{pkg: pn, name: sn, arity: n})
		}
	}
	return out
}

// routings of the literal LIT into a value named `lit`
var routings = []struct{ id, expr string }{
	{"quoted", "%s"},
	{"cdr-view", "(cdr %s)"},
	{"slice-view", "(slice 'list %s 0 2)"},
	{"nested-element", "(car (cdr '(0 %s)))"},
	{"fn-rest-list", "((lambda (&rest r) r) 3 1 2)"},
	{"quasiquote", "(quasiquote %s)"},
	{"macro-rest", "(mac-rest 3 1 2)"},
	{"append-copy", "(append 'list %s)"}, // control: a copy, mutating it must not matter either
	{"slice-vector", "(slice 'vector %s 0 3)"},
	{"append-vector", "(append 'vector %s)"},
	{"apply-rest-list", "(apply (lambda (&rest r) r) %s)"},
	{"funcall-rest-view", "((lambda (&rest r) (cdr r)) 0 3 1 2)"},
	// constant parts of a quasiquote template (%b = the literal without its quote mark): a level with no unquote in it
	{"quasiquote-const-top", "(quasiquote %b)"},
	{"quasiquote-const-sublist", "(car (cdr (quasiquote ((unquote (+ 0 0)) %b))))"},
	{"quasiquote-const-sublist-view", "(cdr (car (cdr (quasiquote ((unquote (+ 0 0)) %b)))))"},
	{"quasiquote-spliced", "(cdr (quasiquote (0 (unquote-splicing %s))))"},
	{"macro-template-const", "(mac-const)"},
	// macroexpand over a quoted literal FORM: the inner macro's &rest list is a view of the literal's own cells
	{"macroexpand-rest", "(car (cdr (macroexpand '(mac-rest 3 1 2))))"},
	{"macroexpand-passthru-rest", "(car (cdr (macroexpand '(passthru (mac-rest 3 1 2)))))"},
	{"macroexpand-1-rest", "(car (cdr (macroexpand-1 '(mac-rest 3 1 2))))"},
	{"macroexpand-passthru2-rest", "(car (cdr (macroexpand '(passthru (passthru (mac-rest 3 1 2))))))"},
	// a quote applied to something already quoted: the datum sits UNDER a quote node of the parsed tree and eval
	// unwraps it (%q = the literal in bracket spelling, itself a quoted list)
	{"double-quoted-eval", "(eval '%s)"},
	{"quoted-bracket-eval", "(eval '%q)"},
	{"double-quoted-nested-eval", "(eval (car (cdr '(0 '%s))))"},
}

var literals = []struct{ id, text string }{
	{"ints", "'(3 1 2)"},
	{"nested", "'((b 2) (a 1) (c 0))"},
	{"string", "\"zyx\""},
	{"syms", "'(c b a)"},
}

var fillers = []string{"'list", "<", "0", "(lambda (x) x)", "(lambda (a b) (< a b))", "\"a\"", "'vector", "1"}

var mutators = []struct{ id, expr string }{
	{"none", "()"},
	{"sort", "(stable-sort < r)"},
	{"append!", "(append! r 9)"},
	{"sort-lit", "(stable-sort (lambda (a b) (< (to-string a) (to-string b))) lit)"},
}

type rcase struct {
	Src string `json:"src"`
	Std bool   `json:"stdlib"`
}

const routingPrelude = "(defmacro mac-rest (&rest xs) (quasiquote (quote (unquote xs))))\n(defmacro mac-const () (quasiquote (quote ((unquote (+ 1 2)) 1 2))))\n(defmacro passthru (form) form)\n"

func routeProgram(c callable, pos int, fill []string, rt, lit, mut int) string {
	qual := c.name
	if c.pkg != "lisp" {
		qual = c.pkg + ":" + c.name
	}
	args := make([]string, c.arity)
	fi := 0
	for i := range args {
		if i == pos {
			args[i] = "lit"
		} else {
			args[i] = fill[fi]
			fi++
		}
	}
	r := routings[rt].expr
	r = strings.ReplaceAll(r, "%b", strings.TrimPrefix(literals[lit].text, "'"))
	if t := literals[lit].text; strings.HasPrefix(t, "'(") {
		r = strings.ReplaceAll(r, "%q", "["+t[2:len(t)-1]+"]")
	} else {
		r = strings.ReplaceAll(r, "%q", t)
	}
	if strings.Contains(r, "%s") {
		r = fmt.Sprintf(r, literals[lit].text)
	}
	return fmt.Sprintf("%s(let* ([lit %s] [r (ignore-errors (%s %s))]) (ignore-errors %s) (list lit %s))",
		routingPrelude, r, qual, strings.Join(args, " "), mutators[mut].expr, literals[lit].text)
}

// checkProgram: the central oracle for one source text.
func checkProgram(r *core.Run, table string, src string, stdlib bool, class string) {
	bad, detail := programViolates(src, stdlib)
	r.AddEvals(1)
	r.AddTransitions(4)
	r.AddTraces(1)
	if bad == "" {
		return
	}
	cls := table + ":" + bad + ":" + class
	if r.Seen(cls) >= 2 {
		r.CountOnly(cls)
		return
	}
	for i := 0; i < 4; i++ {
		if b2, _ := programViolates(src, stdlib); b2 == "" {
			r.Flaky(rcase{src, stdlib})
			return
		}
	}
	r.Violate("c09", cls, rcase{src, stdlib}, "every load of the shared parse equals a fresh parse's result and leaves the parsed tree unchanged", detail, "")
}

func programViolates(src string, stdlib bool) (string, string) {
	s, err := parseShared(src)
	if err != nil {
		return "", ""
	}
	snap := lisp.TakeSingletonSnapshot()
	want := freshParseOutcome(src, stdlib)
	envA := newEnv(stdlib)
	a1 := loadShared(envA, s, nil)
	if d := s.intact(); d != "" {
		return treeClass(d), "after the first load: " + d
	}
	a2 := loadShared(envA, s, nil)
	if d := s.intact(); d != "" {
		return treeClass(d), "after the second load in the same runtime: " + d
	}
	b1 := loadShared(newEnv(stdlib), s, nil)
	if d := s.intact(); d != "" {
		return treeClass(d), "after a load in a second runtime: " + d
	}
	if v := snap.Verify(); v != "" {
		return "singleton-changed", "singleton " + v + " drifted"
	}
	w := norm(want)
	if norm(a1) != w {
		return "first-load-differs", fmt.Sprintf("fresh parse: %s\nshared parse, 1st load: %s", want.Full(), a1.Full())
	}
	if norm(b1) != w {
		return "other-runtime-differs", fmt.Sprintf("fresh parse: %s\nshared parse loaded in a second runtime after the first: %s", want.Full(), b1.Full())
	}
	// the second load in the same runtime sees the definitions of the first; for the
	// routing programs (which only define an idempotent macro) it must still be equal
	if norm(a2) != w && !strings.Contains(a2.Text, "already defined") && !strings.Contains(src, "gensym") {
		return "second-load-differs", fmt.Sprintf("fresh parse: %s\nshared parse, 2nd load in the same runtime: %s", want.Full(), a2.Full())
	}
	return "", ""
}

var gensymName = regexp.MustCompile(`gen[0-9]{8}`)

func norm(o el.Outcome) string {
	// gensym numbers advance with every expansion in the same runtime (per-runtime counters: C07's and C10's subject)
	o.Text = gensymName.ReplaceAllString(o.Text, "gen#")
	o.Out = gensymName.ReplaceAllString(o.Out, "gen#")
	// error TEXT may mention per-runtime ids (C10's subject); compare class + condition + value + stderr
	if o.IsErr {
		return "ERR<" + o.Cond + ">" + o.Out
	}
	return el.NormFuns(o.Text) + "|" + o.Out
}

func tableRouting(r *core.Run) {
	cs := registry(true)
	r.Bound("A_callables", len(cs))
	type job struct {
		c            callable
		pos, rt, lit int
		mut          int
		fill         []string
	}
	var jobs []job
	nfill := 3
	rts := []int{0, 1, 2, 4, 6, 7, 8, 10, 12, 13, 16, 18, 21, 22}
	lits := []int{0, 1}
	if r.Thorough() {
		nfill = 5
		rts = []int{0, 1, 2, 3, 4, 5, 6, 7, 8, 9, 10, 11, 12, 13, 14, 15, 16, 17, 18, 19, 20, 21, 22, 23}
		lits = []int{0, 1, 2, 3}
	}
	for _, c := range cs {
		for pos := 0; pos < c.arity; pos++ {
			others := c.arity - 1
			combos := 1
			for i := 0; i < others; i++ {
				combos *= nfill
			}
			for ci := 0; ci < combos; ci++ {
				fill := make([]string, others)
				x := ci
				for i := range fill {
					fill[i] = fillers[x%nfill]
					x /= nfill
				}
				for _, rt := range rts {
					for _, lit := range lits {
						for mut := range mutators {
							jobs = append(jobs, job{c, pos, rt, lit, mut, fill})
						}
					}
				}
			}
		}
	}
	r.Bound("A_routing_programs", len(jobs))
	r.Bound("A_routings", len(rts))
	r.Bound("A_fillers_per_position", nfill)
	core.ParallelRange(r, int64(len(jobs)), nil, func(_ struct{}, i int64) {
		j := jobs[i]
		src := routeProgram(j.c, j.pos, j.fill, j.rt, j.lit, j.mut)
		r.Nontrivial(src)
		checkProgram(r, "A-routing", src, true, j.c.pkg+":"+j.c.name)
		if i%20011 == 3 {
			r.Sample(rcase{src, true})
		}
	})
	r.AddStates(int64(len(cs)))
}

// ---------------------------------------------------------------------------
// hand-written programs for histories and schedules: every in-place or
// capacity-sensitive operation on literals, macro arguments, &rest lists and
// their views; definitions; gensym; closures; errors.

var concurrentPrograms = []string{
	"(defun f (x) (stable-sort < x)) (f '(3 1 2)) (f '(3 1 2))",
	"(set 'l '(3 1 2)) (stable-sort < l) l",
	"(defun g (&rest xs) (stable-sort < xs)) (g 3 1 2) (g 9 8 7)",
	"(defmacro m (&rest xs) (quasiquote (list (unquote-splicing xs)))) (m 3 1 2) (stable-sort < (m 3 1 2))",
	"(defmacro mq (x) (quasiquote (quote (unquote x)))) (stable-sort < (mq (3 1 2))) (mq (3 1 2))",
	"(set 'v (append 'vector '(3 1 2))) (append! v 4) (stable-sort < v) '(3 1 2)",
	"(set 'l '(1 2 3)) (set 'c (cdr l)) (stable-sort > c) (list l c)",
	"(set 's (slice 'list '(5 4 3 2 1) 1 4)) (stable-sort < s) (list s '(5 4 3 2 1))",
	"(defun h (&key a b) (list a b)) (h :a '(2 1) :b (stable-sort < '(2 1)))",
	"(set 'm (sorted-map 'k '(2 1))) (assoc! m 'j '(9 8)) (stable-sort < (get m 'k)) (list m '(2 1))",
	"(defun cnt () (let ([n 0]) (lambda () (set! n (+ n 1))))) (set 'c (cnt)) (funcall c) (funcall c)",
	"(defmacro sw (a b) (let ([t (gensym)]) (quasiquote (let ([(unquote t) (unquote a)]) (list (unquote b) (unquote t)))))) (list (gensym) (sw 1 2) (gensym) (macroexpand '(sw 3 4)))",
	"(defmacro idm (x) x) (defmacro wrap (x) (quasiquote (list (unquote x)))) (list (funcall (idm #'car) '(1 2)) (funcall (idm #^(+ % 1)) 2) (wrap #'cdr) (funcall (car (wrap #^(* % 2))) 4))",
	"(apply (lambda (&rest r) (stable-sort < r)) '(3 1 2)) '(3 1 2)",
	"(ignore-errors (error 'boom '(3 1 2))) (handler-bind ([boom (lambda (c &rest d) (stable-sort < (car d)))]) (error 'boom '(3 1 2)))",
	"(labels ([lp (n acc) (if (= n 0) acc (lp (- n 1) (cons n acc)))]) (stable-sort > (lp 5 '())))",
	"(map 'list (lambda (x) (stable-sort < x)) '((3 1 2) (9 8 7)))",
	"(foldl (lambda (acc x) (append! acc x)) (vector) '(3 1 2))",
	"(set 'q (quasiquote (1 (unquote (+ 1 1)) (unquote-splicing '(3 4))))) (stable-sort > q) (quasiquote (1 (unquote (+ 1 1)) (unquote-splicing '(3 4))))",
	"(in-package 'other) (set 'a '(2 1)) (export 'a) (in-package 'user) (use-package 'other) (stable-sort < a) other:a",
	"(defun w (x) \"doc string\" (concat 'list x '(9))) (w '(1)) (w '(2))",
	"(thread-first '(3 1 2) (cdr) (reverse 'list)) (thread-last '(3 1 2) (map 'list (lambda (x) (* x x))))",
	"(dotimes (i 3) (stable-sort < '(3 1 2))) (let* ([a '(3 1 2)] [b (append 'list a 4)]) (list a b))",
	"(defun kw (x &optional (y)) x) (ignore-errors (kw 1))",
	"(insert-sorted 'list '(1 3) < 2) (insert-index 'list '(1 3) 1 2) (zip 'list '(1 2) '(3 4)) (reverse 'list '(1 2 3))",
	"(select 'list (lambda (x) (> x 1)) '(1 2 3)) (reject 'list (lambda (x) (> x 1)) '(1 2 3)) (concat 'list '(1) '(2))",
	// per-runtime-distinct data (whoami is set differently in every runtime) flowing through every
	// operator that builds a call form or a list from program text: a write into storage shared
	// through the parse shows up as one runtime reading another's value
	"(thread-last (list whoami) (append 'list '(0)) (concat 'list '(9) '(8)) (map 'list (lambda (x) x)))",
	"(thread-last whoami (+ 1 2) (+ 3 4 5) (* 1 1 1 1 1) (list 'a 'b 'c 'd 'e 'f))",
	"(thread-first (list whoami 5 6) (nth 0) (+ 1 2 3) (list 'x 'y 'z 'w 'v))",
	"(thread-first (list whoami) (cdr) (list 1 2 3 4 5 6))",
	"(defmacro m (x) (quasiquote (list (unquote x) whoami (unquote x)))) (list (m (+ whoami 1)) (m (list whoami)))",
	"(defmacro m2 (&rest xs) (quasiquote (list (unquote-splicing xs) whoami))) (m2 whoami (+ whoami 1) (list whoami))",
	"(list (apply list whoami '(1 2 3)) (funcall list whoami 4) ((lambda (&rest xs) xs) whoami 5 6))",
	"(get-default (sorted-map 'a whoami) 'b (list whoami whoami))",
	"(cond ((< whoami 0) 'neg) ((= whoami 99) 'big) (else (list whoami (+ whoami 1) (+ whoami 2))))",
	"(set 'acc '()) (dotimes (i 3) (set 'acc (cons (+ i whoami) acc))) acc",
	"(format-string \"{} {} {}\" whoami (list whoami) (sorted-map 'k whoami))",
	"(handler-bind ([boom (lambda (c &rest d) (list whoami d))]) (error 'boom whoami (list whoami)))",
	"(labels ([tri (n) (if (= n 0) whoami (thread-last n (+ 0 0) (+ (tri (- n 1)) 0 0)))]) (tri 4))",
	"(let* ([a (list whoami 1)] [b (append 'list a whoami)] [c (append 'list a (+ whoami 1))]) (list a b c))",
	"(defun kw (&key a b c) (list a b c)) (kw :c whoami :a (list whoami))",
	"(let ([v (vector whoami)]) (append! v (+ whoami 1)) (append! v (+ whoami 2)) (list v (slice 'vector v 1 3)))",
	"(or (and (> whoami 99) 'big) (list whoami) 'unreached)",
	"(flet ([f (x &optional y) (list x y whoami)]) (list (f whoami) (f 1 whoami)))",
	// standard-library operations that store a caller's value by reference or build values from program text
	"(let ([v (vector 0 0 0)]) (elpspath:?set! v '(range 0 3) '(3 1 2)) (stable-sort < v) (list v '(3 1 2) whoami))",
	"(let* ([d (sorted-map \"k\" (vector whoami 1))] [e (elpspath:?set d \"k\" 0 (append 'vector '(9 8)))]) (elpspath:?set! e \"k\" 0 0 whoami) (list d e (elpspath:? e \"k\" '* ) '(9 8)))",
	"(let ([m (json:load-string \"{\\\"b\\\":[3,1,2],\\\"a\\\":[]}\")]) (append! (get m \"a\") whoami) (stable-sort < (get m \"b\")) (list m (json:dump-string m) (json:load-string \"[]\")))",
	"(list (string:join (list \"a\" (to-string whoami) \"b\") \"-\") (string:split \"x,y,z\" \",\") (format-string \"{}/{}\" whoami '(1 2)))",
	"(s:deftype \"small\" s:int (s:lt 10)) (list (s:validate small whoami) (s:validate (s:make-validator \"v\" s:array (s:of small) (s:len 2)) (vector whoami 3)))",
	"(list (regexp:regexp-match? (format-string \"^a{}[0-9]+$\" whoami) \"a1\") (regexp:regexp-match? \"^b+$\" \"bb\") (regexp:regexp-match? (format-string \"c{}\" (+ whoami 1000)) \"c\") (string:uppercase (to-string whoami)))",
	"(list (s:validate (s:make-validator \"v\" s:string (s:regexp (format-string \"^{}+$\" whoami))) (to-string whoami)) (json:dump-string (sorted-map (to-string whoami) (vector whoami))) (json:load-string (format-string \"[{}]\" whoami)) (time:format-rfc3339 (time:parse-rfc3339 \"2020-01-02T03:04:05Z\")))",
	"(list (regexp:regexp-match? (regexp:regexp-compile \"^[0-9]+$\") (to-string whoami)) (base64:encode (to-bytes (to-string whoami))) (math:abs (- 0 whoami)))",
	// per-runtime data placed at the END of (and in front of, and inside) literals, views and macro &rest lists whose
	// parsed cell arrays have spare capacity (3 and 5 cells: the parser grows cells with append), through every
	// list-growing builtin; the value is held across further evaluation steps before it is returned
	"(let ([r (insert-sorted 'list '(10 20 30) < (+ 1000 whoami))]) (+ 0 0) (list r '(10 20 30)))",
	"(let* ([l '(10 20 30)] [a (append 'list l whoami)] [b (concat 'list l (list whoami))] [c (insert-index 'list l 3 whoami)] [d (insert-sorted 'list (cdr l) < (+ 1000 whoami))] [e (cons whoami l)] [f (insert-sorted 'list l < (+ 15 (mod whoami 2)))] [g (insert-sorted 'list l > (+ 1000 whoami))] [h (insert-sorted 'list l < (+ 1000 whoami))]) (+ 0 0) (list a b c d e f g h l))",
	"(defmacro mr (&rest xs) (quasiquote (unquote xs))) (let* ([r (insert-sorted 'list (mr 10 20 30 40 50) < (+ 1000 whoami))] [q (append 'list (mr 1 2 3 4 5) whoami)] [v (insert-sorted 'vector '(10 20 30 40 50) < (+ 1000 whoami))]) (+ 0 0) (list r q v (insert-index 'list '(1 2 3 4 5) 5 whoami)))",
}

// ---------------------------------------------------------------------------
// B. histories

type hcase struct {
	Src     string `json:"src"`
	History []int  `json:"history"` // runtime index used by each load
}

func histories(r *core.Run) {
	depth := 3
	if r.Thorough() {
		depth = 4
	}
	r.Bound("B_history_depth", depth)
	r.Bound("B_programs", len(concurrentPrograms))
	type task struct {
		p int
		h []int
	}
	var tasks []task
	var rec func(h []int, maxRT int)
	var hs [][]int
	rec = func(h []int, maxRT int) {
		if len(h) > 0 {
			hs = append(hs, append([]int(nil), h...))
		}
		if len(h) == depth {
			return
		}
		for rt := 0; rt <= maxRT+1 && rt < 3; rt++ { // canonical: a new runtime gets the next index
			nm := maxRT
			if rt > maxRT {
				nm = rt
			}
			rec(append(h, rt), nm)
		}
	}
	rec(nil, -1)
	for p := range concurrentPrograms {
		for _, h := range hs {
			tasks = append(tasks, task{p, h})
		}
	}
	r.Bound("B_histories_per_program", len(hs))
	core.ParallelRange(r, int64(len(tasks)), nil, func(_ struct{}, i int64) {
		t := tasks[i]
		src := concurrentPrograms[t.p]
		bad, detail := historyViolates(src, t.h)
		r.AddEvals(1)
		r.AddTransitions(int64(len(t.h)))
		r.AddStates(1)
		if bad != "" {
			cls := "B-history:" + bad + fmt.Sprintf(":program-%d", t.p)
			if r.Seen(cls) < 2 {
				r.Violate("c09", cls, hcase{src, t.h}, "every load equals a fresh parse evaluated after the same earlier loads of that runtime; shared tree unchanged", detail, "")
			} else {
				r.CountOnly(cls)
			}
		}
	})
	r.Sample(hcase{concurrentPrograms[1], []int{0, 1, 0}})
}

// historyViolates: load the shared parse according to h (runtime indices);
// the reference performs the same history with a FRESH parse for every load.
func historyViolates(src string, h []int) (string, string) {
	s, err := parseShared(src)
	if err != nil {
		return "", ""
	}
	snap := lisp.TakeSingletonSnapshot()
	envs := map[int]*el.Env{}
	refs := map[int]*el.Env{}
	var hs []held
	for step, rt := range h {
		if envs[rt] == nil {
			envs[rt] = newEnv(s.std)
			refs[rt] = newEnv(s.std)
		}
		// a datum of this load's own: no two loads of a history compute the same values from it
		id := 100*(rt+1) + step
		who(envs[rt], id)
		who(refs[rt], id)
		v, got := loadKeep(envs[rt], s)
		rv, want := loadFreshKeep(refs[rt], src)
		if d := s.intact(); d != "" {
			return treeClass(d), fmt.Sprintf("after load %d (runtime %d): %s", step+1, rt, d)
		}
		if norm(got) != norm(want) {
			return "load-differs", fmt.Sprintf("load %d (runtime %d): shared parse gives %s, a fresh parse gives %s", step+1, rt, got.Full(), want.Full())
		}
		// what earlier loads handed out must read as it did then
		if c, d := checkHeld(hs, fmt.Sprintf("after load %d (runtime %d)", step+1, rt)); c != "" {
			return c, d
		}
		hs = append(hs, held{v, renderHeld(v), fmt.Sprintf("load %d (runtime %d) of the shared parse", step+1, rt)},
			held{rv, renderHeld(rv), fmt.Sprintf("load %d (runtime %d) of a fresh parse (reference)", step+1, rt)})
	}
	if v := snap.Verify(); v != "" {
		return "singleton-changed", v
	}
	return "", ""
}

// ---------------------------------------------------------------------------
// C. schedules

type scase struct {
	Src      string `json:"src"`
	Threads  int    `json:"threads"`
	Schedule []int  `json:"schedule_choices"`
}

type solo struct {
	out   string
	steps int64
}

func soloRun(s *shared, id int) solo {
	env := newEnv(s.std)
	who(env, id)
	ctx := el.NewStepCtx()
	o := loadShared(env, s, ctx)
	return solo{norm(o), env.Runtime.Steps()}
}

// who defines a per-runtime distinct value so isolation is observable.
func who(env *el.Env, id int) {
	env.Load(fmt.Sprintf("(set 'whoami %d)", id))
}

func scheduleExplore(r *core.Run, src string, k, bound int, stop func() bool) {
	s, err := parseShared(src)
	if err != nil {
		return
	}
	solos := make([]solo, k)
	for i := range solos {
		solos[i] = soloRun(s, i)
	}
	if d := s.intact(); d != "" {
		r.Violate("c09", "C-schedule:"+treeClass(d)+"-in-solo-run", scase{src, k, nil}, "tree unchanged", d, "")
		return
	}
	snap := lisp.TakeSingletonSnapshot()
	var envs []*el.Env
	var outs []solo
	mk := func() []sched.Body {
		envs = make([]*el.Env, k)
		outs = make([]solo, k)
		bodies := make([]sched.Body, k)
		for i := 0; i < k; i++ {
			i := i
			envs[i] = newEnv(s.std)
			who(envs[i], i)
			bodies[i] = func(ctx context.Context) {
				o := loadShared(envs[i], s, ctx)
				outs[i] = solo{norm(o), envs[i].Runtime.Steps()}
			}
		}
		return bodies
	}
	between := func(step int) error {
		if d := s.intact(); d != "" {
			return fmt.Errorf("in the global state before decision %d: %s", step, d)
		}
		if v := snap.Verify(); v != "" {
			return fmt.Errorf("singleton %s drifted", v)
		}
		return nil
	}
	check := func(tr *sched.Trace) error {
		for i := 0; i < k; i++ {
			if outs[i] != solos[i] {
				return fmt.Errorf("runtime %d differs from its solo run: got %q steps=%d, solo %q steps=%d", i, outs[i].out, outs[i].steps, solos[i].out, solos[i].steps)
			}
			// isolation: the other runtimes' marker must not be visible
			if v := envs[i].Load("whoami"); v.Text != fmt.Sprint(i) {
				return fmt.Errorf("runtime %d sees whoami=%s", i, v.Text)
			}
		}
		return nil
	}
	// determinism of the harness itself: the first schedule twice
	t1, e1 := sched.Run(mk, nil, between)
	o1 := append([]solo(nil), outs...)
	t2, e2 := sched.Run(mk, nil, between)
	if (e1 == nil) != (e2 == nil) || len(t1.Points) != len(t2.Points) || fmt.Sprint(o1) != fmt.Sprint(outs) {
		r.Violate("c09", "harness:replay-not-deterministic", scase{src, k, nil}, "identical observations when one schedule is executed twice", fmt.Sprintf("%v/%v %d/%d", e1, e2, len(t1.Points), len(t2.Points)), "")
		return
	}
	ex := &sched.Explorer{Mk: mk, Bound: bound, Between: between, Check: check, Stop: stop}
	ex.OnExec = func(tr *sched.Trace) {
		r.AddSchedules(1)
		r.AddEvals(1)
		r.AddTransitions(int64(len(tr.Points)))
	}
	ex.Fail = func(tr *sched.Trace, prefix []int, err error) {
		cls := "C-schedule:" + errClass(err)
		if r.Seen(cls) < 2 {
			r.Violate("c09", cls, scase{src, k, tr.Choices}, "shared tree unchanged in every global state; every runtime equals its solo run", err.Error(), fmt.Sprintf("schedule=%v", tr.Schedule()))
		} else {
			r.CountOnly(cls)
		}
	}
	ex.Explore()
	if ex.Capped {
		r.Cap("schedule exploration stopped by the soft deadline")
	}
	r.Outcome(fmt.Sprintf("k=%d bound=%d", k, bound))
}

func errClass(err error) string {
	s := err.Error()
	switch {
	case strings.Contains(s, "fingerprint"):
		return "fingerprint-changed"
	case strings.Contains(s, "structural dump"):
		return "tree-changed"
	case strings.Contains(s, "spare capacity"):
		return "spare-capacity-written"
	case strings.Contains(s, "singleton"):
		return "singleton-changed"
	case strings.Contains(s, "solo run"):
		return "differs-from-solo"
	case strings.Contains(s, "whoami"):
		return "isolation"
	case strings.Contains(s, "divergence"), strings.Contains(s, "harness"):
		return "harness"
	}
	return "other"
}

func schedules(r *core.Run) {
	b2, b3 := 1, 0
	if r.Thorough() {
		b2, b3 = 2, 1
	}
	r.Bound("C_preemption_bound_2_runtimes", b2)
	r.Bound("C_preemption_bound_3_runtimes", b3)
	r.Bound("C_programs", len(concurrentPrograms))
	core.ParallelRange(r, int64(len(concurrentPrograms)), nil, func(_ struct{}, i int64) {
		src := concurrentPrograms[i]
		scheduleExplore(r, src, 2, b2, r.Expired)
		scheduleExplore(r, src, 3, b3, r.Expired)
		r.AddStates(1)
		r.Nontrivial("sched:" + src)
	})
	r.Sample(scase{concurrentPrograms[0], 2, []int{0, 0, 1}})
}

// ---------------------------------------------------------------------------
// D. free-running pass (race detector target)

func freeRunning(r *core.Run) {
	n := 0
	for _, src := range concurrentPrograms {
		s, err := parseShared(src)
		if err != nil {
			continue
		}
		var wg sync.WaitGroup
		for g := 0; g < 8; g++ {
			wg.Add(1)
			go func(id int) {
				defer wg.Done()
				for it := 0; it < 6; it++ {
					env := newEnv(s.std)
					who(env, id*100+it)
					loadShared(env, s, nil)
					loadShared(env, s, context.Background())
				}
			}(g)
		}
		wg.Wait()
		n += 8 * 6 * 2
		if d := s.intact(); d != "" {
			r.Violate("c09", "D-free-running:"+treeClass(d), rcase{src, s.std}, "tree unchanged", d, "")
		}
	}
	r.AddEvals(int64(n))
	r.Extra("D_free_running_loads", n)
}

// E. fresh results: a call that builds a container must build a NEW one each time.  A package-level "empty value"
// handed out by a fast path is process-wide mutable state: the first in-place operation on it is seen by every later
// call, in every runtime.  For every registered callable x argument tuple the program
//
//	(let* ([a (Q ARGS)]) <every in-place operation on a, errors ignored> (format-string "{}" (Q ARGS)))
//
// goes through the same oracle as the routing programs (fresh parse vs shared parse loaded twice in one runtime and
// once in another); ARGS are constructor forms, so every call gets arguments of its own.
var freshArgs = []string{"()", `(list "a" "b")`, `(vector "b" "a")`, "(vector)", `"s"`, "1", "'vector", "'list", "'bytes", `(sorted-map "k" 1)`, `(to-bytes "ab")`, "(sorted-map)"}

const freshMutations = `(ignore-errors (append! a 9)) (ignore-errors (assoc! a "zz" 9)) (ignore-errors (append-bytes! a "z")) ` +
	`(ignore-errors (stable-sort (lambda (x y) (string< (to-string y) (to-string x))) a)) (ignore-errors (elpspath:?set! a "$[0]" 7))`

func tableFresh(r *core.Run) {
	cs := registry(true)
	var progs []string
	var owner []string
	for _, c := range cs {
		qual := c.name
		if c.pkg != "lisp" {
			qual = c.pkg + ":" + c.name
		}
		if strings.Contains(c.name, "gensym") || strings.Contains(c.name, "now") || strings.Contains(c.name, "elapsed") {
			continue
		}
		add := func(args string) {
			call := strings.TrimSpace("(" + qual + " " + args + ")")
			progs = append(progs, fmt.Sprintf("(let* ([a (ignore-errors %s)]) %s (format-string \"{}\" (ignore-errors %s)))", call, freshMutations, call))
			owner = append(owner, c.pkg+":"+c.name)
		}
		add("")
		pairArgs := freshArgs
		if !r.Thorough() {
			pairArgs = freshArgs[:8]
		}
		for _, x := range freshArgs {
			add(x)
		}
		for _, x := range pairArgs {
			for _, y := range pairArgs {
				add(x + " " + y)
			}
		}
	}
	r.Bound("E_fresh_result_programs", len(progs))
	core.ParallelRange(r, int64(len(progs)), nil, func(_ struct{}, i int64) {
		r.Nontrivial(progs[i])
		checkProgram(r, "E-fresh-result", progs[i], true, owner[i])
		if i%9973 == 5 {
			r.Sample(rcase{progs[i], true})
		}
	})
	r.AddStates(int64(len(cs)))
}

func run(r *core.Run) {
	r.Rule("E: for every registered callable x argument tuple (0..2 constructor forms over 12 values) the result is mutated in place in every way and the call repeated: same oracle as A (process-wide mutable values handed out by fast paths); A: every registered callable of a stdlib runtime x every argument position (<=3) x filler tuple x routing of a program literal into that position (quoted literal, cdr view, slice 'list view, nested element, &rest list, quasiquote output, macro &rest list, append copy, slice 'vector, append 'vector, apply into a &rest list, &rest view, constant top level / constant sub-list / view of a constant sub-list of a quasiquote template, spliced literal, constant part of a macro's template, the &rest list of a macro reached through macroexpand / macroexpand-1 of a quoted form directly and behind pass-through macros) x literal x follow-up mutator (none, stable-sort, append!, sort of the literal itself): shared parse loaded twice in one runtime and once in another vs a fresh parse; " +
		"P: every elpspath operator (? ?set! ?set ?del! ?del ?nil! ?nil) x document x step sequence (length 0..2 over index, key, '*, whole and partial ranges) with the literal routed in as the document, as a member of it and as the replacement value, x 10 in-place writers on the result: same oracle as A; " +
		"H: every registered callable with up to FOUR positional slots x position of the literal x filler tuple containing a per-load datum (whoami: differs in every load) x routing of a sorted integer literal of L cells (L per capacity class of the parser's append growth: spare slots behind the literal or none) x whoami rank (above / below the literal's elements): one parse loaded twice in one runtime and once in another, each load with its own whoami, against reference runtimes given a fresh parse per load; the value every load handed out is HELD and rendered again after every later load; " +
		"B: BFS over all load histories (runtime index per load, canonical numbering) up to the depth bound for every hand-written program, every load with a whoami of its own, every handed-out value held and re-rendered after every later load; " +
		"C: every schedule of K runtimes sharing one Program with at most the preemption bound, scheduling point = every evaluation step; invariants evaluated in every global state. Non-trivial: routing programs distinct by text; schedule programs by text")
	r.Assume("the parsed tree is observed through lisp.SealedASTFingerprint plus an independent structural dump (type, name, numbers, quote/seal flags, positions, children) and lisp.TakeSingletonSnapshot")
	r.Assume("the spare capacity of every cell array of the parsed tree (slots between len and cap, left by the parser's append growth) is part of the observed tree state in every family: a slot that is no longer empty is reported as spare-capacity-written")
	r.Assume("H: a value handed out by a load is only reachable by the harness, so any change in its rendering after a later load of the Program is a write through shared storage; gensym callables are left out of H (per-runtime counters: C07/C10)")
	r.Assume("memory-model effects below evaluation-step granularity are not modelled by the scheduler; the free-running pass under the race detector (check.sh builds it with -race) complements it")
	if rr := os.Getenv("RACE_RESULT"); rr != "" {
		r.Extra("D_race_detector_pass", rr)
	}
	only := os.Getenv("C09_ONLY")
	// the schedule exploration first: it is the part only a model checker can do; the routing table is the largest
	// part and comes last, so a soft deadline (reported as exhaustive=false) cuts there and nowhere else
	if only == "" || only == "C" {
		schedules(r)
	}
	if only == "" || only == "B" {
		histories(r)
	}
	if (only == "" || only == "D") && os.Getenv("C09_SKIP_D") == "" {
		// C09_SKIP_D: check.sh sets it when the race-detector pass over this very part already reported a race -- a
		// racing map access can end a free-running process with a fatal error, and the finding is already made
		freeRunning(r)
	}
	if only == "" || only == "E" {
		tableFresh(r)
	}
	if only == "" || only == "P" {
		tablePaths(r)
	}
	if only == "" || only == "H" {
		tableHeld(r)
	}
	if only == "" || only == "A" {
		tableRouting(r)
	}
}

func replay(v core.Violation) (bool, string) {
	switch {
	case strings.HasPrefix(v.Class, "A-routing"), strings.HasPrefix(v.Class, "P-path"), strings.HasPrefix(v.Class, "D-"), strings.HasPrefix(v.Class, "E-"):
		k, err := core.CaseOf[rcase](v)
		if err != nil {
			return false, err.Error()
		}
		bad, detail := programViolates(k.Src, k.Std)
		return bad != "", k.Src + "\n" + bad + ": " + detail
	case strings.HasPrefix(v.Class, "H-held"):
		k, err := core.CaseOf[heldCase](v)
		if err != nil {
			return false, err.Error()
		}
		bad, detail := heldViolates(k.Src, k.Who, true)
		return bad != "", fmt.Sprintf("%s\nwhoami per load: %v\n%s: %s", k.Src, k.Who, bad, detail)
	case strings.HasPrefix(v.Class, "B-history"):
		k, err := core.CaseOf[hcase](v)
		if err != nil {
			return false, err.Error()
		}
		bad, detail := historyViolates(k.Src, k.History)
		return bad != "", k.Src + "\n" + bad + ": " + detail
	case strings.HasPrefix(v.Class, "C-schedule"):
		k, err := core.CaseOf[scase](v)
		if err != nil {
			return false, err.Error()
		}
		return replaySchedule(k)
	}
	return false, "unknown class"
}

func replaySchedule(k scase) (bool, string) {
	s, err := parseShared(k.Src)
	if err != nil {
		return false, err.Error()
	}
	solos := make([]solo, k.Threads)
	for i := range solos {
		solos[i] = soloRun(s, i)
	}
	outs := make([]solo, k.Threads)
	mk := func() []sched.Body {
		bodies := make([]sched.Body, k.Threads)
		for i := range bodies {
			i := i
			env := newEnv(s.std)
			who(env, i)
			bodies[i] = func(ctx context.Context) {
				o := loadShared(env, s, ctx)
				outs[i] = solo{norm(o), env.Runtime.Steps()}
			}
		}
		return bodies
	}
	var bad error
	tr, err := sched.Run(mk, k.Schedule, func(step int) error {
		if d := s.intact(); d != "" && bad == nil {
			bad = fmt.Errorf("decision %d: %s", step, d)
		}
		return nil
	})
	if err != nil {
		return true, err.Error()
	}
	var sb bytes.Buffer
	fmt.Fprintf(&sb, "src: %s\nschedule (thread per step): %v\n", k.Src, tr.Schedule())
	for i := range outs {
		fmt.Fprintf(&sb, "runtime %d: %q steps=%d (solo %q steps=%d)\n", i, outs[i].out, outs[i].steps, solos[i].out, solos[i].steps)
		if outs[i] != solos[i] && bad == nil {
			bad = fmt.Errorf("runtime %d differs from solo", i)
		}
	}
	if bad != nil {
		sb.WriteString(bad.Error())
	}
	return bad != nil, sb.String()
}
