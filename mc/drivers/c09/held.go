package c09

import (
	"fmt"
	"strings"

	"github.com/luthersystems/elps/lisp"

	"verif/mc/core"
	"verif/mc/el"
)

// ---------------------------------------------------------------------------
// Spare capacity.  The parser grows a list's cells with append, so a parsed list of 3, 5..7, 9..15 cells owns a backing
// array longer than the list: slots that belong to the Program but that no fingerprint, dump or re-evaluation of the
// literal looks at.  A value built by appending onto the literal's own cell slice lands there, and from then on every
// evaluation of that form -- in any runtime sharing the Program -- writes the same memory word.  spareAll renders
// every such slot of the parsed tree; it is part of the tree's observed state (shared.intact).

func spareAll(exprs []*lisp.LVal) string {
	s, _ := spareScan(exprs)
	return s
}

// spareScan also counts the slots it looked at.
func spareScan(exprs []*lisp.LVal) (string, int) {
	var sb strings.Builder
	n := 0
	for i, e := range exprs {
		spare(&sb, e, fmt.Sprint(i), 0, &n)
	}
	return sb.String(), n
}

func spare(sb *strings.Builder, v *lisp.LVal, path string, depth int, n *int) {
	if v == nil || depth > 200 {
		return
	}
	if c := cap(v.Cells); c > len(v.Cells) {
		full := v.Cells[:c]
		for j := len(v.Cells); j < c; j++ {
			*n++
			if full[j] != nil {
				fmt.Fprintf(sb, "%s[%d]=%s;", path, j, full[j].String())
			}
		}
	}
	for i, c := range v.Cells {
		spare(sb, c, fmt.Sprintf("%s.%d", path, i), depth+1, n)
	}
}

// ---------------------------------------------------------------------------
// H. held values.  Tables A, E and P evaluate constant programs: every load computes the same values, so a store into
// memory shared through the Program rewrites a word with what it already held and every rendering stays equal to a
// fresh parse's.  Here the programs read a per-load datum (whoami: 1041 in the first load, 1077 in the second load of
// the same runtime, 1053 in another runtime) next to the routed literal, and the harness HOLDS the value every load returned
// and renders it again after every later load:
//
//	(let* ([lit ROUTING(LITERAL)] [r (ignore-errors (CALLABLE .. lit .. whoami ..))]) MUTATOR (list lit r LITERAL))
//
// callable: every registered callable, up to four positional slots (three in the other tables: the four-argument
// builtins -- insert-sorted, insert-index, foldl-style walkers -- never got a well-formed call there);
// literal: a sorted list of L integers, L chosen per capacity class of the parser's append growth (L = 3: one spare
// slot, 5: three, 4 and 8: none ...); whoami triple: above / below the literal's elements.
//
// Oracle: (1) every load equals what a fresh parse gives in a reference runtime that went through the same loads with
// the same whoami; (2) a value handed out by an earlier load renders exactly as it did when it was handed out, after
// every later load of the Program in the same or another runtime (later loads never get to see it); the same for the
// reference values; (3) the parsed tree -- fingerprint, dump, spare capacity -- and the singletons are unchanged.

type heldCase struct {
	Src string `json:"src"`
	Who [3]int `json:"whoami"` // first load, second load in the same runtime, load in the second runtime
}

var heldRoutings = []struct{ id, expr string }{
	{"quoted", "'(%e)"},
	{"cdr-view", "(cdr '(0 %e))"},
	{"macro-rest", "(mac-list %e)"},
	{"quasiquote-const", "(quasiquote (%e))"},
	{"nested-element", "(car (cdr '(0 (%e))))"},
	{"slice-view", "(slice 'list '(%e 0) 0 %n)"},
	{"fn-rest-list", "((lambda (&rest r) r) %e)"}, // control: a list of the call's own
	{"macroexpand-rest", "(eval (macroexpand '(mac-list %e)))"},
	{"quoted-bracket-eval", "(eval '[%e])"},
}

// mac-list hands its &rest list -- a view of the call form's own cells -- back as data
const heldPrelude = "(defmacro mac-list (&rest xs) (quasiquote (unquote xs)))\n"

var heldFillers = []string{"'list", "<", "whoami", "(list whoami)"}

var heldMutators = []struct{ id, expr string }{
	{"none", "()"},
	{"sort-result", "(ignore-errors (stable-sort > r))"},
}

// whoami triples by rank relative to the literal's elements (10, 20, .., 10*L)
var heldWho = []struct {
	id string
	w  [3]int
}{
	{"above", [3]int{1041, 1077, 1053}},
	{"below", [3]int{1, 7, 3}},
}

func heldElems(n int) string {
	xs := make([]string, n)
	for i := range xs {
		xs[i] = fmt.Sprint(10 * (i + 1))
	}
	return strings.Join(xs, " ")
}

func heldProgram(c callable, pos int, fill []string, rt, n, mut int) string {
	qual := c.name
	if c.pkg != "lisp" {
		qual = c.pkg + ":" + c.name
	}
	args := make([]string, c.arity)
	fi := 0
	for i := range args {
		if i == pos {
			args[i] = "lit"
		} else {
			args[i] = fill[fi]
			fi++
		}
	}
	e := heldElems(n)
	route := strings.ReplaceAll(heldRoutings[rt].expr, "%e", e)
	route = strings.ReplaceAll(route, "%n", fmt.Sprint(n))
	return fmt.Sprintf("%s(let* ([lit %s] [r (ignore-errors (%s %s))]) %s (list lit r '(%s)))",
		heldPrelude, route, qual, strings.Join(args, " "), heldMutators[mut].expr, e)
}

// held is a value handed out by a load, with its rendering at that moment.
type held struct {
	v    *lisp.LVal
	was  string
	what string
}

func renderHeld(v *lisp.LVal) string {
	if v == nil {
		return "<nil>"
	}
	if v.Type == lisp.LError {
		return "ERR<" + v.Str + ">"
	}
	return v.String()
}

func checkHeld(hs []held, when string) (string, string) {
	for _, h := range hs {
		if now := renderHeld(h.v); now != h.was {
			return "held-value-changed", fmt.Sprintf("the value handed out by %s was %s; %s it reads %s", h.what, h.was, when, now)
		}
	}
	return "", ""
}

func loadKeep(env *el.Env, s *shared) (*lisp.LVal, el.Outcome) {
	env.Err.Reset()
	v := env.LoadProgram(s.prog)
	return v, el.Observe(v, env.Err.String())
}

func loadFreshKeep(env *el.Env, src string) (*lisp.LVal, el.Outcome) {
	env.Err.Reset()
	v := env.LoadString("test", src)
	return v, el.Observe(v, env.Err.String())
}

// heldViolates: loads 1 and 2 in runtime A (whoami w[0], then w[1]), load 3 in runtime B (whoami w[2]) of ONE parse;
// the reference runtimes go through the same loads with a fresh parse each.
func heldViolates(src string, w [3]int, stdlib bool) (string, string) {
	s, err := parseShared(src)
	if err != nil {
		return "", ""
	}
	snap := lisp.TakeSingletonSnapshot()
	envA, refA := newEnv(stdlib), newEnv(stdlib)
	envB, refB := newEnv(stdlib), newEnv(stdlib)
	steps := []struct {
		env, ref *el.Env
		who      int
		what     string
	}{
		{envA, refA, w[0], "the first load"},
		{envA, refA, w[1], "the second load in the same runtime"},
		{envB, refB, w[2], "the load in a second runtime"},
	}
	// every oracle is evaluated after every load; the first finding names the class, the others are listed with it
	var hs []held
	var kinds, details []string
	note := func(kind, detail string) {
		for _, k := range kinds {
			if k == kind {
				return
			}
		}
		kinds = append(kinds, kind)
		details = append(details, kind+": "+detail)
	}
	for _, st := range steps {
		who(st.env, st.who)
		who(st.ref, st.who)
		v, got := loadKeep(st.env, s)
		if d := s.intact(); d != "" {
			note(treeClass(d), "after "+st.what+": "+d)
		}
		rv, want := loadFreshKeep(st.ref, src)
		if norm(got) != norm(want) {
			note("load-differs", fmt.Sprintf("%s (whoami=%d): shared parse gives %s, a fresh parse gives %s", st.what, st.who, got.Full(), want.Full()))
		}
		if c, d := checkHeld(hs, "after "+st.what); c != "" {
			note(c, d)
		}
		hs = append(hs, held{v, renderHeld(v), st.what + " of the shared parse"}, held{rv, renderHeld(rv), st.what + " of a fresh parse (reference)"})
	}
	if v := snap.Verify(); v != "" {
		note("singleton-changed", "singleton "+v+" drifted")
	}
	if len(kinds) > 0 {
		return kinds[0], strings.Join(details, "\n")
	}
	return "", ""
}

func tableHeld(r *core.Run) {
	cs := registryMax(true, 4)
	nfill := 4
	rts := []int{0, 1, 2, 3}
	lens := []int{3, 5}
	muts := []int{0}
	whos := []int{0}
	if r.Thorough() {
		rts = []int{0, 1, 2, 3, 4, 5, 6, 7, 8}
		lens = []int{3, 4, 5, 9} // 1, 0, 3 and 7 spare slots
		muts = []int{0, 1}
		whos = []int{0, 1}
	}
	type job struct {
		c                callable
		pos, rt, n, m, w int
		fill             []string
	}
	var jobs []job
	for _, c := range cs {
		if strings.Contains(c.name, "gensym") {
			continue
		}
		for pos := 0; pos < c.arity; pos++ {
			others := c.arity - 1
			combos := 1
			for i := 0; i < others; i++ {
				combos *= nfill
			}
			for ci := 0; ci < combos; ci++ {
				fill := make([]string, others)
				x := ci
				perLoad := false
				for i := range fill {
					fill[i] = heldFillers[x%nfill]
					x /= nfill
					if strings.Contains(fill[i], "whoami") {
						perLoad = true
					}
				}
				if !perLoad && others > 0 {
					continue // a constant call: tables A and E
				}
				for _, rt := range rts {
					for _, n := range lens {
						for _, m := range muts {
							for _, w := range whos {
								jobs = append(jobs, job{c, pos, rt, n, m, w, fill})
							}
						}
					}
				}
			}
		}
	}
	r.Bound("H_callables", len(cs))
	r.Bound("H_max_positional_slots", 4)
	r.Bound("H_held_value_programs", len(jobs))
	r.Bound("H_routings", len(rts))
	r.Bound("H_literal_lengths", fmt.Sprint(lens))
	r.Bound("H_fillers_per_position", nfill)
	r.Bound("H_whoami_triples", len(whos))
	r.Bound("H_loads_per_program", 3)
	core.ParallelRange(r, int64(len(jobs)), nil, func(_ struct{}, i int64) {
		j := jobs[i]
		src := heldProgram(j.c, j.pos, j.fill, j.rt, j.n, j.m)
		w := heldWho[j.w].w
		r.Nontrivial(src + "|" + heldWho[j.w].id)
		bad, detail := heldViolates(src, w, true)
		r.AddEvals(1)
		r.AddTransitions(6)
		r.AddTraces(1)
		if i%15013 == 11 {
			r.Sample(heldCase{src, w})
		}
		if bad == "" {
			return
		}
		cls := "H-held:" + bad + ":" + j.c.pkg + ":" + j.c.name
		if r.Seen(cls) >= 2 {
			r.CountOnly(cls)
			return
		}
		for k := 0; k < 4; k++ {
			if b2, _ := heldViolates(src, w, true); b2 == "" {
				r.Flaky(heldCase{src, w})
				return
			}
		}
		r.Violate("c09", cls, heldCase{src, w}, "every load equals a fresh parse's; a value handed out by an earlier load reads the same after every later load; the parsed tree and its spare capacity are unchanged", detail, "")
	})
	r.AddStates(int64(len(cs)))
	if len(jobs) > 0 {
		j := jobs[0]
		if s, err := parseShared(heldProgram(j.c, j.pos, j.fill, j.rt, j.n, j.m)); err == nil {
			_, n := spareScan(s.exprs)
			r.Extra("H_spare_capacity_slots_watched_in_first_program", n)
		}
	}
}
