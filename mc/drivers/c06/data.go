package c06

import (
	"fmt"
	"sort"
	"strconv"
	"strings"

	"verif/mc/core"
)

// The error's DATA.  The statement: the handler "is called with the condition name and the error's data", unmatched
// errors "propagate outward unchanged", rethrow re-raises "with the same condition, data and stack trace"; docs/lang.md:
// "That handler function receives the arguments passed to the `error` built-in".  So whatever tuple of values the
// program hands to the raising entry point, that tuple -- same length, same order, same values -- is what every observer
// of the error gets.  Enumerated: every data tuple up to a length over an alphabet of value kinds (the "empty-ish" ones
// first: a maintainer's filter / default / truthiness test would single those out), raised through every entry point
// that builds a condition with data, observed in every way the statement names.

type datum struct {
	name, src string
	core      bool // member of the small alphabet used for the longest tuples
}

var dataAlpha = []datum{
	{"nil", "()", true},
	{"computed-nil", "(cdr '(1))", true},
	{"false", "false", true},
	{"int", "1", true},
	{"symbol", "'a", true},
	{"list", "'(1 2)", true},
	{"zero", "0", false},
	{"empty-string", `""`, false},
	{"string", `"s"`, false},
	{"true", "true", false},
	{"keyword", ":k", false},
	{"float", "1.5", false},
	{"list-of-nil", "(list ())", false},
	{"empty-vector", "(vector)", false},
	{"empty-map", "(sorted-map)", false},
}

// entry points that build a condition carrying data
var dataRaisers = []struct {
	name string
	src  func(ds []string) string
}{
	{"error", func(ds []string) string { return "(error 'c1" + sp(ds) + ")" }},
	// the re-raise idiom of docs/lang.md, "(apply error c args)"
	{"apply-error", func(ds []string) string { return "(apply error 'c1 (list" + sp(ds) + "))" }},
	// the host's constructor, (*LEnv).ErrorCondition(name, values...)
	{"host-raise", func(ds []string) string { return "(host-raise 'c1" + sp(ds) + ")" }},
	// raised inside a source loaded from lisp: the error crosses the load boundary
	{"error-in-loaded-source", func(ds []string) string {
		return "(load-string " + strconv.Quote("(error 'c1"+sp(ds)+")") + ")"
	}},
}

const (
	hData   = "(lambda (c &rest d) (list 'h c (length d) d))"
	hDoc    = "(lambda (&rest e) e)" // the handler of the docs' first example
	hReRise = "(lambda (c &rest d) (apply error c d))"
	hRtOnly = "(lambda (c &rest d) (rethrow))"
)

// observers of the error's data; host = the data of the error that reaches the host are compared too
var dataContexts = []struct {
	name string
	host bool
	src  func(raise string, n int) string
}{
	{"rest-handler", false, func(x string, n int) string { return "(handler-bind ([condition " + hData + "]) " + x + ")" }},
	// a handler with exactly one parameter per datum, bound by name: its value is the value of the handler-bind
	{"fixed-arity-handler", false, func(x string, n int) string {
		ps := ""
		for i := 1; i <= n; i++ {
			ps += fmt.Sprintf(" p%d", i)
		}
		return "(handler-bind ([c1 (lambda (c" + ps + ") (list 'fixed c" + ps + "))]) " + x + ")"
	}},
	{"doc-handler", false, func(x string, n int) string { return "(handler-bind ([c1 " + hDoc + "]) " + x + ")" }},
	{"rethrown-to-outer-handler", false, func(x string, n int) string {
		return "(handler-bind ([condition " + hData + "]) (handler-bind ([c1 " + hRtOnly + "]) " + x + "))"
	}},
	{"reraised-with-apply-to-outer-handler", false, func(x string, n int) string {
		return "(handler-bind ([condition " + hData + "]) (handler-bind ([condition " + hReRise + "]) " + x + "))"
	}},
	{"unhandled-to-host", true, func(x string, n int) string { return x }},
	{"unmatched-to-host", true, func(x string, n int) string { return "(handler-bind ([c2 " + hTwo + "]) " + x + " 'not-reached)" }},
	{"rethrown-to-host", true, func(x string, n int) string { return "(handler-bind ([condition " + hRtOnly + "]) " + x + ")" }},
}

func sp(ds []string) string {
	s := ""
	for _, d := range ds {
		s += " " + d
	}
	return s
}

type dataKase struct {
	Src      string   `json:"src"`
	HostData bool     `json:"host_data"`
	Data     []string `json:"data"`
	Raiser   string   `json:"raiser"`
	Context  string   `json:"context"`
}

func dataSrc(tuple []int, raiser, ctx int) string {
	ds := make([]string, len(tuple))
	for i, t := range tuple {
		ds[i] = dataAlpha[t].src
	}
	return prelude + dataContexts[ctx].src(dataRaisers[raiser].src(ds), len(tuple))
}

func dataAgree(tuple []int, raiser, ctx int) (string, obs, obs, bool) {
	src := dataSrc(tuple, raiser, ctx)
	h := dataContexts[ctx].host
	ref, real := runRefOpt(src, h), runRealOpt(src, h)
	return src, ref, real, agree(ref, real)
}

// dataTuples: every tuple over the full alphabet up to fullLen, then every longer one over the core alphabet up to coreLen
// (shortest first).
func dataTuples(fullLen, coreLen int) [][]int {
	var full, coreIx []int
	for i, d := range dataAlpha {
		full = append(full, i)
		if d.core {
			coreIx = append(coreIx, i)
		}
	}
	var out [][]int
	var rec func(alpha []int, n int, cur []int)
	rec = func(alpha []int, n int, cur []int) {
		if len(cur) == n {
			out = append(out, append([]int(nil), cur...))
			return
		}
		for _, a := range alpha {
			rec(alpha, n, append(cur, a))
		}
	}
	for n := 0; n <= fullLen; n++ {
		rec(full, n, nil)
	}
	for n := fullLen + 1; n <= coreLen; n++ {
		rec(coreIx, n, nil)
	}
	return out
}

func errorData(r *core.Run) {
	fullLen, coreLen := 2, 3
	if r.Thorough() {
		fullLen, coreLen = 3, 4
	}
	tuples := dataTuples(fullLen, coreLen)
	type dk struct {
		tuple       []int
		raiser, ctx int
	}
	var ks []dk
	for _, t := range tuples {
		for ra := range dataRaisers {
			for c := range dataContexts {
				ks = append(ks, dk{t, ra, c})
			}
		}
	}
	r.Bound("data_alphabet", len(dataAlpha))
	r.Bound("data_tuple_max_len_full_alphabet", fullLen)
	r.Bound("data_tuple_max_len_core_alphabet", coreLen)
	r.Bound("data_tuples", len(tuples))
	r.Bound("data_raisers", len(dataRaisers))
	r.Bound("data_contexts", len(dataContexts))
	r.Bound("data_programs", len(ks))
	core.ParallelRange(r, int64(len(ks)), nil, func(_ struct{}, i int64) {
		k := ks[i]
		src, ref, real, ok := dataAgree(k.tuple, k.raiser, k.ctx)
		r.AddEvals(1)
		r.AddTransitions(1)
		r.AddTraces(1)
		r.AddStates(1)
		if len(k.tuple) > 0 {
			r.Nontrivial(src)
		}
		r.Outcome("data:" + ref.Class + "/" + real.Class + ":" + ifs(real.Class == "err", "err", ""))
		var names []string
		for _, t := range k.tuple {
			names = append(names, dataAlpha[t].name)
		}
		kc := dataKase{Src: src, HostData: dataContexts[k.ctx].host, Data: names, Raiser: dataRaisers[k.raiser].name, Context: dataContexts[k.ctx].name}
		if i%1499 == 5 {
			r.Sample(kc)
		}
		if ok {
			return
		}
		// name the class after the data that fail on their own (as the only datum) in this context, if any does
		var culprits, all []string
		for t := range dataAlpha {
			if !inTuple(k.tuple, t) {
				continue
			}
			all = append(all, dataAlpha[t].name)
			if len(k.tuple) > 1 {
				if _, _, _, ok1 := dataAgree([]int{t}, k.raiser, k.ctx); !ok1 {
					culprits = append(culprits, dataAlpha[t].name)
				}
			}
		}
		// (the first of them in alphabet order: simplest first), else after the kinds in the tuple
		what := "no-data"
		if len(culprits) > 0 {
			what = culprits[0]
		} else if len(all) > 0 {
			sort.Strings(all)
			what = strings.Join(all, "+")
		}
		cls := ref.Class + "-vs-" + real.Class + ":data:" + dataContexts[k.ctx].name + ":" + dataRaisers[k.raiser].name + ":" + what
		if r.Seen(cls) >= 1 {
			r.CountOnly(cls)
			return
		}
		for n := 0; n < 5; n++ {
			if _, _, _, ok := dataAgree(k.tuple, k.raiser, k.ctx); ok {
				r.Flaky(kc)
				return
			}
		}
		r.Violate("c06", cls, kc, "reference: "+ref.String(), "elps: "+real.String(), "the observer must get exactly the data the program passed when it raised the error")
	})
}

func inTuple(tuple []int, t int) bool {
	for _, x := range tuple {
		if x == t {
			return true
		}
	}
	return false
}
