// Package c06: condition handling -- handler-bind, ignore-errors, rethrow and
// the host-panic carve-out (DESIGN §C06).  Every term of the condition
// grammar up to a node bound is evaluated by the definitional interpreter
// (verif/mc/ri, which implements the statement literally) and by the real
// interpreter; value, error condition and stderr transcript must agree.
package c06

import (
	"fmt"
	"strings"

	"github.com/luthersystems/elps/lisp"

	"verif/mc/core"
	"verif/mc/el"
	"verif/mc/gen"
	"verif/mc/ri"
)

func init() {
	core.Register(&core.Driver{Property: "C06", Run: run, Replay: replay})
}

const prelude = "(set 'x 42) "

const (
	// message strings written by the evaluator are not compared ('str); a string the PROGRAM put in the error's data must
	// arrive exactly as written ('user-string), whatever characters it contains
	userStr  = `"100%d full %s %% done"`
	hList    = "(lambda (c &rest d) (list 'handled c (map 'list (lambda (e) (if (string? e) (if (equal? e " + userStr + ") 'user-string 'str) e)) d)))"
	hTwo     = "(lambda (c &rest d) (list 'h2 c))"
	hRethrow = "(lambda (c &rest d) (debug-print 'rt c) (rethrow))"
)

var cons = []gen.Con{
	{Name: "1", Arity: 0}, {Name: "DP", Arity: 0}, {Name: "E1", Arity: 0}, {Name: "E1x", Arity: 0}, {Name: "E1l", Arity: 0},
	{Name: "LHP", Arity: 0}, {Name: "LE1", Arity: 0}, {Name: "E1s", Arity: 0}, {Name: "E1s2", Arity: 0}, {Name: "E2", Arity: 0}, {Name: "EIP", Arity: 0}, {Name: "HP", Arity: 0}, {Name: "RT", Arity: 0}, {Name: "CAR", Arity: 0}, {Name: "UND", Arity: 0},
	{Name: "IE", Arity: 1}, {Name: "HBc", Arity: 1}, {Name: "HB1", Arity: 1}, {Name: "HBip", Arity: 1}, {Name: "HBe", Arity: 1},
	{Name: "HBrt", Arity: 1}, {Name: "HBiprt", Arity: 1}, {Name: "HB2", Arity: 1}, {Name: "HB2r", Arity: 1}, {Name: "HBbad", Arity: 1},
	{Name: "HBhp", Arity: 1}, {Name: "HBhe", Arity: 1}, {Name: "HBcip", Arity: 1}, {Name: "HBipc", Arity: 1}, {Name: "HB3", Arity: 1},
	{Name: "PG", Arity: 2}, {Name: "IE2", Arity: 2}, {Name: "HBc2", Arity: 2}, {Name: "HBrt2", Arity: 2}, {Name: "HBh", Arity: 2}, {Name: "HBiph", Arity: 2}, {Name: "HBx", Arity: 2}, {Name: "LIST2", Arity: 2},
}

func render(t *gen.Tree) string {
	k := func(i int) string { return render(t.Kids[i]) }
	switch t.Con.Name {
	case "1":
		return "1"
	case "DP":
		return "(debug-print 'm)"
	case "E1":
		return "(error 'c1 1 'a)"
	case "E1x":
		return "(error 'c1 (car '(x)))"
	case "E1l":
		return "(error 'c1 (car '((+ 1 2))))"
	case "E1s":
		return "(error 'c1 " + userStr + ")"
	case "E1s2":
		return "(error 'c1 " + userStr + " 2)"
	case "E2":
		return "(error 'c2)"
	case "EIP":
		return "(error 'internal-panic \"forged\")"
	case "HP":
		return "(host-panic)"
	case "LHP":
		// the host panic happens inside a source loaded from lisp: crossing the load boundary must not turn it into an
		// ordinary error (the marker travels with the error, not with its name)
		return "(load-string \"(progn (debug-print 'in-load) (host-panic))\")"
	case "LE1":
		return "(load-string \"(error 'c1 1 'a)\")"
	case "RT":
		return "(rethrow)"
	case "CAR":
		return "(car 1)"
	case "UND":
		return "undefined-sym"
	case "IE":
		return "(ignore-errors " + k(0) + ")"
	case "HBc":
		return "(handler-bind ([condition " + hList + "]) " + k(0) + ")"
	case "HB1":
		return "(handler-bind ([c1 " + hList + "]) " + k(0) + ")"
	case "HBip":
		return "(handler-bind ([internal-panic " + hList + "]) " + k(0) + ")"
	case "HBe":
		return "(handler-bind ([error " + hList + "]) " + k(0) + ")"
	case "HBrt":
		return "(handler-bind ([condition " + hRethrow + "]) " + k(0) + ")"
	case "HBiprt":
		// an explicit internal-panic binding whose handler rethrows: the re-raised error is still a host panic for
		// every enclosing ignore-errors and catch-all binding
		return "(handler-bind ([internal-panic " + hRethrow + "]) " + k(0) + ")"
	case "HB2":
		return "(handler-bind ([c2 " + hTwo + "] [condition " + hList + "]) " + k(0) + ")"
	case "HB2r":
		return "(handler-bind ([condition " + hList + "] [c2 " + hTwo + "]) " + k(0) + ")"
	case "HBcip":
		// the catch-all FIRST, the explicit internal-panic binding after it: a host panic skips the former and must
		// still reach the latter
		return "(handler-bind ([condition " + hList + "] [internal-panic " + hTwo + "]) " + k(0) + ")"
	case "HBipc":
		return "(handler-bind ([internal-panic " + hTwo + "] [condition " + hList + "]) " + k(0) + ")"
	case "HB3":
		return "(handler-bind ([c2 " + hTwo + "] [condition " + hList + "] [error " + hRethrow + "] [internal-panic " + hTwo + "]) " + k(0) + ")"
	case "HBhp":
		// the handler is a HOST builtin that panics when it is called
		return "(handler-bind ([condition host-panic-handler]) " + k(0) + ")"
	case "HBhe":
		// the handler is a HOST builtin that returns an ordinary error
		return "(handler-bind ([condition host-error-handler]) " + k(0) + ")"
	case "HBbad":
		return "(handler-bind ([condition 42]) " + k(0) + ")"
	case "PG":
		return "(progn " + k(0) + " " + k(1) + ")"
	case "HBc2":
		// two body forms: the forms after the failing one must not run
		return "(handler-bind ([condition " + hList + "]) " + k(0) + " " + k(1) + ")"
	case "HBrt2":
		return "(handler-bind ([condition " + hRethrow + "]) " + k(0) + " " + k(1) + ")"
	case "IE2":
		return "(ignore-errors " + k(0) + " " + k(1) + ")"
	case "HBh":
		return "(handler-bind ([condition (lambda (c &rest d) " + k(0) + ")]) " + k(1) + ")"
	case "HBiph":
		return "(handler-bind ([internal-panic (lambda (c &rest d) " + k(0) + ")]) " + k(1) + ")"
	case "HBx":
		return "(handler-bind ([condition (progn " + k(0) + " " + hList + ")]) " + k(1) + ")"
	case "LIST2":
		return "(list " + k(0) + " " + k(1) + ")"
	}
	panic("con")
}

type obs struct {
	Class, Text, Out string
}

func (o obs) String() string { return fmt.Sprintf("%s<%s> out=%q", o.Class, o.Text, o.Out) }

func runRef(src string) obs { return runRefOpt(src, false) }

// runRefOpt: with hostData the data of an error that reaches the host are part of the observation.
func runRefOpt(src string, hostData bool) obs {
	in := ri.New()
	// the host's constructor for a condition with data, (*LEnv).ErrorCondition(name, values...): "an LError [of] the given
	// condition type" built from "any number of *LVal values" -- the same thing the error builtin makes
	in.DefBuiltin("host-raise", []string{"c", "&rest", "d"}, func(in *ri.Interp, a []*ri.Val, at *ri.Val) (*ri.Val, *ri.Err) {
		if len(a) < 1 || a[0].K != ri.KSym {
			return nil, in.Errf(at, "<unspecified>", "host-raise argument")
		}
		e := in.Errf(at, a[0].S, "")
		e.Data = append([]*ri.Val(nil), a[1:]...)
		return nil, e
	})
	in.DefBuiltin("host-panic", nil, func(in *ri.Interp, a []*ri.Val, at *ri.Val) (*ri.Val, *ri.Err) {
		return nil, in.HostPanicErr(at)
	})
	in.DefBuiltin("load-string", []string{"s"}, func(in *ri.Interp, a []*ri.Val, at *ri.Val) (*ri.Val, *ri.Err) {
		if len(a) != 1 || a[0].K != ri.KStr {
			return nil, in.Errf(at, "<unspecified>", "load-string argument")
		}
		v, e, perr := in.Load(a[0].S)
		if perr != nil {
			return nil, in.Errf(at, "<unspecified>", "parse error in loaded source")
		}
		return v, e // an error raised inside the loaded source propagates unchanged
	})
	in.DefBuiltin("host-panic-handler", []string{"c", "&rest", "d"}, func(in *ri.Interp, a []*ri.Val, at *ri.Val) (*ri.Val, *ri.Err) {
		return nil, in.HostPanicErr(at)
	})
	in.DefBuiltin("host-error-handler", []string{"c", "&rest", "d"}, func(in *ri.Interp, a []*ri.Val, at *ri.Val) (*ri.Val, *ri.Err) {
		return nil, in.Errf(at, "host-error", "host handler failed")
	})
	v, e, perr := in.Load(src)
	switch {
	case perr != nil:
		return obs{Class: "unspecified", Text: perr.Error()}
	case in.OutOfFuel:
		return obs{Class: "unspecified", Text: "fuel"}
	case e != nil && strings.HasPrefix(e.Cond, "<"):
		return obs{Class: "unspecified", Text: e.Cond}
	case e != nil && hostData:
		ds := make([]string, len(e.Data))
		for i, d := range e.Data {
			ds[i] = d.String()
		}
		return obs{Class: "err", Text: hostErrText(e.Cond, ds), Out: in.Out.String()}
	case e != nil:
		return obs{Class: "err", Text: e.Cond, Out: in.Out.String()}
	}
	return obs{Class: "val", Text: v.String(), Out: in.Out.String()}
}

func hostErrText(cond string, data []string) string {
	return fmt.Sprintf("%s with %d data [%s]", cond, len(data), strings.Join(data, " | "))
}

func runReal(src string) obs { return runRealOpt(src, false) }

func runRealOpt(src string, hostData bool) obs { return runRealAfter("", src, hostData) }

// runRealAfter: the same observation, on a runtime in which the source `earlier` (if any) was loaded -- and possibly
// failed -- before.  The carve-out is a fact about ONE error, not about the runtime: what an earlier evaluation raised
// or recovered must not change how a later error is handled.
func runRealAfter(earlier, src string, hostData bool) obs {
	hr := el.Fn("host-raise", []string{"c", "&rest", "d"}, func(env *lisp.LEnv, args *lisp.LVal) *lisp.LVal {
		if len(args.Cells) < 1 || args.Cells[0].Type != lisp.LSymbol {
			return env.Errorf("host-raise: the condition is not a symbol")
		}
		vs := make([]interface{}, 0, len(args.Cells)-1)
		for _, d := range args.Cells[1:] {
			vs = append(vs, d)
		}
		return env.ErrorCondition(args.Cells[0].Str, vs...)
	})
	hp := el.Fn("host-panic", nil, func(env *lisp.LEnv, args *lisp.LVal) *lisp.LVal {
		panic("injected host panic")
	})
	hph := el.Fn("host-panic-handler", []string{"c", "&rest", "d"}, func(env *lisp.LEnv, args *lisp.LVal) *lisp.LVal {
		panic("injected host panic in a handler")
	})
	heh := el.Fn("host-error-handler", []string{"c", "&rest", "d"}, func(env *lisp.LEnv, args *lisp.LVal) *lisp.LVal {
		return env.ErrorConditionf("host-error", "host handler failed")
	})
	env := el.MustEnv(el.Opts{Builtins: []lisp.LBuiltinDef{hp, hph, heh, hr}})
	if earlier != "" {
		env.LoadString("earlier", earlier)
	}
	env.Err.Reset()
	res := env.LoadString("test", src)
	o := el.Observe(res, env.Err.String())
	// whatever happened, nothing may be left behind: "rethrow ... is itself an error anywhere else"
	rt := env.Runtime
	if rt.CurrentCondition() != nil {
		return obs{Class: "dirty", Text: "a condition is still pending for rethrow after the evaluation returned: " + rt.CurrentCondition().Str}
	}
	if len(rt.Stack.Frames) != 0 {
		return obs{Class: "dirty", Text: fmt.Sprintf("%d frames left on the call stack", len(rt.Stack.Frames))}
	}
	if after := env.Load("(rethrow)"); !after.IsErr || after.Cond != "error" {
		return obs{Class: "dirty", Text: "a later (rethrow) outside any handler gives " + after.Full()}
	}
	if o.IsErr && hostData && res != nil {
		ds := make([]string, len(res.Cells))
		for i, d := range res.Cells {
			ds[i] = el.NormFuns(d.String())
		}
		return obs{Class: "err", Text: hostErrText(o.Cond, ds), Out: el.NormFuns(o.Out)}
	}
	if o.IsErr {
		return obs{Class: "err", Text: o.Cond, Out: el.NormFuns(o.Out)}
	}
	return obs{Class: "val", Text: el.NormFuns(o.Text), Out: el.NormFuns(o.Out)}
}

func agree(a, b obs) bool {
	if a.Class == "unspecified" || b.Class == "unspecified" {
		return true
	}
	return a == b
}

type kase struct {
	Src string `json:"src"`
}

// classify by the leaf kinds and handler kinds involved (stable and coarse).
func classify(t *gen.Tree, ref, real obs) string {
	seen := map[string]bool{}
	var names []string
	var walk func(t *gen.Tree)
	walk = func(t *gen.Tree) {
		n := t.Con.Name
		if !seen[n] && n != "1" && n != "DP" && n != "PG" && n != "LIST2" {
			seen[n] = true
			names = append(names, n)
		}
		for _, k := range t.Kids {
			walk(k)
		}
	}
	walk(t)
	if len(names) > 3 {
		names = names[:3]
	}
	return ref.Class + "-vs-" + real.Class + ":" + strings.Join(names, "+")
}

func replay(v core.Violation) (bool, string) {
	// the data family's cases also say whether the data of an error that reaches the host are compared
	k, err := core.CaseOf[struct {
		Src      string `json:"src"`
		HostData bool   `json:"host_data"`
		Earlier  string `json:"earlier"`
	}](v)
	if err != nil {
		return false, err.Error()
	}
	a, b := runRefOpt(k.Src, k.HostData), runRealAfter(k.Earlier, k.Src, k.HostData)
	return !agree(a, b), fmt.Sprintf("earlier: %s\nsrc: %s\nreference: %s\nelps:      %s", k.Earlier, k.Src, a, b)
}

func run(r *core.Run) {
	g := gen.NewGrammar(cons)
	size := 4
	if r.Thorough() {
		size = 5
	}
	total := g.Total(size)
	r.Bound("max_nodes", size)
	r.Bound("terms", total)
	r.Rule("every term of the condition grammar (13 leaves: value, marker, (error 'c1 ..) with plain / unquoted-symbol / unquoted-list data / a lone string containing percent signs / that string and a second datum, (error 'c2), a lisp error NAMED internal-panic, a host panic, a host panic and an ordinary error raised inside a source loaded with load-string, rethrow outside a handler, a builtin type error, an unbound symbol; 13 unary: ignore-errors and handler-bind with the catch-all before / after an explicit internal-panic binding, four bindings, and specifier condition / c1 / internal-panic / error / rethrowing handler under condition and under internal-panic / two bindings in both orders / a non-function handler; 8 binary: progn, 2-form ignore-errors, 2-form handler-bind bodies (catch-all and rethrowing), handler whose BODY is a term (bound to condition and to internal-panic), handler EXPRESSION that evaluates a term, list) up to the node bound. Non-trivial = an error or host panic is raised somewhere in the term; distinct by source text. Error-data family: every tuple of data (up to a length over 15 value kinds: literal and computed empty list, false, 0, empty string / vector / map, a list holding the empty list, int, float, string, symbol, keyword, true, non-empty list; longer tuples over the 6 core kinds) raised through every entry point that builds a condition with data (error, (apply error ..), the host's ErrorCondition, error inside a loaded source) must reach every observer (catch-all &rest handler, by-name handler with one parameter per datum, the docs' (&rest e) handler, an outer handler after rethrow and after the documented (apply error c d) re-raise, and the host after no / an unmatched / a rethrowing handler) with the same length, order and values; non-trivial = at least one datum")
	r.Assume("function values print as #<fun>; error messages are not compared, condition names are")
	core.ParallelRange(r, total, nil, func(_ struct{}, i int64) {
		t := g.At(size, i)
		src := prelude + render(t)
		ref, real := runRef(src), runReal(src)
		r.AddEvals(1)
		r.AddTransitions(1)
		r.AddTraces(1)
		r.Outcome(ref.Class + "/" + real.Class + ":" + ifs(real.Class == "err", real.Text, ""))
		if strings.Contains(src, "error") || strings.Contains(src, "panic") || strings.Contains(src, "(car 1)") || strings.Contains(src, "undefined") || strings.Contains(src, "rethrow") {
			r.Nontrivial(src)
		}
		if i%4001 == 7 {
			r.Sample(kase{src})
		}
		if agree(ref, real) {
			return
		}
		cls := classify(t, ref, real)
		if r.Seen(cls) >= 2 {
			r.CountOnly(cls)
			return
		}
		for n := 0; n < 5; n++ {
			if agree(runRef(src), runReal(src)) {
				r.Flaky(kase{src})
				return
			}
		}
		r.Violate("c06", cls, kase{src}, "reference: "+ref.String(), "elps: "+real.String(), "")
	})
	r.AddStates(total)
	handlerSequences(r)
	errorData(r)
	histories(r, g)
}

// Histories: the same terms on a runtime that has ALREADY been through a top-level evaluation ending in (or recovering
// from) an error or a host panic.  "An error produced by recovering a panic in host code is never swallowed ..., while a
// lisp-raised error that is merely named internal-panic is handled like any other": both halves are per error, so every
// term must behave after every earlier event as the reference says it behaves on a fresh runtime.
var earlierEvents = []struct{ name, src string }{
	{"host-panic-bare-top-level", "(host-panic)"},
	{"host-panic-as-argument", "(list 1 (host-panic))"},
	{"host-panic-in-function", "(defun hpf () (host-panic)) (hpf)"},
	{"host-panic-in-loaded-source", "(load-string \"(host-panic)\")"},
	{"host-panic-caught-by-name", "(handler-bind ([internal-panic (lambda (c &rest d) 'caught)]) (host-panic))"},
	{"host-panic-through-ignore-errors", "(ignore-errors (host-panic))"},
	{"host-panic-in-handler", "(handler-bind ([condition host-panic-handler]) (error 'c1 1))"},
	{"forged-bare-top-level", "(error 'internal-panic \"forged\")"},
	{"forged-swallowed", "(ignore-errors (error 'internal-panic \"forged\"))"},
	{"ordinary-error-bare-top-level", "(error 'c1 1)"},
	{"rethrow-bare-top-level", "(rethrow)"},
}

func histories(r *core.Run, g *gen.Grammar) {
	size := 3
	if r.Thorough() {
		size = 4
	}
	total := g.Total(size)
	ne := int64(len(earlierEvents))
	r.Bound("history_terms", total)
	r.Bound("history_earlier_events", int(ne))
	r.Rule(fmt.Sprintf("history family: every term of the condition grammar up to %d nodes evaluated on a runtime in which one of %d earlier top-level evaluations took place (a host panic as a bare top-level form / as an argument / inside a function / inside a loaded source / caught by its explicit name / passing through ignore-errors / raised by a handler; a lisp error named internal-panic reaching the host / swallowed; an ordinary error; a stray rethrow) must give what the reference gives for the term on a fresh runtime", size, ne))
	core.ParallelRange(r, total*ne, nil, func(_ struct{}, i int64) {
		t := g.At(size, i/ne)
		ev := earlierEvents[i%ne]
		src := prelude + render(t)
		ref, real := runRef(src), runRealAfter(ev.src, src, false)
		r.AddEvals(1)
		r.AddTransitions(1)
		r.AddTraces(1)
		r.AddStates(1)
		r.Outcome("history:" + ref.Class + "/" + real.Class + ":" + ifs(real.Class == "err", real.Text, ""))
		r.Nontrivial(ev.name + " " + src)
		if agree(ref, real) {
			return
		}
		cls := "history:" + ev.name + ":" + classify(t, ref, real)
		if r.Seen(cls) >= 1 {
			r.CountOnly(cls)
			return
		}
		for n := 0; n < 5; n++ {
			if agree(runRef(src), runRealAfter(ev.src, src, false)) {
				r.Flaky(histKase{ev.src, src})
				return
			}
		}
		r.Violate("c06", cls, histKase{ev.src, src}, "reference (fresh runtime): "+ref.String(), "elps after "+ev.src+": "+real.String(), "")
	})
}

type histKase struct {
	Earlier string `json:"earlier"`
	Src     string `json:"src"`
}

// Handler-action sequences: what a handler does while the error it handles is current.  The statement says rethrow
// "re-raises the very error being handled": nested handling inside a handler (of the same error, rethrown, or of
// another one) must hand the enclosing handler ITS error back when the nested form is done.  Every sequence of up to 3
// actions runs as the body of a handler, for every trigger and under every outer context.
var hActions = []struct{ name, src string }{
	{"rt", "(rethrow)"},
	{"rt-caught", "(handler-bind ([condition " + hList + "]) (rethrow))"},
	{"rt-ignored", "(ignore-errors (rethrow))"},
	{"rt-via-rethrower-ignored", "(ignore-errors (handler-bind ([condition " + hRethrow + "]) (rethrow)))"},
	{"other-caught", "(handler-bind ([condition " + hList + "]) (error 'c2 2))"},
	{"other-caught-then-rt-caught", "(handler-bind ([condition (lambda (c2 &rest d2) (handler-bind ([condition " + hTwo + "]) (rethrow)))]) (error 'c2 2))"},
	{"print", "(debug-print 'in-handler c)"},
	{"value", "(list 'got c (map 'list (lambda (e) (if (string? e) (if (equal? e " + userStr + ") 'user-string 'str) e)) d))"}, // message strings are not compared
	{"other-raised", "(error 'c3 3)"},
}

var hTriggers = []string{"(error 'c1 1 'a)", "(error 'c1 " + userStr + ")", "(error 'c2)", "(car 1)", "undefined-sym"}

var hOuters = []struct{ name, pre, post string }{
	{"bare", "", ""},
	{"outer-catch-all", "(handler-bind ([condition " + hList + "]) ", ")"},
	{"outer-c1-then-more", "(handler-bind ([c1 " + hTwo + "]) ", " 'not-reached)"},
	{"outer-ignore", "(list 'ie (ignore-errors ", "))"},
	{"inside-outer-handler", "(handler-bind ([condition (lambda (c0 &rest d0) (list 'outer-handler ", " (ignore-errors (rethrow))))]) (error 'c0 0))"},
}

func handlerSequences(r *core.Run) {
	type hk struct {
		seq     []int
		trigger int
		outer   int
	}
	var seqs [][]int
	n := len(hActions)
	for a := 0; a < n; a++ {
		seqs = append(seqs, []int{a})
		for b := 0; b < n; b++ {
			seqs = append(seqs, []int{a, b})
			if r.Thorough() || b < 6 {
				for c := 0; c < n; c++ {
					seqs = append(seqs, []int{a, b, c})
				}
			}
		}
	}
	var ks []hk
	for _, sq := range seqs {
		for t := range hTriggers {
			for o := range hOuters {
				ks = append(ks, hk{sq, t, o})
			}
		}
	}
	r.Bound("handler_sequence_programs", len(ks))
	core.ParallelRange(r, int64(len(ks)), nil, func(_ struct{}, i int64) {
		k := ks[i]
		var body, names []string
		for _, a := range k.seq {
			body = append(body, hActions[a].src)
			names = append(names, hActions[a].name)
		}
		src := prelude + hOuters[k.outer].pre + "(handler-bind ([condition (lambda (c &rest d) " + strings.Join(body, " ") + ")]) " + hTriggers[k.trigger] + ")" + hOuters[k.outer].post
		ref, real := runRef(src), runReal(src)
		r.AddEvals(1)
		r.AddTransitions(1)
		r.AddTraces(1)
		r.AddStates(1)
		r.Nontrivial(src)
		r.Outcome("hseq:" + ref.Class + "/" + real.Class + ":" + ifs(real.Class == "err", real.Text, ""))
		if i%3001 == 11 {
			r.Sample(kase{src})
		}
		if agree(ref, real) {
			return
		}
		cls := ref.Class + "-vs-" + real.Class + ":hseq:" + strings.Join(names, ",")
		if r.Seen(cls) >= 1 {
			r.CountOnly(cls)
			return
		}
		r.Violate("c06", cls, kase{src}, "reference: "+ref.String(), "elps: "+real.String(), "")
	})
}

func ifs(c bool, a, b string) string {
	if c {
		return a
	}
	return b
}
