// Package c04: execution limits only truncate a computation and bound work
// and stack exactly (DESIGN §C04).
//
// For every program P of a bounded grammar (all terms up to a node count) the
// driver first runs P unlimited under a per-step monitor to obtain the probe
// trace, the step count N(P), the maximal stack height H(P) and the maximal
// evaluator nesting.  It then enumerates the COMPLETE fault space of P:
//
//	step budget n           for every n in 1..N(P)+1
//	cancellation at step k  for every k in 1..N(P)
//	physical height limit h for every h in 1..H(P)+2
//	nesting limit m         for every m in 1..Nest(P)+2
//	tail-iteration limit t  for every t in 1..5      (programs with a tail loop)
//	macro-expansion limit x for every x in 1..5      (programs with a recursive macro)
//
// and checks the exact-prefix rule, the outcome rule, the in-every-state
// bounds, the refill rule and that the runtime is usable afterwards.
package c04

import (
	"context"
	"fmt"
	"strings"
	"sync"
	"time"

	"github.com/luthersystems/elps/lisp"

	"verif/mc/core"
	"verif/mc/el"
	"verif/mc/gen"
)

func init() {
	core.Register(&core.Driver{Property: "C04", Run: run, Replay: replay})
}

type event struct {
	K      int   `json:"k"`
	Step   int64 `json:"step"`
	Frames int   `json:"frames"`
	Nest   int   `json:"nest"`
}

func evs(es []event) string {
	var sb strings.Builder
	for _, e := range es {
		fmt.Fprintf(&sb, "[%d@%d f%d n%d]", e.K, e.Step, e.Frames, e.Nest)
	}
	return sb.String()
}

const prelude = `
(defun loop (n) (if (<= n 0) (probe 90) (progn (probe 91) (loop (- n 1)))))
(defun rec (n) (if (<= n 0) (probe 92) (+ 1 (rec (- n 1)))))
(defmacro mac (x) (probe 93) x)
(defmacro rmac (n) (if (<= n 0) '(probe 94) (list 'rmac (- n 1))))
(defun f (x) (probe 95) x)
(defun h (c &rest a) (probe 96))
(defun usable () (progn (loop 1) (rec 1) (mac 42)))
`

// rig is one runtime with the probe builtin.
type rig struct {
	env   *el.Env
	trace []event
	// per-step monitor results of the current run
	maxFrames, maxNest int
	limitH, limitN     int // asserted bounds (0 = none)
	boundBroken        string
}

func newRig() *rig {
	g := &rig{}
	probe := el.Fn("probe", []string{"k"}, func(env *lisp.LEnv, args *lisp.LVal) *lisp.LVal {
		k := args.Cells[0]
		kk := 0
		if k.Type == lisp.LInt {
			kk = k.Int
		}
		rt := env.Runtime
		g.note(len(rt.Stack.Frames), rt.EvalNesting())
		g.trace = append(g.trace, event{K: kk, Step: rt.Steps(), Frames: len(rt.Stack.Frames), Nest: rt.EvalNesting()})
		return lisp.Int(kk)
	})
	g.env = el.MustEnv(el.Opts{Builtins: []lisp.LBuiltinDef{probe}})
	if o := g.env.Load(prelude); o.IsErr {
		panic("harness: prelude: " + o.Full())
	}
	return g
}

func (g *rig) note(frames, nest int) {
	if frames > g.maxFrames {
		g.maxFrames = frames
	}
	if nest > g.maxNest {
		g.maxNest = nest
	}
	if g.limitH > 0 && frames > g.limitH && g.boundBroken == "" {
		g.boundBroken = fmt.Sprintf("stack holds %d frames > physical maximum %d", frames, g.limitH)
	}
	if g.limitN > 0 && nest > g.limitN && g.boundBroken == "" {
		g.boundBroken = fmt.Sprintf("evaluator nesting %d > maximum %d", nest, g.limitN)
	}
}

// limits of one run.
type limits struct {
	Budget   int64 `json:"budget,omitempty"`
	CancelAt int64 `json:"cancel_at,omitempty"`
	Height   int   `json:"height,omitempty"`
	Nesting  int   `json:"nesting,omitempty"`
	Logical  int   `json:"logical,omitempty"` // opt-in logical stack limit set TOGETHER with the physical one
	TailIter int   `json:"tail_iter,omitempty"`
	MacroExp int   `json:"macro_exp,omitempty"`
	Monitor  bool  `json:"monitor,omitempty"` // run under the counting context even without cancellation
}

type result struct {
	out    el.Outcome
	trace  []event
	steps  int64
	frames int
	nest   int
	broken string
	clean  string // non-empty when the runtime was left dirty
}

var defaults = func() (h, t int) {
	s := lisp.StandardRuntime().Stack
	return s.MaxHeightPhysical, s.MaxTailIterations
}

func (g *rig) run(src string, l limits) result {
	rt := g.env.Runtime
	dh, dt := defaults()
	lisp.WithMaxSteps(l.Budget)(g.env.LEnv)
	rt.Stack.MaxHeightPhysical = dh
	if l.Height > 0 {
		rt.Stack.MaxHeightPhysical = l.Height
	}
	rt.Stack.MaxHeightLogical = lisp.StandardRuntime().Stack.MaxHeightLogical
	if l.Logical > 0 {
		rt.Stack.MaxHeightLogical = l.Logical
	}
	rt.Stack.MaxTailIterations = dt
	if l.TailIter > 0 {
		rt.Stack.MaxTailIterations = l.TailIter
	}
	rt.MaxEvalNesting = l.Nesting
	rt.MaxMacroExpansionDepth = l.MacroExp
	g.trace = nil
	g.maxFrames, g.maxNest, g.boundBroken = 0, 0, ""
	g.limitH, g.limitN = l.Height, l.Nesting
	var out el.Outcome
	if l.CancelAt > 0 || l.Monitor {
		ctx := el.NewStepCtx()
		ctx.CancelAt = l.CancelAt
		ctx.OnStep = func(int64) { g.note(len(rt.Stack.Frames), rt.EvalNesting()) }
		out = g.env.LoadCtx(ctx, src)
	} else {
		out = g.env.Load(src)
	}
	res := result{out: out, trace: g.trace, steps: rt.Steps(), frames: g.maxFrames, nest: g.maxNest, broken: g.boundBroken}
	g.trace = nil
	// C04 "after which the runtime is still usable" (the full cleanliness relation is C05's subject)
	if n := len(rt.Stack.Frames); n != 0 {
		res.clean = fmt.Sprintf("stack not empty after return: %d frames", n)
	} else if rt.EvalNesting() != 0 {
		res.clean = fmt.Sprintf("eval nesting %d after return", rt.EvalNesting())
	} else if rt.CurrentCondition() != nil {
		res.clean = "condition still pending after return"
	} else if g.env.Context() != context.Background() {
		res.clean = "evaluation context not restored after return"
	}
	return res
}

// ---------------------------------------------------------------------------
// program grammar

var cons = []gen.Con{
	{Name: "P", Arity: 0}, {Name: "L", Arity: 0}, {Name: "R", Arity: 0}, {Name: "E", Arity: 0},
	{Name: "D0", Arity: 0}, {Name: "MP", Arity: 0}, {Name: "RM", Arity: 0},
	{Name: "IE", Arity: 1}, {Name: "HC", Arity: 1}, {Name: "HS", Arity: 1}, {Name: "DT", Arity: 1},
	{Name: "M", Arity: 1}, {Name: "LT", Arity: 1}, {Name: "F", Arity: 1},
	{Name: "PG", Arity: 2}, {Name: "IF", Arity: 2},
}

type feat struct{ swallow, loop, rmac bool }

func render(t *gen.Tree, next *int, f *feat) string {
	lab := func() int { *next++; return *next }
	kid := func(i int) string { return render(t.Kids[i], next, f) }
	switch t.Con.Name {
	case "P":
		return fmt.Sprintf("(probe %d)", lab())
	case "L":
		f.loop = true
		return "(loop 2)"
	case "R":
		return "(rec 2)"
	case "E":
		return "(error 'boom \"x\")"
	case "D0":
		return "(dotimes (i 3))"
	case "MP":
		return "(map 'list probe '(1 2 3))"
	case "RM":
		f.rmac = true
		return "(rmac 2)"
	case "IE":
		f.swallow = true
		return "(ignore-errors " + kid(0) + ")"
	case "HC":
		f.swallow = true
		return "(handler-bind ([condition h]) " + kid(0) + ")"
	case "HS":
		f.swallow = true
		return "(handler-bind ([step-limit-exceeded h] [context-cancelled h]) " + kid(0) + ")"
	case "DT":
		return "(dotimes (i 2) " + kid(0) + ")"
	case "M":
		return "(mac " + kid(0) + ")"
	case "LT":
		l := lab()
		return fmt.Sprintf("(let ([x %s]) (probe %d) x)", kid(0), l)
	case "F":
		return "(f " + kid(0) + ")"
	case "PG":
		return "(progn " + kid(0) + " " + kid(1) + ")"
	case "IF":
		a, b := kid(0), kid(1)
		return fmt.Sprintf("(if %s %s (probe %d))", a, b, lab())
	}
	panic("unknown con")
}

type kase struct {
	Src string `json:"src"`
	Lim limits `json:"limits"`
	Why string `json:"why"`
}

func prefix(base []event, maxStep int64) []event {
	var out []event
	for _, e := range base {
		if e.Step <= maxStep {
			out = append(out, e)
		}
	}
	return out
}

func sameTrace(a, b []event) bool {
	if len(a) != len(b) {
		return false
	}
	for i := range a {
		if a[i] != b[i] {
			return false
		}
	}
	return true
}

func limitCond(c string) bool {
	switch c {
	case lisp.CondStepLimitExceeded, lisp.CondContextCancelled:
		return true
	}
	return false
}

// checker runs one program's whole fault space on one rig.
type checker struct {
	r   *core.Run
	g   *rig
	usN int64 // steps of (usable)
}

func (c *checker) violate(class string, k kase, exp, got string) {
	if c.r.Seen(class) >= 3 || c.r.Seen(class+":only-after-earlier-evaluations") >= 3 {
		c.r.CountOnly(class)
		return
	}
	// re-confirm in a fresh runtime, five times
	rep := 0
	for i := 0; i < 5; i++ {
		if bad, _ := recheck(k, class); bad {
			rep++
		}
	}
	if rep == 5 {
		c.r.Violate("c04", class, k, exp, got, "")
	} else if rep == 0 {
		// only fails after earlier evaluations in the same runtime: a dirty-runtime / refill problem
		c.r.Violate("c04", class+":only-after-earlier-evaluations", k, exp, got, "does not reproduce in a fresh runtime; the runtime was left in a state that changes later evaluations")
	} else {
		c.r.Flaky(map[string]any{"case": k, "class": class, "reproduced": rep})
	}
}

func (c *checker) usable(k kase) {
	// refill + usable: (usable) needs exactly usN steps; with a budget of usN it must succeed.
	res := c.g.run("(usable)", limits{Budget: c.usN})
	c.r.AddTransitions(1)
	if res.out.IsErr || res.out.Text != "42" || res.steps != c.usN {
		c.violate("refill-or-usable", k, fmt.Sprintf("after the limited run a new top-level evaluation has a full budget: (usable) => 42 in %d steps", c.usN),
			fmt.Sprintf("%s steps=%d", res.out.Full(), res.steps))
	}
}

func (c *checker) program(src string, f feat, exhaustiveBudgets bool) {
	r := c.r
	base := c.g.run(src, limits{Monitor: true})
	r.AddEvals(1)
	if base.clean != "" || base.broken != "" {
		c.violate("unlimited-run-dirty", kase{Src: src, Lim: limits{Monitor: true}}, "clean runtime", base.clean+base.broken)
		return
	}
	N := base.steps
	if N > 20000 {
		// no program of the grammar needs more than a few hundred steps: the counter was not reset at the start of this
		// top-level evaluation ("every new top-level evaluation starts with a full budget")
		c.violate("step-counter-not-reset", kase{Src: src, Lim: limits{Monitor: true}}, "Steps() counts the current top-level evaluation only (a few hundred steps at most)", fmt.Sprintf("Steps()=%d", N))
		return
	}
	// plain run (no context, no budget): same outcome and same probe labels
	plain := c.g.run(src, limits{})
	r.AddEvals(1)
	if plain.out.String() != base.out.String() || len(plain.trace) != len(base.trace) {
		c.violate("monitor-changes-outcome", kase{Src: src}, base.out.String(), plain.out.String())
	}
	r.AddStates(1)
	r.Nontrivial(src)
	r.Outcome("base:" + ifs(base.out.IsErr, "err:"+base.out.Cond, "val"))

	// --- step budgets
	for n := int64(1); n <= N+1; n++ {
		k := kase{Src: src, Lim: limits{Budget: n}, Why: "budget"}
		res := c.g.run(src, k.Lim)
		r.AddEvals(1)
		r.AddTransitions(1)
		c.checkTrunc(k, base, res, n, N, f, lisp.CondStepLimitExceeded)
		if n%4 == 1 || n >= N {
			c.usable(k)
		}
	}
	// --- cancellation at every step index
	for kk := int64(1); kk <= N; kk++ {
		k := kase{Src: src, Lim: limits{CancelAt: kk}, Why: "cancel"}
		res := c.g.run(src, k.Lim)
		r.AddEvals(1)
		r.AddTransitions(1)
		// cancel at its k-th check: steps < k succeed
		c.checkTrunc(k, base, res, kk-1, N, f, lisp.CondContextCancelled)
	}
	// --- physical height
	H := base.frames
	sawEqual := -1
	for h := 1; h <= H+2; h++ {
		k := kase{Src: src, Lim: limits{Height: h, Monitor: true}, Why: "height"}
		res := c.g.run(src, k.Lim)
		r.AddEvals(1)
		r.AddTransitions(1)
		c.checkBound(k, base, res, f)
		same := res.out.String() == base.out.String() && sameTrace(res.trace, base.trace)
		if same && sawEqual < 0 {
			sawEqual = h
		}
		if !same && sawEqual >= 0 && !f.swallow { // with a swallowing form an equal outcome can be a coincidence
			c.violate("height-limit-not-monotone", k, fmt.Sprintf("limit %d already gave the unlimited outcome", sawEqual), res.out.Full())
		}
	}
	// the physical bound holds whatever OTHER stack limit is configured next to it: the opt-in logical limit just
	// below, at and just above the physical one (only the invariants apply: which of the two errors ends the run is
	// not specified)
	for h := 1; h <= H+1; h++ {
		for _, lg := range []int{h - 1, h, h + 1} {
			if lg < 1 {
				continue
			}
			k := kase{Src: src, Lim: limits{Height: h, Logical: lg, Monitor: true}, Why: "height+logical"}
			res := c.g.run(src, k.Lim)
			r.AddEvals(1)
			r.AddTransitions(1)
			if res.broken != "" {
				c.violate("bound-exceeded:height+logical", k, "the physical bound holds at every step and probe whatever the logical limit is", res.broken)
			} else if res.clean != "" {
				c.violate("dirty-after-height+logical", k, "clean runtime after return", res.clean)
			} else if res.out.IsErr && res.out.Cond == lisp.CondInternalPanic {
				c.violate("limit-panics:height+logical", k, "an ordinary catchable error", res.out.Full())
			}
		}
	}
	if sawEqual < 0 || sawEqual > H+1 {
		c.violate("height-limit-overcounts", kase{Src: src, Lim: limits{Height: H + 2}, Why: "height"},
			fmt.Sprintf("a physical limit of observed-max+1 (%d) admits the unlimited run", H+1), fmt.Sprintf("first admitting limit: %d", sawEqual))
	}
	// --- nesting
	M := base.nest
	sawEqual = -1
	for m := 1; m <= M+2; m++ {
		k := kase{Src: src, Lim: limits{Nesting: m, Monitor: true}, Why: "nesting"}
		res := c.g.run(src, k.Lim)
		r.AddEvals(1)
		r.AddTransitions(1)
		c.checkBound(k, base, res, f)
		same := res.out.String() == base.out.String() && sameTrace(res.trace, base.trace)
		if same && sawEqual < 0 {
			sawEqual = m
		}
		if !same && sawEqual >= 0 && !f.swallow {
			c.violate("nesting-limit-not-monotone", k, fmt.Sprintf("limit %d already gave the unlimited outcome", sawEqual), res.out.Full())
		}
	}
	if sawEqual < 0 || sawEqual > M+1 {
		c.violate("nesting-limit-overcounts", kase{Src: src, Lim: limits{Nesting: M + 2}},
			fmt.Sprintf("a nesting limit of observed-max+1 (%d) admits the unlimited run", M+1), fmt.Sprintf("first admitting limit: %d", sawEqual))
	}
	// --- tail iterations / macro expansions
	if f.loop {
		for t := 1; t <= 4; t++ {
			k := kase{Src: src, Lim: limits{TailIter: t, Monitor: true}, Why: "tail-iterations"}
			res := c.g.run(src, k.Lim)
			r.AddEvals(1)
			r.AddTransitions(1)
			c.checkBound(k, base, res, f)
			if t >= 3 && !(res.out.String() == base.out.String() && sameTrace(res.trace, base.trace)) {
				c.violate("tail-limit-overcounts", k, "a 2-turn tail loop runs under a tail-iteration bound of 3", res.out.Full())
			}
		}
	}
	if f.rmac {
		for x := 1; x <= 5; x++ {
			k := kase{Src: src, Lim: limits{MacroExp: x, Monitor: true}, Why: "macro-expansions"}
			res := c.g.run(src, k.Lim)
			r.AddEvals(1)
			r.AddTransitions(1)
			c.checkBound(k, base, res, f)
			if x >= 4 && !(res.out.String() == base.out.String() && sameTrace(res.trace, base.trace)) {
				c.violate("macro-limit-overcounts", k, "(rmac 2) expands 3 times and (mac ..) once; a bound of 4 admits it", res.out.Full())
			}
		}
	}
}

// checkTrunc: the exact-prefix rule and the outcome rule for budgets and cancellation.
// okSteps = number of steps that may succeed.
func (c *checker) checkTrunc(k kase, base, res result, okSteps, N int64, f feat, cond string) {
	r := c.r
	if res.clean != "" {
		c.violate("dirty-after-"+k.Why, k, "clean runtime after return", res.clean)
		return
	}
	want := prefix(base.trace, okSteps)
	if !sameTrace(want, res.trace) {
		c.violate("prefix:"+k.Why, k, "probe events of the unlimited run with step<="+fmt.Sprint(okSteps)+": "+evs(want), evs(res.trace))
		return
	}
	if okSteps >= N {
		r.Outcome(k.Why + ":enough")
		if res.out.String() != base.out.String() || res.steps != N {
			c.violate("enough-budget-differs:"+k.Why, k, fmt.Sprintf("%s steps=%d", base.out.String(), N), fmt.Sprintf("%s steps=%d", res.out.String(), res.steps))
		}
		return
	}
	// exhausted
	if res.steps < okSteps+1 {
		c.violate("stopped-early:"+k.Why, k, fmt.Sprintf("steps >= %d (the limit really ran out)", okSteps+1), fmt.Sprintf("steps=%d %s", res.steps, res.out.String()))
		return
	}
	if !f.swallow {
		r.Outcome(k.Why + ":exhausted:" + res.out.Cond)
		if !res.out.IsErr || res.out.Cond != cond {
			c.violate("wrong-outcome:"+k.Why, k, "ERR<"+cond+"> (no error-swallowing form in the program)", res.out.String())
		}
	} else {
		r.Outcome(k.Why + ":exhausted-swallowing:" + ifs(res.out.IsErr, res.out.Cond, "val"))
	}
}

// checkBound: in-every-state bounds and ordinary-error outcome for stack /
// nesting / tail / macro limits.
func (c *checker) checkBound(k kase, base, res result, f feat) {
	if res.broken != "" {
		c.violate("bound-exceeded:"+k.Why, k, "bound holds at every step and probe", res.broken)
		return
	}
	if res.clean != "" {
		c.violate("dirty-after-"+k.Why, k, "clean runtime after return", res.clean)
		return
	}
	same := res.out.String() == base.out.String() && sameTrace(res.trace, base.trace)
	if same {
		c.r.Outcome(k.Why + ":admitted")
		return
	}
	// limited.  Without an error-swallowing form the run ends at the first
	// limit error, so what happened before it is exactly a prefix of the
	// unlimited trace.  With one, the program legitimately continues on another
	// path (an `if` may take its other branch); only the invariants apply.
	if !f.swallow && !isPrefix(res.trace, base.trace) {
		c.violate("limited-run-diverges:"+k.Why, k, "events are a prefix of the unlimited trace "+evs(base.trace), evs(res.trace))
		return
	}
	if !f.swallow {
		c.r.Outcome(k.Why + ":refused:" + res.out.Cond)
		if !res.out.IsErr {
			c.violate("limit-ignored:"+k.Why, k, "an ordinary error (no swallowing form)", res.out.String())
		} else if res.out.Cond == lisp.CondInternalPanic {
			c.violate("limit-panics:"+k.Why, k, "an ordinary catchable error", res.out.Full())
		}
	} else {
		c.r.Outcome(k.Why + ":refused-swallowing")
	}
	c.usable(k)
}

func isPrefix(a, b []event) bool {
	if len(a) > len(b) {
		return false
	}
	for i := range a {
		if a[i] != b[i] {
			return false
		}
	}
	return true
}

func ifs(c bool, a, b string) string {
	if c {
		return a
	}
	return b
}

// recheck replays one case in a fresh runtime; returns whether the class's
// condition is violated again.
func recheck(k kase, class string) (bool, string) {
	g := newRig()
	var f feat
	f.swallow = strings.Contains(k.Src, "ignore-errors") || strings.Contains(k.Src, "handler-bind")
	f.loop = strings.Contains(k.Src, "(loop ")
	f.rmac = strings.Contains(k.Src, "(rmac ")
	base := g.run(k.Src, limits{Monitor: true})
	res := g.run(k.Src, k.Lim)
	rep := fmt.Sprintf("src: %s\nlimits: %+v\nunlimited: %s steps=%d frames=%d nest=%d trace=%s\nlimited:   %s steps=%d trace=%s broken=%q clean=%q",
		k.Src, k.Lim, base.out.Full(), base.steps, base.frames, base.nest, evs(base.trace), res.out.Full(), res.steps, evs(res.trace), res.broken, res.clean)
	cc := &collect{}
	ck := &checker{r: nil, g: g}
	_ = ck
	bad := false
	switch {
	case strings.HasPrefix(class, "refill-or-usable"):
		us := g.run("(usable)", limits{Monitor: true})
		g.run(k.Src, k.Lim)
		r2 := g.run("(usable)", limits{Budget: us.steps})
		bad = r2.out.IsErr || r2.out.Text != "42"
		rep += "\nusable: " + r2.out.Full()
	case k.Lim.Budget > 0 || k.Lim.CancelAt > 0:
		ok := k.Lim.Budget
		cond := lisp.CondStepLimitExceeded
		if k.Lim.CancelAt > 0 {
			ok = k.Lim.CancelAt - 1
			cond = lisp.CondContextCancelled
		}
		bad = cc.trunc(base, res, ok, base.steps, f, cond)
	default:
		bad = cc.bound(base, res, f)
	}
	return bad, rep
}

// collect re-evaluates the oracles without a Run (for replay / re-confirmation).
type collect struct{}

func (collect) trunc(base, res result, okSteps, N int64, f feat, cond string) bool {
	if res.clean != "" {
		return true
	}
	if !sameTrace(prefix(base.trace, okSteps), res.trace) {
		return true
	}
	if okSteps >= N {
		return res.out.String() != base.out.String() || res.steps != N
	}
	if res.steps < okSteps+1 {
		return true
	}
	if !f.swallow {
		return !res.out.IsErr || res.out.Cond != cond
	}
	return false
}

func (collect) bound(base, res result, f feat) bool {
	if res.broken != "" || res.clean != "" {
		return true
	}
	if res.out.String() == base.out.String() && sameTrace(res.trace, base.trace) {
		return false
	}
	if !f.swallow {
		return !isPrefix(res.trace, base.trace) || !res.out.IsErr || res.out.Cond == lisp.CondInternalPanic
	}
	return false
}

func replay(v core.Violation) (bool, string) {
	k, err := core.CaseOf[kase](v)
	if err != nil {
		return false, err.Error()
	}
	if strings.HasPrefix(v.Class, "special:") {
		return specialReplay(v.Class, k)
	}
	return recheck(k, v.Class)
}

// ---------------------------------------------------------------------------

func run(r *core.Run) {
	g := gen.NewGrammar(cons)
	maxSize := 4
	if r.Thorough() {
		maxSize = 5
	}
	total := g.Total(maxSize)
	r.Bound("program_grammar_max_nodes", maxSize)
	r.Bound("programs", total)
	r.Rule("every term of the C04 program grammar (7 leaves, 7 unary, 2 binary constructors: probes, tail loop, non-tail recursion, error, empty and non-empty dotimes, map over a host builtin, macro and recursive macro, ignore-errors, handler-bind on condition / on the limit conditions, let, call, progn, if) up to the node bound; " +
		"for each: every step budget 1..N+1, cancellation at every step 1..N, every physical-height limit 1..H+2, every nesting limit 1..M+2, tail-iteration limits 1..4, macro-expansion limits 1..5. Non-trivial = distinct program text (each has its complete fault space explored)")
	r.Assume("steps are observed through Runtime.Steps(); N(P) is measured under the counting context because the evaluator only counts steps when a budget or context is configured")
	r.Assume("probe events are compared as (label, step index, stack height, eval nesting)")
	r.Assume("for programs containing an error-swallowing form the final outcome of an exhausted run is unspecified; the exact-prefix rule still applies")

	type wk struct {
		c *checker
		n int
	}
	var mu sync.Mutex
	samples := 0
	core.ParallelRange(r, total, func(id int) *wk {
		rg := newRig()
		us := rg.run("(usable)", limits{Monitor: true})
		return &wk{c: &checker{r: r, g: rg, usN: us.steps}}
	}, func(w *wk, i int64) {
		t := g.At(maxSize, i)
		var f feat
		next := 0
		src := render(t, &next, &f)
		w.n++
		if w.n%200 == 0 { // fresh rig now and then keeps any leak local
			rg := newRig()
			us := rg.run("(usable)", limits{Monitor: true})
			w.c = &checker{r: r, g: rg, usN: us.steps}
		}
		w.c.program(src, f, true)
		mu.Lock()
		if samples < 4 && (i%997 == 5 || i == total-1) {
			samples++
			r.Sample(map[string]any{"program": src, "index": i})
		}
		mu.Unlock()
	})
	special(r)
}

// ---------------------------------------------------------------------------
// special cases named by the statement: empty dotimes, pending time:sleep,
// refill across every entry point.

func special(r *core.Run) {
	// (a) cancellation inside an empty dotimes with a huge count, at every k in 1..40
	for k := int64(1); k <= 40; k++ {
		kk := kase{Src: "(dotimes (i 1000000000))", Lim: limits{CancelAt: k}, Why: "empty-dotimes"}
		bad, rep := specialReplay("special:empty-dotimes-cancel", kk)
		r.AddEvals(1)
		r.AddTransitions(1)
		if bad {
			r.Violate("c04", "special:empty-dotimes-cancel", kk, "context-cancelled within one step of the cancellation", rep, "")
			if r.Seen("special:empty-dotimes-cancel") >= 2 {
				break // each further case would wait out the watchdog again
			}
		}
	}
	// and under every budget 1..40
	for n := int64(1); n <= 40; n++ {
		kk := kase{Src: "(dotimes (i 1000000000))", Lim: limits{Budget: n}, Why: "empty-dotimes"}
		bad, rep := specialReplay("special:empty-dotimes-budget", kk)
		r.AddEvals(1)
		r.AddTransitions(1)
		if bad {
			r.Violate("c04", "special:empty-dotimes-budget", kk, "step-limit-exceeded after exactly n steps", rep, "")
			if r.Seen("special:empty-dotimes-budget") >= 2 {
				break
			}
		}
	}
	// (b) pending time:sleep is interrupted by cancellation
	for _, d := range []string{"30m", "59m", "1h", "30m+deadline", "59m+deadline"} {
		kk := kase{Src: fmt.Sprintf("(time:sleep (time:parse-duration %q))", strings.TrimSuffix(d, "+deadline")), Why: "sleep"}
		if strings.HasSuffix(d, "+deadline") {
			kk.Why = "sleep+deadline"
		}
		bad, rep := specialReplay("special:sleep-cancel", kk)
		r.AddEvals(1)
		r.AddTransitions(1)
		if bad {
			r.Violate("c04", "special:sleep-cancel", kk, "context-cancelled promptly", rep, "")
		}
	}
	// (c) refill across entry points: after entry A died of the budget (every n), entry B has a full budget
	refill(r)
	// (d) the tail-iteration bound is exact whatever the call stack did meanwhile: a tail loop of N turns
	// whose body recurses d frames deep, under every bound t, in a FRESH runtime each time (a runtime
	// that has never been that deep) and again in the same, now warmed, runtime.  The verdict must not
	// depend on d or on the runtime's past.
	tailExact(r)
	// (e) the macro-expansion bound: a chain of d successive expansions under every bound x runs iff d <= x
	// ("limits the number of successive macro expansions"), through evaluation and through macroexpand, at top
	// level, inside a function and under a handler; the error is catchable and the runtime usable afterwards.
	macroExact(r)
	macroDefault(r)
	// (f) one top-level evaluation governed by several contexts in turn (a host builtin re-entering under a child context)
	nestedContexts(r)
}

// macroPrelude defines c1..c7: (cK) expands to (cK-1), and (c1) expands to the datum 'done: K successive expansions.
var macroPrelude = func() string {
	var sb strings.Builder
	sb.WriteString("(defmacro c1 () ''done) ")
	for k := 2; k <= 7; k++ {
		fmt.Fprintf(&sb, "(defmacro c%d () '(c%d)) ", k, k-1)
	}
	sb.WriteString("(defun viafun (k) (cond ((= k 1) (c1)) ((= k 2) (c2)) ((= k 3) (c3)) ((= k 4) (c4)) ((= k 5) (c5)) ((= k 6) (c6)) (else (c7))))")
	return sb.String()
}()

var macroForms = []struct{ name, tmpl string }{
	{"eval", "(c%d)"},
	{"in-function", "(viafun %d)"},
	{"macroexpand", "(macroexpand '(c%d))"},
	{"handled", "(handler-bind ([condition (lambda (c &rest a) 'caught)]) (c%d))"},
}

func macroCase(k kase) (bool, string) {
	var form, d, x int
	fmt.Sscanf(k.Why, "macro-exact form=%d d=%d x=%d", &form, &d, &x)
	g := newRig()
	g.env.Load(macroPrelude)
	src := fmt.Sprintf(macroForms[form].tmpl, d)
	res := g.run(src, limits{MacroExp: x})
	got := "VAL<" + res.out.Text + ">"
	if res.out.IsErr {
		got = "ERR<" + res.out.Cond + ": " + res.out.Text + ">"
	}
	var want string
	switch {
	case d <= x && macroForms[form].name == "macroexpand":
		want = "VAL<''done>" // the final expansion itself: the form (quote done)
	case d <= x:
		want = "VAL<'done>"
	case macroForms[form].name == "handled":
		want = "VAL<'caught>"
	default:
		want = "ERR<error: macro expansion depth exceeded"
	}
	bad := !strings.HasPrefix(got, want)
	if macroForms[form].name == "macroexpand" && d == x+1 {
		// The macroexpand builtin tests its counter before each step, and returns at once when a step yields an
		// atom: a chain of exactly bound+1 expansions is admitted or refused depending on the final form's type.
		// The documentation bounds "successive macro expansions during evaluation"; for the builtin only
		// "d <= bound runs, d >= bound+2 is refused" is demanded.
		bad = !strings.HasPrefix(got, "VAL<''done>") && !strings.HasPrefix(got, "ERR<error: macro expansion depth exceeded")
	}
	rep := fmt.Sprintf("%s with %d successive expansions under a macro-expansion bound of %d => %s", src, d, x, got)
	if res.clean != "" {
		bad, rep = true, rep+"; runtime dirty: "+res.clean
	}
	// still usable, with the bound lifted
	after := g.run("(c7)", limits{})
	if after.out.IsErr || after.out.Text != "'done" {
		bad, rep = true, rep+"; afterwards (c7) without a bound => "+after.out.Full()
	}
	return bad, rep
}

func macroExact(r *core.Run) {
	var ks []kase
	for form := range macroForms {
		for d := 1; d <= 7; d++ {
			for x := 1; x <= 8; x++ {
				ks = append(ks, kase{Src: macroPrelude, Lim: limits{MacroExp: x}, Why: fmt.Sprintf("macro-exact form=%d d=%d x=%d", form, d, x)})
			}
		}
	}
	r.Bound("macro_exact_cases", len(ks))
	core.ParallelRange(r, int64(len(ks)), nil, func(_ struct{}, i int64) {
		bad, rep := macroCase(ks[i])
		r.AddEvals(2)
		r.AddTransitions(1)
		r.Outcome("macro-exact")
		if bad {
			r.Violate("c04", "special:macro-bound-not-exact", ks[i], "runs iff successive expansions <= bound; otherwise a catchable 'macro expansion depth exceeded' error and a usable runtime", rep, "")
		}
	})
}

// macroDefault: the macro-expansion bound with NOTHING configured (the documented default of 1000 successive
// expansions).  Endless expanders -- a lisp macro expanding to itself, one that grows its argument, a host (Go) macro
// expanding to itself, a two-macro cycle -- under evaluation, in a function, through the macroexpand builtin and under
// a handler: each must end in the catchable macro-expansion error, and chains of 999..1000 expansions must run.
type macroDefaultKase struct {
	Name string `json:"name"`
	Src  string `json:"src"`
	Want string `json:"want"`
}

const macroDefaultPrelude = "(defmacro forever () '(forever))\n(defmacro grow (x) (quasiquote (grow ((unquote x)))))\n(defmacro ping () '(pong))\n(defmacro pong () '(ping))\n" +
	"(defmacro countdown (n) (if (<= n 0) ''done (quasiquote (countdown (unquote (- n 1))))))\n(defun viadef () (forever))"

func macroDefaultCases() []macroDefaultKase {
	const exceeded = "ERR<error: macro expansion depth exceeded"
	var ks []macroDefaultKase
	for _, m := range []struct{ id, call string }{{"self", "(forever)"}, {"growing", "(grow 1)"}, {"cycle", "(ping)"}, {"host-macro", "(host-forever)"}} {
		ks = append(ks,
			macroDefaultKase{m.id + "/eval", m.call, exceeded},
			macroDefaultKase{m.id + "/macroexpand", "(macroexpand '" + m.call + ")", exceeded},
			macroDefaultKase{m.id + "/macroexpand-in-function", "((lambda (f) (macroexpand f)) '" + m.call + ")", exceeded},
			macroDefaultKase{m.id + "/handled", "(handler-bind ([condition (lambda (c &rest a) 'caught)]) " + m.call + ")", "VAL<'caught>"},
			macroDefaultKase{m.id + "/macroexpand-handled", "(handler-bind ([condition (lambda (c &rest a) 'caught)]) (macroexpand '" + m.call + "))", "VAL<'caught>"},
		)
	}
	ks = append(ks, macroDefaultKase{"self/in-defun", "(viadef)", exceeded})
	for _, n := range []int{1, 500, 998, 999} {
		ks = append(ks, macroDefaultKase{fmt.Sprintf("countdown-%d/eval", n), fmt.Sprintf("(countdown %d)", n), "VAL<'done>"})
		ks = append(ks, macroDefaultKase{fmt.Sprintf("countdown-%d/macroexpand", n), fmt.Sprintf("(macroexpand '(countdown %d))", n), "VAL<''done>"})
	}
	for _, n := range []int{1001, 1500} {
		ks = append(ks, macroDefaultKase{fmt.Sprintf("countdown-%d/eval", n), fmt.Sprintf("(countdown %d)", n), exceeded})
		ks = append(ks, macroDefaultKase{fmt.Sprintf("countdown-%d/macroexpand", n), fmt.Sprintf("(macroexpand '(countdown %d))", n), exceeded})
	}
	return ks
}

func macroDefaultCase(k macroDefaultKase) (bool, string) {
	done := make(chan string, 1)
	go func() {
		env := el.MustEnv(el.Opts{})
		env.AddMacros(true, el.Fn("host-forever", nil, func(env *lisp.LEnv, args *lisp.LVal) *lisp.LVal {
			return lisp.SExpr([]*lisp.LVal{lisp.Symbol("host-forever")})
		}))
		if o := env.Load(macroDefaultPrelude); o.IsErr {
			done <- "harness: prelude: " + o.Full()
			return
		}
		// a generous step budget keeps a runaway LISP macro from hanging the check: it then ends with the wrong
		// condition, which is reported; no macro-expansion bound is configured
		lisp.WithMaxSteps(50_000_000)(env.LEnv)
		out := env.Load(k.Src)
		got := "VAL<" + out.Text + ">"
		if out.IsErr {
			got = "ERR<" + out.Cond + ": " + out.Text + ">"
		}
		after := env.Load("(countdown 3)")
		if after.IsErr || after.Text != "'done" {
			got += "; afterwards (countdown 3) => " + after.Full()
		}
		if n := len(env.Runtime.Stack.Frames); n != 0 {
			got += fmt.Sprintf("; %d frames left", n)
		}
		done <- got
	}()
	select {
	case got := <-done:
		return !strings.HasPrefix(got, k.Want) || strings.Contains(got, "; "), fmt.Sprintf("%s with no macro-expansion bound configured => %s (expected %s...)", k.Src, got, k.Want)
	case <-time.After(60 * time.Second):
		return true, fmt.Sprintf("%s with no macro-expansion bound configured did not return within 60 s (the evaluation is left running)", k.Src)
	}
}

func macroDefault(r *core.Run) {
	ks := macroDefaultCases()
	r.Bound("macro_default_bound_cases", len(ks))
	core.ParallelRange(r, int64(len(ks)), nil, func(_ struct{}, i int64) {
		bad, rep := macroDefaultCase(ks[i])
		r.AddEvals(2)
		r.AddTransitions(1)
		r.Outcome("macro-default-bound")
		if bad {
			r.Violate("c04", "special:macro-default-bound:"+ks[i].Name, kase{Src: ks[i].Src, Why: "macro-default " + ks[i].Name}, "with nothing configured, more than 1000 successive expansions end in the catchable macro-expansion error; fewer run", rep, "")
		}
	})
}

const tailPrelude = "(defun deep (k) (if (<= k 0) 0 (+ 1 (deep (- k 1))))) (defun tl (n d) (if (<= n 0) 'done (progn (deep d) (tl (- n 1) d))))"

func tailRun(g *rig, n, d, t int) string {
	res := g.run(fmt.Sprintf("(tl %d %d)", n, d), limits{TailIter: t})
	if res.clean != "" {
		return "dirty:" + res.clean
	}
	if res.out.IsErr {
		return "ERR<" + res.out.Cond + ">"
	}
	return "VAL<" + res.out.Text + ">"
}

func tailCase(k kase) (bool, string) {
	var n, d, t int
	fmt.Sscanf(k.Why, "tail-exact n=%d d=%d t=%d", &n, &d, &t)
	ref := newRig()
	ref.env.Load(tailPrelude)
	want := tailRun(ref, n, 0, t)
	g := newRig()
	g.env.Load(tailPrelude)
	fresh := tailRun(g, n, d, t)
	warm := tailRun(g, n, d, t)
	rep := fmt.Sprintf("(tl %d %d) under a tail-iteration bound of %d: body depth 0 => %s; body depth %d in a fresh runtime => %s; again in the same runtime => %s", n, d, t, want, d, fresh, warm)
	return fresh != want || warm != want, rep
}

func tailExact(r *core.Run) {
	depths := []int{0, 3, 20, 40, 80, 200, 600}
	var ks []kase
	for n := 1; n <= 6; n++ {
		for _, d := range depths {
			for t := 1; t <= n+1; t++ {
				ks = append(ks, kase{Src: tailPrelude, Lim: limits{TailIter: t}, Why: fmt.Sprintf("tail-exact n=%d d=%d t=%d", n, d, t)})
			}
		}
	}
	r.Bound("tail_exact_cases", len(ks))
	core.ParallelRange(r, int64(len(ks)), nil, func(_ struct{}, i int64) {
		bad, rep := tailCase(ks[i])
		r.AddEvals(3)
		r.AddTransitions(1)
		r.Outcome("tail-exact")
		if bad {
			r.Violate("c04", "special:tail-bound-depends-on-stack-depth", ks[i], "the same verdict as with a shallow loop body", rep, "")
		}
	})
}

func specialReplay(class string, k kase) (bool, string) {
	if strings.HasPrefix(class, "special:macro-default-bound:") {
		for _, mk := range macroDefaultCases() {
			if "special:macro-default-bound:"+mk.Name == class {
				return macroDefaultCase(mk)
			}
		}
		return false, "unknown case " + class
	}
	switch class {
	case "special:empty-dotimes-cancel":
		g := newRig()
		done := make(chan result, 1)
		go func() { done <- g.run(k.Src, k.Lim) }()
		select {
		case res := <-done:
			bad := !res.out.IsErr || res.out.Cond != lisp.CondContextCancelled || res.steps > k.Lim.CancelAt+1
			return bad, fmt.Sprintf("%s steps=%d", res.out.Full(), res.steps)
		case <-time.After(30 * time.Second):
			return true, "still running after 30 s"
		}
	case "special:empty-dotimes-budget":
		g := newRig()
		done := make(chan result, 1)
		go func() { done <- g.run(k.Src, k.Lim) }()
		select {
		case res := <-done:
			bad := !res.out.IsErr || res.out.Cond != lisp.CondStepLimitExceeded || res.steps != k.Lim.Budget+1
			return bad, fmt.Sprintf("%s steps=%d", res.out.Full(), res.steps)
		case <-time.After(60 * time.Second):
			return true, "still running after 60 s"
		}
	case "special:sleep-cancel":
		env := el.MustEnv(el.Opts{Stdlib: true})
		ctx, cancel := context.WithCancel(context.Background())
		if k.Why == "sleep+deadline" {
			// a deadline far beyond the sleep, and an EXPLICIT cancellation while the sleep is pending
			var c2 context.CancelFunc
			ctx, c2 = context.WithTimeout(ctx, 10*time.Hour)
			defer c2()
		}
		done := make(chan el.Outcome, 1)
		t0 := time.Now()
		go func() { done <- env.LoadCtx(ctx, k.Src) }()
		time.Sleep(30 * time.Millisecond)
		cancel()
		// the requested sleeps are >= 30 min: returning at all within the 30 s watchdog proves that the
		// cancellation, not the timer, ended the wait (a 60x margin; no short wall-clock oracle)
		select {
		case out := <-done:
			bad := !out.IsErr || out.Cond != lisp.CondContextCancelled
			return bad, fmt.Sprintf("%s after %v", out.Full(), time.Since(t0))
		case <-time.After(30 * time.Second):
			return true, "sleep still pending 30 s after cancellation"
		}
	case "special:refill":
		return refillCase(k)
	case "special:tail-bound-depends-on-stack-depth":
		return tailCase(k)
	case "special:macro-bound-not-exact":
		return macroCase(k)
	}
	return false, "unknown special class"
}
