package c04

import (
	"context"
	"fmt"
	"strings"

	"github.com/luthersystems/elps/lisp"

	"verif/mc/core"
	"verif/mc/el"
)

// Nested contexts.  "A cancelled context stops evaluation at the next step": the context that governs a step is the one
// the enclosing entry point was given.  A host builtin may re-enter the evaluator under a context of its own (a child
// with its own cancellation), so ONE top-level evaluation can be governed by several contexts in turn.  The table
// below enumerates: outer entry kind x inner entry kind x (child derived from the outer context | independent) x body
// x (which context is cancelled, at which of three program points), and decides every case by the probe events that
// may and may not occur after the cancellation.

type nestedKase struct {
	Outer   string `json:"outer"`   // load-context | with-context | plain
	Inner   string `json:"inner"`   // funcall-context | eval-context | load-string-context | funcall
	Derived bool   `json:"derived"` // inner context derived from the outer one
	Body    int    `json:"body"`
	Cancel  string `json:"cancel"` // "", A1, A2, A3, B2, B3
}

var nestedBodies = []string{
	"(loop 3)",
	"(dotimes (i 400000))",
	"(dotimes (i 2) (probe 7))",
	"(rec 2)",
	"(map 'list probe '(8 9))",
}

type nrig struct {
	env     *el.Env
	log     []int
	cancelA context.CancelFunc
	cancelB context.CancelFunc
	ctxA    context.Context
	k       nestedKase
}

func (k nestedKase) source() (string, string) {
	x := func(at string) string {
		if k.Cancel == at {
			return fmt.Sprintf("(cancel '%s)", at[:1])
		}
		return ""
	}
	body := nestedBodies[k.Body]
	innerBody := fmt.Sprintf("(probe 2) %s %s (probe 3)", x("A2")+x("B2"), body)
	var inner string
	if k.Inner == "load-string-context" {
		inner = fmt.Sprintf("(inner-src %q)", "(progn "+innerBody+")")
	} else {
		inner = fmt.Sprintf("(inner (lambda () %s))", innerBody)
	}
	src := fmt.Sprintf("(progn (probe 1) %s %s %s (probe 4) %s (probe 5))", x("A1"), inner, x("A3")+x("B3"), body)
	return src, body
}

func newNrig(k nestedKase) *nrig {
	g := &nrig{k: k}
	probe := el.Fn("probe", []string{"k"}, func(env *lisp.LEnv, args *lisp.LVal) *lisp.LVal {
		if args.Cells[0].Type == lisp.LInt {
			g.log = append(g.log, args.Cells[0].Int)
		}
		return args.Cells[0]
	})
	cancel := el.Fn("cancel", []string{"which"}, func(env *lisp.LEnv, args *lisp.LVal) *lisp.LVal {
		switch args.Cells[0].Str {
		case "A":
			if g.cancelA != nil {
				g.cancelA()
			}
		case "B":
			if g.cancelB != nil {
				g.cancelB()
			}
		}
		return lisp.Nil()
	})
	childCtx := func(env *lisp.LEnv) context.Context {
		parent := context.Background()
		if g.k.Derived && g.ctxA != nil {
			parent = g.ctxA
		}
		c, cf := context.WithCancel(parent)
		g.cancelB = cf
		return c
	}
	inner := el.Fn("inner", []string{"thunk"}, func(env *lisp.LEnv, args *lisp.LVal) *lisp.LVal {
		fn := args.Cells[0]
		switch g.k.Inner {
		case "funcall-context":
			return env.FunCallContext(childCtx(env), fn, lisp.SExpr(nil))
		case "eval-context":
			return env.EvalContext(childCtx(env), lisp.SExpr([]*lisp.LVal{lisp.Symbol("funcall"), fn}))
		default: // "funcall": no context of its own, the enclosing one stays in force
			g.cancelB = func() {}
			return env.FunCall(fn, lisp.SExpr(nil))
		}
	})
	innerSrc := el.Fn("inner-src", []string{"src"}, func(env *lisp.LEnv, args *lisp.LVal) *lisp.LVal {
		return env.LoadStringContext(childCtx(env), "inner", args.Cells[0].Str)
	})
	var cfgs []lisp.Config
	if k.Outer != "plain" {
		g.ctxA, g.cancelA = context.WithCancel(context.Background())
	}
	if k.Outer == "with-context" {
		cfgs = append(cfgs, lisp.WithContext(g.ctxA))
	}
	g.env = el.MustEnv(el.Opts{Builtins: []lisp.LBuiltinDef{probe, cancel, inner, innerSrc}, Configs: cfgs})
	if o := g.env.Load(prelude); o.IsErr {
		panic("harness: prelude: " + o.Full())
	}
	return g
}

// bodyProbes: the probe labels the body emits when it runs to completion.
func bodyProbes(b int) []int {
	switch b {
	case 0:
		return []int{91, 91, 91, 90}
	case 2:
		return []int{7, 7}
	case 3:
		return []int{92}
	case 4:
		return []int{8, 9}
	}
	return nil
}

// expect returns the exact probe log and whether the run must end in context-cancelled; exact=false when only the
// outcome (and the absence of probes 4 and 5) is specified.
func (k nestedKase) expect() (log []int, cancelled bool, exact bool) {
	bp := bodyProbes(k.Body)
	full := append([]int{1, 2}, bp...)
	full = append(full, 3, 4)
	full = append(full, bp...)
	full = append(full, 5)
	upto3 := append(append([]int{1, 2}, bp...), 3)
	hasA := k.Outer != "plain"
	ownB := k.Inner != "funcall"
	switch k.Cancel {
	case "":
		return full, false, true
	case "A1":
		if !hasA {
			return full, false, true
		}
		return []int{1}, true, true
	case "A2":
		if !hasA {
			return full, false, true
		}
		if !ownB || k.Derived {
			return []int{1, 2}, true, true
		}
		// an independent inner context was put in force by the host: whether the inner call notices the outer
		// cancellation is the host's business; the outer evaluation must stop as soon as it is back in charge
		return upto3, true, false
	case "A3":
		if !hasA {
			return full, false, true
		}
		return upto3, true, true
	case "B2":
		if !ownB {
			return full, false, true
		}
		return []int{1, 2}, true, true
	case "B3":
		// the inner call has returned: its context no longer governs anything
		return full, false, true
	}
	panic("unknown cancel point")
}

func nestedCase(k nestedKase) (bool, string) {
	g := newNrig(k)
	src, _ := k.source()
	var out el.Outcome
	switch k.Outer {
	case "load-context":
		out = g.env.LoadCtx(g.ctxA, src)
	default:
		out = g.env.Load(src)
	}
	wantLog, wantCancelled, exact := k.expect()
	got := fmt.Sprint(g.log)
	okLog := got == fmt.Sprint(wantLog)
	if !exact {
		// prefix [1 2] must be there, 4 and 5 must not
		okLog = strings.HasPrefix(got, "[1 2") && !strings.Contains(got, " 4") && !strings.Contains(got, " 5")
	}
	isCancelled := out.IsErr && out.Cond == lisp.CondContextCancelled
	okOut := isCancelled == wantCancelled && (wantCancelled || !out.IsErr)
	rep := fmt.Sprintf("%s => probes %s, %s; expected probes %v (exact=%v), cancelled=%v", src, got, out.Full(), wantLog, exact, wantCancelled)
	rt := g.env.Runtime
	if len(rt.Stack.Frames) != 0 || rt.EvalNesting() != 0 {
		return true, rep + "; runtime dirty afterwards"
	}
	return !(okLog && okOut), rep
}

func nestedContexts(r *core.Run) {
	var ks []nestedKase
	for _, outer := range []string{"load-context", "with-context", "plain"} {
		for _, inner := range []string{"funcall-context", "eval-context", "load-string-context", "funcall"} {
			for _, derived := range []bool{true, false} {
				if inner == "funcall" && !derived {
					continue
				}
				for b := range nestedBodies {
					for _, c := range []string{"", "A1", "A2", "A3", "B2", "B3"} {
						ks = append(ks, nestedKase{Outer: outer, Inner: inner, Derived: derived, Body: b, Cancel: c})
					}
				}
			}
		}
	}
	r.Bound("nested_context_cases", len(ks))
	core.ParallelRange(r, int64(len(ks)), nil, func(_ struct{}, i int64) {
		bad, rep := nestedCase(ks[i])
		r.AddEvals(1)
		r.AddTransitions(1)
		r.Outcome("nested-context:" + ks[i].Cancel)
		if bad {
			k := ks[i]
			r.Violate("c04", fmt.Sprintf("special:nested-context:%s:%s:cancel-%s", k.Outer, k.Inner, k.Cancel),
				kase{Src: fmt.Sprintf("%+v", k), Why: "nested-context"}, "the cancelled context stops the steps it governs, and only those", rep, "")
		}
	})
}
