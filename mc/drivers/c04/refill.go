package c04

import (
	"context"
	"fmt"
	"strings"

	"github.com/luthersystems/elps/lisp"

	"verif/mc/core"
	"verif/mc/el"
)

// entry is one exported top-level entry point applied to the workload
// "(loop 2)" (value 90, probes 91 91 90).
type entry struct {
	name string
	call func(g *rig) *lisp.LVal
}

func readOne(g *rig, src string) *lisp.LVal {
	exprs, err := g.env.Runtime.Reader.Read("t", strings.NewReader(src))
	if err != nil || len(exprs) != 1 {
		panic("harness: read " + src)
	}
	return exprs[0]
}

func sym(g *rig, name string) *lisp.LVal {
	v := g.env.Get(lisp.Symbol(name))
	if v.Type == lisp.LError {
		panic("harness: unbound " + name)
	}
	return v
}

func entries() []entry {
	bg := context.Background()
	return []entry{
		{"LoadString", func(g *rig) *lisp.LVal { return g.env.LoadString("t", "(loop 2)") }},
		{"LoadStringContext", func(g *rig) *lisp.LVal { return g.env.LoadStringContext(bg, "t", "(loop 2)") }},
		{"Load", func(g *rig) *lisp.LVal { return g.env.LEnv.Load("t", strings.NewReader("(loop 2)")) }},
		{"LoadProgram", func(g *rig) *lisp.LVal {
			p, err := el.Parse("t", "(loop 2)")
			if err != nil {
				panic(err)
			}
			return g.env.LoadProgram(p)
		}},
		{"LoadProgramContext", func(g *rig) *lisp.LVal {
			p, _ := el.Parse("t", "(loop 2)")
			return g.env.LoadProgramContext(bg, p)
		}},
		{"Eval", func(g *rig) *lisp.LVal { return g.env.Eval(readOne(g, "(loop 2)")) }},
		{"EvalContext", func(g *rig) *lisp.LVal { return g.env.EvalContext(bg, readOne(g, "(loop 2)")) }},
		{"EvalSExpr", func(g *rig) *lisp.LVal { return g.env.EvalSExpr(readOne(g, "(loop 2)")) }},
		{"FunCall", func(g *rig) *lisp.LVal {
			return g.env.FunCall(sym(g, "loop"), lisp.QExpr([]*lisp.LVal{lisp.Int(2)}))
		}},
		{"FunCallContext", func(g *rig) *lisp.LVal {
			return g.env.FunCallContext(bg, sym(g, "loop"), lisp.QExpr([]*lisp.LVal{lisp.Int(2)}))
		}},
		{"MacroCall", func(g *rig) *lisp.LVal {
			return g.env.MacroCall(sym(g, "mac"), lisp.QExpr([]*lisp.LVal{readOne(g, "(loop 2)")}))
		}},
		{"SpecialOpCall", func(g *rig) *lisp.LVal {
			return g.env.SpecialOpCall(sym(g, "progn"), lisp.QExpr([]*lisp.LVal{readOne(g, "(loop 2)")}))
		}},
		// the host enters at a BUILTIN or special operator whose own Go code re-enters the evaluator several times
		// (callbacks, body forms): all of that is ONE top-level evaluation under ONE budget
		{"FunCall-builtin-map", func(g *rig) *lisp.LVal {
			return g.env.FunCall(sym(g, "map"), lisp.QExpr([]*lisp.LVal{lisp.Quote(lisp.Symbol("list")), sym(g, "loop"), lisp.QExpr([]*lisp.LVal{lisp.Int(2), lisp.Int(1), lisp.Int(2)})}))
		}},
		{"FunCallContext-builtin-foldl", func(g *rig) *lisp.LVal {
			return g.env.FunCallContext(bg, sym(g, "foldl"), lisp.QExpr([]*lisp.LVal{readOne(g, "(lambda (acc x) (loop x))"), lisp.Int(0), lisp.QExpr([]*lisp.LVal{lisp.Int(2), lisp.Int(2)})}))
		}},
		{"FunCall-builtin-funcall", func(g *rig) *lisp.LVal {
			return g.env.FunCall(sym(g, "funcall"), lisp.QExpr([]*lisp.LVal{sym(g, "loop"), lisp.Int(2)}))
		}},
		{"SpecialOpCall-progn-three-forms", func(g *rig) *lisp.LVal {
			return g.env.SpecialOpCall(sym(g, "progn"), lisp.QExpr([]*lisp.LVal{readOne(g, "(loop 1)"), readOne(g, "(loop 2)"), readOne(g, "(loop 2)")}))
		}},
		{"SpecialOpCall-dotimes", func(g *rig) *lisp.LVal {
			return g.env.SpecialOpCall(sym(g, "dotimes"), lisp.QExpr([]*lisp.LVal{readOne(g, "(i 3)"), readOne(g, "(loop i)")}))
		}},
		{"EvalSExpr-builtin-map", func(g *rig) *lisp.LVal { return g.env.EvalSExpr(readOne(g, "(map 'list loop '(2 1 2))")) }},
	}
}

// degenerates are first operations that evaluate no form at all, or give up before evaluating one: the bookkeeping
// around an evaluation must balance on those paths too.  They are used as the EARLIER operation only.
func degenerates() []entry {
	bg := context.Background()
	ld := func(src string) func(g *rig) *lisp.LVal {
		return func(g *rig) *lisp.LVal { return g.env.LoadString("t", src) }
	}
	return []entry{
		{"LoadString-empty", ld("")},
		{"LoadString-whitespace", ld("  \n\t\n")},
		{"LoadString-comment-only", ld("; nothing here\n;; at all\n")},
		{"LoadStringContext-empty", func(g *rig) *lisp.LVal { return g.env.LoadStringContext(bg, "t", "") }},
		{"Load-empty", func(g *rig) *lisp.LVal { return g.env.LEnv.Load("t", strings.NewReader("")) }},
		{"LoadProgram-empty", func(g *rig) *lisp.LVal {
			p, err := el.Parse("t", "")
			if err != nil {
				panic(err)
			}
			return g.env.LoadProgram(p)
		}},
		{"LoadString-syntax-error", ld("(loop 2")},
		{"LoadString-nested-empty-load", ld("(load-string \"\")")},
		{"LoadString-nested-comment-load-then-work", ld("(progn (load-string \"; nothing\") (loop 2))")},
		{"LoadString-nested-empty-load-bytes-in-function", ld("(defun ld () (load-bytes (to-bytes \"\")) 1) (ld) (ld)")},
		{"LoadString-nested-syntax-error-swallowed", ld("(ignore-errors (load-string \"(\")) (loop 2)")},
		{"LoadFile-no-library", func(g *rig) *lisp.LVal { return g.env.LoadFile("nowhere.lisp") }},
		{"Eval-atom", func(g *rig) *lisp.LVal { return g.env.Eval(lisp.Int(1)) }},
		{"Eval-nil", func(g *rig) *lisp.LVal { return g.env.Eval(lisp.Nil()) }},
		{"EvalSExpr-empty", func(g *rig) *lisp.LVal { return g.env.EvalSExpr(lisp.SExpr(nil)) }},
		{"FunCall-not-a-function", func(g *rig) *lisp.LVal { return g.env.FunCall(lisp.Int(5), lisp.QExpr(nil)) }},
		{"FunCall-wrong-arity", func(g *rig) *lisp.LVal { return g.env.FunCall(sym(g, "loop"), lisp.QExpr(nil)) }},
	}
}

func (g *rig) entryRun(e entry, budget int64) (el.Outcome, int64, []event) {
	lisp.WithMaxSteps(budget)(g.env.LEnv)
	g.trace = nil
	g.env.Err.Reset()
	v := e.call(g)
	tr := g.trace
	g.trace = nil
	return el.Observe(v, g.env.Err.String()), g.env.Runtime.Steps(), tr
}

const huge = int64(1) << 40

type refillCaseT struct {
	A, B    string
	BudgetA int64
}

func entryByName(n string) entry {
	for _, e := range append(entries(), degenerates()...) {
		if e.name == n {
			return e
		}
	}
	panic("no entry " + n)
}

// refillCheck: run A under budgetA, then B with exactly the budget B needs
// (must succeed identically) and with one less (must fail).
func refillCheck(a, b entry, budgetA int64) (bad bool, rep string) {
	fresh := newRig()
	wantOut, nb, wantTr := fresh.entryRun(b, huge)
	g := newRig()
	outA, stepsA, _ := g.entryRun(a, budgetA)
	gotOut, gotSteps, gotTr := g.entryRun(b, nb)
	rep = fmt.Sprintf("A=%s budget=%d -> %s steps=%d; then B=%s budget=%d (needs %d) -> %s steps=%d trace=%s; fresh B -> %s trace=%s",
		a.name, budgetA, outA.String(), stepsA, b.name, nb, nb, gotOut.String(), gotSteps, evs(gotTr), wantOut.String(), evs(wantTr))
	if gotOut.String() != wantOut.String() || gotSteps != nb || len(gotTr) != len(wantTr) {
		return true, rep
	}
	// one top-level evaluation counts its steps ONCE: the count seen by successive probes never goes back, and the
	// final count is at least what the last probe saw (a budget refilled in the middle of an evaluation restarts it)
	if m := monotone(wantTr, nb); m != "" {
		return true, rep + "; fresh B: " + m
	}
	if m := monotone(gotTr, gotSteps); m != "" {
		return true, rep + "; B after A: " + m
	}
	if nb > 1 {
		o2, _, _ := g.entryRun(b, nb-1)
		rep += fmt.Sprintf("; B budget=%d -> %s", nb-1, o2.String())
		// MacroCall returns the expansion unevaluated when the budget ends inside it? It must still fail.
		if !o2.IsErr || o2.Cond != lisp.CondStepLimitExceeded {
			return true, rep
		}
	}
	// and again with exactly what it needs: EVERY new top-level evaluation starts with a full budget, not only the
	// first one after A (a counter that is no longer reset lets one evaluation through when A itself took no step)
	for i := 0; i < 2; i++ {
		o3, s3, _ := g.entryRun(b, nb)
		if o3.String() != wantOut.String() || s3 != nb {
			return true, rep + fmt.Sprintf("; B once more with budget=%d -> %s steps=%d", nb, o3.String(), s3)
		}
	}
	return false, rep
}

// monotone: the step counts recorded by the probes of ONE top-level evaluation are non-decreasing and bounded by the
// evaluation's final count.
func monotone(tr []event, final int64) string {
	var last int64
	for i, e := range tr {
		if e.Step < last {
			return fmt.Sprintf("step count went back from %d to %d at probe %d of %s", last, e.Step, i, evs(tr))
		}
		last = e.Step
	}
	if final < last {
		return fmt.Sprintf("final step count %d below the %d a probe saw: %s", final, last, evs(tr))
	}
	return ""
}

func refillCase(k kase) (bool, string) {
	var c refillCaseT
	parts := strings.Split(k.Why, "|")
	if len(parts) != 2 {
		return false, "bad refill case"
	}
	c.A, c.B, c.BudgetA = parts[0], parts[1], k.Lim.Budget
	return refillCheck(entryByName(c.A), entryByName(c.B), c.BudgetA)
}

func refill(r *core.Run) {
	es := entries()
	r.Bound("entry_points", len(es))
	r.Bound("degenerate_first_operations", len(degenerates()))
	for _, a := range append(entries(), degenerates()...) {
		fresh := newRig()
		_, na, _ := fresh.entryRun(a, huge)
		for _, b := range es {
			for n := int64(1); n <= na+1; n++ {
				bad, rep := refillCheck(a, b, n)
				r.AddEvals(3)
				r.AddTransitions(1)
				r.Outcome("refill")
				if bad {
					r.Violate("c04", "special:refill:"+a.name+"->"+b.name, kase{Src: "(loop 2)", Lim: limits{Budget: n}, Why: a.name + "|" + b.name},
						"the second top-level evaluation starts with a full budget and a zero step count", rep, "")
				}
			}
		}
	}
}
