package c07

import (
	"fmt"
	"os"
	"strings"
	"testing"

	"verif/mc/core"
)

func subSpace(s *macroSpace, keep func(i int) bool) *macroSpace {
	o := &macroSpace{ctxs: s.ctxs}
	for i := range s.shapes {
		if !keep(i) {
			continue
		}
		o.shapes = append(o.shapes, s.shapes[i])
		o.labels = append(o.labels, s.labels[i])
		o.defs = append(o.defs, s.defs[i])
		o.tuples = append(o.tuples, s.tuples[i])
		o.offs = append(o.offs, o.total)
		o.total += int64(len(s.defs[i]) * len(definers) * len(s.tuples[i]))
	}
	return o
}

// development aids, skipped unless C07_DEV is set:
//
//	C07_DEV=sizes   print the sizes of space A
//	C07_DEV=chain   run only the chain blocks (family MR) at quick bounds
//	C07_DEV=allctx  run the quick definitions and tuples under the thorough-only contexts
func TestDev(t *testing.T) {
	mode := os.Getenv("C07_DEV")
	if mode == "" {
		t.Skip()
	}
	os.Setenv("VERIF_NO_EVIDENCE", "1")
	for _, th := range []bool{false, true} {
		s := newMacroSpace(th)
		fmt.Println("thorough", th, "units", s.total, "ctxs", len(s.ctxs))
		for i := range s.shapes {
			fmt.Printf("  %-34s defs=%d tuples=%d\n", s.labels[i], len(s.defs[i]), len(s.tuples[i]))
		}
	}
	if mode == "sizes" {
		s := newMacroSpace(false)
		n := len(s.shapes) - 3
		for _, di := range []int{0, 37, 104} {
			d := s.defs[n][di]
			args := s.tuples[n][4]
			fmt.Println(program("defmacro", s.shapes[n], d, allCtx[3], callForm(allCtx[3], args)))
			fmt.Println(" model:", d.expand(s.shapes[n].bind(args)))
		}
		return
	}
	r := core.NewRun("C07", "quick")
	s := newMacroSpace(false)
	switch mode {
	case "chain":
		s = subSpace(s, func(i int) bool { return i >= len(formalShapes) })
	case "allctx":
		s.ctxs = allCtx[4:]
	}
	runMacroSpace(r, s)
	fmt.Println("violations:", r.ViolationCount(), "evals", r.Evaluations)
	if r.ViolationCount() > 0 {
		r.Finish()
		t.Fail()
	}
}

// C07_DEV=reunits: one line per (definer, body, parameter kind) of the re-entrancy space: do call,
// eval-of-macroexpand and the model agree for the activations (x) ((f x)) ?
func TestDevReentrancyUnits(t *testing.T) {
	if os.Getenv("C07_DEV") != "reunits" {
		t.Skip()
	}
	acts := []string{"x", "(f x)"}
	for _, definer := range definers {
		for _, d := range reDefs() {
			if d.only != "" && d.only != definer {
				continue
			}
			line := fmt.Sprintf("%-9s %-34s", definer, d.id)
			for _, s := range reShapes {
				var calls, evals, models []string
				for _, a := range acts {
					c := s.call(a, bFor(a))
					calls = append(calls, c)
					evals = append(evals, "(eval (macroexpand '"+c+"))")
					models = append(models, d.expand(s, a, bFor(a)))
				}
				rc, re, rm := runFresh(reProgram(definer, s, d, calls)), runFresh(reProgram(definer, s, d, evals)), runFresh(reProgram(definer, s, d, models))
				v := "ok"
				if rc.key() != rm.key() {
					v = "MODEL"
				}
				if rc.key() != re.key() {
					v += "+EVAL"
				}
				line += fmt.Sprintf(" %s%v:%s", s.kind, s.hasB, v)
			}
			fmt.Println(line)
		}
	}
}

// C07_DEV=stunits: one line per (definer, body) of the stateful space, one column per placement (k=3, arg x)
func TestDevStatefulUnits(t *testing.T) {
	if os.Getenv("C07_DEV") != "stunits" {
		t.Skip()
	}
	for _, definer := range definers {
		for _, b := range stBodies {
			line := fmt.Sprintf("%-9s %-26s", definer, b.id)
			for _, p := range stPlaces {
				rc := runFresh(stProgram(definer, b, p, 3, "(m x)"))
				re := runFresh(stProgram(definer, b, p, 3, "(eval (macroexpand '(m x)))"))
				rm := runFresh(stProgram(definer, b, p, 3, strings.ReplaceAll(b.inline, "{A}", "x")))
				v := "ok"
				if rc.key() != rm.key() {
					v = "MODEL"
				}
				if rc.key() != re.key() {
					v += "+EVAL"
				}
				line += " " + v
			}
			fmt.Println(line)
		}
	}
}
