package c07

import (
	"fmt"
	"os"
	"testing"

	"verif/mc/core"
)

// quick-tier definitions and tuples under ALL call-site contexts
func TestAllContextsQuickBounds(t *testing.T) {
	if os.Getenv("C07_DEV") == "" {
		t.Skip()
	}
	os.Setenv("VERIF_NO_EVIDENCE", "1")
	r := core.NewRun("C07", "quick")
	s := newMacroSpace(false)
	s.ctxs = allCtx[4:]
	runMacroSpace(r, s)
	fmt.Println("violations:", r.ViolationCount(), "evals", r.Evaluations)
	if r.ViolationCount() > 0 {
		r.Finish()
		t.Fail()
	}
}
