package c07

import (
	"fmt"
	"regexp"
	"strconv"
	"strings"

	"github.com/luthersystems/elps/lisp"
)

// Node is the typed tree both the reference expander and the observation of a
// real result are rendered to.  Q is the quote depth of the node itself: the
// number of LQuote wrappers plus the node's own quote flag.
type Node struct {
	Kind string // "int" "str" "sym" "list" "fun" "other"
	Q    int
	Atom string  // int / str / sym payload
	Kids []*Node // list elements
}

func (n *Node) String() string {
	var b strings.Builder
	n.write(&b)
	return b.String()
}

func (n *Node) write(b *strings.Builder) {
	for i := 0; i < n.Q; i++ {
		b.WriteByte('\'')
	}
	switch n.Kind {
	case "int":
		b.WriteString("#" + n.Atom)
	case "str":
		b.WriteString(strconv.Quote(n.Atom))
	case "sym":
		b.WriteString(n.Atom)
	case "list":
		b.WriteByte('(')
		for i, k := range n.Kids {
			if i > 0 {
				b.WriteByte(' ')
			}
			k.write(b)
		}
		b.WriteByte(')')
	default:
		b.WriteString("<" + n.Kind + ":" + n.Atom + ">")
	}
}

// quoted returns a copy of n with d more quote levels.
func (n *Node) quoted(d int) *Node {
	c := *n
	c.Q += d
	return &c
}

func nInt(i int) *Node          { return &Node{Kind: "int", Atom: strconv.Itoa(i)} }
func nStr(s string) *Node       { return &Node{Kind: "str", Atom: s} }
func nSym(s string) *Node       { return &Node{Kind: "sym", Atom: s} }
func nList(kids ...*Node) *Node { return &Node{Kind: "list", Kids: kids} }

// observe converts a real value to a Node.  depth-limited: the values seen
// here are finite trees built by quasiquote / macro expansion.
//
// A value that contains itself (possible only when the interpreter is broken,
// e.g. under a mutant) is cut by a depth and a node budget instead of being
// followed for ever.
func observe(v *lisp.LVal) *Node {
	budget := 20000
	return observeN(v, 0, &budget)
}

func observeN(v *lisp.LVal, depth int, budget *int) *Node {
	if v == nil {
		return &Node{Kind: "other", Atom: "nil-pointer"}
	}
	if depth > 64 {
		return &Node{Kind: "other", Atom: "too-deep"}
	}
	if *budget--; *budget < 0 {
		return &Node{Kind: "other", Atom: "too-big"}
	}
	q := 0
	for v.Type == lisp.LQuote {
		q++
		if len(v.Cells) != 1 {
			return &Node{Kind: "other", Atom: "malformed-quote", Q: q}
		}
		v = v.Cells[0]
	}
	if v.Type != lisp.LQuote && v.IsQuoted() {
		q++
	}
	switch v.Type {
	case lisp.LInt:
		return &Node{Kind: "int", Q: q, Atom: strconv.Itoa(v.Int)}
	case lisp.LString:
		return &Node{Kind: "str", Q: q, Atom: v.Str}
	case lisp.LSymbol:
		return &Node{Kind: "sym", Q: q, Atom: v.Str}
	case lisp.LSExpr:
		n := &Node{Kind: "list", Q: q}
		for _, c := range v.Cells {
			n.Kids = append(n.Kids, observeN(c, depth+1, budget))
		}
		return n
	case lisp.LFun:
		return &Node{Kind: "fun", Q: q, Atom: v.String()}
	default:
		return &Node{Kind: "other", Q: q, Atom: fmt.Sprintf("%v:%s", v.Type, v.String())}
	}
}

var gensymRe = regexp.MustCompile(`gen[0-9]{8,}`)

// canonGensyms renames gensym-looking names by order of first occurrence so
// that two renderings can be compared without depending on the counter value,
// while keeping the equal/distinct pattern among them.
func canonGensyms(s string) string {
	seen := map[string]string{}
	return gensymRe.ReplaceAllStringFunc(s, func(m string) string {
		if r, ok := seen[m]; ok {
			return r
		}
		r := fmt.Sprintf("G%d", len(seen)+1)
		seen[m] = r
		return r
	})
}
