package c07

import (
	"fmt"
	"strings"
	"sync/atomic"

	"verif/mc/core"
)

// ---------------------------------------------------------------------------
// Space B: quasiquote templates against a reference expander.

// A leaf of the template alphabet.
type leaf struct {
	src    string // source text of the leaf (without quote prefix)
	kind   string // atom | unquote | splice
	lit    *Node  // atom: the literal
	val    *Node  // unquote: the value of E (nil for tick)
	tick   bool   // unquote of (tick): value is the host counter
	elems  []*Node
	nolist bool // splice of a non-list
}

var (
	lfA = leaf{src: "a", kind: "atom", lit: nSym("a")}
	lf1 = leaf{src: "1", kind: "atom", lit: nInt(1)}
	lfS = leaf{src: `"s"`, kind: "atom", lit: nStr("s")}
	// data that merely LOOKS like the head of an unquote form: a string spelled like the operator is a string
	lfStrU = leaf{src: `"unquote"`, kind: "atom", lit: nStr("unquote")}
	lfStrS = leaf{src: `"unquote-splicing"`, kind: "atom", lit: nStr("unquote-splicing")}
	lfStrQ = leaf{src: `"quasiquote"`, kind: "atom", lit: nStr("quasiquote")}
	lfNil  = leaf{src: "()", kind: "atom", lit: nList()}
	lfU3   = leaf{src: "(unquote (+ 1 2))", kind: "unquote", val: nInt(3)}
	lfUx   = leaf{src: "(unquote 'x)", kind: "unquote", val: nSym("x").quoted(1)}
	lfUpq  = leaf{src: "(unquote '(p q))", kind: "unquote", val: nList(nSym("p"), nSym("q")).quoted(1)}
	lfUt   = leaf{src: "(unquote (tick))", kind: "unquote", tick: true}
	lfS0   = leaf{src: "(unquote-splicing (list))", kind: "splice"}
	lfS1   = leaf{src: "(unquote-splicing (list 1))", kind: "splice", elems: []*Node{nInt(1)}}
	lfS2   = leaf{src: "(unquote-splicing (list 1 2))", kind: "splice", elems: []*Node{nInt(1), nInt(2)}}
	lfSxy  = leaf{src: "(unquote-splicing '(x y))", kind: "splice", elems: []*Node{nSym("x"), nSym("y")}}
	lfSbad = leaf{src: "(unquote-splicing 5)", kind: "splice", nolist: true}
)

// tpl is an abstract template: a leaf or a list of templates, under q quote
// levels.
type tpl struct {
	q    int
	leaf *leaf
	kids []*tpl
}

func (t *tpl) src(b *strings.Builder) {
	for i := 0; i < t.q; i++ {
		b.WriteByte('\'')
	}
	if t.leaf != nil {
		b.WriteString(t.leaf.src)
		return
	}
	b.WriteByte('(')
	for i, k := range t.kids {
		if i > 0 {
			b.WriteByte(' ')
		}
		k.src(b)
	}
	b.WriteByte(')')
}

func (t *tpl) String() string {
	var b strings.Builder
	t.src(&b)
	return b.String()
}

func (t *tpl) hasUnquote() bool {
	if t.leaf != nil {
		return t.leaf.kind != "atom"
	}
	for _, k := range t.kids {
		if k.hasUnquote() {
			return true
		}
	}
	return false
}

// refQuasi is the reference template expander.  "quasiquote reproduces its
// template literally except that unquote inserts the value of its expression
// and unquote-splicing splices the elements of a list in order, at any nesting
// of lists and quotes."  Expressions are evaluated left to right, each once.
//
// verdict: "ok" (the tree is the result) or "unspecified".  The statement
// speaks of splicing "the elements of a list" into an enclosing list, so three
// zones are outside it and only "no Go panic" is asserted there: a splice with
// no enclosing list, a splice of a non-list, and a splice form that is itself
// quoted.  (elps answers all three with an error today.)
type refState struct {
	tick    int
	verdict string
}

func (s *refState) fail(v string) { s.verdict = v }

func (s *refState) expand(t *tpl, depth int) []*Node {
	if t.leaf == nil {
		out := &Node{Kind: "list", Q: t.q}
		for _, k := range t.kids {
			out.Kids = append(out.Kids, s.expand(k, depth+1)...)
		}
		return []*Node{out}
	}
	switch t.leaf.kind {
	case "atom":
		return []*Node{t.leaf.lit.quoted(t.q)}
	case "unquote":
		v := t.leaf.val
		if t.leaf.tick {
			s.tick++
			v = nInt(s.tick)
		}
		return []*Node{v.quoted(t.q)}
	default: // splice
		if t.q > 0 || depth == 0 || t.leaf.nolist {
			s.fail("unspecified")
		}
		return t.leaf.elems
	}
}

// refQuasi returns the verdict and, for "ok", the expected tree of
// (quasiquote T): the expansion under one more quote level.
func refQuasi(t *tpl) (verdict string, tree string) {
	s := &refState{verdict: "ok"}
	ns := s.expand(t, 0)
	if s.verdict != "ok" {
		return s.verdict, ""
	}
	return "ok", ns[0].quoted(1).String()
}

// ---------------------------------------------------------------------------
// grammars: complete enumeration by (count, unrank)

type grammar struct {
	name         string
	leaves       []*leaf
	qLeaf        int  // quote levels 0..qLeaf-1 on atom and unquote leaves
	quoteSplices bool // also on unquote-splicing leaves (the unspecified zone)
	qList        int  // quote levels 0..qList-1 on lists
	width        int
	depth        int
	leafOpts     []tpl   // every (leaf, quote level) option, in order
	counts       []int64 // counts[d] = number of templates of depth <= d
}

func (g *grammar) init() {
	for _, l := range g.leaves {
		n := g.qLeaf
		if l.kind == "splice" && !g.quoteSplices {
			n = 1
		}
		for q := 0; q < n; q++ {
			g.leafOpts = append(g.leafOpts, tpl{q: q, leaf: l})
		}
	}
	g.counts = make([]int64, g.depth+1)
	g.counts[1] = int64(len(g.leafOpts))
	for d := 2; d <= g.depth; d++ {
		var lists int64
		p := int64(1)
		for w := 1; w <= g.width; w++ {
			p *= g.counts[d-1]
			lists += p
		}
		g.counts[d] = g.counts[1] + int64(g.qList)*lists
	}
}

func (g *grammar) total() int64 { return g.counts[g.depth] }

func (g *grammar) unrank(d int, i int64) *tpl {
	if i < g.counts[1] {
		return &g.leafOpts[i]
	}
	i -= g.counts[1]
	q := int(i % int64(g.qList))
	i /= int64(g.qList)
	base := g.counts[d-1]
	p := base
	w := 1
	for i >= p {
		i -= p
		p *= base
		w++
	}
	t := &tpl{q: q, kids: make([]*tpl, w)}
	for k := w - 1; k >= 0; k-- {
		t.kids[k] = g.unrank(d-1, i%base)
		i /= base
	}
	return t
}

func (g *grammar) describe() string {
	var ls []string
	for _, l := range g.leaves {
		ls = append(ls, l.src)
	}
	sp := "not on splice forms"
	if g.quoteSplices {
		sp = "also on splice forms"
	}
	return fmt.Sprintf("%s: depth<=%d width 1..%d, quote levels 0..%d on leaves (%s) and 0..%d on lists, leaves {%s}: %d templates",
		g.name, g.depth, g.width, g.qLeaf-1, sp, g.qList-1, strings.Join(ls, ", "), g.total())
}

func grammars(thorough bool) []*grammar {
	all13 := []*leaf{&lfA, &lf1, &lfS, &lfNil, &lfU3, &lfUx, &lfUpq, &lfUt, &lfS0, &lfS1, &lfS2, &lfSxy, &lfSbad}
	gs := []*grammar{
		// broad alphabet, shallow, quotes on every node
		{name: "B1-broad", leaves: all13, qLeaf: 3, qList: 3, width: 3, depth: 2},
		// the illegal / unspecified contexts: quoted splice forms, non-list splices, at every depth
		{name: "B4-illegal", leaves: []*leaf{&lfA, &lfU3, &lfS1, &lfSbad, &lfSxy}, qLeaf: 2, quoteSplices: true, qList: 1, width: 2, depth: 3},
	}
	// look-alike heads: every list shape whose elements (the head included) may be the STRINGS "unquote",
	// "unquote-splicing", "quasiquote" next to real unquote / splice forms
	gs = append(gs, &grammar{name: "B5-lookalike-heads", leaves: []*leaf{&lfStrU, &lfStrS, &lfStrQ, &lfA, &lfU3, &lfS2}, qLeaf: 2, qList: 2, width: 2, depth: 3})
	if !thorough {
		gs = append(gs,
			// deep: splice at every position of every list of every depth
			&grammar{name: "B2-deep", leaves: []*leaf{&lfA, &lfUt, &lfS2, &lfS0}, qLeaf: 1, qList: 1, width: 3, depth: 3},
			// deep with quotes on every node
			&grammar{name: "B3-quoted", leaves: []*leaf{&lfA, &lfUt, &lfUpq, &lfS2}, qLeaf: 3, qList: 3, width: 2, depth: 3},
		)
	} else {
		gs = append(gs,
			&grammar{name: "B2-deep", leaves: []*leaf{&lfA, &lfNil, &lfUt, &lfUpq, &lfS2, &lfS0}, qLeaf: 1, qList: 1, width: 3, depth: 3},
			&grammar{name: "B3-quoted", leaves: []*leaf{&lfA, &lfNil, &lfUt, &lfUpq, &lfS2, &lfS0}, qLeaf: 3, qList: 3, width: 2, depth: 3},
		)
	}
	for _, g := range gs {
		g.init()
	}
	return gs
}

// checkQuasi evaluates (quasiquote T) in e and compares with the reference.
// It returns "" when they agree.
func checkQuasi(e *rt, t *tpl) (src, verdict, expected, got string, res result) {
	src = "(quasiquote " + t.String() + ")"
	verdict, expected = refQuasi(t)
	res = e.run(src)
	switch verdict {
	case "ok":
		if res.IsErr {
			got = res.full()
		} else if res.Raw != expected {
			got = res.Raw
		}
	case "unspecified":
		expected = "anything but a Go panic"
		if res.isPanic() {
			got = res.full()
		}
	}
	return
}

func quasiClass(t *tpl, verdict string, res result) string {
	// stable identity of the failing input class: what the template contains
	// and how the outcome differs
	var feats []string
	var walk func(t *tpl, depth int, underQ bool)
	has := map[string]bool{}
	walk = func(t *tpl, depth int, underQ bool) {
		if t.leaf != nil {
			f := t.leaf.kind
			if t.leaf.kind != "atom" {
				if t.q > 0 {
					f += "-quoted"
				} else if underQ {
					f += "-in-quoted-list"
				}
				if depth == 0 {
					f += "-toplevel"
				}
				if t.leaf.nolist {
					f += "-nonlist"
				}
				if t.leaf.kind == "splice" && len(t.leaf.elems) == 0 && !t.leaf.nolist {
					f += "-empty"
				}
			}
			has[f] = true
			return
		}
		for _, k := range t.kids {
			walk(k, depth+1, underQ || t.q > 0)
		}
	}
	walk(t, 0, false)
	for _, f := range []string{"splice", "splice-empty", "splice-in-quoted-list", "splice-in-quoted-list-empty", "splice-quoted", "splice-toplevel", "splice-nonlist", "splice-quoted-toplevel", "splice-quoted-nonlist", "unquote", "unquote-quoted", "unquote-in-quoted-list", "unquote-toplevel", "unquote-quoted-toplevel"} {
		if has[f] {
			feats = append(feats, f)
		}
	}
	out := "wrong-tree"
	if res.IsErr {
		out = "unexpected-error"
		if res.isPanic() {
			out = "go-panic"
		}
	}
	if len(feats) == 0 {
		feats = []string{"literal-only"}
	}
	return "quasiquote:" + out + ":" + strings.Join(feats, "+")
}

func runQuasi(r *core.Run) {
	gs := grammars(r.Thorough())
	r.Rule("B (quasiquote): every template of each stated grammar, evaluated as (quasiquote T) and compared with the reference expander as typed trees; non-trivial = T contains at least one unquote or unquote-splicing; distinct by source text")
	r.Assume("unquote expressions are evaluated left to right, each exactly once (observed through (tick), a host counter)")
	r.Assume("U (unspecified zones, only 'no Go panic' asserted): a splice form that is itself quoted '(unquote-splicing L); a splice with no enclosing list (quasiquote (unquote-splicing L)); a splice of a non-list")
	const nontrivCap = 1_500_000
	for _, g := range gs {
		if r.Expired() {
			r.Cap("soft deadline before grammar " + g.name)
			return
		}
		r.Bound("quasi_"+g.name, g.describe())
		var nontriv, verdOK, verdUnspec int64
		core.ParallelRange(r, g.total(), func(int) *rt { return newRT() }, func(e *rt, i int64) {
			t := g.unrank(g.depth, i)
			src, verdict, expected, got, res := checkQuasi(e, t)
			r.AddEvals(1)
			r.AddTransitions(1)
			r.AddTraces(1)
			switch verdict {
			case "ok":
				atomic.AddInt64(&verdOK, 1)
			default:
				atomic.AddInt64(&verdUnspec, 1)
			}
			if t.hasUnquote() {
				if atomic.AddInt64(&nontriv, 1) <= nontrivCap {
					r.Nontrivial(src)
				}
			}
			if i%4099 == 0 {
				r.Outcome(fmt.Sprintf("quasi:%s:%s:%s", g.name, verdict, outcomeClass(res)))
			}
			if i == g.total()/2 || i == g.total()-1 {
				r.Sample(map[string]string{"part": "quasi", "src": src, "reference": verdict + " " + expected, "got": res.full()})
			}
			if got == "" {
				return
			}
			k := kase{Part: "quasi", Check: "template", A: src, Expect: verdict + " " + expected, Desc: g.name}
			report(r, quasiClass(t, verdict, res), k, expected, got, func() bool {
				_, _, _, g2, _ := checkQuasi(newRT(), t)
				return g2 != ""
			})
		})
		r.AddStates(g.total())
		r.Extra("quasi_"+g.name+"_counts", map[string]int64{"templates": g.total(), "nontrivial": nontriv, "reference_ok": verdOK, "reference_unspecified": verdUnspec})
		r.Outcome("quasi:" + g.name + ":ref-ok")
		if verdUnspec > 0 {
			r.Outcome("quasi:" + g.name + ":ref-unspecified")
		}
	}
}

func outcomeClass(res result) string {
	if res.IsErr {
		return "ERR<" + res.Cond + ">"
	}
	return "VAL"
}

// replayQuasi re-parses nothing: the case carries the program text and the
// reference's expectation.
func replayQuasi(k kase) (bool, string) {
	res := runFresh(k.A)
	rep := fmt.Sprintf("program:  %s\nreference: %s\nelps:      %s\n", k.A, k.Expect, res.full())
	switch {
	case strings.HasPrefix(k.Expect, "ok "):
		return res.IsErr || res.Raw != strings.TrimPrefix(k.Expect, "ok "), rep
	default:
		return res.isPanic(), rep
	}
}
