package c07

// The expansion BUDGET: chains of macro calls that expand to macro calls, of
// every length around the configured number of successive expansions.
//
// "Evaluating a macro call is equivalent to evaluating the form macroexpand
// returns" and "macroexpand-1 performs exactly one step of what macroexpand
// iterates" hold for a chain of ANY length the evaluator itself accepts: the
// evaluator and macroexpand count the same steps against the same bound.  For
// every bound B in a small set (Runtime.MaxMacroExpansionDepth) and the default
// bound, and every chain length L from 1 to B+2 (default: the three lengths
// around it), with the last expansion a call of an ordinary function, an atom
// or a quoted datum:
//
//	call            (chain k)
//	via macroexpand (eval (macroexpand '(chain k)))
//	macroexpand     (macroexpand '(chain k))
//	stepwise        macroexpand-1 applied L times (host loop, no bound)
//
// call and via-macroexpand have the same outcome (value, or the same
// condition); when the call succeeds, macroexpand succeeds and equals the
// stepwise expansion.

import (
	"fmt"

	"github.com/luthersystems/elps/lisp"

	"verif/mc/core"
)

type budgetCase struct {
	Bound int    // 0 = not configured (the default bound)
	L     int    // number of expansions of the chain
	Final string // what the last expansion is
}

var budgetFinals = []struct{ name, form string }{
	{"call", "'(+ 40 2)"},
	{"atom", "42"},
	{"quoted-datum", "''(a b)"},
}

func budgetDef(final string) string {
	return "(defmacro chain (n) (if (= n 0) " + final + " (quasiquote (chain (unquote (- n 1))))))"
}

func budgetRT(bound int) *rt {
	e := newRT()
	if bound > 0 {
		e.Runtime.MaxMacroExpansionDepth = bound
	}
	return e
}

// stepwise applies macroexpand-1 exactly l times from the host (no bound of its own).
func budgetStepwise(bound, l int, def string) result {
	e := budgetRT(bound)
	if r := e.run(def); r.IsErr {
		return r
	}
	if r := e.run(fmt.Sprintf("(set 'c07-x '(chain %d))", l-1)); r.IsErr {
		return r
	}
	for i := 0; i < l; i++ {
		if r := e.run("(set 'c07-x (macroexpand-1 c07-x))"); r.IsErr {
			return r
		}
	}
	return e.run("c07-x")
}

func budgetCheck(c budgetCase) (class, expected, got string, k kase) {
	final := ""
	for _, f := range budgetFinals {
		if f.name == c.Final {
			final = f.form
		}
	}
	def := budgetDef(final)
	call := fmt.Sprintf("(chain %d)", c.L-1)
	runIn := func(src string) result {
		e := budgetRT(c.Bound)
		if r := e.run(def); r.IsErr {
			return r
		}
		return e.run(src)
	}
	a := runIn(call)
	b := runIn("(eval (macroexpand '" + call + "))")
	m := runIn("(macroexpand '" + call + ")")
	k = kase{Part: "macro", Check: "budget", Desc: fmt.Sprintf("bound=%d chain=%d final=%s", c.Bound, c.L, c.Final), A: def + " " + call, B: def + " (eval (macroexpand '" + call + "))",
		Ops: []string{fmt.Sprint(c.Bound), fmt.Sprint(c.L), c.Final}}
	rel := "below"
	eff := c.Bound
	if eff == 0 {
		eff = lisp.DefaultMaxMacroExpansionDepth
	}
	switch {
	case c.L == eff:
		rel = "exactly-the-bound"
	case c.L > eff:
		rel = "beyond"
	}
	if a.key() != b.key() {
		return "macro:call-vs-eval:budget:" + rel + ":" + c.Final, "the call and (eval (macroexpand ..)) have the same outcome: " + a.key(), b.key(), k
	}
	if !a.IsErr {
		s := budgetStepwise(c.Bound, c.L, def)
		if m.key() != s.key() {
			return "macro:expand1-fixpoint:budget:" + rel + ":" + c.Final, "macroexpand equals macroexpand-1 applied " + fmt.Sprint(c.L) + " times: " + s.key(), m.key(), k
		}
	}
	return "", "", "", k
}

func budgetCases(thorough bool) []budgetCase {
	bounds := []int{1, 2, 3, 6}
	if thorough {
		bounds = []int{1, 2, 3, 4, 5, 6, 10, 17, 40}
	}
	var out []budgetCase
	for _, f := range budgetFinals {
		for _, b := range bounds {
			for l := 1; l <= b+2; l++ {
				out = append(out, budgetCase{b, l, f.name})
			}
		}
		d := lisp.DefaultMaxMacroExpansionDepth
		for _, l := range []int{1, d - 1, d, d + 1} {
			out = append(out, budgetCase{0, l, f.name})
		}
	}
	return out
}

func runBudget(r *core.Run) {
	cases := budgetCases(r.Thorough())
	core.ParallelRange(r, int64(len(cases)), nil, func(_ struct{}, i int64) {
		c := cases[i]
		class, exp, got, k := budgetCheck(c)
		r.AddEvals(4)
		r.AddTraces(1)
		if class == "" {
			r.Outcome("budget agree")
			return
		}
		report(r, class, k, exp, got, func() bool { c2, _, _, _ := budgetCheck(c); return c2 == class })
		r.Outcome("budget VIOLATION " + class)
	})
	r.AddStates(int64(len(cases)))
	r.Bound("budget_bounds", "quick 1 2 3 6, thorough 1..6 10 17 40, and the default bound; chain lengths 1..bound+2 (default: 1, bound-1, bound, bound+1); last expansion a call / an atom / a quoted datum")
}

func replayBudget(k kase) (bool, string) {
	if len(k.Ops) != 3 {
		return false, "malformed budget case"
	}
	var b, l int
	fmt.Sscan(k.Ops[0], &b)
	fmt.Sscan(k.Ops[1], &l)
	class, exp, got, _ := budgetCheck(budgetCase{b, l, k.Ops[2]})
	return class != "", fmt.Sprintf("class=%s\nexpected %s\ngot      %s\n", class, exp, got)
}
