package c07

import (
	"fmt"
	"testing"
)

func TestSizes(t *testing.T) {
	for _, th := range []bool{false, true} {
		s := newMacroSpace(th)
		fmt.Println("thorough", th, "total units", s.total, "ctxs", len(s.ctxs))
		for i, f := range s.shapes {
			fam := map[string]int{}
			for _, d := range s.defs[i] {
				fam[d.fam]++
			}
			fmt.Printf("  %-26s defs=%d tuples=%d units=%d %v\n", f.src, len(s.defs[i]), len(s.tuples[i]), len(s.defs[i])*len(s.tuples[i])*2, fam)
		}
		for _, g := range grammars(th) {
			fmt.Println("  ", g.describe())
		}
	}
}
