// Package c07: a macro call means evaluating its expansion; quasiquote builds
// its template; gensyms are distinct.
//
// Three exhaustively enumerated spaces (DESIGN §C07):
//
//	A  macro definitions x definer (defmacro, macrolet) x call sites x argument tuples.
//	   Oracle: three programs run in three fresh runtimes must agree on
//	   (error class, condition, typed value tree, stderr transcript):
//	     the call            ... (m ARGS) ...
//	     the expansion       ... (eval (macroexpand '(m ARGS))) ...   same lexical context
//	     the model           ... E ...   where E is the expansion text a Go
//	                         binder + template substituter predicts
//	   and macroexpand == macroexpand-1 iterated until the head is no macro.
//	   Sub-spaces of A: re-entrancy of one macro closure (reentr.go), stateful
//	   macros at sites evaluated more than once (stateful.go), and macros that
//	   return a list they did not build -- the constant body of a generated
//	   macro, a global, a container element, a literal, an argument -- used
//	   several times in every order (shared.go).
//	B  quasiquote templates (complete grammars, see qq.go) against a small typed
//	   reference expander.
//	C  gensym: BFS over histories of gensym / defmacro / read operations.
package c07

import (
	"fmt"
	"os"
	"runtime/debug"
	"strings"
	"sync"
	"sync/atomic"
	"syscall"

	"github.com/luthersystems/elps/lisp"

	"verif/mc/core"
	"verif/mc/el"
)

func init() {
	core.Register(&core.Driver{Property: "C07", Run: run, Replay: replay})
}

// kase is the replayable description of one check.
type kase struct {
	Part   string   `json:"part"`  // macro | quasi | gensym
	Check  string   `json:"check"` // call=eval-expansion | call=model-expansion | expand1-fixpoint=macroexpand | binding-fails | template | gensym-history
	A      string   `json:"a,omitempty"`
	B      string   `json:"b,omitempty"`
	Expect string   `json:"expect,omitempty"`
	Ops    []string `json:"ops,omitempty"`
	Desc   string   `json:"desc,omitempty"`
}

// ---------------------------------------------------------------------------
// host builtins

type hostFn struct {
	name    string
	formals *lisp.LVal
	fn      func(env *lisp.LEnv, args *lisp.LVal) *lisp.LVal
}

func (h *hostFn) Name() string                                    { return h.name }
func (h *hostFn) Formals() *lisp.LVal                             { return h.formals }
func (h *hostFn) Eval(env *lisp.LEnv, args *lisp.LVal) *lisp.LVal { return h.fn(env, args) }

// rt is one runtime plus the host-side tick counter.
type rt struct {
	*el.Env
	tick int
}

const iterCap = 64

func newRT() *rt {
	r := &rt{}
	tick := &hostFn{name: "tick", formals: lisp.Formals(), fn: func(env *lisp.LEnv, args *lisp.LVal) *lisp.LVal {
		r.tick++
		return lisp.Int(r.tick)
	}}
	// c07-iter1: macroexpand-1 applied until the head of the form is not bound
	// to a macro in the CALLER's lexical environment (host builtins run in the
	// caller's environment, like eval).  At the stopping point macroexpand-1
	// must be the identity.
	iter := &hostFn{name: "c07-iter1", formals: lisp.Formals("form"), fn: func(env *lisp.LEnv, args *lisp.LVal) *lisp.LVal {
		form := args.Cells[0]
		step := func(f *lisp.LVal) *lisp.LVal {
			q := f
			if !q.IsQuoted() {
				q = lisp.Quote(q)
			}
			return env.Eval(lisp.SExpr([]*lisp.LVal{lisp.Symbol("lisp:macroexpand-1"), q}))
		}
		for i := 0; i < iterCap; i++ {
			if form.Type != lisp.LSExpr {
				return form
			}
			isMacro := false
			if len(form.Cells) > 0 && form.Cells[0].Type == lisp.LSymbol {
				m := env.Get(form.Cells[0])
				isMacro = m.Type == lisp.LFun && m.IsMacro()
			}
			nf := step(form)
			if nf.Type == lisp.LError {
				return nf
			}
			if !isMacro {
				if observe(nf).String() != observe(form).String() {
					return lisp.Symbol("c07-macroexpand-1-changed-a-non-macro-form")
				}
				return form
			}
			form = nf
		}
		return lisp.Symbol("c07-iteration-cap")
	}}
	r.Env = el.MustEnv(el.Opts{Builtins: []lisp.LBuiltinDef{tick, iter}})
	return r
}

// result is what is compared between runs.
type result struct {
	IsErr bool
	Cond  string
	Msg   string
	Tree  string // typed tree of the value, gensym names canonicalised
	Raw   string // typed tree, verbatim
	Out   string // stderr transcript, gensym names canonicalised
}

func (r result) key() string {
	if r.IsErr {
		return "ERR<" + r.Cond + "> out=" + fmt.Sprintf("%q", r.Out)
	}
	return "VAL " + r.Tree + " out=" + fmt.Sprintf("%q", r.Out)
}

func (r result) full() string {
	if r.IsErr {
		return "ERR<" + r.Cond + ": " + r.Msg + "> out=" + fmt.Sprintf("%q", r.Out)
	}
	return r.key()
}

// isPanic: a Go panic, escaped or recovered by the interpreter itself.
func (r result) isPanic() bool {
	return r.IsErr && (r.Cond == "<go-panic>" || r.Cond == lisp.CondInternalPanic)
}

func (e *rt) run(src string) (res result) {
	defer func() {
		if p := recover(); p != nil {
			res = result{IsErr: true, Cond: "<go-panic>", Msg: fmt.Sprint(p)}
		}
	}()
	e.Err.Reset()
	e.tick = 0
	v := e.LoadString("c07", src)
	out := canonGensyms(e.Err.String())
	if v == nil {
		return result{IsErr: true, Cond: "<nil-result>", Out: out}
	}
	if v.Type == lisp.LError {
		return result{IsErr: true, Cond: v.Str, Msg: el.ErrText(v), Out: out}
	}
	raw := observe(v).String()
	return result{Tree: canonGensyms(raw), Raw: raw, Out: out}
}

// runFresh evaluates src in a fresh runtime (a Go panic escaping the
// interpreter is an error result of its own class, see run).
func runFresh(src string) result { return newRT().run(src) }

// confirm re-runs a disagreeing check 5x in fresh runtimes; bad must hold
// every time for the disagreement to be reported.
func confirm(bad func() bool) (always, never bool) {
	n := 0
	for i := 0; i < 5; i++ {
		if bad() {
			n++
		}
	}
	return n == 5, n == 0
}

// confirmed counts the confirmed reports per class: core.Run keeps three cases
// per class, further ones are only counted, so they are not re-confirmed.
var confirmed sync.Map

func report(r *core.Run, class string, k kase, expected, got string, bad func() bool) {
	cnt, _ := confirmed.LoadOrStore(class, new(int64))
	if atomic.LoadInt64(cnt.(*int64)) >= 3 {
		r.Violate("c07", class, k, expected, got, "")
		return
	}
	always, _ := confirm(bad)
	if always {
		atomic.AddInt64(cnt.(*int64), 1)
	}
	if !always {
		r.Flaky(map[string]any{"class": class, "case": k, "expected": expected, "got": got})
		return
	}
	r.Violate("c07", class, k, expected, got, "")
}

// ---------------------------------------------------------------------------

func run(r *core.Run) {
	if rr := os.Getenv("RACE_RESULT"); rr != "" {
		r.Extra("race_detector_pass", rr)
	}
	r.Assume("runtimes are core-language environments (no stdlib): every name used (defmacro, macrolet, macroexpand, macroexpand-1, eval, quasiquote, unquote, unquote-splicing, gensym, debug-print, trace, get-default) is a core builtin")
	r.Assume("errors are compared by error/non-error class and condition name only; values as typed trees (kind, payload, quote depth = LQuote wrappers + quote flag); function values by their printed form")
	r.Assume("gensym names are renamed by order of first occurrence before two renderings are compared (the equal/distinct pattern is kept); gensym distinctness itself is space C")
	// Every case builds fresh runtimes: the garbage is large and short-lived while the live
	// heap is tiny, so collect less often (bounded by a memory limit).
	defer debug.SetGCPercent(debug.SetGCPercent(800))
	defer debug.SetMemoryLimit(debug.SetMemoryLimit(3 << 30))
	cpu := map[string]float64{}
	only := os.Getenv("C07_PARTS") // development aid: run a subset of the parts (the run is then not exhaustive)
	if raceOnly() {
		only = "gensym-concurrent" // C07_ONLY=race: only the free-running part, meant for a -race build
	}
	timed := func(name string, f func(*core.Run)) {
		selected := only == ""
		for _, tok := range strings.Split(only, ",") {
			if tok != "" && strings.HasPrefix(name, tok) {
				selected = true
			}
		}
		if !selected {
			r.Cap("part " + name + " skipped by C07_PARTS")
			return
		}
		if r.Expired() {
			r.Cap("soft deadline before part " + name)
			return
		}
		c0 := cpuSeconds()
		f(r)
		cpu[name] = cpuSeconds() - c0
	}
	timed("quasi", runQuasi)
	timed("macro", runMacro)
	timed("budget", runBudget)
	timed("reentrancy", runReentrancy)
	timed("stateful", runStateful)
	timed("shared", runShared)
	timed("gensym-bfs", runGensym)
	timed("gensym-concurrent", runGensymConcurrent)
	r.Extra("cpu_seconds_by_part", cpu)
	if os.Getenv("C07_TIMING") != "" {
		fmt.Fprintf(os.Stderr, "cpu seconds by part: %v\n", cpu)
	}
}

func cpuSeconds() float64 {
	var ru syscall.Rusage
	if syscall.Getrusage(syscall.RUSAGE_SELF, &ru) != nil {
		return 0
	}
	return float64(ru.Utime.Sec+ru.Stime.Sec) + float64(ru.Utime.Usec+ru.Stime.Usec)/1e6
}

func replay(v core.Violation) (bool, string) {
	k, err := core.CaseOf[kase](v)
	if err != nil {
		return false, err.Error()
	}
	var b strings.Builder
	fmt.Fprintf(&b, "part=%s check=%s %s\n", k.Part, k.Check, k.Desc)
	switch k.Part {
	case "quasi":
		bad, rep := replayQuasi(k)
		b.WriteString(rep)
		return bad, b.String()
	case "macro":
		if k.Check == "budget" {
			bad, rep := replayBudget(k)
			b.WriteString(rep)
			return bad, b.String()
		}
		bad, rep := replayMacro(k)
		b.WriteString(rep)
		return bad, b.String()
	case "gensym":
		if k.Check == "concurrent" {
			bad, rep := replayGensymConcurrent(k)
			b.WriteString(rep)
			return bad, b.String()
		}
		bad, rep := replayGensym(k)
		b.WriteString(rep)
		return bad, b.String()
	}
	return false, "unknown part " + k.Part
}
