package c07

import (
	"fmt"
	"strings"

	"verif/mc/core"
)

// ---------------------------------------------------------------------------
// Space A-ST: stateful macros at call sites that are evaluated more than once.
//
// elps expands a macro call when the call is EVALUATED (there is no separate
// expansion phase), so "a macro call means evaluating its expansion" holds at
// every evaluation of a call site: the body runs again each time, exactly as
// (eval (macroexpand '(m ..))) placed at that site would run it.  The
// expansions of this family are functions of state that changes between two
// evaluations of the same site: a counter the macro itself advances, a flag
// the caller flips, a list the macro pushes onto, gensym, and an effect
// performed at expansion time.
//
// Oracle, in three fresh runtimes per case: the site (m ARG) agrees, over the
// whole sequence of evaluations, with (eval (macroexpand '(m ARG))) at that
// site and with the model: the body's state change and the evaluation of the
// predicted expansion written inline, which is evaluated afresh at every
// evaluation of the site.  For the counter body with argument 1 the complete
// result is also predicted in Go.

type stBody struct {
	id      string
	init    string // global state, set before the definition
	body    string // macro body over parameter a
	inline  string // the model: {A} is the argument form
	between string // what the caller does between two evaluations of the site
}

var stBodies = []stBody{
	{id: "pure", body: "(quasiquote (list (unquote a)))", inline: "(list {A})"},
	{id: "counter", init: "(set 'cnt 0)",
		body:   "(progn (set 'cnt (+ cnt 1)) (quasiquote (list (unquote cnt) (unquote a))))",
		inline: "(progn (set 'cnt (+ cnt 1)) (list cnt {A}))"},
	{id: "counter-read-then-advance", init: "(set 'cnt 0)",
		body:   "(let ((now cnt)) (set 'cnt (+ cnt 1)) (quasiquote (list (unquote now) (unquote a))))",
		inline: "(let ((now cnt)) (set 'cnt (+ cnt 1)) (list now {A}))"},
	{id: "mode-branch", init: "(set 'mode 0)", between: "(set 'mode (- 1 mode))",
		body:   "(if (= mode 0) (quasiquote (list \"zero\" (unquote a))) (quasiquote (list (unquote a) \"one\")))",
		inline: "(if (= mode 0) (list \"zero\" {A}) (list {A} \"one\"))"},
	{id: "mode-embedded", init: "(set 'mode 0)", between: "(set 'mode (+ mode 10))",
		body:   "(quasiquote (list (unquote mode) (unquote a)))",
		inline: "(list mode {A})"},
	{id: "push-list", init: "(set 'log ())",
		body:   "(progn (set 'log (cons a log)) (quasiquote (list (unquote (length log)) (unquote log))))",
		inline: "(progn (set 'log (cons (car '({A})) log)) (list (length log) log))"},
	{id: "gensym", body: "(let ((g (gensym))) (quasiquote (list (to-string (quote (unquote g))) (unquote a))))",
		inline: "(list (to-string (gensym)) {A})"},
	{id: "expansion-time-effect", body: "(progn (debug-print \"xp\") (quasiquote (list (unquote a))))",
		inline: "(progn (debug-print \"xp\") (list {A}))"},
}

// stPlace: a placement evaluates {S} k times; {B} is the caller's action between two
// evaluations; x is the variable the placement binds (the argument form x refers to it).
type stPlace struct {
	id       string
	src      func(k int) string
	reversed bool // the results come out last evaluation first
	control  bool // the k evaluations are k DISTINCT textual sites
}

func seq(k int, f func(i int) string) string {
	var p []string
	for i := 1; i <= k; i++ {
		p = append(p, f(i))
	}
	return strings.Join(p, " ")
}

var stPlaces = []stPlace{
	{id: "defun-called-k-times", src: func(k int) string {
		return "(progn (defun h (x) {S}) (list " + seq(k, func(i int) string {
			if i == 1 {
				return "(h 1)"
			}
			return fmt.Sprintf("(progn {B} (h %d))", i)
		}) + "))"
	}},
	{id: "lambda-called-k-times", src: func(k int) string {
		return "(let ((g (lambda (x) {S}))) (list " + seq(k, func(i int) string {
			if i == 1 {
				return "(funcall g 1)"
			}
			return fmt.Sprintf("(progn {B} (funcall g %d))", i)
		}) + "))"
	}},
	{id: "dotimes", reversed: true, src: func(k int) string {
		return fmt.Sprintf("(let ((acc ())) (dotimes (x %d) (set! acc (cons {S} acc)) {B}) acc)", k)
	}},
	{id: "map-callback", src: func(k int) string {
		return "(map 'list (lambda (x) (let ((r {S})) {B} r)) '(" + seq(k, func(i int) string { return fmt.Sprint(i) }) + "))"
	}},
	{id: "tail-loop", reversed: true, src: func(k int) string {
		return fmt.Sprintf("(progn (defun tl (x acc) (if (= x 0) acc (tl (- x 1) (cons (let ((r {S})) {B} r) acc)))) (tl %d ()))", k)
	}},
	{id: "tail-position-site", src: func(k int) string {
		return "(progn (defun tp (x) (if (< x 100) {S} 0)) (list " + seq(k, func(i int) string {
			if i == 1 {
				return "(tp 1)"
			}
			return fmt.Sprintf("(progn {B} (tp %d))", i)
		}) + "))"
	}},
	{id: "toplevel-textual-copies", control: true, src: func(k int) string {
		return "(let ((x 5)) (list " + seq(k, func(i int) string {
			if i == 1 {
				return "{S}"
			}
			return "(progn {B} {S})"
		}) + "))"
	}},
}

func stProgram(definer string, b stBody, p stPlace, k int, site string) string {
	between := b.between
	if between == "" {
		between = "0"
	}
	place := strings.ReplaceAll(strings.ReplaceAll(p.src(k), "{S}", site), "{B}", between)
	init := b.init
	if init != "" {
		init += "\n"
	}
	if definer == "defmacro" {
		return prelude + init + "(defmacro m (a) " + b.body + ")\n" + place
	}
	return prelude + init + "(macrolet ((m (a) " + b.body + "))\n" + place + ")"
}

func runStateful(r *core.Run) {
	ks := []int{2, 3}
	type unit struct {
		definer string
		b       stBody
		p       stPlace
		k       int
		arg     string
	}
	var units []unit
	for _, definer := range definers {
		for _, b := range stBodies {
			for _, p := range stPlaces {
				for _, k := range ks {
					for _, a := range argForms {
						units = append(units, unit{definer, b, p, k, a})
					}
				}
			}
		}
	}
	var bids, pids []string
	for _, b := range stBodies {
		bids = append(bids, b.id)
	}
	for _, p := range stPlaces {
		pids = append(pids, p.id)
	}
	r.Bound("stateful_bodies", bids)
	r.Bound("stateful_placements", pids)
	r.Bound("stateful_evaluations_per_site", ks)
	r.Bound("stateful_units", len(units))
	r.Rule("A-ST (stateful macros): every (body, placement, evaluations per site 2..3, argument form, definer); the macro body runs afresh at EVERY evaluation of a call site (elps expands at evaluation time), which the unchanged tree confirms for every placement: the site agrees with the inline model, with (eval (macroexpand ..)) at the site and, for the counter body, with the result sequence 1..k predicted in Go; non-trivial = the program evaluates to a value ('pure' and the textual-copies placement are controls)")
	var nontriv int64
	core.ParallelRange(r, int64(len(units)), nil, func(_ struct{}, i int64) {
		u := units[i]
		call := "(m " + u.arg + ")"
		desc := fmt.Sprintf("%s m (a) %s ; %s x%d ; arg %s", u.definer, u.b.id, u.p.id, u.k, u.arg)
		cls := func(check string) string {
			return "macro:" + check + ":" + u.definer + ":ST-" + u.b.id + ":" + u.p.id
		}
		pc := stProgram(u.definer, u.b, u.p, u.k, call)
		checks := []reCheck{
			{kase{Part: "macro", Check: "call=eval-expansion", Desc: desc, A: pc,
				B: stProgram(u.definer, u.b, u.p, u.k, "(eval (macroexpand '"+call+"))")}, cls("call-vs-eval")},
			{kase{Part: "macro", Check: "call=model-expansion", Desc: desc, A: pc,
				B: stProgram(u.definer, u.b, u.p, u.k, strings.ReplaceAll(u.b.inline, "{A}", u.arg))}, cls("call-vs-model")},
		}
		runReChecks(r, checks, &nontriv, "ST-"+u.b.id)
		if u.b.id == "counter" && u.arg == "1" {
			// the complete result, predicted: the i-th evaluation of the site yields '(i 1)
			var el []*Node
			for n := 1; n <= u.k; n++ {
				el = append(el, nList(nInt(n), nInt(1)).quoted(1))
			}
			if u.p.reversed {
				for a, b := 0, len(el)-1; a < b; a, b = a+1, b-1 {
					el[a], el[b] = el[b], el[a]
				}
			}
			k := kase{Part: "macro", Check: "result=reference", Desc: desc, A: pc, Expect: nList(el...).quoted(1).String()}
			r.AddTransitions(1)
			if bad, expected, got := evalMacroKase(k); bad {
				report(r, cls("result-vs-reference"), k, expected, got, func() bool { b, _, _ := evalMacroKase(k); return b })
			}
		}
		if i == 3 {
			r.Sample(map[string]string{"part": "macro-stateful", "a": pc, "a_result": runFresh(pc).full()})
		}
	})
	r.AddStates(int64(len(stBodies) * len(definers)))
	r.Extra("stateful_counts", map[string]int64{"units": int64(len(units)), "sites_evaluating_to_a_value": nontriv})
}
