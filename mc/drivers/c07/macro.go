package c07

import (
	"fmt"
	"strings"
	"sync/atomic"

	"verif/mc/core"
)

// ---------------------------------------------------------------------------
// Space A: macro definitions x definers x call sites x argument tuples.

const prelude = `(set 'x 10)
(defun f (v) (debug-print "f" v) (+ v 100))
(defmacro m2 (a) (quasiquote (progn (debug-print "m2") (list (unquote a)))))
(defmacro m3 (a b) (quasiquote (m2 (list (unquote a) (unquote b)))))
`

// argument forms (DESIGN §C07 A.i)
var argForms = []string{"1", "x", "(debug-print 7)", "(f x)", "'(a b)", "(m2 1)"}

type formals struct {
	src  string
	req  []string
	opt  []string
	rest string
}

var formalShapes = []formals{
	{src: "(a)", req: []string{"a"}},
	{src: "(a b)", req: []string{"a", "b"}},
	{src: "(a &optional o)", req: []string{"a"}, opt: []string{"o"}},
	{src: "(a &rest r)", req: []string{"a"}, rest: "r"},
	{src: "(&rest r)", rest: "r"},
	{src: "(&optional o)", opt: []string{"o"}},
	{src: "(a &optional o &rest r)", req: []string{"a"}, opt: []string{"o"}, rest: "r"},
}

func (f formals) scalars() []string { return append(append([]string{}, f.req...), f.opt...) }

// binding is the reference binder's result: which argument TEXT each
// parameter denotes (arguments reach a macro unevaluated).
type binding struct {
	ok     bool
	scalar map[string]string
	given  map[string]bool
	rest   []string
}

func (f formals) accepts(n int) bool {
	if n < len(f.req) {
		return false
	}
	return f.rest != "" || n <= len(f.req)+len(f.opt)
}

func (f formals) bind(args []string) binding {
	b := binding{scalar: map[string]string{}, given: map[string]bool{}}
	if !f.accepts(len(args)) {
		return b
	}
	b.ok = true
	i := 0
	for _, v := range f.req {
		b.scalar[v], b.given[v] = args[i], true
		i++
	}
	for _, v := range f.opt {
		if i < len(args) {
			b.scalar[v], b.given[v] = args[i], true
			i++
		} else {
			b.scalar[v] = "()"
		}
	}
	if f.rest != "" {
		b.rest = args[i:]
	}
	return b
}

// mdef is one macro definition: the body text and the reference's
// prediction of its one-step expansion for a binding.
type mdef struct {
	fam      string
	body     string
	expand   func(b binding) string
	post     string // a form evaluated after the call site ("0" when unused)
	noStruct bool   // expansion contains a function value: no textual structure check
	// sevens (optional) = how many times the expansion mentions, in an evaluated position, an
	// argument form (debug-print 7): the transcript of a successful call must show exactly
	// that many "7" lines per evaluation of the call site
	sevens  func(b binding) int
	selfRec bool   // expansion calls m again
	pre     string // extra prelude (the inner macros of the chain family)
}

type item struct {
	src   string
	exp   func(b binding) string
	evald bool // the inserted text stands in an evaluated position of the expansion
}

const sevenForm = "(debug-print 7)"

func joinNonEmpty(parts []string) string {
	var out []string
	for _, p := range parts {
		if p != "" {
			out = append(out, p)
		}
	}
	return strings.Join(out, " ")
}

func restList(b binding) string { return "(" + strings.Join(b.rest, " ") + ")" }

func sc(v string) func(b binding) string  { return func(b binding) string { return b.scalar[v] } }
func konst(s string) func(binding) string { return func(binding) string { return s } }

func sub(tmpl string, m map[string]func(b binding) string) func(b binding) string {
	return func(b binding) string {
		s := tmpl
		for k, f := range m {
			s = strings.ReplaceAll(s, k, f(b))
		}
		return s
	}
}

func defsFor(f formals, seqLen int) []mdef {
	var defs []mdef
	scal := f.scalars()

	// Q: (quasiquote (list I1 .. Ik)), every item sequence of length 1..seqLen
	var items []item
	for _, v := range scal {
		v := v
		items = append(items,
			item{"(unquote " + v + ")", sc(v), true},
			item{"(quote (unquote " + v + "))", func(b binding) string { return "(quote " + b.scalar[v] + ")" }, false})
	}
	if f.rest != "" {
		r := f.rest
		items = append(items,
			item{"(unquote-splicing " + r + ")", func(b binding) string { return strings.Join(b.rest, " ") }, true},
			// the &rest parameter is a list VALUE (a quoted list of the forms)
			item{"(unquote " + r + ")", func(b binding) string { return "'" + restList(b) }, false})
	}
	items = append(items, item{"x", konst("x"), true}, item{"1", konst("1"), true})
	var seqs [][]item
	var gen func(prefix []item, n int)
	gen = func(prefix []item, n int) {
		if len(prefix) > 0 {
			seqs = append(seqs, append([]item{}, prefix...))
		}
		if n == 0 {
			return
		}
		for _, it := range items {
			gen(append(prefix, it), n-1)
		}
	}
	gen(nil, seqLen)
	for _, s := range seqs {
		s := s
		var srcs []string
		for _, it := range s {
			srcs = append(srcs, it.src)
		}
		defs = append(defs, mdef{fam: "Q", body: "(quasiquote (list " + strings.Join(srcs, " ") + "))",
			expand: func(b binding) string {
				parts := []string{"list"}
				for _, it := range s {
					parts = append(parts, it.exp(b))
				}
				return "(" + joinNonEmpty(parts) + ")"
			},
			sevens: func(b binding) int {
				n := 0
				for _, it := range s {
					if it.evald {
						n += strings.Count(it.exp(b), sevenForm)
					}
				}
				return n
			}})
	}

	// L: (list H V..), C: (cons H (cons V ..))
	type val struct {
		src string
		exp func(b binding) string
	}
	var vals []val
	for _, v := range scal {
		vals = append(vals, val{v, sc(v)})
	}
	vals = append(vals, val{"1", konst("1")}, val{"(car '(x))", konst("x")})
	for _, v1 := range vals {
		v1 := v1
		defs = append(defs, mdef{fam: "L", body: "(list (car '(list)) " + v1.src + ")",
			expand: func(b binding) string { return "(list " + v1.exp(b) + ")" },
			sevens: func(b binding) int { return strings.Count(v1.exp(b), sevenForm) }})
		for _, v2 := range vals {
			v2 := v2
			defs = append(defs, mdef{fam: "L", body: "(list (car '(list)) " + v1.src + " " + v2.src + ")",
				expand: func(b binding) string { return "(list " + v1.exp(b) + " " + v2.exp(b) + ")" },
				sevens: func(b binding) int { return strings.Count(v1.exp(b)+" "+v2.exp(b), sevenForm) }})
		}
	}
	v0 := vals[0]
	defs = append(defs,
		mdef{fam: "L", body: "(list 'list " + v0.src + ")", expand: func(b binding) string { return "('list " + v0.exp(b) + ")" }},
		mdef{fam: "L", body: "(list list " + v0.src + ")", noStruct: true, expand: func(b binding) string { return "(list " + v0.exp(b) + ")" }},
		mdef{fam: "C", body: "(cons (car '(list)) (cons " + v0.src + " ()))", expand: func(b binding) string { return "(list " + v0.exp(b) + ")" }},
	)
	if f.rest != "" {
		r := f.rest
		defs = append(defs,
			mdef{fam: "C", body: "(cons (car '(list)) " + r + ")", expand: func(b binding) string { return "(" + joinNonEmpty([]string{"list", strings.Join(b.rest, " ")}) + ")" }},
			mdef{fam: "C", body: "(cons (car '(list)) (cons " + v0.src + " " + r + "))", expand: func(b binding) string {
				return "(" + joinNonEmpty([]string{"list", v0.exp(b), strings.Join(b.rest, " ")}) + ")"
			}},
			mdef{fam: "A", body: r, expand: restList},
			mdef{fam: "M", body: "(quasiquote (m3 (unquote-splicing " + r + ")))", expand: func(b binding) string {
				return "(" + joinNonEmpty([]string{"m3", strings.Join(b.rest, " ")}) + ")"
			}},
		)
	}

	// families that need a scalar parameter
	for i, v := range scal {
		V := map[string]func(b binding) string{"{V}": sc(v)}
		// G: gensym-using let template (the argument is evaluated once, bound to a fresh name)
		defs = append(defs, mdef{fam: "G",
			body:   "(let ((g (gensym))) (quasiquote (let (((unquote g) (unquote " + v + "))) (list (unquote g) (unquote g) x))))",
			expand: sub("(let ((G1 {V})) (list G1 G1 x))", V)})
		// QA: the argument form itself, quoted (unevaluated delivery)
		defs = append(defs, mdef{fam: "QA", body: "(quasiquote (quote (unquote " + v + ")))", expand: sub("(quote {V})", V)})
		if i > 0 {
			continue
		}
		if len(scal) >= 2 {
			w := scal[1]
			VW := map[string]func(b binding) string{"{V}": sc(v), "{W}": sc(w)}
			defs = append(defs, mdef{fam: "G",
				body:   "(let ((g (gensym)) (h (gensym))) (quasiquote (let (((unquote g) (unquote " + v + ")) ((unquote h) (unquote " + w + "))) (list (unquote h) (unquote g) x))))",
				expand: sub("(let ((G1 {V}) (G2 {W})) (list G2 G1 x))", VW)})
		}
		// M: expansion is (or contains) a call of another macro
		defs = append(defs,
			mdef{fam: "M", body: "(quasiquote (m2 (unquote " + v + ")))", expand: sub("(m2 {V})", V)},
			mdef{fam: "M", body: "(quasiquote (m3 (unquote " + v + ") x))", expand: sub("(m3 {V} x)", V)},
			mdef{fam: "M", body: "(quasiquote (list (m2 (unquote " + v + ")) (unquote " + v + ")))", expand: sub("(list (m2 {V}) {V})", V)},
		)
		// D: expansion is / contains a defun; DM: a defmacro
		defs = append(defs,
			mdef{fam: "D", body: "(quasiquote (progn (defun g (y) (list y (unquote " + v + ") x)) (g 1)))", expand: sub("(progn (defun g (y) (list y {V} x)) (g 1))", V)},
			mdef{fam: "D", body: "(quasiquote (defun g (y) (list y (unquote " + v + "))))", expand: sub("(defun g (y) (list y {V}))", V), post: "(g 2)"},
			mdef{fam: "DM", body: "(quasiquote (progn (defmacro gm (z) z) (gm (unquote " + v + "))))", expand: sub("(progn (defmacro gm (z) z) (gm {V}))", V)},
			mdef{fam: "DM", body: "(quasiquote (defmacro gm (z) (list (car '(list)) z (quote (unquote " + v + ")))))",
				expand: sub("(defmacro gm (z) (list (car '(list)) z (quote {V})))", V), post: "(gm (f x))"},
		)
		// I: the body runs at expansion time, sees the unevaluated form
		defs = append(defs,
			mdef{fam: "I", body: "(progn (debug-print \"xp\") (quasiquote (list (unquote " + v + "))))", noStruct: true,
				expand: sub("(progn (debug-print \"xp\") (list {V}))", V)},
			mdef{fam: "I", body: "(if (list? " + v + ") \"is-list\" \"not-list\")", expand: func(b binding) string {
				a := b.scalar[v]
				if strings.HasPrefix(a, "(") || strings.HasPrefix(a, "'(") {
					return `"is-list"`
				}
				return `"not-list"`
			}},
		)
		// A: atom / identity expansions
		defs = append(defs,
			// a macro "returns a quoted expression": one quote level of the body's value is
			// removed (a value that carries none is used as is)
			mdef{fam: "A", body: v, expand: func(b binding) string { return strings.TrimPrefix(b.scalar[v], "'") }},
			mdef{fam: "A", body: "(quasiquote (unquote " + v + "))", expand: sc(v)},
		)
	}
	defs = append(defs,
		mdef{fam: "A", body: "5", expand: konst("5")},
		mdef{fam: "A", body: "''(1 2)", expand: konst("'(1 2)")},
	)
	// self-recursive macro that terminates: needs a required and an optional parameter
	if len(f.req) > 0 && len(f.opt) > 0 {
		a, o := f.req[0], f.opt[0]
		defs = append(defs, mdef{fam: "M", selfRec: true,
			body: "(if " + o + " (quasiquote (list (unquote " + a + ") (quote (unquote " + o + ")))) (quasiquote (m (unquote " + a + ") 1)))",
			expand: func(b binding) string {
				if b.given[o] {
					return "(list " + b.scalar[a] + " (quote " + b.scalar[o] + "))"
				}
				return "(m " + b.scalar[a] + " 1)"
			}})
	}
	for i := range defs {
		if defs[i].post == "" {
			defs[i].post = "0"
		}
	}
	return defs
}

// ---------------------------------------------------------------------------
// Family MR: macro-to-macro chains whose FIRST expansion embeds the &rest list
// WHOLE (the list value itself, not its elements) as an argument of the inner
// macro call.  The &rest parameter is a window onto the argument array of the
// expansion step, so anything that reuses that array across steps shows here.
// The inner macros quote their arguments: the final value spells out exactly
// which forms each step received.

const chainPrelude = `(defmacro k1 (p) (quasiquote (list (quote (unquote p)))))
(defmacro k2 (p q) (quasiquote (list (quote (unquote p)) (quote (unquote q)))))
(defmacro k3 (p q s) (quasiquote (list (quote (unquote p)) (quote (unquote q)) (quote (unquote s)))))
(defmacro k4 (p q s u) (quasiquote (list (quote (unquote p)) (quote (unquote q)) (quote (unquote s)) (quote (unquote u)))))
(defmacro j1 (p) (quasiquote (k1 (unquote p))))
(defmacro j2 (p q) (quasiquote (k2 (unquote q) (unquote p))))
(defmacro j3 (p q s) (quasiquote (k3 (unquote q) (unquote s) (unquote p))))
(defmacro j4 (p q s u) (quasiquote (k4 (unquote q) (unquote s) (unquote u) (unquote p))))
(defmacro kr (&rest z) (quasiquote (k2 (unquote z) 0)))
(defmacro jr (p &rest z) (quasiquote (k3 (unquote p) (unquote z) (quote (unquote-splicing z)))))
`

// chainDefsFor: for a formals shape with &rest, every (inner arity 1..4, position of the
// embedded rest list, way of embedding it, chain length 2 | 3), plus inner macros that
// themselves take &rest.
func chainDefsFor(f formals) []mdef {
	if f.rest == "" {
		return nil
	}
	r := f.rest
	restQ := func(b binding) string { return "'" + restList(b) }
	type part struct {
		q, l string // text inside a quasiquote template / inside a (list ...) constructor
		exp  func(b binding) string
	}
	// fillers for the other argument positions of the inner call
	var fill []part
	for _, v := range f.scalars() {
		fill = append(fill, part{"(unquote " + v + ")", v, sc(v)})
	}
	for _, c := range []string{"8", "9", "6"} {
		fill = append(fill, part{c, c, konst(c)})
	}
	type embed struct {
		id    string
		quasi bool
		part
	}
	embeds := []embed{
		{"unquote", true, part{q: "(unquote " + r + ")", exp: restQ}},
		{"quote-unquote", true, part{q: "(quote (unquote " + r + "))", exp: func(b binding) string { return "(quote " + restQ(b) + ")" }}},
		{"nested", true, part{q: "(z (unquote " + r + ") 5)", exp: func(b binding) string { return "(z " + restQ(b) + " 5)" }}},
		{"list", false, part{l: r, exp: restQ}},
		{"list-nested", false, part{l: "(list 0 " + r + ")", exp: func(b binding) string { return "'(0 " + restQ(b) + ")" }}},
	}
	var defs []mdef
	add := func(body string, exp func(b binding) string) {
		defs = append(defs, mdef{fam: "MR", body: body, expand: exp, pre: chainPrelude, post: "0"})
	}
	for n := 1; n <= 4; n++ {
		for pos := 0; pos < n; pos++ {
			for _, e := range embeds {
				for _, inner := range []string{"k", "j"} {
					head := fmt.Sprintf("%s%d", inner, n)
					parts := make([]part, n)
					fi := 0
					for i := range parts {
						if i == pos {
							parts[i] = e.part
						} else {
							parts[i] = fill[fi]
							fi++
						}
					}
					var src []string
					for _, p := range parts {
						if e.quasi {
							src = append(src, p.q)
						} else {
							src = append(src, p.l)
						}
					}
					body := "(quasiquote (" + head + " " + strings.Join(src, " ") + "))"
					if !e.quasi {
						body = "(list (car '(" + head + ")) " + strings.Join(src, " ") + ")"
					}
					ps := parts
					add(body, func(b binding) string {
						out := []string{head}
						for _, p := range ps {
							out = append(out, p.exp(b))
						}
						return "(" + strings.Join(out, " ") + ")"
					})
				}
			}
		}
	}
	// inner macros that take &rest themselves (the second step binds a window too)
	for _, t := range []string{"(kr {R})", "(kr 8 {R})", "(kr {R} 8 9)", "(kr {R} {R})", "(jr {R} 8)", "(jr 8 {R} 9)", "(jr {R})", "(jr 8 9 {R})"} {
		t := t
		add("(quasiquote "+strings.ReplaceAll(t, "{R}", "(unquote "+r+")")+")",
			func(b binding) string { return strings.ReplaceAll(t, "{R}", restQ(b)) })
	}
	return defs
}

// chainTuplesFor: argument tuples giving 0..3 rest arguments (and one rejected length when
// there is one): two tuples whose forms differ at every position, so that an overwritten
// slot is visible, plus every tuple over alpha.
func chainTuplesFor(f formals, alpha []string) [][]string {
	distinct := [][]string{
		{"1", "x", "(f x)", "'(a b)", "(debug-print 7)"},
		{"x", "2", "'(a b)", "(m2 1)", "3"},
	}
	var out [][]string
	seen := map[string]bool{}
	push := func(t []string) {
		k := strings.Join(t, "\x00")
		if !seen[k] {
			seen[k] = true
			out = append(out, t)
		}
	}
	min := len(f.req)
	max := len(f.req) + len(f.opt) + 3
	if min > 0 {
		push([]string{}) // rejected
	}
	for n := min; n <= max; n++ {
		if n == 0 {
			push([]string{})
			continue
		}
		for _, d := range distinct {
			push(append([]string{}, d[:n]...))
		}
		total := 1
		for i := 0; i < n; i++ {
			total *= len(alpha)
		}
		for idx := 0; idx < total && len(alpha) > 0; idx++ {
			t := make([]string, n)
			x := idx
			for i := n - 1; i >= 0; i-- {
				t[i] = alpha[x%len(alpha)]
				x /= len(alpha)
			}
			push(t)
		}
	}
	return out
}

// argument tuples for a formals shape: every tuple over the argument alphabet
// for each accepted length 0..3 (length 3 over alpha3), and for each rejected
// length one tuple of effectful forms (binding must fail before anything runs).
func tuplesFor(f formals, alpha3 []string) [][]string {
	var out [][]string
	for n := 0; n <= 3; n++ {
		if !f.accepts(n) {
			t := make([]string, n)
			for i := range t {
				t[i] = "(debug-print 7)"
			}
			out = append(out, t)
			continue
		}
		alpha := argForms
		if n == 3 {
			alpha = alpha3
		}
		total := 1
		for i := 0; i < n; i++ {
			total *= len(alpha)
		}
		for idx := 0; idx < total; idx++ {
			t := make([]string, n)
			x := idx
			for i := n - 1; i >= 0; i-- {
				t[i] = alpha[x%len(alpha)]
				x /= len(alpha)
			}
			out = append(out, t)
		}
	}
	return out
}

// call-site contexts: {C} is the form under test, {P} the post form.
type ctxT struct {
	id, src   string
	qualified bool // the call is spelled (user:m ...)
}

// mult is how often the context evaluates the form under test.
func (c ctxT) mult() int { return strings.Count(c.src, "{C}") }

var allCtx = []ctxT{
	{id: "let", src: "(let ((x 5)) (list {C} {P}))"},
	{id: "let-twice", src: "(let ((x 5)) (list {C} {C} {P}))"},
	{id: "defun-tail", src: "(progn (defun h (x) {C}) (list (h 6) {P}))"},
	{id: "let-tail", src: "(let ((x 5)) {C})"},
	{id: "toplevel", src: "(list {C} {P})"},
	{id: "lambda", src: "((lambda (x) (list {C} {P})) 7)"},
	{id: "macro-arg", src: "(let ((x 5)) (list (m2 {C}) {P}))"},
	{id: "nested-let", src: "(let ((x 5)) (let ((x 6) (y x)) (list y {C} {P})))"},
	{id: "qualified", src: "(let ((x 5)) (list {C} {P}))", qualified: true},
}

var definers = []string{"defmacro", "macrolet"}

func program(definer string, f formals, d mdef, c ctxT, form string) string {
	site := strings.ReplaceAll(strings.ReplaceAll(c.src, "{C}", form), "{P}", d.post)
	if definer == "defmacro" {
		return prelude + d.pre + "(defmacro m " + f.src + " " + d.body + ")\n" + site
	}
	return prelude + d.pre + "(macrolet ((m " + f.src + " " + d.body + "))\n" + site + ")"
}

func callForm(c ctxT, args []string) string {
	head := "m"
	if c.qualified {
		head = "user:m"
	}
	return "(" + joinNonEmpty([]string{head, strings.Join(args, " ")}) + ")"
}

type macroSpace struct {
	labels []string // one per block: the formals shape, "+chains" for the MR blocks
	shapes []formals
	defs   [][]mdef
	tuples [][][]string
	ctxs   []ctxT
	// flattened (shape, def, definer, tuple) index
	offs  []int64
	total int64
}

func newMacroSpace(thorough bool) *macroSpace {
	s := &macroSpace{shapes: append([]formals{}, formalShapes...)}
	seqLen, alpha3 := 2, []string{"x", "(debug-print 7)"}
	s.ctxs = allCtx[:4]
	if thorough {
		seqLen, alpha3 = 3, argForms
		s.ctxs = allCtx
	}
	for _, f := range formalShapes {
		l := seqLen
		if thorough && len(f.scalars())*2+4 > 6 && f.rest != "" {
			// (a &optional o &rest r): 8 items; length-3 sequences over 8 items x 259 tuples is
			// the bulk of the space, keep it to length 2 plus all of length 3 for the smaller shapes
			l = 2
		}
		s.labels = append(s.labels, f.src)
		s.defs = append(s.defs, defsFor(f, l))
		s.tuples = append(s.tuples, tuplesFor(f, alpha3))
	}
	// chain blocks: the shapes with &rest again, with the MR definitions and their own tuples
	var chainAlpha []string
	if thorough {
		chainAlpha = []string{"1", "x"}
	}
	for _, f := range formalShapes {
		if f.rest == "" {
			continue
		}
		s.shapes = append(s.shapes, f)
		s.labels = append(s.labels, f.src+"+chains")
		s.defs = append(s.defs, chainDefsFor(f))
		s.tuples = append(s.tuples, chainTuplesFor(f, chainAlpha))
	}
	for i := range s.shapes {
		s.offs = append(s.offs, s.total)
		s.total += int64(len(s.defs[i]) * len(definers) * len(s.tuples[i]))
	}
	return s
}

func (s *macroSpace) decode(i int64) (f formals, d mdef, definer string, args []string) {
	si := len(s.offs) - 1
	for s.offs[si] > i {
		si--
	}
	i -= s.offs[si]
	nt := int64(len(s.tuples[si]))
	args = s.tuples[si][i%nt]
	i /= nt
	definer = definers[i%int64(len(definers))]
	i /= int64(len(definers))
	return s.shapes[si], s.defs[si][i], definer, args
}

// macroCheck is one comparison between programs.
type macroCheck struct {
	k     kase
	class string
}

// evalMacroKase runs a kase straight-line in fresh runtimes and reports (bad, expected, got).
func evalMacroKase(k kase) (bad bool, expected, got string) {
	switch k.Check {
	case "call=eval-expansion", "call=model-expansion", "expand1-fixpoint=macroexpand", "expand1=model-expansion":
		ra, rb := runFresh(k.A), runFresh(k.B)
		return ra.key() != rb.key() || ra.isPanic(), rb.full(), ra.full()
	case "binding-fails", "arg-eval-count":
		return judgeSingle(k, runFresh(k.A))
	case "result=reference":
		ra := runFresh(k.A)
		return ra.IsErr || ra.Tree != k.Expect || ra.Out != "", "VAL " + k.Expect + ` out=""`, ra.full()
	}
	return false, "", "unknown check " + k.Check
}

// judgeSingle decides the checks that look at one program's result only.
func judgeSingle(k kase, ra result) (bad bool, expected, got string) {
	if ra.isPanic() {
		return true, "no Go panic", ra.full()
	}
	sevens := 0
	for _, ln := range strings.Split(ra.Out, "\n") {
		if ln == "7" {
			sevens++
		}
	}
	switch k.Check {
	case "binding-fails":
		// the call must be an error and no argument form may have run
		if !ra.IsErr {
			return true, "an error (the argument count does not fit the formals)", ra.full()
		}
		if sevens > 0 {
			return true, "no argument form evaluated", ra.full()
		}
	case "arg-eval-count":
		// only a call that ran to a value has evaluated every mention
		if !ra.IsErr && fmt.Sprint(sevens) != k.Expect {
			return true, k.Expect + " transcript lines \"7\" (one per evaluated mention of (debug-print 7) in the expansion, per evaluation of the call site)", ra.full()
		}
	}
	return false, "", ra.full()
}

func runMacro(r *core.Run) { runMacroSpace(r, newMacroSpace(r.Thorough())) }

func runMacroSpace(r *core.Run, s *macroSpace) {
	var ndefs int64
	for i := range s.shapes {
		ndefs += int64(len(s.defs[i]))
		r.Bound("macro_defs"+s.labels[i], len(s.defs[i]))
		r.Bound("macro_arg_tuples"+s.labels[i], len(s.tuples[i]))
	}
	var cids []string
	for _, c := range s.ctxs {
		cids = append(cids, c.id)
	}
	r.Bound("macro_definers", definers)
	r.Bound("macro_contexts", cids)
	r.Bound("macro_arg_forms", argForms)
	r.Bound("macro_def_x_definer_x_tuple", s.total)
	r.Bound("macro_call_sites_total", s.total*int64(len(s.ctxs)))
	r.Rule("A (macros): every (formals shape, body, definer, argument tuple, call site) of the stated product; non-trivial = the reference binder accepts the tuple and the call evaluates to a value (the macro expanded and its expansion ran); distinct by program text")
	r.Assume("the &rest parameter of a macro is a list value (a quoted list of the unevaluated argument forms); an absent &optional parameter is ()")
	r.Assume("macroexpand-1 'iterated to a fixed point' = applied while the head symbol of the form is bound to a macro in the caller's lexical environment; at the stopping point macroexpand-1 must be the identity")

	var nontriv int64
	core.ParallelRange(r, s.total, nil, func(_ struct{}, i int64) {
		f, d, definer, args := s.decode(i)
		b := f.bind(args)
		var checks []macroCheck
		cls := func(check string, c string) string {
			return "macro:" + check + ":" + definer + ":" + d.fam + ":" + c
		}
		desc := fmt.Sprintf("%s m %s %s ; args %v", definer, f.src, d.body, args)
		plain := allCtx[3] // (let ((x 5)) {C})
		// expansion-level checks, once per (definition, definer, tuple)
		qform := "'" + callForm(plain, args)
		checks = append(checks, macroCheck{kase{Part: "macro", Check: "expand1-fixpoint=macroexpand", Desc: desc,
			A: program(definer, f, d, plain, "(macroexpand "+qform+")"),
			B: program(definer, f, d, plain, "(c07-iter1 "+qform+")")}, cls("expand1-fixpoint", "-")})
		if b.ok && !d.noStruct {
			checks = append(checks, macroCheck{kase{Part: "macro", Check: "expand1=model-expansion", Desc: desc,
				A: program(definer, f, d, plain, "(macroexpand-1 "+qform+")"),
				B: program(definer, f, d, plain, "(quote "+d.expand(b)+")")}, cls("expand1-vs-model", "-")})
		}
		for _, c := range s.ctxs {
			if c.qualified && definer == "macrolet" {
				continue // user:m does not name a local macro
			}
			call := callForm(c, args)
			pc := program(definer, f, d, c, call)
			checks = append(checks, macroCheck{kase{Part: "macro", Check: "call=eval-expansion", Desc: desc,
				A: pc, B: program(definer, f, d, c, "(eval (macroexpand '"+call+"))")}, cls("call-vs-eval", c.id)})
			if b.ok {
				checks = append(checks, macroCheck{kase{Part: "macro", Check: "call=model-expansion", Desc: desc,
					A: pc, B: program(definer, f, d, c, d.expand(b))}, cls("call-vs-model", c.id)})
				if d.sevens != nil {
					checks = append(checks, macroCheck{kase{Part: "macro", Check: "arg-eval-count", Desc: desc,
						A: pc, Expect: fmt.Sprint(d.sevens(b) * c.mult())}, cls("arg-eval-count", c.id)})
				}
			} else {
				checks = append(checks, macroCheck{kase{Part: "macro", Check: "binding-fails", Desc: desc, A: pc}, cls("binding-fails", c.id)})
			}
		}
		// run: programs are shared between checks, cache by text
		cache := map[string]result{}
		get := func(src string) result {
			if v, ok := cache[src]; ok {
				return v
			}
			v := runFresh(src)
			cache[src] = v
			r.AddEvals(1)
			return v
		}
		for _, ch := range checks {
			k := ch.k
			ra := get(k.A)
			bad, expected, got := false, "", ""
			switch k.Check {
			case "binding-fails", "arg-eval-count":
				bad, expected, got = judgeSingle(k, ra)
			default:
				rb := get(k.B)
				if ra.key() != rb.key() {
					bad, expected, got = true, rb.full(), ra.full()
				}
			}
			if ra.isPanic() && !bad {
				bad, expected, got = true, "no Go panic", ra.full()
			}
			r.AddTransitions(1)
			if k.Check == "call=eval-expansion" {
				r.AddTraces(1)
				if b.ok && !ra.IsErr {
					atomic.AddInt64(&nontriv, 1)
					r.Nontrivial(k.A)
				}
				if i%7 == 0 {
					r.Outcome("macro:" + d.fam + ":" + outcomeClass(ra))
				}
			}
			if bad {
				report(r, ch.class, k, expected, got, func() bool { b, _, _ := evalMacroKase(k); return b })
			}
		}
		if i == s.total/3 || i == s.total-1 || i == 17 {
			k := checks[len(checks)-1].k
			r.Sample(map[string]string{"part": "macro", "check": k.Check, "a": k.A, "b": k.B, "a_result": get(k.A).full()})
		}
	})
	r.AddStates(ndefs * int64(len(definers)))
	r.Extra("macro_counts", map[string]int64{"definitions": ndefs, "def_x_definer_x_tuple": s.total, "nontrivial_call_sites": nontriv})
}

func replayMacro(k kase) (bool, string) {
	bad, expected, got := evalMacroKase(k)
	rep := "--- program A:\n" + k.A + "\n"
	if k.B != "" {
		rep += "--- program B:\n" + k.B + "\n"
	}
	rep += fmt.Sprintf("A: %s\nB/expected: %s\n", got, expected)
	return bad, rep
}
