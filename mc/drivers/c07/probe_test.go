package c07

import (
	"fmt"
	"os"
	"strings"
	"testing"

	"verif/mc/el"
)

// each line of /tmp/c07probe.lisp is loaded in a fresh env
func TestProbe(t *testing.T) {
	b, err := os.ReadFile("/tmp/c07probe.lisp")
	if err != nil {
		t.Skip()
	}
	for _, ln := range strings.Split(string(b), "\n") {
		if strings.TrimSpace(ln) == "" || strings.HasPrefix(ln, ";") {
			continue
		}
		env := el.MustEnv(el.Opts{Stdlib: true})
		env.Err.Reset()
		v := env.LoadString("test", ln)
		o := el.Observe(v, env.Err.String())
		fmt.Printf("%s\n   => %s   TREE %s\n", ln, o.Full(), observe(v))
	}
}
