package c07

import (
	"fmt"
	"strings"
	"sync/atomic"

	"verif/mc/core"
)

// ---------------------------------------------------------------------------
// Space A-RE: re-entrancy of one macro closure.
//
// "macro arguments reach the macro unevaluated ... defmacro and macrolet macros
// obey the same rules": every ACTIVATION of a macro has its own parameter
// bindings.  Two ways for activations of one closure to overlap are enumerated:
//
//	T1  while the body runs it causes another activation of the SAME macro with
//	    different argument forms (eval / macroexpand / macroexpand-1 of a call, a
//	    direct call, through a second macro, through a function, through a stored
//	    thunk), reading each parameter before AND after that;
//	T2  the body returns or stashes a closure over its parameters, which is
//	    invoked after later activations with different arguments.
//
// for every parameter kind (required, &optional, &rest, &key; alone and after a
// required parameter), defmacro and macrolet, 1..3 activations with argument
// forms from the alphabet of space A.  The reference is the same binder model
// (the expansion text each activation must produce from ITS arguments), and the
// relations are those of space A: call = eval of macroexpand, call = the model
// expansion inlined, macroexpand = macroexpand-1 iterated, macroexpand-1 =
// model expansion (structurally).

type reShape struct {
	src  string
	kind string // req | opt | rest | key : the kind of parameter a
	hasB bool   // a required parameter b comes first
}

var reShapes = []reShape{
	{"(a)", "req", false},
	{"(&optional a)", "opt", false},
	{"(&rest a)", "rest", false},
	{"(&key a)", "key", false},
	{"(b &optional a)", "opt", true},
	{"(b &rest a)", "rest", true},
	{"(b &key a)", "key", true},
}

func (s reShape) call(a, b string) string {
	parts := []string{"m"}
	if s.hasB {
		parts = append(parts, b)
	}
	if s.kind == "key" {
		parts = append(parts, ":a")
	}
	parts = append(parts, a)
	return "(" + strings.Join(parts, " ") + ")"
}

// qa: the text T with (quote T) == what (quote (unquote a)) yields in a template.
func (s reShape) qa(a string) string {
	if s.kind == "rest" {
		return "'(" + a + ")"
	}
	return a
}

// rawA: an expression whose value is the value parameter a is bound to (the
// unevaluated form itself; for &rest the list of forms).
func (s reShape) rawA(a string) string {
	if s.kind == "rest" {
		return "'(" + a + ")"
	}
	return "(car '(" + a + "))"
}

func (s reShape) inner() string { return s.call("99", "98") }

func (s reShape) guard() string {
	if s.kind == "rest" {
		return "(equal? a '(99))"
	}
	return "(equal? a 99)"
}

// reDef is one macro body with the reference's prediction.
type reDef struct {
	id       string
	only     string // "" or the single definer this body can be written for
	pre      string // forms before the definition
	setup    string // form evaluated after the definition, in its scope, before the call site
	body     func(s reShape) string
	expand   func(s reShape, a, b string) string // model expansion of an activation (m [b] a)
	use      string                              // how the site uses the value {c} of an activation
	post     string                              // extra form at the end of the site
	noStruct bool                                // no structural macroexpand-1 = model check
	noExpand bool                                // the expansion is a function value: no expansion-level checks
}

func reDefs() []reDef {
	var defs []reDef
	bq := func(s reShape, t string) string { // "[...]" parts only when the shape has b
		if s.hasB {
			return strings.NewReplacer("[", "", "]", "").Replace(t)
		}
		for {
			i := strings.Index(t, "[")
			if i < 0 {
				return t
			}
			j := strings.Index(t, "]")
			t = t[:i] + t[j+1:]
		}
	}
	type route struct {
		id, only, expr, in string // expr: the re-entering expression; in: the text its value inserts
	}
	routes := func(s reShape) []route {
		in := s.inner()
		return []route{
			{"eval", "defmacro", "(eval '" + in + ")", `"leaf"`},
			{"macroexpand", "defmacro", "(macroexpand '" + in + ")", `'"leaf"`},
			{"macroexpand-1", "defmacro", "(macroexpand-1 '" + in + ")", `'"leaf"`},
			{"direct", "defmacro", in, `"leaf"`},
			{"second-macro-eval", "defmacro", "(eval '(w))", `"leaf"`}, // w, callm, thunk: see routeParts
			{"second-macro-expand", "defmacro", "(macroexpand '(w))", `'"leaf"`},
			{"function", "defmacro", "(funcall callm)", `"leaf"`},
			{"thunk", "", "(funcall thunk)", `"leaf"`},
		}
	}
	// T1: re-enter, reading the parameters before and after
	for ri := range routes(reShapes[0]) {
		ri := ri
		r0 := routes(reShapes[0])[ri]
		defs = append(defs, reDef{id: "reenter-" + r0.id, only: r0.only, use: "{c}",
			body: func(s reShape) string {
				rt := routes(s)[ri]
				return bq(s, "(if "+s.guard()+" \"leaf\" (let* ((pa a) [(pb b)] (in "+rt.expr+")) "+
					"(quasiquote (list (quote (unquote pa)) [(quote (unquote pb))] (quote (unquote in)) (quote (unquote a)) [(quote (unquote b))]))))")
			},
			expand: func(s reShape, a, b string) string {
				rt := routes(s)[ri]
				return bq(s, "(list (quote "+s.qa(a)+") [(quote "+b+")] (quote "+rt.in+") (quote "+s.qa(a)+") [(quote "+b+")])")
			},
		})
	}
	// T2c: a closure over the parameters made BEFORE re-entering, read after
	for _, ri := range []int{0, 7} {
		ri := ri
		r0 := routes(reShapes[0])[ri]
		defs = append(defs, reDef{id: "closure-then-reenter-" + r0.id, only: r0.only, use: "{c}",
			body: func(s reShape) string {
				rt := routes(s)[ri]
				return bq(s, "(if "+s.guard()+" \"leaf\" (let* ((c (lambda () (list [b] a))) (in "+rt.expr+")) (quasiquote (quote (unquote (funcall c))))))")
			},
			expand: func(s reShape, a, b string) string { return bq(s, "(quote '(["+b+"] "+s.qa(a)+"))") },
		})
	}
	// T2a: the expansion IS a closure over the parameters
	defs = append(defs, reDef{id: "return-closure", use: "(funcall {c})", noExpand: true,
		body:   func(s reShape) string { return bq(s, "(lambda () (list [b] a))") },
		expand: func(s reShape, a, b string) string { return bq(s, "(lambda () (list [(car '("+b+"))] "+s.rawA(a)+"))") },
	})
	// T2b: a closure over the parameters is stashed at expansion time, invoked after all activations
	defs = append(defs, reDef{id: "stash-closure", use: "{c}", noStruct: true,
		pre:  "(set 'stash ())\n",
		post: "(map 'list (lambda (c) (funcall c)) stash)",
		body: func(s reShape) string {
			return bq(s, "(progn (set 'stash (cons (lambda () (list [b] a)) stash)) (quasiquote (quote (unquote a))))")
		},
		expand: func(s reShape, a, b string) string {
			return bq(s, "(progn (set 'stash (cons (lambda () (list [(car '("+b+"))] "+s.rawA(a)+")) stash)) (quote "+s.qa(a)+"))")
		},
	})
	return defs
}

// routeParts returns the shape-dependent pre / setup text of a re-entering definition.
func routeParts(d reDef, s reShape) (pre, setup string) {
	in := s.inner()
	switch {
	case strings.HasSuffix(d.id, "second-macro-eval"), strings.HasSuffix(d.id, "second-macro-expand"):
		pre = "(defmacro w () '" + in + ")\n"
	case strings.HasSuffix(d.id, "-function"):
		pre = "(defun callm () " + in + ")\n"
	case strings.HasSuffix(d.id, "-thunk"):
		setup = "(set 'thunk (lambda () " + in + "))"
	}
	return d.pre + pre, setup
}

// reProgram: the definition, then a site with one binding per activation.
//
//	(let ((x 5)) (let* ((c1 F1) (c2 F2) ..) (list U1 U2 .. POST)))
func reProgram(definer string, s reShape, d reDef, forms []string) string {
	pre, setup := routeParts(d, s)
	var binds, uses []string
	for i, f := range forms {
		c := fmt.Sprintf("c%d", i+1)
		binds = append(binds, "("+c+" "+f+")")
		uses = append(uses, strings.ReplaceAll(d.use, "{c}", c))
	}
	if d.post != "" {
		uses = append(uses, d.post)
	}
	site := "(let ((x 5)) (let* (" + strings.Join(binds, " ") + ") (list " + strings.Join(uses, " ") + ")))"
	if setup != "" {
		site = "(progn " + setup + "\n" + site + ")"
	}
	if definer == "defmacro" {
		return prelude + pre + "(defmacro m " + s.src + " " + d.body(s) + ")\n" + site
	}
	return prelude + pre + "(macrolet ((m " + s.src + " " + d.body(s) + "))\n" + site + ")"
}

// the lead example: the body evaluates its argument, which itself contains a call of the
// same macro (defmacro only: a macrolet macro is not visible from its own body).
type showCase struct{ arg, model string }

const showBody = "(let ((v (eval a))) (quasiquote (list (quote (unquote a)) (quote (unquote v)))))"

// (m X) for a number X evaluates to '('X 'X): list elements keep their quote level, so (car (m 1)) is '1.
var showCases = []showCase{
	{"(car (m 1))", "(list (quote (car (m 1))) (quote '1))"},
	{"(car (m 7))", "(list (quote (car (m 7))) (quote '7))"},
	{"(car (cdr (m 7)))", "(list (quote (car (cdr (m 7)))) (quote '7))"},
	{"(car (m (car (m 1))))", "(list (quote (car (m (car (m 1))))) (quote '(car (m 1))))"},
}

func reActivationTuples(thorough bool) [][]string {
	var out [][]string
	for n := 1; n <= 3; n++ {
		alpha := argForms
		if n == 3 && !thorough {
			alpha = []string{"x", "(debug-print 7)", "'(a b)"}
		}
		total := 1
		for i := 0; i < n; i++ {
			total *= len(alpha)
		}
		for idx := 0; idx < total; idx++ {
			t := make([]string, n)
			x := idx
			for i := n - 1; i >= 0; i-- {
				t[i] = alpha[x%len(alpha)]
				x /= len(alpha)
			}
			out = append(out, t)
		}
	}
	return out
}

// bFor: the argument form for parameter b of an activation whose a-argument is a: the next
// form of the alphabet (so b and a always differ).
func bFor(a string) string {
	for i, f := range argForms {
		if f == a {
			return argForms[(i+1)%len(argForms)]
		}
	}
	return "1"
}

type reCheck struct {
	k     kase
	class string
}

func runReentrancy(r *core.Run) {
	defs := reDefs()
	tuples := reActivationTuples(r.Thorough())
	type unit struct {
		definer string
		s       reShape
		d       reDef
	}
	var units []unit
	for _, definer := range definers {
		for _, s := range reShapes {
			for _, d := range defs {
				if d.only != "" && d.only != definer {
					continue
				}
				units = append(units, unit{definer, s, d})
			}
		}
	}
	var ids []string
	for _, d := range defs {
		ids = append(ids, d.id)
	}
	var shapes []string
	for _, s := range reShapes {
		shapes = append(shapes, s.src)
	}
	r.Bound("reentrancy_bodies", ids)
	r.Bound("reentrancy_formals", shapes)
	r.Bound("reentrancy_definition_x_definer", len(units))
	r.Bound("reentrancy_activation_tuples", len(tuples))
	r.Bound("reentrancy_show_cases", len(showCases))
	r.Rule("A-RE (re-entrancy): every (parameter kind, body, definer, tuple of 1..3 activations' argument forms); non-trivial = the site evaluates to a value; distinct by program text")
	r.Assume("a macrolet macro is not visible from its own body (lang: macrolet has no cross references), so for macrolet the only re-entry route is a thunk created in the macrolet's scope; the other routes are enumerated for defmacro")

	total := int64(len(units) * len(tuples))
	var nontriv int64
	core.ParallelRange(r, total, nil, func(_ struct{}, i int64) {
		u := units[i/int64(len(tuples))]
		acts := tuples[i%int64(len(tuples))]
		s, d := u.s, u.d
		var calls, evals, models []string
		for _, a := range acts {
			c := s.call(a, bFor(a))
			calls = append(calls, c)
			evals = append(evals, "(eval (macroexpand '"+c+"))")
			models = append(models, d.expand(s, a, bFor(a)))
		}
		desc := fmt.Sprintf("%s m %s %s ; activations %v", u.definer, s.src, d.id, acts)
		cls := func(check string) string {
			return "macro:" + check + ":" + u.definer + ":RE-" + d.id + ":" + s.kind
		}
		pc := reProgram(u.definer, s, d, calls)
		checks := []reCheck{
			{kase{Part: "macro", Check: "call=eval-expansion", Desc: desc, A: pc, B: reProgram(u.definer, s, d, evals)}, cls("call-vs-eval")},
			{kase{Part: "macro", Check: "call=model-expansion", Desc: desc, A: pc, B: reProgram(u.definer, s, d, models)}, cls("call-vs-model")},
		}
		if !d.noExpand && len(acts) == 1 {
			q := "'" + calls[0]
			one := reDef{id: d.id, pre: d.pre, use: "{c}", body: d.body}
			checks = append(checks, reCheck{kase{Part: "macro", Check: "expand1-fixpoint=macroexpand", Desc: desc,
				A: reProgram(u.definer, s, one, []string{"(macroexpand " + q + ")"}),
				B: reProgram(u.definer, s, one, []string{"(c07-iter1 " + q + ")"})}, cls("expand1-fixpoint")})
			if !d.noStruct {
				checks = append(checks, reCheck{kase{Part: "macro", Check: "expand1=model-expansion", Desc: desc,
					A: reProgram(u.definer, s, one, []string{"(macroexpand-1 " + q + ")"}),
					B: reProgram(u.definer, s, one, []string{"(quote " + models[0] + ")"})}, cls("expand1-vs-model")})
			}
		}
		runReChecks(r, checks, &nontriv, "RE-"+d.id)
	})
	// the nested-argument cases
	for ci, sc := range showCases {
		s := reShapes[0]
		d := reDef{id: "eval-arg-containing-same-macro", use: "{c}", body: func(reShape) string { return showBody }}
		call := s.call(sc.arg, "")
		desc := fmt.Sprintf("defmacro m (a) %s ; (m %s)", showBody, sc.arg)
		cls := func(check string) string { return "macro:" + check + ":defmacro:RE-" + d.id + ":req" }
		pc := reProgram("defmacro", s, d, []string{call})
		checks := []reCheck{
			{kase{Part: "macro", Check: "call=eval-expansion", Desc: desc, A: pc, B: reProgram("defmacro", s, d, []string{"(eval (macroexpand '" + call + "))"})}, cls("call-vs-eval")},
			{kase{Part: "macro", Check: "call=model-expansion", Desc: desc, A: pc, B: reProgram("defmacro", s, d, []string{sc.model})}, cls("call-vs-model")},
			{kase{Part: "macro", Check: "expand1-fixpoint=macroexpand", Desc: desc,
				A: reProgram("defmacro", s, d, []string{"(macroexpand '" + call + ")"}),
				B: reProgram("defmacro", s, d, []string{"(c07-iter1 '" + call + ")"})}, cls("expand1-fixpoint")},
			{kase{Part: "macro", Check: "expand1=model-expansion", Desc: desc,
				A: reProgram("defmacro", s, d, []string{"(macroexpand-1 '" + call + ")"}),
				B: reProgram("defmacro", s, d, []string{"(quote " + sc.model + ")"})}, cls("expand1-vs-model")},
		}
		runReChecks(r, checks, &nontriv, "RE-"+d.id)
		if ci == 1 {
			r.Sample(map[string]string{"part": "macro-reentrancy", "a": pc, "a_result": runFresh(pc).full()})
		}
	}
	r.AddStates(int64(len(units) + 1))
	r.Extra("reentrancy_counts", map[string]int64{"definition_x_definer": int64(len(units)), "units": total, "nontrivial_sites": nontriv})
}

func runReChecks(r *core.Run, checks []reCheck, nontriv *int64, fam string) {
	cache := map[string]result{}
	get := func(src string) result {
		if v, ok := cache[src]; ok {
			return v
		}
		v := runFresh(src)
		cache[src] = v
		r.AddEvals(1)
		return v
	}
	for ci, ch := range checks {
		k := ch.k
		ra, rb := get(k.A), get(k.B)
		r.AddTransitions(1)
		if ci == 0 {
			r.AddTraces(1)
			if !ra.IsErr {
				atomic.AddInt64(nontriv, 1)
				r.Nontrivial(k.A)
			}
			r.Outcome("macro:" + fam + ":" + outcomeClass(ra))
		}
		if ra.key() != rb.key() || ra.isPanic() {
			report(r, ch.class, k, rb.full(), ra.full(), func() bool { b, _, _ := evalMacroKase(k); return b })
		}
	}
}
