package c07

import (
	"testing"

	"verif/mc/el"
)

func BenchmarkEnvStd(b *testing.B) {
	for i := 0; i < b.N; i++ {
		el.MustEnv(el.Opts{Stdlib: true})
	}
}
func BenchmarkEnvCore(b *testing.B) {
	for i := 0; i < b.N; i++ {
		el.MustEnv(el.Opts{})
	}
}
func BenchmarkQQ(b *testing.B) {
	env := el.MustEnv(el.Opts{})
	for i := 0; i < b.N; i++ {
		v := env.LoadString("t", "(quasiquote (a (b (unquote (+ 1 2)) (unquote-splicing (list 1 2))) '(c d)))")
		_ = observe(v).String()
	}
}

func BenchmarkRunFresh(b *testing.B) {
	s := newMacroSpace(false)
	f, d, definer, args := s.decode(20000)
	p := program(definer, f, d, allCtx[0], callForm(allCtx[0], args))
	b.Log(p)
	b.ResetTimer()
	for i := 0; i < b.N; i++ {
		runFresh(p)
	}
}
func BenchmarkNewRT(b *testing.B) {
	for i := 0; i < b.N; i++ {
		newRT()
	}
}
