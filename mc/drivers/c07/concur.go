package c07

import (
	"fmt"
	"os"
	"regexp"
	"sort"
	"strings"
	"sync"

	"github.com/luthersystems/elps/lisp"

	"verif/mc/core"
)

// ---------------------------------------------------------------------------
// Space C-free: gensym under real concurrency (a STRESS SAMPLE, not an
// enumeration).
//
// lisp.Runtime documents GenSym (and GenEnvID) as its only thread-safe
// operations.  "Symbols from gensym are distinct from one another" therefore
// also holds when several goroutines draw from ONE runtime at overlapping
// times.  There is no scheduling point inside GenSym that a controlled
// scheduler could own, so this part runs free: G goroutines x N calls of
// Runtime.GenSym / LEnv.GenSym on one runtime, optionally while the runtime's
// single evaluator goroutine runs a lisp loop over (gensym).  The oracle is
// exact (every returned name is kept; all must be pairwise distinct and match
// gen[0-9]{8,}); what is sampled is the interleaving.  The same part is meant
// to be run under Go's race detector (C07_ONLY=race with a -race build).

type concCfg struct {
	API        string `json:"api"` // runtime | lenv | mixed+lisp
	Goroutines int    `json:"goroutines"`
	Calls      int    `json:"calls_per_goroutine"`
	LispCalls  int    `json:"lisp_gensym_calls"`
}

func (c concCfg) String() string {
	return fmt.Sprintf("api=%s goroutines=%d calls=%d lisp=%d", c.API, c.Goroutines, c.Calls, c.LispCalls)
}

var gensymShape = regexp.MustCompile(`^gen[0-9]{8,}$`)

// runConc executes one round and returns the number of names drawn and a
// description of the first problem ("" if none).
func runConc(c concCfg) (drawn int, problem string) {
	e := newRT()
	out := make([][]string, c.Goroutines)
	var wg sync.WaitGroup
	start := make(chan struct{})
	for g := 0; g < c.Goroutines; g++ {
		wg.Add(1)
		go func(g int) {
			defer wg.Done()
			names := make([]string, 0, c.Calls)
			<-start
			for i := 0; i < c.Calls; i++ {
				switch {
				case c.API == "runtime", c.API == "mixed+lisp" && g%2 == 0:
					names = append(names, e.Runtime.GenSym())
				default:
					names = append(names, e.LEnv.GenSym().Str)
				}
			}
			out[g] = names
		}(g)
	}
	var lispNames []string
	lispErr := ""
	if c.LispCalls > 0 {
		// the runtime's one evaluator (evaluation itself is serialised: this goroutine only)
		wg.Add(1)
		go func() {
			defer wg.Done()
			<-start
			v := e.LoadString("c07", fmt.Sprintf("(let ((acc ())) (dotimes (i %d) (set! acc (cons (gensym) acc))) acc)", c.LispCalls))
			if v == nil || v.Type != lisp.LSExpr {
				lispErr = "lisp loop did not return a list: " + fmt.Sprint(v)
				return
			}
			for _, s := range v.Cells {
				lispNames = append(lispNames, s.Str)
			}
		}()
	}
	close(start)
	wg.Wait()
	if lispErr != "" {
		return 0, lispErr
	}
	seen := make(map[string]int, c.Goroutines*c.Calls+c.LispCalls)
	check := func(who int, names []string) {
		for _, n := range names {
			drawn++
			if problem != "" {
				continue
			}
			if !gensymShape.MatchString(n) {
				problem = fmt.Sprintf("name %q does not have the shape gen[0-9]{8,}", n)
			} else if prev, dup := seen[n]; dup {
				problem = fmt.Sprintf("name %s was returned twice (to drawer %d and drawer %d)", n, prev, who)
			}
			seen[n] = who
		}
	}
	for g, names := range out {
		check(g, names)
	}
	check(-1, lispNames)
	if problem == "" && c.LispCalls > 0 && len(lispNames) != c.LispCalls {
		problem = fmt.Sprintf("lisp loop returned %d names, expected %d", len(lispNames), c.LispCalls)
	}
	return drawn, problem
}

func concConfigs(thorough bool) (cfgs []concCfg, rounds int) {
	calls, lispCalls, rounds := 50000, 5000, 3
	if thorough {
		calls, rounds = 200000, 5
	}
	for _, api := range []string{"runtime", "lenv", "mixed+lisp"} {
		for _, g := range []int{2, 4, 8} {
			c := concCfg{API: api, Goroutines: g, Calls: calls}
			if api == "mixed+lisp" {
				c.LispCalls = lispCalls
			}
			cfgs = append(cfgs, c)
		}
	}
	return cfgs, rounds
}

func runGensymConcurrent(r *core.Run) {
	cfgs, rounds := concConfigs(r.Thorough())
	var ids []string
	for _, c := range cfgs {
		ids = append(ids, c.String())
	}
	r.Bound("gensym_concurrent_configs", ids)
	r.Bound("gensym_concurrent_rounds_per_config", rounds)
	r.Rule("C-free (gensym, concurrent): a STRESS SAMPLE, not an enumeration: free-running goroutines draw names from one runtime; every returned name is checked (pairwise distinct, shape gen[0-9]{8,}); every round counts as non-trivial (>= 2 goroutines drew >= 10^5 names); the interleavings are whatever the Go scheduler produced in the stated number of rounds")
	r.Assume("lisp.Runtime's doc comment: GenSym and GenEnvID are the only thread-safe operations; evaluation on a runtime is done by at most one goroutine at a time (the 'mixed+lisp' configuration has exactly one evaluator)")
	total, fails := 0, 0
	for _, c := range cfgs {
		for round := 0; round < rounds; round++ {
			if r.Expired() {
				r.Cap("soft deadline in the concurrent gensym part")
				return
			}
			n, problem := runConc(c)
			total += n
			r.AddEvals(1)
			r.AddTransitions(1)
			r.Nontrivial(fmt.Sprintf("gensym-concurrent|%s|round %d", c, round))
			if problem == "" {
				r.Outcome("gensym-concurrent:" + c.API + ":all-distinct")
				continue
			}
			fails++
			r.Outcome("gensym-concurrent:" + c.API + ":problem")
			k := kase{Part: "gensym", Check: "concurrent", Expect: c.String(), Desc: problem}
			class := "gensym:concurrent-duplicate"
			if !strings.Contains(problem, "returned twice") {
				class = "gensym:concurrent-malformed"
			}
			report(r, class, k, "all names pairwise distinct and of the shape gen[0-9]{8,}", problem, func() bool {
				_, p := runConc(c)
				return p != ""
			})
		}
	}
	r.AddStates(int64(len(cfgs)))
	r.Extra("gensym_concurrent", map[string]any{"configs": len(cfgs), "rounds_per_config": rounds, "names_drawn_and_checked": total, "rounds_with_a_problem": fails})
	if len(cfgs) > 0 {
		r.Sample(map[string]any{"part": "gensym-concurrent", "config": cfgs[len(cfgs)-1], "rounds": rounds})
	}
}

func replayGensymConcurrent(k kase) (bool, string) {
	var c concCfg
	if _, err := fmt.Sscanf(k.Expect, "api=%s goroutines=%d calls=%d lisp=%d", &c.API, &c.Goroutines, &c.Calls, &c.LispCalls); err != nil {
		return false, "bad config: " + err.Error()
	}
	var probs []string
	for i := 0; i < 5; i++ {
		if _, p := runConc(c); p != "" {
			probs = append(probs, p)
		}
	}
	sort.Strings(probs)
	rep := fmt.Sprintf("config %s, 5 rounds: %d with a problem\n%s\n", c, len(probs), strings.Join(probs, "\n"))
	return len(probs) > 0, rep
}

// raceOnly: C07_ONLY=race runs only the free-running part (for a -race build).
func raceOnly() bool { return os.Getenv("C07_ONLY") == "race" }
