package c07

import (
	"fmt"
	"regexp"
	"sort"
	"strings"

	"github.com/luthersystems/elps/lisp"
	"github.com/luthersystems/elps/parser/lexer"
	"github.com/luthersystems/elps/parser/token"

	"verif/mc/core"
)

// ---------------------------------------------------------------------------
// Space C: histories of gensym / defmacro / read operations.
//
// An operation is a piece of program text loaded into the one runtime of the
// history.  After every operation: every symbol gensym has produced so far is
// distinct from every other one and from every SYMBOL token the real lexer
// produces from the text of every operation of the history.

type gop struct {
	id   string
	src  string
	def  bool                        // leaves a definition behind (part of the canonical state)
	take func(v *lisp.LVal) []string // the gensym symbols the operation's value exposes
}

func symAt(v *lisp.LVal, path ...int) string {
	for _, i := range path {
		if v == nil || i >= len(v.Cells) {
			return ""
		}
		v = v.Cells[i]
	}
	if v == nil || v.Type != lisp.LSymbol {
		return ""
	}
	return v.Str
}

func nonEmpty(ss ...string) []string {
	var out []string
	for _, s := range ss {
		if s != "" {
			out = append(out, s)
		}
	}
	return out
}

var gops = []gop{
	{id: "gensym", src: "(gensym)", take: func(v *lisp.LVal) []string { return nonEmpty(symAt(v)) }},
	{id: "defmacro-gs", src: "(defmacro gs () (let ((g (gensym))) (quasiquote (quote (unquote g)))))", def: true},
	{id: "call-gs", src: "(gs)", take: func(v *lisp.LVal) []string { return nonEmpty(symAt(v)) }},
	// builtin macros that draw gensyms: (lisp:let ((G 1)) ...), (lisp:let ((G1 m) (G2 1)) ...)
	{id: "expand-trace", src: "(macroexpand '(trace 1))", take: func(v *lisp.LVal) []string { return nonEmpty(symAt(v, 1, 0, 0)) }},
	{id: "expand-get-default", src: "(macroexpand '(get-default m 1 2))", take: func(v *lisp.LVal) []string {
		return nonEmpty(symAt(v, 1, 0, 0), symAt(v, 1, 1, 0))
	}},
	{id: "read-plain", src: "(set 'alpha 1)", def: true},
	{id: "read-gen00000002", src: "(set 'gen00000002 2)", def: true},
	{id: "read-gen00000005", src: "(set 'gen00000005 5)", def: true},
	{id: "read-lookalikes", src: "(set 'gen3 3) (set 'gen0000000004 4) (set 'gen_00000001 1) (set 'Gen00000001 1)", def: true},
}

func lexSymbols(src string) []string {
	lex := lexer.New(token.NewScannerString("c07", src))
	var out []string
	for n := 0; n < 10000; n++ {
		toks := lex.ReadToken()
		for _, t := range toks {
			switch t.Type {
			case token.EOF, token.ERROR:
				return out
			case token.SYMBOL:
				out = append(out, t.Text)
			}
		}
	}
	return out
}

type gstate struct {
	gens    []string // gensyms in order of production
	text    map[string]bool
	defs    []string
	lastErr string
}

func (g *gstate) canon() string {
	gs := append([]string{}, g.gens...)
	sort.Strings(gs)
	ds := append([]string{}, g.defs...)
	sort.Strings(ds)
	// dedup defs (re-loading a definition does not change the state)
	var du []string
	for i, d := range ds {
		if i == 0 || ds[i-1] != d {
			du = append(du, d)
		}
	}
	return strings.Join(gs, ",") + "|" + strings.Join(du, ",")
}

// replayHistory runs ops on a fresh runtime.
func replayHistory(ops []int) (st *gstate) {
	st = &gstate{text: map[string]bool{}}
	defer func() {
		if p := recover(); p != nil {
			st.lastErr = fmt.Sprint("go-panic: ", p)
		}
	}()
	e := newRT()
	for _, oi := range ops {
		op := gops[oi]
		for _, s := range lexSymbols(op.src) {
			st.text[s] = true
		}
		v := e.LoadString("c07", op.src)
		if v != nil && v.Type == lisp.LError {
			st.lastErr = v.Str
			continue
		}
		if op.def {
			st.defs = append(st.defs, op.id)
		}
		if op.take != nil && v != nil {
			st.gens = append(st.gens, op.take(v)...)
		}
	}
	return st
}

var padded8 = regexp.MustCompile(`^gen[0-9]{8}$`)

// gensymVerdict checks the invariant in a state; returns class and detail of
// the first problem, or "".
func gensymVerdict(st *gstate) (class, detail string) {
	if strings.HasPrefix(st.lastErr, "go-panic") {
		return "gensym:go-panic", st.lastErr
	}
	seen := map[string]bool{}
	for _, g := range st.gens {
		if seen[g] {
			return "gensym:duplicate", "gensym produced " + g + " twice; all gensyms: " + strings.Join(st.gens, " ")
		}
		seen[g] = true
	}
	for _, g := range st.gens {
		if st.text[g] {
			sp := "other-spelling"
			if padded8.MatchString(g) {
				sp = "padded8"
			}
			return "gensym:equals-program-symbol:" + sp, "gensym produced " + g + ", which the lexer also produces from the program text of this history"
		}
	}
	return "", ""
}

func opIDs(ops []int) []string {
	out := make([]string, len(ops))
	for i, o := range ops {
		out[i] = gops[o].id
	}
	return out
}

func runGensym(r *core.Run) {
	const depth = 6
	var ids []string
	for _, o := range gops {
		ids = append(ids, o.id+" = "+o.src)
	}
	r.Bound("gensym_ops", ids)
	r.Bound("gensym_history_depth", depth)
	r.Rule("C (gensym): BFS over operation histories up to the depth bound, each history replayed on a fresh runtime; non-trivial = the history has produced at least two gensyms or one gensym and one read; distinct by canonical state")
	r.Assume("C de-duplication: a state is (set of gensyms produced, set of definitions loaded); the runtime's only other gensym-relevant state is its counter, which equals the number of gensyms produced because every operation that draws one exposes it")

	check := func(ops []int, st *gstate) {
		r.AddEvals(1)
		r.AddTransitions(1)
		class, detail := gensymVerdict(st)
		if len(st.gens) >= 2 || (len(st.gens) >= 1 && len(st.defs) >= 1) {
			r.Nontrivial("gensym|" + st.canon())
		}
		oc := "gensym:ok"
		if class != "" {
			oc = class
		}
		r.Outcome(fmt.Sprintf("%s:%d-gensyms", oc, len(st.gens)))
		if class == "" {
			return
		}
		k := kase{Part: "gensym", Check: "gensym-history", Ops: opIDs(ops), Desc: detail}
		opsCopy := append([]int{}, ops...)
		report(r, class, k, "every gensym differs from every other gensym and from every symbol of the program text", detail, func() bool {
			c, _ := gensymVerdict(replayHistory(opsCopy))
			return c == class
		})
	}

	// BFS with canonical-state de-duplication
	seen := map[string]bool{(&gstate{}).canon(): true}
	frontier := [][]int{{}}
	var states int64 = 1
	maxDepth := 0
	for d := 1; d <= depth && len(frontier) > 0; d++ {
		if r.Expired() {
			r.Cap(fmt.Sprintf("soft deadline in gensym BFS at depth %d", d))
			break
		}
		var next [][]int
		for _, h := range frontier {
			for oi := range gops {
				ops := append(append([]int{}, h...), oi)
				st := replayHistory(ops)
				check(ops, st)
				key := st.canon()
				if !seen[key] {
					seen[key] = true
					states++
					next = append(next, ops)
				}
			}
		}
		frontier = next
		maxDepth = d
	}
	r.AddStates(states)
	r.Extra("gensym_bfs", map[string]any{"states": states, "max_depth": maxDepth})
	r.Sample(map[string]any{"part": "gensym", "ops": opIDs([]int{1, 2, 0, 3}), "gensyms": replayHistory([]int{1, 2, 0, 3}).gens})

	if r.Thorough() {
		// cross-check of the de-duplication argument: every history, no merging
		total := int64(0)
		p := int64(1)
		var offs []int64
		for d := 1; d <= depth; d++ {
			p *= int64(len(gops))
			offs = append(offs, total)
			total += p
		}
		r.Bound("gensym_all_histories", total)
		core.ParallelRange(r, total, nil, func(_ struct{}, i int64) {
			d := len(offs) - 1
			for offs[d] > i {
				d--
			}
			i -= offs[d]
			ops := make([]int, d+1)
			for k := d; k >= 0; k-- {
				ops[k] = int(i % int64(len(gops)))
				i /= int64(len(gops))
			}
			check(ops, replayHistory(ops))
		})
	}
}

func replayGensym(k kase) (bool, string) {
	var ops []int
	for _, id := range k.Ops {
		for i, o := range gops {
			if o.id == id {
				ops = append(ops, i)
			}
		}
	}
	st := replayHistory(ops)
	class, detail := gensymVerdict(st)
	var b strings.Builder
	for _, oi := range ops {
		fmt.Fprintf(&b, "  %s\n", gops[oi].src)
	}
	fmt.Fprintf(&b, "gensyms produced: %v\n", st.gens)
	var ts []string
	for s := range st.text {
		ts = append(ts, s)
	}
	sort.Strings(ts)
	fmt.Fprintf(&b, "symbols lexed from the text: %v\n%s %s\n", ts, class, detail)
	return class != "", b.String()
}
