package c07

import (
	"testing"
)

// The enumerators are bijections: unrank yields count distinct templates.
func TestGrammarUnrankIsABijection(t *testing.T) {
	g := &grammar{name: "t", leaves: []*leaf{&lfA, &lfUt, &lfS2}, qLeaf: 2, qList: 2, width: 2, depth: 3}
	g.init()
	seen := map[string]bool{}
	for i := int64(0); i < g.total(); i++ {
		s := g.unrank(g.depth, i).String()
		if seen[s] {
			t.Fatalf("template %q generated twice (index %d)", s, i)
		}
		seen[s] = true
	}
	if int64(len(seen)) != g.total() {
		t.Fatalf("count %d != distinct %d", g.total(), len(seen))
	}
}

// The reference expander on hand-checked templates.
func TestReferenceExpander(t *testing.T) {
	L := func(q int, kids ...*tpl) *tpl { return &tpl{q: q, kids: kids} }
	lf := func(q int, l *leaf) *tpl { return &tpl{q: q, leaf: l} }
	cases := []struct {
		t       *tpl
		verdict string
		tree    string
	}{
		{lf(0, &lfA), "ok", "'a"},
		{L(0, lf(0, &lfA), lf(0, &lfU3), lf(0, &lfS2), lf(0, &lfA)), "ok", "'(a #3 #1 #2 a)"},
		{L(0, lf(0, &lfS0)), "ok", "'()"},
		{L(1, lf(2, &lfU3), lf(1, &lfUpq)), "ok", "''(''#3 ''(p q))"},
		{L(0, L(1, lf(0, &lfA), lf(0, &lfSxy)), lf(0, &lfUt), lf(0, &lfUt)), "ok", "'('(a x y) #1 #2)"},
		{lf(0, &lfS2), "unspecified", ""},
		{L(0, lf(1, &lfS2)), "unspecified", ""},
		{L(0, lf(0, &lfSbad)), "unspecified", ""},
	}
	for _, c := range cases {
		v, tree := refQuasi(c.t)
		if v != c.verdict || tree != c.tree {
			t.Errorf("%s: got %s %s, want %s %s", c.t, v, tree, c.verdict, c.tree)
		}
	}
}

func TestBinderModel(t *testing.T) {
	f := formalShapes[6] // (a &optional o &rest r)
	if f.accepts(0) || !f.accepts(1) || !f.accepts(5) {
		t.Fatal("accepts")
	}
	b := f.bind([]string{"1", "x", "(f x)", "2"})
	if !b.ok || b.scalar["a"] != "1" || b.scalar["o"] != "x" || len(b.rest) != 2 || b.rest[0] != "(f x)" {
		t.Fatalf("%+v", b)
	}
	b = f.bind([]string{"1"})
	if !b.ok || b.scalar["o"] != "()" || b.given["o"] || len(b.rest) != 0 {
		t.Fatalf("%+v", b)
	}
	if formalShapes[1].accepts(3) || formalShapes[1].accepts(1) {
		t.Fatal("(a b) accepts exactly 2")
	}
}

// The same three references against the real interpreter, on the hand-checked cases only
// (the driver does this for the complete grammars).
func TestSmoke(t *testing.T) {
	e := newRT()
	g := &grammar{name: "t", leaves: []*leaf{&lfA, &lfUt, &lfS2, &lfUpq}, qLeaf: 2, qList: 2, width: 2, depth: 2}
	g.init()
	for i := int64(0); i < g.total(); i++ {
		src, _, expected, got, _ := checkQuasi(e, g.unrank(g.depth, i))
		if got != "" {
			t.Errorf("%s: expected %s got %s", src, expected, got)
		}
	}
}
