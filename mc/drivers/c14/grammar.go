package c14

import "math"

// The bounded schema grammar.  Everything here is a deterministic slice
// construction: the enumeration order is part of the replay contract.

func leaf(op string) *Node                  { return &Node{Op: op} }
func numc(op string, p *Val) *Node          { return &Node{Op: op, Num: p} }
func inc(ps ...*Val) *Node                  { return &Node{Op: "in", In: ps} }
func rex(p string) *Node                    { return &Node{Op: "regexp", S: p} }
func not(k *Node) *Node                     { return &Node{Op: "not", Kids: []*Node{k}} }
func typ(t string) *Node                    { return &Node{Op: opType, S: t} }
func of(ts ...*Node) *Node                  { return &Node{Op: "of", Kids: ts} }
func hasKey(k string, ts ...*Node) *Node    { return &Node{Op: "has-key", S: k, Kids: ts} }
func mayKey(k string, ts ...*Node) *Node    { return &Node{Op: "may-have-key", S: k, Kids: ts} }
func noOther(ks ...*Node) *Node             { return &Node{Op: "no-other-keys", Kids: ks} }
func validator(t string, cs ...*Node) *Node { return &Node{Op: opValidator, Type: t, Kids: cs} }
func when(k string, g *Node, k2 string, cs ...*Node) *Node {
	return &Node{Op: "when", S: k, S2: k2, Kids: append([]*Node{g}, cs...)}
}

// numParams: bounds of the ordering constraints -- small, fractional, around
// 2^53 (where a detour through float64 loses the difference) and at both ends
// of the int64 range (where a difference of two ints wraps), both signs.
var numParams = []*Val{vInt(0), vInt(1), vInt(2), vFloat(2.5), vInt(two53), vInt(two53 + 1),
	vInt(-2), vFloat(-2.5), vInt(-two53 - 1), vInt(math.MaxInt64), vInt(math.MinInt64)}

// allLeaves: every parameterised leaf constraint of the alphabet.
func allLeaves() []*Node {
	var l []*Node
	l = append(l,
		inc(), inc(vInt(1)), inc(vStr("a")), inc(vInt(1), vStr("a")), inc(vStr("a"), vStr("b")),
		inc(vFloat(2.5)), inc(vInt(two53+1)), inc(vSym("true")))
	// declared lists for the name/spelling confusion family: all-string,
	// containing "", naming a tagged type, mixed string / symbol / keyword / int
	l = append(l,
		inc(vStr("true"), vStr("false")), inc(vStr(""), vStr("n/a")), inc(vStr("user:"+typedefA)),
		inc(vStr("a"), vSym("b")), inc(vSym("a")), inc(vSym(":a")), inc(vStr(""), vInt(1)))
	for _, op := range []string{"gt", "gte", "lt", "lte"} {
		for _, p := range numParams {
			l = append(l, numc(op, p))
		}
	}
	l = append(l, leaf("positive"), leaf("negative"))
	for _, op := range []string{"len", "lengt", "lengte", "lenlt", "lenlte"} {
		for _, k := range []int64{0, 1, 2} {
			l = append(l, numc(op, vInt(k)))
		}
	}
	l = append(l, leaf("is-true"), leaf("is-false"), leaf("is-truthy"), leaf("is-falsy"))
	for _, p := range regexpPatterns {
		l = append(l, rex(p))
	}
	return l
}

// coreLeaves: the reduced leaf pool used in nested positions.
func coreLeaves() []*Node {
	return []*Node{
		inc(vStr("a")), inc(vInt(1)), numc("gt", vInt(1)), numc("lte", vInt(two53)), numc("gte", vInt(two53+1)),
		leaf("positive"), numc("len", vInt(1)), numc("lengt", vInt(0)),
		leaf("is-true"), leaf("is-truthy"), leaf("is-falsy"), rex("^a+$"),
		inc(vStr(""), vStr("a")),
	}
}

// nestedValidators: validators used as allowed types / nested constraints.
func nestedValidators() []*Node {
	return []*Node{
		validator("int", numc("gt", vInt(1))),
		validator("string", inc(vStr("a"))),
		validator("sorted-map", hasKey("a", typ("int"))),
		{Op: opSymRef},
		// an all-string enumeration with no string type gate in front of it
		validator("any", inc(vStr("a"), vStr("b"))),
	}
}

// typePool: what may stand in a type slot (of, has-key, may-have-key).
func typePool() []*Node {
	var p []*Node
	for _, t := range typeNames {
		p = append(p, typ(t))
	}
	p = append(p, nestedValidators()...)
	p = append(p, &Node{Op: opRef})
	return p
}

// keyConstraints: the has-key / may-have-key pool for s:no-other-keys.
func keyConstraints() []*Node {
	return []*Node{
		hasKey("a"), hasKey("a", typ("int")), mayKey("a"), mayKey("b", typ("string")),
		hasKey("b", typ("int")), mayKey("a", typ("int")),
	}
}

type pools struct {
	leaves, core    []*Node
	depth1          []*Node // all depth-1 composites
	depth1Core      []*Node // reduced depth-1 pool used for depth 2 and pairs
	depth2          []*Node
	singles         []*Node // every constraint used alone
	pairPool        []*Node // constraints used in ordered pairs
	pairTypes       []string
	taggedSubtypes  []string
	typedefSubtypes []string
}

func buildPools(thorough bool) *pools {
	p := &pools{leaves: allLeaves(), core: coreLeaves()}
	tp := typePool()
	keys := []string{"a", "b"}

	// ---- depth 1
	var d1 []*Node
	for _, l := range p.leaves {
		d1 = append(d1, not(l))
	}
	d1 = append(d1, of())
	for _, t := range tp {
		d1 = append(d1, of(t))
	}
	d1 = append(d1, of(typ("int"), typ("string")), of(typ("string"), typ("fun")), of(nestedValidators()[0], typ("string")))
	for _, mk := range []func(string, ...*Node) *Node{hasKey, mayKey} {
		for _, k := range keys {
			d1 = append(d1, mk(k))
			for _, t := range tp {
				d1 = append(d1, mk(k, t))
			}
			d1 = append(d1, mk(k, typ("int"), typ("string")))
		}
	}
	kc := keyConstraints()
	d1 = append(d1, noOther())
	for _, a := range kc {
		d1 = append(d1, noOther(a))
	}
	for _, a := range kc {
		for _, b := range kc {
			d1 = append(d1, noOther(a, b))
		}
	}
	d1 = append(d1, noOther(numc("lengt", vInt(0))), noOther(hasKey("a"), leaf("is-truthy")))
	d1 = append(d1, hasKey(""), mayKey(""), hasKey("", typ("int")), noOther(mayKey("")))
	whenKeys := [][2]string{{"a", "b"}, {"a", "a"}, {"b", "a"}}
	guards := p.core
	checks := p.core
	if !thorough {
		guards = []*Node{inc(vStr("a")), inc(vStr(""), vStr("a")), numc("gt", vInt(1)), leaf("is-true"), leaf("is-truthy"), numc("gte", vInt(two53+1))}
		checks = []*Node{inc(vInt(1)), numc("gt", vInt(1)), leaf("is-falsy"), rex("^a+$")}
		whenKeys = whenKeys[:2]
	}
	// guards that ACCEPT nil (the value at a missing key), next to the ones
	// above that reject it
	guards = append(append([]*Node{}, guards...),
		leaf("is-falsy"), not(inc(vStr("a"))), not(leaf("is-true")), typ("any"), inc(vNil()), inc(vNil(), vInt(1)))
	if !thorough {
		checks = append(append([]*Node{}, checks...), leaf("is-true"))
	}
	for _, kk := range whenKeys {
		for _, g := range guards {
			d1 = append(d1, when(kk[0], g, kk[1]))
			for _, c := range checks {
				d1 = append(d1, when(kk[0], g, kk[1], c))
			}
			d1 = append(d1, when(kk[0], g, kk[1], numc("gt", vInt(0)), numc("lt", vInt(2))))
		}
	}
	for _, t := range typeNames {
		if t == "tagged-value" {
			continue
		}
		d1 = append(d1, validator(t))
		for _, c := range p.core {
			d1 = append(d1, validator(t, c))
		}
	}
	d1 = append(d1, &Node{Op: opSymRef})
	p.depth1 = d1

	// ---- reduced depth-1 pool
	p.depth1Core = []*Node{
		not(inc(vStr("a"))), not(numc("gt", vInt(two53))), not(leaf("is-truthy")), not(rex("^a+$")), not(numc("len", vInt(1))),
		of(typ("int")), of(typ("string"), typ("int")), of(nestedValidators()[0]),
		hasKey("a"), hasKey("a", typ("int")), hasKey("a", typ("string"), typ("float")), hasKey("b", typ("number")),
		hasKey("a", nestedValidators()[2]), hasKey("a", &Node{Op: opRef}),
		mayKey("a"), mayKey("a", typ("int")), mayKey("b", typ("string")),
		noOther(hasKey("a", typ("int"))), noOther(hasKey("a"), mayKey("b", typ("string"))), noOther(),
		when("a", numc("gt", vInt(1)), "b", inc(vInt(2))), when("a", inc(vStr("a")), "a", rex("b")), when("a", leaf("is-truthy"), "b", leaf("is-falsy")),
		validator("int", numc("gt", vInt(1))), validator("sorted-map", hasKey("a", typ("int"))), validator("any", leaf("is-truthy")),
	}

	// ---- depth 2
	var d2 []*Node
	for _, d := range p.depth1Core {
		d2 = append(d2, not(d))
	}
	for _, d := range p.depth1Core {
		d2 = append(d2, not(not(d)))
	}
	inner := []*Node{
		validator("sorted-map", hasKey("a", typ("int"))),
		validator("sorted-map", noOther(hasKey("a"))),
		validator("array", of(typ("int"))),
		validator("any", not(inc(vInt(1)))),
		validator("number", not(numc("gt", vInt(1)))),
		validator("string", not(rex("^a+$"))),
		validator("any", not(leaf("is-truthy"))),
		validator("sorted-map", when("a", numc("gt", vInt(0)), "a", numc("lt", vInt(2)))),
	}
	for _, v := range inner {
		d2 = append(d2, v, not(v), of(v), of(v, typ("string")), hasKey("a", v), mayKey("a", v), hasKey("b", v, typ("int")),
			noOther(hasKey("a", v)), noOther(mayKey("a", v), hasKey("b")))
	}
	for _, g := range []*Node{not(inc(vStr("a"))), not(numc("gt", vInt(1))), not(leaf("is-truthy")), inner[0], inner[2], inner[4]} {
		for _, c := range []*Node{nil, numc("gt", vInt(1)), not(numc("gt", vInt(1))), not(leaf("is-truthy")), inner[0], inner[5]} {
			if c == nil {
				d2 = append(d2, when("a", g, "b"))
			} else {
				d2 = append(d2, when("a", g, "b", c), when("a", g, "a", c))
			}
		}
	}
	for _, c := range []*Node{numc("gt", vInt(1)), leaf("is-truthy"), inc(vStr("a"))} {
		d2 = append(d2, when("a", c, "b", not(c)), when("a", c, "b", hasKey("a")), when("a", c, "b", of(typ("int"))))
	}
	for _, d := range p.depth1Core {
		d2 = append(d2, validator("any", d), validator("sorted-map", d))
	}
	p.depth2 = d2

	// ---- singles and pairs
	p.singles = append(p.singles, p.leaves...)
	p.singles = append(p.singles, p.depth1...)
	p.singles = append(p.singles, p.depth2...)

	if thorough {
		p.pairPool = append(p.pairPool, p.leaves...)
		p.pairPool = append(p.pairPool, p.depth1Core...)
		for i, d := range p.depth2 {
			if i%8 == 0 { // a fixed stride of the depth-2 pool
				p.pairPool = append(p.pairPool, d)
			}
		}
		p.pairTypes = typeNamesExceptTagged()
	} else {
		p.pairPool = append(p.pairPool, p.core...)
		p.pairPool = append(p.pairPool, p.depth1Core[:20]...)
		p.pairTypes = []string{"any", "sorted-map", "int", "string"}
	}
	p.taggedSubtypes = typeNamesExceptTagged()
	p.typedefSubtypes = []string{"string", "int", "any"}
	return p
}

func typeNamesExceptTagged() []string {
	var out []string
	for _, t := range typeNames {
		if t != "tagged-value" {
			out = append(out, t)
		}
	}
	return out
}

// wellFormed enumerates every top-level validator of the tier, simplest first.
func wellFormed(p *pools) []*Node {
	var out []*Node
	// no constraint
	for _, t := range typeNames {
		out = append(out, validator(t))
	}
	// one constraint, every base type
	for _, c := range p.singles {
		for _, t := range typeNamesExceptTagged() {
			out = append(out, validator(t, c))
		}
	}
	// tagged values: declared user-data type, then constraints on the user data
	for _, sub := range p.taggedSubtypes {
		out = append(out, &Node{Op: opValidator, Type: "tagged-value", Sub: sub})
		for _, c := range p.core {
			out = append(out, &Node{Op: opValidator, Type: "tagged-value", Sub: sub, Kids: []*Node{c}})
		}
	}
	for _, sub := range p.typedefSubtypes {
		out = append(out, &Node{Op: opValidator, Type: "tagged-value", Sub: sub, ByTypedef: true})
		for _, c := range p.core {
			out = append(out, &Node{Op: opValidator, Type: "tagged-value", Sub: sub, ByTypedef: true, Kids: []*Node{c}})
		}
	}
	// ordered pairs of constraints
	for _, t := range p.pairTypes {
		for i, a := range p.pairPool {
			for j, b := range p.pairPool {
				if i == j {
					continue
				}
				out = append(out, validator(t, a, b))
			}
		}
	}
	return out
}
