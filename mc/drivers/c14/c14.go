// Package c14: schema validators accept exactly the values their declaration
// describes.
//
// Exhaustive tables (DESIGN §C14):
//
//	W  every well-formed validator of a bounded grammar (all type names x
//	   constraint sequences of length <= 2 built to nesting depth <= 2) x every
//	   value of the input alphabet, in both construction forms
//	   (s:make-validator and s:deftype), against a three-valued reference
//	   evaluator of the DOCUMENTED meaning (ref.go);
//	M  every malformed core (a wrongly filled slot) x every embedding context:
//	   rejected with bad-arguments when built, and if it is built anyway, no
//	   input may validate;
//	S  two small tables for zones where the documentation disagrees with
//	   itself (base types bytes/error; a validator in the TYPE position).
//
// Twin relation: a JSON-decoded document must get exactly the outcome of the
// same map built in lisp; a symbol-keyed map that of the string-keyed map.
package c14

import (
	"fmt"
	"sort"
	"strings"
	"sync"
	"sync/atomic"

	"github.com/luthersystems/elps/lisp"

	"verif/mc/core"
	"verif/mc/el"
)

func init() {
	core.Register(&core.Driver{Property: "C14", Run: run, Replay: replay})
}

// kase is the replayable description of one checked case.
type kase struct {
	Table string `json:"table"` // wellformed | twin | malformed | special
	// wellformed / twin / special
	Form      string `json:"form,omitempty"` // make-validator | deftype
	Schema    *Node  `json:"schema,omitempty"`
	SchemaSrc string `json:"schema_src"`
	Input     *Input `json:"input,omitempty"`
	TwinInput *Input `json:"twin_input,omitempty"`
	Blame     string `json:"blame,omitempty"` // smallest sub-term / sub-value at which implementation and reference part
	// malformed
	Slot    string `json:"slot,omitempty"`
	What    string `json:"what,omitempty"`
	Ctx     string `json:"ctx,omitempty"`
	Expect  string `json:"expect,omitempty"`
	Special string `json:"special,omitempty"`
}

// ---------------------------------------------------------------------------
// running the implementation

const condBadArgs = "bad-arguments"

func basePrelude() string {
	return "(deftype " + typedefA + " (s) s)\n(deftype " + typedefB + " (s) s)\n" +
		`(s:deftype "` + refName + `" s:int (s:gt 1))` + "\n"
}

func inputVar(k int) string { return fmt.Sprintf("c14-i%d", k) }

func bulkPrelude(inputs []Input) string {
	var b strings.Builder
	b.WriteString(basePrelude())
	for k, in := range inputs {
		fmt.Fprintf(&b, "(set '%s %s)\n", inputVar(k), in.Src)
	}
	return b.String()
}

func newEnv(prelude string) *el.Env {
	env := el.MustEnv(el.Opts{Stdlib: true})
	if o := env.Load(prelude); o.IsErr {
		panic("harness: prelude failed: " + o.Full())
	}
	return env
}

// topSrc renders a top-level validator in the given form as an expression
// whose value is the validator.
func topSrc(n *Node, form string) string {
	if form == "deftype" {
		return `(progn ` + n.validatorSrc("deftype", `"c14-d0"`, true) + ` c14-d0)`
	}
	return n.validatorSrc("make-validator", `"t"`, false)
}

// freshValidate evaluates (s:validate SCHEMA INPUT) in a fresh runtime.
func freshValidate(schemaExpr, inputExpr string) el.Outcome {
	env := newEnv(basePrelude())
	return env.Load("(s:validate " + schemaExpr + " " + inputExpr + ")")
}

func okey(o el.Outcome) string {
	if o.IsErr {
		return "E:" + o.Cond
	}
	return "V:" + o.Text
}

// compare decides whether the observed outcome is one the reference allows;
// dir names the direction of a disagreement.
func compare(ref res, got el.Outcome) (ok bool, dir string) {
	if !got.IsErr {
		if got.Text != "()" {
			return false, "value"
		}
		if ref.t == no {
			return false, "accepts"
		}
		return true, ""
	}
	var c uint8
	switch got.Cond {
	case "wrong-type":
		c = cWT
	case "failed-constraint":
		c = cFC
	default:
		return false, "crash:" + got.Cond
	}
	switch ref.t {
	case yes:
		return false, "rejects"
	case no:
		if ref.conds&c == 0 {
			return false, "cond"
		}
	}
	return true, ""
}

// ---------------------------------------------------------------------------
// blame: descend to the smallest sub-term / sub-value on which the
// implementation (run standalone in a fresh runtime) and the reference part.

type subject struct {
	src string
	v   *Val
}

type subcase struct {
	n    *Node
	subj subject
}

// standalone renders a sub-term as a validator expression.
func standalone(n *Node) string {
	switch n.Op {
	case opValidator:
		return n.validatorSrc("make-validator", `"u"`, false)
	case opType:
		return `(s:make-validator "u" s:` + n.S + `)`
	case opRef, opSymRef:
		return `(s:make-validator "u" s:any ` + refName + `)`
	}
	return `(s:make-validator "u" s:any ` + n.Src() + `)`
}

func children(n *Node, s subject) []subcase {
	var out []subcase
	v := s.v
	switch n.Op {
	case opValidator:
		out = append(out, subcase{typ(n.Type), s})
		if hasType(n.Type, v) == no {
			return out
		}
		sub := s
		if n.Type == "tagged-value" && v.K == kTag && (n.Sub != "" || len(n.Kids) > 0) {
			sub = subject{"(user-data " + s.src + ")", v.U}
			if n.Sub != "" {
				out = append(out, subcase{typ(n.Sub), sub})
			}
		}
		for _, k := range n.Kids {
			out = append(out, subcase{k, sub})
		}
	case "not":
		out = append(out, subcase{n.Kids[0], s})
	case "of":
		if v.K == kArr {
			for i, e := range v.Elems {
				for _, t := range n.Kids {
					out = append(out, subcase{t, subject{fmt.Sprintf("(aref %s %d)", s.src, i), e}})
				}
			}
		}
	case "has-key", "may-have-key":
		if v.K == kMap {
			if val, ok := v.get(n.S); ok {
				for _, t := range n.Kids {
					out = append(out, subcase{t, subject{fmt.Sprintf("(get %s %q)", s.src, n.S), val}})
				}
			}
		}
	case "no-other-keys":
		for _, k := range n.Kids {
			out = append(out, subcase{k, s})
		}
	case "when":
		if v.K == kMap {
			// the value at a missing key is nil, which is also what `get` answers
			val, ok := v.get(n.S)
			if !ok {
				val = vNil()
			}
			out = append(out, subcase{n.Kids[0], subject{fmt.Sprintf("(get %s %q)", s.src, n.S), val}})
			val, ok = v.get(n.S2)
			if !ok {
				val = vNil()
			}
			for _, c := range n.Kids[1:] {
				out = append(out, subcase{c, subject{fmt.Sprintf("(get %s %q)", s.src, n.S2), val}})
			}
		}
	}
	return out
}

type drv struct {
	r      *core.Run
	inputs []Input
	byName map[string]int

	memo sync.Map // standalone schema \x00 subject source -> el.Outcome

	mu          sync.Mutex
	classCount  map[string]int64
	outcomeCnt  map[string]int64
	blameRuns   int64
	reconfirmed int64
}

func (d *drv) standaloneRun(n *Node, s subject) el.Outcome {
	key := standalone(n) + "\x00" + s.src
	if o, ok := d.memo.Load(key); ok {
		return o.(el.Outcome)
	}
	atomic.AddInt64(&d.blameRuns, 1)
	o := freshValidate(standalone(n), s.src)
	d.memo.Store(key, o)
	return o
}

// blame returns the class of the smallest disagreeing sub-case.
func (d *drv) blame(n *Node, s subject, dir string, depth int) (class, where string) {
	if depth < 8 {
		for _, c := range children(n, s) {
			got := d.standaloneRun(c.n, c.subj)
			// a sub-term used as an allowed type returns its own value (has-key
			// returns the key name); only error/non-error matters there
			ref := eval(c.n, c.subj.v)
			if !got.IsErr {
				got.Text = "()"
			}
			if ok, cdir := compare(ref, got); !ok {
				return d.blame(c.n, c.subj, cdir, depth+1)
			}
		}
	}
	nc := nodeClass(n)
	if isMapOp(n.Op) && s.v.K != kMap {
		nc += "@nonmap"
	}
	return dir + ":" + nc + ":" + valueClass(s.v), n.Src() + " on " + s.src
}

// bump counts a violation class and reports whether it should still be
// re-confirmed and recorded (the first 3 of each class are).
func (d *drv) bump(class string) bool {
	d.mu.Lock()
	defer d.mu.Unlock()
	d.classCount[class]++
	return d.classCount[class] <= 3
}

func (d *drv) countOutcome(k string) {
	d.mu.Lock()
	d.outcomeCnt[k]++
	d.mu.Unlock()
}

// reconfirm re-runs a disagreeing case 5x, each in a fresh runtime.
func (d *drv) reconfirm(schemaExpr, inputExpr string, want el.Outcome, k kase) bool {
	atomic.AddInt64(&d.reconfirmed, 1)
	for i := 0; i < 5; i++ {
		o := freshValidate(schemaExpr, inputExpr)
		if okey(o) != okey(want) {
			d.r.Flaky(map[string]any{"case": k, "first": want.Full(), "rerun": o.Full()})
			return false
		}
	}
	return true
}

// ---------------------------------------------------------------------------
// table W: well-formed validators

type worker struct {
	env          *el.Env
	used         int
	progV, progD []lisp.Program
}

const schemasPerEnv = 48

func (d *drv) newWorker(int) *worker {
	w := &worker{}
	for k := range d.inputs {
		pv, err := el.Parse("v", "(s:validate c14-v "+inputVar(k)+")")
		if err != nil {
			panic("harness: " + err.Error())
		}
		pd, err := el.Parse("d", "(s:validate c14-d "+inputVar(k)+")")
		if err != nil {
			panic("harness: " + err.Error())
		}
		w.progV = append(w.progV, pv)
		w.progD = append(w.progD, pd)
	}
	return w
}

func (w *worker) ensure(d *drv) {
	if w.env == nil || w.used >= schemasPerEnv {
		w.env = newEnv(bulkPrelude(d.inputs))
		w.used = 0
	}
	w.used++
}

func (w *worker) validateAll(progs []lisp.Program) []el.Outcome {
	outs := make([]el.Outcome, len(progs))
	for k, p := range progs {
		outs[k] = el.Observe(w.env.LoadProgram(p), "")
	}
	return outs
}

func (d *drv) checkSchema(w *worker, idx int64, n *Node) {
	r := d.r
	w.ensure(d)
	mvSrc := topSrc(n, "make-validator")
	built := w.env.Load("(set 'c14-v " + mvSrc + ")")
	r.AddEvals(1)
	if built.IsErr {
		class := "wellformed-rejected:" + d.blameConstruction(n)
		if d.bump(class) {
			k := kase{Table: "wellformed", Form: "make-validator", Schema: n, SchemaSrc: mvSrc}
			r.Violate("c14", class, k, "a well-formed schema is built", built.Full(), "")
		}
		return
	}
	outs := w.validateAll(w.progV)
	r.AddEvals(int64(len(outs)))
	refs := make([]res, len(outs))
	sawYes, sawNo := false, false
	seen := map[string]bool{}
	var definite int64
	mvBad := make([]string, len(outs))
	for k, got := range outs {
		in := &d.inputs[k]
		ref := eval(n, in.V)
		refs[k] = ref
		if ref.t != unk {
			definite++
		}
		if !got.IsErr {
			sawYes = true
		} else {
			sawNo = true
		}
		oc := ref.t.String() + "/" + okey(got)
		if !seen[oc] {
			seen[oc] = true
			r.Outcome(oc)
		}
		d.countOutcome(oc)
		if ok, dir := compare(ref, got); !ok {
			mvBad[k] = dir
			d.disagree(n, "make-validator", in, ref, got, dir)
		}
	}
	r.AddTransitions(int64(len(outs)))
	r.AddTraces(definite)
	if sawYes && sawNo && len(n.Kids) > 0 {
		r.Nontrivial(mvSrc)
	}
	d.checkTwins(n, "make-validator", mvSrc, outs)

	if n.ByTypedef {
		return
	}
	// the s:deftype form of the same schema (base type spelled as a string)
	name := fmt.Sprintf("c14-d%d", idx)
	dtSrc := n.validatorSrc("deftype", fmt.Sprintf("%q", name), true)
	def := w.env.Load(dtSrc + "\n(set 'c14-d " + name + ")")
	r.AddEvals(1)
	if def.IsErr {
		class := "wellformed-rejected:deftype:" + d.blameConstruction(n)
		if d.bump(class) {
			k := kase{Table: "wellformed", Form: "deftype", Schema: n, SchemaSrc: topSrc(n, "deftype")}
			r.Violate("c14", class, k, "a well-formed schema is built", def.Full(), "")
		}
		return
	}
	douts := w.validateAll(w.progD)
	r.AddEvals(int64(len(douts)))
	r.AddTransitions(int64(len(douts)))
	for k, got := range douts {
		if ok, dir := compare(refs[k], got); !ok {
			if mvBad[k] == dir && okey(got) == okey(outs[k]) {
				continue // same disagreement as the make-validator form: already reported
			}
			d.disagree(n, "deftype", &d.inputs[k], refs[k], got, dir)
		}
	}
	d.checkTwins(n, "deftype", topSrc(n, "deftype"), douts)
}

func (d *drv) disagree(n *Node, form string, in *Input, ref res, got el.Outcome, dir string) {
	class, where := d.blame(n, subject{in.Src, in.V}, dir, 0)
	if form == "deftype" {
		class = "deftype-form:" + class
	}
	if !d.bump(class) {
		return
	}
	src := topSrc(n, form)
	k := kase{Table: "wellformed", Form: form, Schema: n, SchemaSrc: src, Input: in, Blame: where}
	if !d.reconfirm(src, in.Src, got, k) {
		return
	}
	d.r.Violate("c14", class, k, ref.String(), got.Full(), "smallest disagreeing sub-case: "+where)
}

// blameConstruction finds the smallest sub-term whose construction fails.
func (d *drv) blameConstruction(n *Node) string {
	for _, k := range n.Kids {
		env := newEnv(basePrelude())
		if o := env.Load(k.Src()); o.IsErr {
			return d.blameConstruction(k)
		}
	}
	return nodeClass(n)
}

// twinBlame descends to the smallest sub-term (applied to the same value) on
// which the two twins already get different outcomes.
func (d *drv) twinBlame(n *Node, a, b subject, depth int) string {
	var kids []*Node
	switch n.Op {
	case opValidator:
		if n.Type != "tagged-value" && hasType(n.Type, a.v) != no {
			kids = n.Kids
		}
	case "not", "no-other-keys":
		kids = n.Kids
	}
	norm := func(o el.Outcome) string {
		if !o.IsErr {
			return "V"
		}
		return "E:" + o.Cond
	}
	if depth < 8 {
		for _, k := range kids {
			if norm(d.standaloneRun(k, a)) != norm(d.standaloneRun(k, b)) {
				return d.twinBlame(k, a, b, depth+1)
			}
		}
	}
	return nodeClass(n)
}

// checkTwins: JSON-decoded == lisp-built, symbol-keyed == string-keyed.
func (d *drv) checkTwins(n *Node, form, src string, outs []el.Outcome) {
	for k := range d.inputs {
		in := &d.inputs[k]
		if in.Twin == "" {
			continue
		}
		t := d.byName[in.Twin]
		d.r.AddTransitions(1)
		if okey(outs[k]) == okey(outs[t]) {
			continue
		}
		class := "twin-" + in.TwinKind + ":" + d.twinBlame(n, subject{in.Src, in.V}, subject{d.inputs[t].Src, d.inputs[t].V}, 0)
		if !d.bump(class) {
			continue
		}
		kc := kase{Table: "twin", Form: form, Schema: n, SchemaSrc: src, Input: in, TwinInput: &d.inputs[t]}
		a, b := freshValidate(src, in.Src), freshValidate(src, d.inputs[t].Src)
		stable := okey(a) == okey(outs[k]) && okey(b) == okey(outs[t])
		for i := 0; i < 4 && stable; i++ {
			stable = okey(freshValidate(src, in.Src)) == okey(a) && okey(freshValidate(src, d.inputs[t].Src)) == okey(b)
		}
		if !stable {
			d.r.Flaky(map[string]any{"case": kc})
			continue
		}
		d.r.Violate("c14", class, kc, "same outcome as "+d.inputs[t].Src+": "+outs[t].Full(), outs[k].Full(),
			"a "+in.TwinKind+" twin must validate exactly like its counterpart")
	}
}

// ---------------------------------------------------------------------------
// table M: malformed schemas

type malCase struct {
	core malCore
	ctx  malCtx
}

func (d *drv) checkMalformed(mc malCase) {
	r := d.r
	src := mc.ctx.Wrap(mc.core.Src)
	k := kase{Table: "malformed", SchemaSrc: src, Slot: mc.core.Slot, What: mc.core.What, Ctx: mc.ctx.Name, Expect: mc.core.Expect}
	tag := mc.core.Slot + ":" + mc.ctx.Name
	built, outs := runMalformed(src, d.inputs)
	r.AddEvals(int64(1 + len(outs)))
	r.AddTransitions(int64(1 + len(outs)))
	oc := "malformed/" + mc.core.Expect + "/build=" + okey(built)
	if !built.IsErr {
		oc = "malformed/" + mc.core.Expect + "/build=constructed"
	}
	r.Outcome(oc)
	d.countOutcome(oc)
	report := func(class, expected, got string) {
		if !d.bump(class) {
			return
		}
		for i := 0; i < 5; i++ {
			b2, o2 := runMalformed(src, d.inputs)
			if okey(b2) != okey(built) && (b2.IsErr || built.IsErr) {
				r.Flaky(map[string]any{"case": k})
				return
			}
			for j := range o2 {
				if okey(o2[j]) != okey(outs[j]) {
					r.Flaky(map[string]any{"case": k})
					return
				}
			}
		}
		r.Violate("c14", class, k, expected, got, "malformed: "+mc.core.Slot+" filled with "+mc.core.What)
	}
	if built.IsErr {
		switch {
		case built.Cond == "internal-panic":
			report("malformed:crash:internal-panic:"+tag, "an ordinary error when built", built.Full())
		case mc.core.Expect == condBadArgs && built.Cond != condBadArgs:
			report("malformed:wrong-condition:"+built.Cond+":"+tag, "bad-arguments when built", built.Full())
		}
		return
	}
	if mc.core.Expect == condBadArgs || mc.core.Expect == "error" {
		report("malformed:constructs:"+tag, "rejected with "+mc.core.Expect+" when built", "built: "+built.Full())
	}
	for j, o := range outs {
		in := &d.inputs[j]
		kk := k
		kk.Input = in
		switch {
		case !o.IsErr && mc.core.Expect != "open":
			if d.bump("malformed:silent-pass:" + tag) {
				r.Violate("c14", "malformed:silent-pass:"+tag, kk, "a malformed schema never validates anything", o.Full()+" for input "+in.Src,
					"malformed: "+mc.core.Slot+" filled with "+mc.core.What)
			}
		case o.IsErr && o.Cond != condBadArgs && o.Cond != "wrong-type" && o.Cond != "failed-constraint":
			if d.bump("malformed:crash:" + o.Cond + ":" + tag) {
				r.Violate("c14", "malformed:crash:"+o.Cond+":"+tag, kk, "bad-arguments, wrong-type or failed-constraint", o.Full()+" for input "+in.Src, "")
			}
		}
	}
}

// runMalformed builds src in a fresh runtime; if it builds, validates every
// input against it.
func runMalformed(src string, inputs []Input) (built el.Outcome, outs []el.Outcome) {
	env := newEnv(basePrelude())
	built = env.Load("(set 'c14-v " + src + ")")
	if built.IsErr {
		return built, nil
	}
	for _, in := range inputs {
		outs = append(outs, env.Load("(s:validate c14-v "+in.Src+")"))
	}
	return built, outs
}

// ---------------------------------------------------------------------------
// table S: zones where the documentation disagrees with itself

type special struct {
	Kind string
	Src  string
	Ref  *Node // meaning if the schema is built
	// Build: +1 the schema must build, -1 it must be refused with
	// bad-arguments when built, 0 either is allowed
	Build  int
	Detail string
}

func specials() []special {
	var out []special
	cs := append([]*Node{nil}, coreLeaves()...)
	// README lists s:bytes and s:error as types; the s:deftype docstring does not
	for _, t := range []string{"bytes", "error"} {
		for _, c := range cs {
			n := validator(t)
			if c != nil {
				n = validator(t, c)
			}
			out = append(out, special{Kind: "unlisted-base-type:" + t, Src: n.validatorSrc("make-validator", `"t"`, false), Ref: n})
		}
	}
	// a validator in the TYPE position: either an unknown type (bad-arguments)
	// or a base type whose constraints still apply -- never "constraints dropped"
	for _, v := range nestedValidators() {
		for _, c := range cs {
			ref := validator("any", v)
			src := `(s:make-validator "t" ` + v.Src() + `)`
			if c != nil {
				ref = validator("any", v, c)
				src = `(s:make-validator "t" ` + v.Src() + ` ` + c.Src() + `)`
			}
			out = append(out, special{Kind: "type-slot-validator", Src: src, Ref: ref})
		}
	}
	return out
}

// specialFamily is the kind without its per-spelling suffix (outcome classes).
func specialFamily(kind string) string {
	if i := strings.Index(kind, ":"); i >= 0 && !strings.HasPrefix(kind, "unlisted-base-type") {
		if j := strings.Index(kind[i+1:], ":"); j >= 0 {
			return kind[:i+1+j]
		}
	}
	return kind
}

func evalSpecial(sp special, v *Val) res {
	if sp.Ref.Type == "error" {
		// no value of the alphabet is an error value
		return rNoWT
	}
	return eval(sp.Ref, v)
}

func (d *drv) checkSpecial(sp special) {
	r := d.r
	built, outs := runMalformed(sp.Src, d.inputs)
	r.AddEvals(int64(1 + len(outs)))
	r.AddTransitions(int64(1 + len(outs)))
	k := kase{Table: "special", Special: sp.Kind, SchemaSrc: sp.Src, Schema: sp.Ref, What: sp.Detail, Expect: [...]string{"refused", "", "builds"}[sp.Build+1]}
	report := func(class, expected, got string) {
		if !d.bump(class) {
			return
		}
		for i := 0; i < 5; i++ {
			if b2, _ := runMalformed(sp.Src, nil); okey(b2) != okey(built) && (b2.IsErr || built.IsErr) {
				r.Flaky(map[string]any{"case": k})
				return
			}
		}
		r.Violate("c14", class, k, expected, got, "")
	}
	if built.IsErr {
		r.Outcome("special/" + specialFamily(sp.Kind) + "/build=" + okey(built))
		if sp.Build > 0 {
			report("special:"+sp.Kind+":refused:"+built.Cond, "this spelling of a type is accepted: the schema builds", built.Full())
			return
		}
		if built.Cond != condBadArgs {
			if d.bump("special:" + sp.Kind + ":build:" + built.Cond) {
				r.Violate("c14", "special:"+sp.Kind+":build:"+built.Cond, k, "built, or rejected with bad-arguments", built.Full(), "")
			}
		}
		return
	}
	r.Outcome("special/" + specialFamily(sp.Kind) + "/build=constructed")
	if sp.Build < 0 {
		report("special:"+sp.Kind+":builds", "refused with bad-arguments when built", "built: "+built.Full())
	}
	for j, o := range outs {
		in := &d.inputs[j]
		ref := evalSpecial(sp, in.V)
		if !o.IsErr {
			o.Text = "()" // a validator in the TYPE position returns what that validator returns
		}
		ok, dir := compare(ref, o)
		if ok {
			continue
		}
		class := "special:" + sp.Kind + ":" + dir
		if sp.Kind == "type-slot-validator" || strings.Contains(sp.Kind, ":") && !strings.HasPrefix(sp.Kind, "unlisted-base-type") {
			// localise: if a part of the schema already disagrees on its own
			// (another defect seen through this table) that part is blamed;
			// only a disagreement of the combination itself belongs to this table
			bc, where := d.blame(sp.Ref, subject{in.Src, in.V}, dir, 0)
			if strings.HasPrefix(sp.Kind, "key-constraint-as-member-type") {
				// the member loop itself is what disagrees; keep the table's name
				// in the class so that it cannot mask another s:of / s:has-key defect
				class = "key-as-member-type:" + bc
			} else if !strings.HasPrefix(where, sp.Ref.Src()+" on ") {
				class = bc
			} else if len(sp.Ref.Kids) > 1 && dir == "accepts" {
				// the extra constraint is the only thing that can reject here
				if r1 := eval(sp.Ref.Kids[0], in.V); r1.t == yes {
					class = "special:" + sp.Kind + ":constraints-ignored"
				}
			}
		}
		if !d.bump(class) {
			continue
		}
		kk := k
		kk.Input = in
		if !d.reconfirm(sp.Src, in.Src, outs[j], kk) {
			continue
		}
		r.Violate("c14", class, kk, ref.String(), outs[j].Full(), "")
	}
}

// ---------------------------------------------------------------------------

// parallelRange is core.ParallelRange without its "stop after 40 recorded
// violations" cut-off: on the unchanged tree this driver records up to 3 cases
// for each of its 17 known-finding classes, and the cut-off (which counts
// known findings too) would end the enumeration before tables M and S run.
// Only the soft deadline stops it.
func parallelRange[W any](r *core.Run, n int64, newWorker func(id int) W, fn func(w W, i int64)) {
	const chunk = 64
	var next int64
	var wg sync.WaitGroup
	var capped int32
	for id := 0; id < r.Workers; id++ {
		wg.Add(1)
		go func(id int) {
			defer wg.Done()
			var w W
			if newWorker != nil {
				w = newWorker(id)
			}
			for {
				lo := atomic.AddInt64(&next, chunk) - chunk
				if lo >= n {
					return
				}
				if r.Expired() {
					atomic.StoreInt32(&capped, 1)
					return
				}
				hi := lo + chunk
				if hi > n {
					hi = n
				}
				for i := lo; i < hi; i++ {
					fn(w, i)
				}
			}
		}(id)
	}
	wg.Wait()
	if capped != 0 {
		r.Cap(fmt.Sprintf("soft deadline reached in a range of %d (next unvisited index ≈ %d)", n, atomic.LoadInt64(&next)))
	}
}

func dedup(ns []*Node) []*Node {
	seen := map[string]bool{}
	var out []*Node
	for _, n := range ns {
		s := topSrc(n, "make-validator")
		if seen[s] {
			continue
		}
		seen[s] = true
		out = append(out, n)
	}
	return out
}

func run(r *core.Run) {
	inputs := allInputs()
	d := &drv{r: r, inputs: inputs, byName: inputIndex(inputs), classCount: map[string]int64{}, outcomeCnt: map[string]int64{}}
	p := buildPools(r.Thorough())
	schemas := dedup(wellFormed(p))
	var mals []malCase
	for _, c := range malCores() {
		for _, cx := range contextsFor(c) {
			mals = append(mals, malCase{c, cx})
		}
	}
	sps := specials()
	sps = append(sps, namingSpecials()...)
	sps = append(sps, keyAsTypeSpecials()...)
	r.Bound("key_as_member_type_schemas", len(keyAsTypeSpecials()))
	r.Bound("type_spellings", len(typeNamings()))
	r.Bound("naming_schemas", len(namingSpecials()))
	r.Assume("which spellings of a type are accepted where was probed on the unchanged tree and is modelled exactly: type symbol, type-name string, validator value, quoted symbol naming a validator (deftype'd or set) and inline validators are accepted in every type position; a quoted symbol naming a builtin type ('s:int) is refused everywhere; s:not takes validator values only")

	r.Bound("inputs", len(inputs))
	r.Bound("type_names", len(typeNames))
	r.Bound("leaf_constraints", len(p.leaves))
	r.Bound("depth1_constraints", len(p.depth1))
	r.Bound("depth2_constraints", len(p.depth2))
	r.Bound("single_constraint_pool", len(p.singles))
	r.Bound("pair_pool", len(p.pairPool))
	r.Bound("pair_base_types", len(p.pairTypes))
	r.Bound("max_constraints_per_type", 2)
	r.Bound("max_nesting_depth", 2)
	r.Bound("wellformed_schemas", len(schemas))
	r.Bound("construction_forms", "s:make-validator and s:deftype")
	r.Bound("malformed_cores", len(malCores()))
	r.Bound("malformed_contexts", len(malContexts))
	r.Bound("malformed_schemas", len(mals))
	r.Bound("special_schemas", len(sps))
	r.Bound("numeric_parameters", "0 1 2 2.5 2^53 2^53+1 -2 -2.5 -(2^53+1) MaxInt64 MinInt64; int inputs also -2 -3 -(2^53+1) MaxInt64 MaxInt64-1 MinInt64 MinInt64+1")
	r.Rule("W: every validator (type name x <=2 constraints, nesting <=2) x every input value x {make-validator, deftype}, outcome compared with the reference evaluator of the documented meaning; " +
		"M: every malformed core x every embedding context, built and (if it builds) validated against every input; " +
		"twins: every JSON-decoded / symbol-keyed input against its lisp-built / string-keyed counterpart. " +
		"Non-trivial = a schema with at least one constraint that accepts at least one input and rejects at least one; distinct by schema source")
	r.Assume("unspecified (only 'outcome is (), wrong-type or failed-constraint' is asserted): s:gt/gte/lt/lte/positive/negative on a non-number; s:len* on anything but an ASCII string, bytes or array; s:of with no allowed type on a non-empty array; s:of / s:may-have-key / s:no-other-keys / s:when on a value of the wrong container kind; s:is-truthy/is-falsy on lists, functions, tagged values and symbols other than true/false; () under type bool (lang.md: nil represents false)")
	r.Assume("s:when: the value at a missing guard key or match key is nil (documented by `get`: 'or nil if the key is not present'; the unchanged implementation agrees): a guard that accepts nil is satisfied by a map that omits the key and the clause applies; a map that omits a key validates exactly like one that binds it to nil / JSON null")
	r.Assume("mixed int/float comparison follows the language (via float64, lang.md 'integer precision'): an int beyond 2^53 against a float, and int-vs-float equality under s:in, are unspecified; two ints compare exactly")
	r.Assume("a rejection may carry either wrong-type or failed-constraint, except: base-type mismatch of a validator = wrong-type, a failing leaf constraint or s:not directly in a constraint list = failed-constraint (README)")
	r.Assume("s:has-key / s:may-have-key without an allowed type only test presence (README: '(s:has-key name[ type ...])', 'You may wish to use this without a type set')")
	r.Assume("wrong argument counts and parameters of the wrong kind (s:gt \"a\", s:len 2.5, s:has-key 1) are outside the statement's list of malformed schemas: only 'an ordinary error or a validator that never panics' is asserted")
	r.Assume("s:bytes / s:error as base types (README lists them, the s:deftype docstring does not) and a validator in the TYPE position may be rejected with bad-arguments when built; if built they must have the obvious meaning")
	r.Assume("json numbers decode as floats (docs/lang.md); decoding fidelity itself is C13's subject")

	// --- W
	parallelRange(r, int64(len(schemas)), d.newWorker, func(w *worker, i int64) {
		d.checkSchema(w, i, schemas[i])
	})
	r.AddStates(int64(len(schemas)))
	// --- M
	parallelRange(r, int64(len(mals)), nil, func(_ struct{}, i int64) {
		d.checkMalformed(mals[i])
	})
	r.AddStates(int64(len(mals)))
	// --- S
	parallelRange(r, int64(len(sps)), nil, func(_ struct{}, i int64) {
		d.checkSpecial(sps[i])
	})
	r.AddStates(int64(len(sps)))

	// samples: real cases with their observed outcome
	for _, pick := range []struct{ s, i int }{{len(schemas) / 7, 1}, {len(schemas) / 2, d.byName["json:a=1"]}, {len(schemas) - 1, d.byName["map:a=1,b=2"]}, {11, d.byName["str:\"true\""]}} {
		if pick.s < len(schemas) {
			n, in := schemas[pick.s], inputs[pick.i]
			src := topSrc(n, "make-validator")
			r.Sample(map[string]string{"schema": src, "input": in.Src, "reference": eval(n, in.V).String(), "observed": freshValidate(src, in.Src).String()})
		}
	}
	if len(mals) > 0 {
		m := mals[len(mals)/3]
		b, _ := runMalformed(m.ctx.Wrap(m.core.Src), nil)
		r.Sample(map[string]string{"malformed": m.ctx.Wrap(m.core.Src), "expect": m.core.Expect, "observed_build": b.String()})
	}

	d.mu.Lock()
	cc := map[string]int64{}
	keys := make([]string, 0, len(d.classCount))
	for k := range d.classCount {
		keys = append(keys, k)
	}
	sort.Strings(keys)
	for _, k := range keys {
		cc[k] = d.classCount[k]
	}
	oc := map[string]int64{}
	for k, v := range d.outcomeCnt {
		oc[k] = v
	}
	d.mu.Unlock()
	r.Extra("disagreement_class_counts", cc)
	r.Extra("outcome_counts", oc)
	r.Extra("blame_runs", atomic.LoadInt64(&d.blameRuns))
	r.Extra("reconfirmed_cases", atomic.LoadInt64(&d.reconfirmed))
}

// ---------------------------------------------------------------------------

func replay(v core.Violation) (bool, string) {
	k, err := core.CaseOf[kase](v)
	if err != nil {
		return false, err.Error()
	}
	switch k.Table {
	case "wellformed":
		if k.Input == nil {
			env := newEnv(basePrelude())
			o := env.Load(k.SchemaSrc)
			return o.IsErr, fmt.Sprintf("build %s\n => %s", k.SchemaSrc, o.Full())
		}
		got := freshValidate(k.SchemaSrc, k.Input.Src)
		ref := eval(k.Schema, k.Input.V)
		ok, dir := compare(ref, got)
		return !ok, fmt.Sprintf("(s:validate %s %s)\n reference: %s\n observed:  %s\n %s\n blame: %s", k.SchemaSrc, k.Input.Src, ref, got.Full(), dir, k.Blame)
	case "twin":
		a, b := freshValidate(k.SchemaSrc, k.Input.Src), freshValidate(k.SchemaSrc, k.TwinInput.Src)
		return okey(a) != okey(b), fmt.Sprintf("schema %s\n %s => %s\n %s => %s", k.SchemaSrc, k.Input.Src, a.Full(), k.TwinInput.Src, b.Full())
	case "malformed":
		var ins []Input
		if k.Input != nil {
			ins = []Input{*k.Input}
		}
		built, outs := runMalformed(k.SchemaSrc, ins)
		rep := fmt.Sprintf("build %s\n => %s", k.SchemaSrc, built.Full())
		if built.IsErr {
			bad := built.Cond == "internal-panic" || (k.Expect == condBadArgs && built.Cond != condBadArgs)
			return bad, rep
		}
		bad := k.Expect == condBadArgs || k.Expect == "error"
		for i, o := range outs {
			rep += fmt.Sprintf("\n validate %s => %s", ins[i].Src, o.Full())
			if !o.IsErr && k.Expect != "open" {
				bad = true
			}
			if o.IsErr && o.Cond != condBadArgs && o.Cond != "wrong-type" && o.Cond != "failed-constraint" {
				bad = true
			}
		}
		return bad, rep
	case "special":
		sp := special{Kind: k.Special, Src: k.SchemaSrc, Ref: k.Schema}
		var ins []Input
		if k.Input != nil {
			ins = []Input{*k.Input}
		}
		built, outs := runMalformed(k.SchemaSrc, ins)
		rep := fmt.Sprintf("build %s\n => %s", k.SchemaSrc, built.Full())
		if built.IsErr {
			return built.Cond != condBadArgs || k.Expect == "builds", rep
		}
		bad := k.Expect == "refused"
		for i, o := range outs {
			ref := evalSpecial(sp, ins[i].V)
			rep += fmt.Sprintf("\n validate %s => %s (reference: %s)", ins[i].Src, o.Full(), ref)
			if !o.IsErr {
				o.Text = "()"
			}
			if ok, _ := compare(ref, o); !ok {
				bad = true
			}
		}
		return bad, rep
	}
	return false, "unknown table " + k.Table
}
