package c14

import "strings"

// Table N: the ways a type can be NAMED, in every type position.
//
// A base type / member type may be spelled as the builtin type symbol
// (s:int), the type-name string ("int"), a quoted symbol naming a builtin
// type ('s:int), the validator VALUE bound by s:deftype (age), the QUOTED
// SYMBOL naming it ('age -- how the README names defined types), a symbol
// bound with `set` to a validator (by value and quoted), or an inline
// validator expression.  Which spellings the implementation accepts in which
// position was probed on the unchanged tree and is modelled exactly
// (namingAccepted); an accepted spelling must build and mean "the named type
// and every trailing constraint", a refused one must be bad-arguments when
// built.  Derivation is followed over one, two and three levels
// (senior from adult from age from s:int), each level spelled by value or by
// quoted symbol, with 0, 1 and 2 trailing constraints.

// the derivation chain: thresholds inside the int alphabet {-1,0,1,2,3}
var (
	meanAge    = validator("int", numc("gte", vInt(0)))
	meanAdult  = validator("any", meanAge, numc("gte", vInt(2)))
	meanSenior = validator("any", meanAdult, numc("gte", vInt(3)))
)

// namingDefs is evaluated in front of every schema of the table (inside the
// same progn), so that the derived definitions themselves are under test.
const namingDefs = `(s:deftype "c14age" s:int (s:gte 0)) ` +
	`(s:deftype "c14adultq" 'c14age (s:gte 2)) ` + // level 2 by quoted symbol
	`(s:deftype "c14adultv" c14age (s:gte 2)) ` + // level 2 by value
	`(s:deftype "c14seniorqq" 'c14adultq (s:gte 3)) ` +
	`(s:deftype "c14seniorvv" c14adultv (s:gte 3)) ` +
	`(s:deftype "c14seniorqv" 'c14adultv (s:gte 3)) ` +
	`(set 'c14bound (s:make-validator "b" s:int (s:gte 0))) `

type typeName struct {
	spelling string // class component
	level    string
	src      string
	mean     *Node
	kind     string // "string" | "value" | "quoted" | "quoted-builtin"
}

func typeNamings() []typeName {
	ns := []typeName{
		{"builtin-symbol", "L0", "s:int", typ("int"), "string"},
		{"builtin-string", "L0", `"int"`, typ("int"), "string"},
		{"quoted-builtin", "L0", "'s:int", typ("int"), "quoted-builtin"},
		{"deftype-value", "L1", "c14age", meanAge, "value"},
		{"quoted-deftype", "L1", "'c14age", meanAge, "quoted"},
		{"set-value", "L1", "c14bound", meanAge, "value"},
		{"quoted-set", "L1", "'c14bound", meanAge, "quoted"},
		{"inline", "L1", `(s:make-validator "u" s:int (s:gte 0))`, meanAge, "value"},
	}
	for _, d := range []struct {
		level, name string
		mean        *Node
	}{
		{"L2q", "c14adultq", meanAdult}, {"L2v", "c14adultv", meanAdult},
		{"L3qq", "c14seniorqq", meanSenior}, {"L3vv", "c14seniorvv", meanSenior}, {"L3qv", "c14seniorqv", meanSenior},
	} {
		ns = append(ns, typeName{"deftype-value", d.level, d.name, d.mean, "value"})
		ns = append(ns, typeName{"quoted-deftype", d.level, "'" + d.name, d.mean, "quoted"})
	}
	return ns
}

// namingAccepted: probed on the unchanged implementation.  Everything that
// goes through the type handler resolves strings, values and quoted symbols
// naming a validator; a quoted symbol naming a BUILTIN type resolves to the
// string "int", which is refused.  s:not takes a constraint VALUE only (README
// gotcha: "(s:not s:is-true) isn't going to work").
func namingAccepted(pos string, n typeName) bool {
	if pos == "not-arg" {
		return n.kind == "value"
	}
	return n.kind != "quoted-builtin"
}

func trailingLists() [][]*Node {
	gte2, lt3 := numc("gte", vInt(2)), numc("lt", vInt(3))
	return [][]*Node{
		nil,
		{gte2}, {lt3}, {inc(vInt(2), vInt(3))},
		{gte2, lt3}, {not(inc(vInt(2))), numc("gte", vInt(1))},
	}
}

func srcs(ns []*Node) string {
	var b strings.Builder
	for _, n := range ns {
		b.WriteString(" " + n.Src())
	}
	return b.String()
}

func namingSpecials() []special {
	var out []special
	add := func(pos string, n typeName, expr string, ref *Node) {
		sp := special{Kind: "naming:" + pos + ":" + n.spelling, Detail: "derivation " + n.level, Src: "(progn " + namingDefs + expr + ")", Ref: ref, Build: -1}
		if namingAccepted(pos, n) {
			sp.Build = 1
		}
		out = append(out, sp)
	}
	for _, n := range typeNamings() {
		// base type of s:make-validator / s:deftype, 0..2 trailing constraints
		for _, t := range trailingLists() {
			var ref *Node
			if n.mean.Op == opType {
				ref = validator(n.mean.S, t...)
			} else {
				ref = validator("any", append([]*Node{n.mean}, t...)...)
			}
			add("base", n, `(s:make-validator "t" `+n.src+srcs(t)+`)`, ref)
			add("deftype-base", n, `(progn (s:deftype "c14n" `+n.src+srcs(t)+`) c14n)`, ref)
		}
		// member types, guards and checks, s:not
		gt1, gte0 := numc("gt", vInt(1)), numc("gte", vInt(0))
		wrap := func(pos, expr string, c *Node) {
			add(pos, n, `(s:make-validator "t" s:any `+expr+`)`, validator("any", c))
		}
		wrap("of-type", `(s:of `+n.src+`)`, of(n.mean))
		wrap("of-2nd-type", `(s:of s:string `+n.src+`)`, of(typ("string"), n.mean))
		wrap("has-key-type", `(s:has-key "a" `+n.src+`)`, hasKey("a", n.mean))
		wrap("may-have-key-type", `(s:may-have-key "a" `+n.src+`)`, mayKey("a", n.mean))
		wrap("when-guard", `(s:when "a" `+n.src+` "b" (s:gt 1))`, when("a", n.mean, "b", gt1))
		wrap("when-check", `(s:when "a" (s:gte 0) "b" `+n.src+`)`, when("a", gte0, "b", n.mean))
		wrap("no-other-keys-arg", `(s:no-other-keys (s:may-have-key "a") `+n.src+`)`, noOther(mayKey("a"), n.mean))
		wrap("not-arg", `(s:not `+n.src+`)`, not(n.mean))
		wrap("nested-constraint", `(s:make-validator "u" `+n.src+` (s:lt 3))`, validator("any", n.mean, numc("lt", vInt(3))))
	}
	return out
}

// Table K: a KEY constraint used as a member type -- (s:of (s:has-key "a")),
// (s:has-key "m" (s:has-key "x")).  Other bare constraints work as member
// types ((s:of (s:gt 1))); key constraints "return the key name on success"
// (docstring) and the member loops of s:of / s:has-key / s:may-have-key test
// success; a member loop that tests success with IsNil can never match them
// (the defect repaired by /repo commit 3a11768).
func keyAsTypeSpecials() []special {
	var out []special
	inner := []*Node{hasKey("a"), hasKey("a", typ("int")), mayKey("a", typ("int")), mayKey("b")}
	for _, k := range inner {
		for _, w := range []*Node{of(k), of(typ("string"), k), hasKey("a", k), mayKey("a", k), hasKey("a", typ("string"), k),
			not(of(k)), not(hasKey("a", k))} {
			n := validator("any", w)
			out = append(out, special{Kind: "key-constraint-as-member-type:" + w.Op, Src: n.validatorSrc("make-validator", `"t"`, false), Ref: n})
		}
	}
	return out
}
