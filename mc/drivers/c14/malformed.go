package c14

import (
	"fmt"
	"strings"
)

// Malformed schemas.  A core is the smallest malformed expression (a slot
// filled with something that is not allowed there); every core is embedded in
// every context, in particular below the inverting constraints (s:not, the
// guard of s:when) where a late "this is not a constraint" error would be read
// as "the inner constraint failed".

type malCore struct {
	Slot   string // which slot is filled wrongly
	What   string // what it is filled with
	Src    string // the malformed expression (a constraint or a validator)
	Expect string // "bad-arguments" | "error" | "open"
	// Direct: the core is not a constraint/validator expression that can be
	// embedded (e.g. a deftype with a bad name); only evaluated on its own.
	Direct bool
}

type malCtx struct {
	Name string
	Wrap func(x string) string // the validator to build around the core
}

var malContexts = []malCtx{
	{"direct", func(x string) string { return x }},
	{"constraint", func(x string) string { return `(s:make-validator "t" s:any ` + x + `)` }},
	{"deftype-constraint", func(x string) string { return `(progn (s:deftype "c14-m" "any" ` + x + `) c14-m)` }},
	{"second-constraint", func(x string) string { return `(s:make-validator "t" s:any (s:lengte 0) ` + x + `)` }},
	{"under-not", func(x string) string { return `(s:make-validator "t" s:any (s:not ` + x + `))` }},
	{"under-not-not", func(x string) string { return `(s:make-validator "t" s:any (s:not (s:not ` + x + `)))` }},
	{"when-guard", func(x string) string {
		return `(s:make-validator "t" s:any (s:when "a" ` + x + ` "b" (s:negative)))`
	}},
	{"when-check", func(x string) string {
		return `(s:make-validator "t" s:any (s:when "a" (s:lengte 0) "b" ` + x + `))`
	}},
	{"of-type", func(x string) string { return `(s:make-validator "t" s:any (s:of ` + x + `))` }},
	{"has-key-type", func(x string) string { return `(s:make-validator "t" s:any (s:has-key "a" ` + x + `))` }},
	{"may-have-key-type", func(x string) string { return `(s:make-validator "t" s:any (s:may-have-key "a" ` + x + `))` }},
	{"may-have-key-2nd-type", func(x string) string {
		return `(s:make-validator "t" s:any (s:may-have-key "a" s:fun ` + x + `))`
	}},
	{"no-other-keys-arg", func(x string) string { return `(s:make-validator "t" s:any (s:no-other-keys ` + x + `))` }},
	{"nested-validator", func(x string) string {
		return `(s:make-validator "t" s:any (s:make-validator "u" s:any ` + x + `))`
	}},
	{"under-not-nested", func(x string) string {
		return `(s:make-validator "t" s:any (s:not (s:make-validator "u" s:any ` + x + `)))`
	}},
}

type atom struct{ name, src string }

// listHead is everything of a validator expression up to its constraint list.
type listHead struct {
	name, slot    string
	open, close   string
	leadingString bool // position 0 of the list may legitimately be a type-name string
}

// two well-formed constraints that accept every value, so that evaluation
// always reaches the malformed entry next to them
const (
	fillerA = `(s:lengte 0)`
	fillerB = `(s:not (s:in))`
)

// listPatterns: "" marks the position of the bad atom.
var listPatterns = [][]string{
	{""},
	{"", fillerA}, {fillerA, ""},
	{"", fillerA, fillerB}, {fillerA, "", fillerB}, {fillerA, fillerB, ""},
}

func listHeads() []listHead {
	var hs []listHead
	both := func(name, slot, typeArgs string, leading bool) {
		hs = append(hs, listHead{name: name, slot: slot, open: `(s:make-validator "u" ` + typeArgs, close: ")", leadingString: leading})
		hs = append(hs, listHead{name: "deftype/" + name, slot: slot, open: `(progn (s:deftype "c14-ml" ` + typeArgs, close: ") c14-ml)", leadingString: leading})
	}
	for _, t := range typeNamesExceptTagged() {
		both(t, "constraint-list", "s:"+t, false)
	}
	tv := "constraint-list(tagged-value)"
	both("tagged-value", tv, "s:tagged-value", true)
	for _, sub := range []string{"any", "string", "int"} {
		both("tagged-value+"+sub, tv, "s:tagged-value s:"+sub, false)
	}
	for _, sub := range []string{"any", "string"} {
		hs = append(hs, listHead{name: "typedef+" + sub, slot: tv, open: `(s:make-validator ` + typedefA + ` s:` + sub, close: ")"})
	}
	both("type-slot-validator", "constraint-list(type-slot-validator)", refName, false)
	both("type-slot-nested-validator", "constraint-list(type-slot-validator)", `(s:make-validator "w" s:sorted-map)`, false)
	return hs
}

// things that are not constraints
var badAtoms = []atom{
	{"int", "5"}, {"float", "2.5"}, {"string", `"zz"`}, {"type-name", `"int"`},
	{"lambda", "(lambda (x) x)"}, {"builtin", "identity"}, {"nil", "()"}, {"true", "true"},
	{"unbound-symbol", "'c14-unbound"}, {"keyword", ":kw"},
}

func atomsExcept(skip string) []atom {
	var out []atom
	for _, a := range badAtoms {
		if a.name != skip {
			out = append(out, a)
		}
	}
	return out
}

func malCores() []malCore {
	var cs []malCore
	add := func(slot, what, src, expect string) {
		cs = append(cs, malCore{Slot: slot, What: what, Src: src, Expect: expect})
	}
	direct := func(slot, what, src, expect string) {
		cs = append(cs, malCore{Slot: slot, What: what, Src: src, Expect: expect, Direct: true})
	}
	ba := "bad-arguments"

	// -- the TYPE slot of make-validator / deftype: an unknown type
	typeAtoms := append(atomsExcept("type-name"), atom{"unknown-name", `"nonsense"`}, atom{"empty-name", `""`})
	for _, a := range typeAtoms {
		add("type", a.name, `(s:make-validator "u" `+a.src+`)`, ba)
		add("type", a.name+"+constraint", `(s:make-validator "u" `+a.src+` (s:lengte 0))`, ba)
		direct("deftype-type", a.name, `(s:deftype "c14-mt" `+a.src+`)`, ba)
	}
	add("type", "tagged-unknown-subtype", `(s:make-validator "u" s:tagged-value "nonsense")`, ba)
	add("type", "typedef-unknown-subtype", `(s:make-validator `+typedefA+` "nonsense")`, ba)

	// -- the NAME slot
	for _, a := range []atom{{"int", "5"}, {"symbol", "'x"}, {"nil", "()"}, {"tagged-non-typedef", `(new ` + typedefA + ` "a")`}, {"lambda", "(lambda (x) x)"}} {
		add("name", a.name, `(s:make-validator `+a.src+` s:int)`, ba)
	}
	for _, a := range []atom{{"int", "5"}, {"symbol", "'x"}, {"nil", "()"}, {"typedef", typedefA}} {
		direct("deftype-name", a.name, `(s:deftype `+a.src+` s:int)`, ba)
	}

	// -- the constraint list of a type: "a non-constraint where a constraint is
	// required".  EVERY base type (including tagged-value with and without a
	// leading user-data type name, the typedef-name form and a validator in the
	// TYPE position), both constructors, EVERY bad atom at EVERY position of
	// constraint lists of length 1..3 whose other entries are well-formed.
	for _, h := range listHeads() {
		for _, pat := range listPatterns {
			for pos, e := range pat {
				if e != "" {
					continue
				}
				for _, at := range badAtoms {
					if h.leadingString && pos == 0 && at.name == "type-name" {
						continue // a leading "int" IS the documented user-data type name
					}
					items := make([]string, len(pat))
					copy(items, pat)
					items[pos] = at.src
					what := fmt.Sprintf("%s/len%d/pos%d/%s", h.name, len(pat), pos, at.name)
					add(h.slot, what, h.open+" "+strings.Join(items, " ")+h.close, ba)
				}
			}
		}
	}

	// -- s:not
	for _, a := range badAtoms {
		add("not-arg", a.name, `(s:not `+a.src+`)`, ba)
	}
	add("not-arg", "type-symbol", `(s:not s:int)`, ba)

	// -- type slots of of / has-key / may-have-key; constraint slots of no-other-keys / when
	slotAtoms := append(atomsExcept("type-name"), atom{"unknown-name", `"nonsense"`})
	for _, a := range slotAtoms {
		add("of-type", a.name, `(s:of `+a.src+`)`, ba)
		add("of-type", "2nd/"+a.name, `(s:of s:fun `+a.src+`)`, ba)
		add("has-key-type", a.name, `(s:has-key "a" `+a.src+`)`, ba)
		add("has-key-type", "2nd/"+a.name, `(s:has-key "a" s:fun `+a.src+`)`, ba)
		add("may-have-key-type", a.name, `(s:may-have-key "a" `+a.src+`)`, ba)
		add("may-have-key-type", "2nd/"+a.name, `(s:may-have-key "a" s:fun `+a.src+`)`, ba)
		add("no-other-keys-arg", a.name, `(s:no-other-keys `+a.src+`)`, ba)
		add("no-other-keys-arg", "2nd/"+a.name, `(s:no-other-keys (s:may-have-key "a") `+a.src+`)`, ba)
		add("when-guard", a.name, `(s:when "a" `+a.src+` "b" (s:negative))`, ba)
		add("when-check", a.name, `(s:when "a" (s:lengte 0) "b" `+a.src+`)`, ba)
		add("when-check", "2nd/"+a.name, `(s:when "a" (s:lengte 0) "b" (s:lengte 0) `+a.src+`)`, ba)
	}

	// -- s:regexp: "a bad pattern"
	for _, a := range []atom{{"unclosed-paren", `"("`}, {"star", `"*"`}, {"unclosed-class", `"[a"`}, {"bad-repeat", `"a{2,1}"`},
		{"int", "5"}, {"symbol", "'a"}, {"nil", "()"}} {
		add("regexp-pattern", a.name, `(s:regexp `+a.src+`)`, ba)
	}

	// -- wrong number of arguments: must fail when built (the condition name is
	// the argument binder's, not the schema package's)
	for i, src := range []string{
		`(s:gt)`, `(s:gte)`, `(s:lt)`, `(s:lte)`, `(s:len)`, `(s:lengt)`, `(s:not)`, `(s:regexp)`, `(s:has-key)`, `(s:may-have-key)`,
		`(s:when)`, `(s:when "a")`, `(s:when "a" (s:positive))`, `(s:make-validator)`, `(s:make-validator "u")`,
		`(s:positive 1)`, `(s:negative 1)`, `(s:is-true 1)`, `(s:is-truthy 1)`, `(s:not (s:positive) (s:positive))`, `(s:gt 1 2)`, `(s:len 1 2)`, `(s:regexp "a" "b")`,
	} {
		add("arity", fmt.Sprintf("%d", i), src, "error")
	}

	// -- a parameter of the wrong kind: the documentation does not name the
	// condition, and some are accepted; only "no panic" is asserted
	for i, src := range []string{
		`(s:gt "a")`, `(s:gt true)`, `(s:gt ())`, `(s:lte 'a)`, `(s:len "a")`, `(s:len 2.5)`, `(s:len -1)`, `(s:lenlt ())`,
		`(s:has-key 1)`, `(s:has-key 'a)`, `(s:may-have-key 1 s:int)`, `(s:when 1 (s:positive) "b")`, `(s:when "a" (s:positive) 2)`,
		`(s:in (vector 1))`, `(s:in (sorted-map "a" 1))`, `(s:in identity)`,
	} {
		add("bad-param", fmt.Sprintf("%d", i), src, "open")
	}
	return cs
}

// contextsFor: which contexts a core is embedded in.
func contextsFor(c malCore) []malCtx {
	if c.Direct {
		return malContexts[:1]
	}
	if c.Expect != "bad-arguments" {
		return []malCtx{malContexts[0], malContexts[1], malContexts[4]}
	}
	return malContexts
}
