package c14

import (
	"regexp"
	"strconv"
	"strings"
)

// ---------------------------------------------------------------------------
// Schema terms.

// Node is one schema term: a constraint, a type name in a type slot, or a
// validator (s:make-validator / s:deftype).
type Node struct {
	Op string `json:"op"`
	// Num: parameter of gt/gte/lt/lte (number) and len* (int)
	Num *Val `json:"num,omitempty"`
	// In: parameters of s:in
	In []*Val `json:"in,omitempty"`
	// S: key (has-key, may-have-key, when), pattern (regexp), type name (type)
	S string `json:"s,omitempty"`
	// S2: match key of s:when
	S2 string `json:"s2,omitempty"`
	// Kids: of/has-key/may-have-key: allowed types; no-other-keys: constraints;
	// when: guard followed by checks; not: the constraint; validator: constraints
	Kids []*Node `json:"kids,omitempty"`
	// validator only
	Type      string `json:"type,omitempty"`    // base type name
	Sub       string `json:"sub,omitempty"`     // tagged-value: type of the user data ("" = none)
	ByTypedef bool   `json:"typedef,omitempty"` // (s:make-validator <typedef> SUB C*)
}

const (
	opValidator = "validator"
	opType      = "type"   // a type name in a type slot: s:int
	opRef       = "ref"    // 'c14u : quoted symbol naming a deftype'd validator (README usage)
	opSymRef    = "symref" // c14u  : the deftype'd validator itself
)

// refValidator is the meaning of the prelude's (s:deftype "c14u" s:int (s:gt 1)).
var refValidator = &Node{Op: opValidator, Type: "int", Kids: []*Node{{Op: "gt", Num: vInt(1)}}}

const refName = "c14u"

var typeNames = []string{"string", "number", "int", "float", "fun", "sorted-map", "array", "bool", "tagged-value", "any"}

func isNumOp(op string) bool {
	switch op {
	case "gt", "gte", "lt", "lte":
		return true
	}
	return false
}

func isLenOp(op string) bool {
	switch op {
	case "len", "lengt", "lengte", "lenlt", "lenlte":
		return true
	}
	return false
}

func isMapOp(op string) bool {
	switch op {
	case "has-key", "may-have-key", "no-other-keys", "when":
		return true
	}
	return false
}

// Src renders the term as ELPS source.
func (n *Node) Src() string {
	var b strings.Builder
	n.write(&b)
	return b.String()
}

func (n *Node) write(b *strings.Builder) {
	switch n.Op {
	case opType:
		b.WriteString("s:" + n.S)
	case opRef:
		b.WriteString("'" + refName)
	case opSymRef:
		b.WriteString(refName)
	case "in":
		b.WriteString("(s:in")
		for _, p := range n.In {
			b.WriteString(" " + litSrc(p))
		}
		b.WriteString(")")
	case "regexp":
		b.WriteString("(s:regexp " + strconv.Quote(n.S) + ")")
	case "has-key", "may-have-key":
		b.WriteString("(s:" + n.Op + " " + strconv.Quote(n.S))
		for _, k := range n.Kids {
			b.WriteString(" ")
			k.write(b)
		}
		b.WriteString(")")
	case "when":
		b.WriteString("(s:when " + strconv.Quote(n.S) + " ")
		n.Kids[0].write(b)
		b.WriteString(" " + strconv.Quote(n.S2))
		for _, k := range n.Kids[1:] {
			b.WriteString(" ")
			k.write(b)
		}
		b.WriteString(")")
	case opValidator:
		b.WriteString(n.validatorSrc("make-validator", `"u"`, false))
	default:
		b.WriteString("(s:" + n.Op)
		if n.Num != nil {
			b.WriteString(" " + litSrc(n.Num))
		}
		for _, k := range n.Kids {
			b.WriteString(" ")
			k.write(b)
		}
		b.WriteString(")")
	}
}

// validatorSrc renders a validator term with the given constructor
// (make-validator | deftype) and name expression.  typeAsString spells the
// base type as the string literal "int" instead of the symbol s:int.
func (n *Node) validatorSrc(ctor, name string, typeAsString bool) string {
	var b strings.Builder
	ty := func(t string) string {
		if typeAsString {
			return strconv.Quote(t)
		}
		return "s:" + t
	}
	b.WriteString("(s:" + ctor + " ")
	if n.ByTypedef {
		b.WriteString(typedefA + " " + ty(n.Sub))
	} else {
		b.WriteString(name + " " + ty(n.Type))
		if n.Sub != "" {
			b.WriteString(" " + ty(n.Sub))
		}
	}
	for _, k := range n.Kids {
		b.WriteString(" ")
		k.write(&b)
	}
	b.WriteString(")")
	return b.String()
}

// nodeClass is the coarse class of a term used in violation classes: the
// operator plus the parameter class that matters for its meaning.
func nodeClass(n *Node) string {
	switch {
	case n.Op == opType:
		return "type-" + n.S
	case n.Op == opValidator:
		return "validator-" + n.Type
	case n.Op == opRef || n.Op == opSymRef:
		return n.Op
	case isNumOp(n.Op):
		return n.Op + "(" + valueClass(n.Num) + ")"
	case n.Op == "has-key" || n.Op == "may-have-key" || n.Op == "of":
		if len(n.Kids) == 0 {
			return n.Op + "(no-types)"
		}
	}
	return n.Op
}

// size counts operators (used for simplest-first ordering and de-duplication).
func (n *Node) size() int {
	s := 1
	for _, k := range n.Kids {
		s += k.size()
	}
	return s
}

// ---------------------------------------------------------------------------
// The reference: the DOCUMENTED meaning of a schema term on a value, written
// from the docstrings of the `s` package and lisplib/libschema/README.md.
// Three-valued: yes (must validate), no (must be rejected), unk (the
// documentation does not say).

type tri int8

const (
	no tri = iota
	yes
	unk
)

func (t tri) String() string { return [...]string{"reject", "accept", "unspecified"}[t] }

const (
	cWT = 1 // wrong-type
	cFC = 2 // failed-constraint
)

// res is a verdict plus, for a rejection, the set of condition names the
// documentation allows.
type res struct {
	t     tri
	conds uint8
}

var (
	rYes    = res{t: yes}
	rUnk    = res{t: unk, conds: cWT | cFC}
	rNoFC   = res{t: no, conds: cFC}
	rNoWT   = res{t: no, conds: cWT}
	rNoBoth = res{t: no, conds: cWT | cFC}
)

func (r res) String() string {
	switch r.t {
	case yes:
		return "accept: ()"
	case no:
		return "reject: " + condNames(r.conds)
	}
	return "unspecified (accept, wrong-type or failed-constraint)"
}

func condNames(c uint8) string {
	switch c {
	case cWT:
		return "wrong-type"
	case cFC:
		return "failed-constraint"
	}
	return "wrong-type|failed-constraint"
}

func andAll(rs []res) res {
	anyNo, anyUnk := false, false
	var conds uint8
	for _, r := range rs {
		switch r.t {
		case no:
			anyNo = true
			conds |= r.conds
		case unk:
			anyUnk = true
		}
	}
	if anyNo {
		if anyUnk {
			conds = cWT | cFC
		}
		return res{t: no, conds: conds}
	}
	if anyUnk {
		return rUnk
	}
	return rYes
}

func orAny(ts []tri) tri {
	out := no
	for _, t := range ts {
		if t == yes {
			return yes
		}
		if t == unk {
			out = unk
		}
	}
	return out
}

func fromBool(b bool, conds uint8) res {
	if b {
		return rYes
	}
	return res{t: no, conds: conds}
}

// hasType: "Type name for ... values" (symbol docs in LoadPackage, README table).
func hasType(t string, v *Val) tri {
	b := func(x bool) tri {
		if x {
			return yes
		}
		return no
	}
	switch t {
	case "string":
		return b(v.K == kStr)
	case "int":
		return b(v.K == kInt)
	case "float":
		return b(v.K == kFloat)
	case "number":
		return b(v.K == kInt || v.K == kFloat)
	case "fun":
		return b(v.K == kFun)
	case "sorted-map":
		return b(v.K == kMap)
	case "array":
		return b(v.K == kArr)
	case "bytes":
		return b(v.K == kBytes)
	case "tagged-value":
		return b(v.K == kTag)
	case "any":
		return yes
	case "bool":
		// "boolean values (true or false)".  lang.md: "The value nil is used in
		// the language to represent a false boolean value" -- () is left open.
		if v.K == kSym && (v.S == "true" || v.S == "false") {
			return yes
		}
		if v.K == kNil {
			return unk
		}
		return no
	}
	panic("harness: unknown type " + t)
}

// cmpNum compares two numbers for the ordering constraints.  Two ints compare
// exactly (ints are 64-bit).  When a float is involved the language compares
// as floats (lang.md documents the loss above 2^53), so an int beyond 2^53
// against a float is left open.
func cmpNum(a, b *Val) (c int, known bool) {
	if a.K == kInt && b.K == kInt {
		switch {
		case a.I < b.I:
			return -1, true
		case a.I > b.I:
			return 1, true
		}
		return 0, true
	}
	f := func(v *Val) (float64, bool) {
		if v.K == kFloat {
			return v.F, true
		}
		return float64(v.I), absI(v.I) <= two53
	}
	x, ok1 := f(a)
	y, ok2 := f(b)
	if !ok1 || !ok2 {
		return 0, false
	}
	switch {
	case x < y:
		return -1, true
	case x > y:
		return 1, true
	}
	return 0, true
}

// equalVals: "is equal to one of the allowed values" (equal?: "structurally
// equal").  Whether an int equals the float of the same value is left open.
func equalVals(a, b *Val) tri {
	num := func(v *Val) bool { return v.K == kInt || v.K == kFloat }
	if num(a) && num(b) {
		if a.K == b.K {
			if a.K == kInt && a.I == b.I || a.K == kFloat && a.F == b.F {
				return yes
			}
			return no
		}
		fa, fb := a.F, b.F
		if a.K == kInt {
			fa = float64(a.I)
		}
		if b.K == kInt {
			fb = float64(b.I)
		}
		if fa == fb {
			return unk
		}
		return no
	}
	if a.K != b.K {
		return no
	}
	switch a.K {
	case kStr, kSym:
		if a.S == b.S {
			return yes
		}
		return no
	case kNil:
		return yes
	}
	return unk
}

func isASCII(s string) bool {
	for i := 0; i < len(s); i++ {
		if s[i] >= 0x80 {
			return false
		}
	}
	return true
}

var reCache = map[string]*regexp.Regexp{}

func init() {
	for _, p := range regexpPatterns {
		reCache[p] = regexp.MustCompile(p) // "Uses Go RE2 syntax"
	}
}

var regexpPatterns = []string{"^a+$", "b", ""}

// eval is the documented meaning of term n on value v.
func eval(n *Node, v *Val) res {
	switch n.Op {
	case opType:
		return res{t: hasType(n.S, v), conds: cWT | cFC}
	case opRef, opSymRef:
		return eval(refValidator, v)
	case opValidator:
		return evalValidator(n, v)

	case "in":
		ts := make([]tri, 0, len(n.In))
		for _, p := range n.In {
			ts = append(ts, equalVals(v, p))
		}
		return res{t: orAny(ts), conds: cFC}

	case "gt", "gte", "lt", "lte", "positive", "negative":
		// "Works with numeric types": a non-number is left open.
		if v.K != kInt && v.K != kFloat {
			return rUnk
		}
		p := n.Num
		if p == nil {
			p = vInt(0)
		}
		c, known := cmpNum(v, p)
		if !known {
			return rUnk
		}
		switch n.Op {
		case "gt", "positive":
			return fromBool(c > 0, cFC)
		case "gte":
			return fromBool(c >= 0, cFC)
		case "lt", "negative":
			return fromBool(c < 0, cFC)
		default:
			return fromBool(c <= 0, cFC)
		}

	case "len", "lengt", "lengte", "lenlt", "lenlte":
		// "Works with strings, bytes, and arrays": anything else is left open.
		var l int
		switch v.K {
		case kStr:
			if !isASCII(v.S) {
				return rUnk
			}
			l = len(v.S)
		case kBytes:
			l = v.N
		case kArr:
			l = len(v.Elems)
		default:
			return rUnk
		}
		k := int(n.Num.I)
		switch n.Op {
		case "len":
			return fromBool(l == k, cFC)
		case "lengt":
			return fromBool(l > k, cFC)
		case "lengte":
			return fromBool(l >= k, cFC)
		case "lenlt":
			return fromBool(l < k, cFC)
		default:
			return fromBool(l <= k, cFC)
		}

	case "is-true": // "the boolean true symbol"
		return fromBool(v.K == kSym && v.S == "true", cFC)
	case "is-false": // "the boolean false symbol"
		return fromBool(v.K == kSym && v.S == "false", cFC)
	case "is-truthy":
		return res{t: truthy(v), conds: cFC}
	case "is-falsy": // "the logical negation of is-truthy"
		switch truthy(v) {
		case yes:
			return rNoFC
		case no:
			return rYes
		}
		return rUnk

	case "regexp":
		// "checks if a string input matches": an input that is not a string is
		// not a string input that matches -- in particular not a symbol, keyword
		// or tagged value whose NAME happens to match.
		if v.K != kStr {
			return rNoFC
		}
		return fromBool(reCache[n.S].MatchString(v.S), cFC)

	case "not":
		switch r := eval(n.Kids[0], v); r.t {
		case yes:
			return rNoFC
		case no:
			return rYes
		}
		return rUnk

	case "of": // "a constraint for arrays that checks each element matches one of the allowed types"
		if v.K != kArr {
			return rUnk
		}
		rs := make([]res, 0, len(v.Elems))
		for _, e := range v.Elems {
			if len(n.Kids) == 0 {
				rs = append(rs, rUnk) // no allowed type at all: undocumented
				continue
			}
			rs = append(rs, res{t: matchesOne(n.Kids, e), conds: cWT | cFC})
		}
		r := andAll(rs)
		r.conds = cWT | cFC
		return r

	case "has-key":
		// "checks the map has the specified key and its value matches one of the
		// allowed types"; README: "(s:has-key name[ type ...]) ... optionally
		// requiring the value therein to be of type".
		if v.K != kMap {
			return rNoBoth // a value that is not a map has no key
		}
		val, ok := v.get(n.S)
		if !ok {
			return rNoBoth
		}
		if len(n.Kids) == 0 {
			return rYes
		}
		return res{t: matchesOne(n.Kids, val), conds: cWT | cFC}

	case "may-have-key": // "If the key is absent, validation passes."
		if v.K != kMap {
			return rUnk
		}
		val, ok := v.get(n.S)
		if !ok || len(n.Kids) == 0 {
			return rYes
		}
		return res{t: matchesOne(n.Kids, val), conds: cWT | cFC}

	case "no-other-keys":
		// "rejects maps with keys not declared by the given has-key or
		// may-have-key constraints"; the given constraints still apply (README).
		if v.K != kMap {
			return rUnk
		}
		rs := make([]res, 0, len(n.Kids)+1)
		declared := map[string]bool{}
		for _, k := range n.Kids {
			rs = append(rs, eval(k, v))
			if k.Op == "has-key" || k.Op == "may-have-key" {
				declared[k.S] = true
			}
		}
		for _, k := range v.Keys {
			if !declared[k.S] {
				rs = append(rs, rNoFC)
			}
		}
		r := andAll(rs)
		r.conds = cWT | cFC
		return r

	case "when":
		// "When the value at key satisfies constraint, the value at matchKey must
		// satisfy all additional constraints. If the condition is not met, the
		// constraint passes."  The value at a missing key is nil (`get`:
		// "Returns the value associated with key in a sorted-map, or nil if the
		// key is not present"), for the guard key and the match key alike: a
		// guard that accepts nil is satisfied and the clause applies.
		if v.K != kMap {
			return rUnk
		}
		gv, ok := v.get(n.S)
		if !ok {
			gv = vNil()
		}
		g := eval(n.Kids[0], gv)
		if g.t == no {
			return rYes
		}
		checks := rYes
		if len(n.Kids) > 1 {
			mv, ok := v.get(n.S2)
			if !ok {
				mv = vNil()
			}
			rs := make([]res, 0, len(n.Kids)-1)
			for _, c := range n.Kids[1:] {
				rs = append(rs, eval(c, mv))
			}
			checks = andAll(rs)
		}
		if g.t == unk && checks.t != yes {
			return rUnk
		}
		checks.conds = cWT | cFC
		return checks
	}
	panic("harness: unknown op " + n.Op)
}

// matchesOne: the value matches one of the allowed types (type names, nested
// validators, quoted names of deftype'd validators).
func matchesOne(types []*Node, v *Val) tri {
	ts := make([]tri, 0, len(types))
	for _, t := range types {
		ts = append(ts, eval(t, v).t)
	}
	return orAny(ts)
}

// truthy: "Truthy values include: true, non-empty strings (not "false"),
// non-empty arrays/maps/bytes, and positive numbers."  README: "equivalent to
// true ... arrays must be non-empty etc."  Kinds the list does not mention
// (nil, lists, functions, tagged values, other symbols) are left open.
func truthy(v *Val) tri {
	b := func(x bool) tri {
		if x {
			return yes
		}
		return no
	}
	switch v.K {
	case kSym:
		switch v.S {
		case "true":
			return yes
		case "false":
			return no
		}
		return unk
	case kStr:
		return b(v.S != "" && v.S != "false")
	case kArr:
		return b(len(v.Elems) > 0)
	case kMap:
		return b(len(v.Keys) > 0)
	case kBytes:
		return b(v.N > 0)
	case kInt:
		return b(v.I > 0)
	case kFloat:
		return b(v.F > 0)
	case kNil:
		// lang.md: "The value nil is used in the language to represent a false
		// boolean value" -- nil is not "equivalent to true"
		return no
	}
	return unk
}

// evalValidator: "succeed iff the value has the declared type and satisfies
// every constraint"; a base-type mismatch is wrong-type (README).
func evalValidator(n *Node, v *Val) res {
	tc := hasType(n.Type, v)
	if tc == no {
		return rNoWT
	}
	subject := v
	rs := []res{{t: tc, conds: cWT | cFC}}
	if n.Type == "tagged-value" && v.K == kTag && (n.Sub != "" || len(n.Kids) > 0) {
		// "the type argument is treated as a constraint on the user-data";
		// README: (s:deftype "abc-like" s:tagged-value s:string (s:in ...)).
		subject = v.U
		if n.Sub != "" {
			st := hasType(n.Sub, subject)
			if st == no {
				return rNoWT
			}
			rs = append(rs, res{t: st, conds: cWT | cFC})
		}
	}
	for _, k := range n.Kids {
		rs = append(rs, eval(k, subject))
	}
	return andAll(rs)
}
