package c14

import (
	"math"
	"strconv"
	"strings"
)

// ---------------------------------------------------------------------------
// The value model of the reference evaluator.  It is deliberately tiny: only
// what the documentation of the `s` package distinguishes.

type kind int

const (
	kInt kind = iota
	kFloat
	kStr
	kSym
	kNil
	kList
	kArr
	kBytes
	kFun
	kTag
	kMap
)

// Val is a model value.  Every field is exported so that a case round-trips
// through JSON for replay.
type Val struct {
	K     kind    `json:"k"`
	I     int64   `json:"i,omitempty"`
	F     float64 `json:"f,omitempty"`
	S     string  `json:"s,omitempty"` // string contents / symbol name / tagged type
	Elems []*Val  `json:"e,omitempty"` // array or list elements
	Keys  []*Val  `json:"mk,omitempty"`
	Vals  []*Val  `json:"mv,omitempty"`
	U     *Val    `json:"u,omitempty"` // user data of a tagged value
	N     int     `json:"n,omitempty"` // byte length of a bytes value
	JSON  bool    `json:"json,omitempty"`
}

func vInt(i int64) *Val     { return &Val{K: kInt, I: i} }
func vFloat(f float64) *Val { return &Val{K: kFloat, F: f} }
func vStr(s string) *Val    { return &Val{K: kStr, S: s} }
func vSym(s string) *Val    { return &Val{K: kSym, S: s} }
func vNil() *Val            { return &Val{K: kNil} }
func vArr(e ...*Val) *Val   { return &Val{K: kArr, Elems: e} }
func vBytes(n int) *Val     { return &Val{K: kBytes, N: n} }
func vFun() *Val            { return &Val{K: kFun} }
func vTag(t string, u *Val) *Val {
	return &Val{K: kTag, S: t, U: u}
}

// vMap builds a map from alternating key / value model values.
func vMap(kv ...*Val) *Val {
	m := &Val{K: kMap}
	for i := 0; i+1 < len(kv); i += 2 {
		m.Keys = append(m.Keys, kv[i])
		m.Vals = append(m.Vals, kv[i+1])
	}
	return m
}

// get looks a key up "as a string": the README says a string key also matches
// a symbol-keyed entry of a literal sorted-map.
func (v *Val) get(key string) (*Val, bool) {
	for i, k := range v.Keys {
		if (k.K == kStr || k.K == kSym) && k.S == key {
			return v.Vals[i], true
		}
	}
	return nil, false
}

const two53 = int64(1) << 53

func absI(i int64) int64 {
	if i == math.MinInt64 {
		return math.MaxInt64
	}
	if i < 0 {
		return -i
	}
	return i
}

// valueClass is the coarse class of an input value used in violation classes.
func valueClass(v *Val) string {
	if v == nil {
		return "absent"
	}
	switch v.K {
	case kInt:
		if absI(v.I) >= two53 {
			return "int>=2^53"
		}
		return "int"
	case kFloat:
		if math.Abs(v.F) >= float64(two53) {
			return "float>=2^53"
		}
		return "float"
	case kStr:
		switch {
		case v.S == "":
			return "string-empty"
		case v.S == "true" || v.S == "false":
			return "string-boolname"
		}
		return "string"
	case kSym:
		if v.S == "true" || v.S == "false" {
			return "sym-" + v.S
		}
		if strings.HasPrefix(v.S, ":") {
			return "keyword"
		}
		return "sym"
	case kNil:
		return "nil"
	case kList:
		return "list"
	case kArr:
		if len(v.Elems) == 0 {
			return "array-empty"
		}
		return "array"
	case kBytes:
		if v.N == 0 {
			return "bytes-empty"
		}
		return "bytes"
	case kFun:
		return "fun"
	case kTag:
		return "tagged"
	case kMap:
		s := "map"
		if len(v.Keys) == 0 {
			s = "map-empty"
		}
		if v.JSON {
			s += "-json"
		}
		return s
	}
	return "?"
}

// litSrc renders a parameter value (numbers, strings, the symbols true/false)
// as ELPS source.
func litSrc(v *Val) string {
	switch v.K {
	case kInt:
		return strconv.FormatInt(v.I, 10)
	case kFloat:
		s := strconv.FormatFloat(v.F, 'f', -1, 64)
		if !strings.Contains(s, ".") {
			s += ".0"
		}
		return s
	case kStr:
		return strconv.Quote(v.S)
	case kSym:
		if v.S == "true" || v.S == "false" || strings.HasPrefix(v.S, ":") {
			return v.S
		}
		return "'" + v.S
	case kNil:
		return "()"
	}
	panic("harness: litSrc of non-literal")
}

// ---------------------------------------------------------------------------
// The input alphabet.

// Input is one value of the input alphabet: its ELPS source and its model.
type Input struct {
	Name string `json:"name"`
	Src  string `json:"src"`
	V    *Val   `json:"v"`
	// Twin names the lisp-built / string-keyed input this one must validate
	// exactly like (JSON-decoded vs lisp-built, symbol- vs string-keyed).
	Twin     string `json:"twin,omitempty"`
	TwinKind string `json:"twin_kind,omitempty"` // "json" | "symkey"
}

func jsonSrc(doc string) string {
	return "(json:load-string " + strconv.Quote(doc) + ")"
}

// markJSON marks every map inside v as JSON-decoded.
func markJSON(v *Val) *Val {
	c := *v
	if c.K == kMap {
		c.JSON = true
	}
	c.Elems = nil
	for _, e := range v.Elems {
		c.Elems = append(c.Elems, markJSON(e))
	}
	c.Vals = nil
	for _, e := range v.Vals {
		c.Vals = append(c.Vals, markJSON(e))
	}
	return &c
}

const typedefA = "c14tg"
const typedefB = "c14tgb"

// allInputs is the complete input alphabet in its canonical order.
func allInputs() []Input {
	var in []Input
	add := func(name, src string, v *Val) {
		in = append(in, Input{Name: name, Src: src, V: v})
	}
	// integers, with the 2^53 boundary
	for _, i := range []int64{0, 1, 2, 3, -1, two53, two53 + 1, two53 + 2, -2, -3, -two53 - 1, math.MaxInt64, math.MaxInt64 - 1, math.MinInt64, math.MinInt64 + 1} {
		add("int:"+strconv.FormatInt(i, 10), strconv.FormatInt(i, 10), vInt(i))
	}
	// floats
	for _, f := range []struct {
		s string
		f float64
	}{{"0.0", 0}, {"1.0", 1}, {"2.5", 2.5}, {"-1.5", -1.5}, {"9007199254740992.0", float64(two53)},
		// fractions below one (a detour through an integer truncates them to zero) and magnitudes no int64 holds
		{"0.5", 0.5}, {"-0.5", -0.5}, {"0.001", 0.001}, {"1e300", 1e300}, {"-1e300", -1e300}} {
		add("float:"+f.s, f.s, vFloat(f.f))
	}
	// strings
	for _, s := range []string{"", "a", "aa", "b", "ab", "true", "false"} {
		add("str:"+strconv.Quote(s), strconv.Quote(s), vStr(s))
	}
	// symbols and nil
	add("sym:true", "true", vSym("true"))
	add("sym:false", "false", vSym("false"))
	add("sym:abc", "'abc", vSym("abc"))
	add("nil", "()", vNil())
	add("list", "'(1 2)", &Val{K: kList, Elems: []*Val{vInt(1), vInt(2)}})
	// arrays
	add("arr:empty", "(vector)", vArr())
	add("arr:1", "(vector 1)", vArr(vInt(1)))
	add("arr:a", `(vector "a")`, vArr(vStr("a")))
	add("arr:1,a", `(vector 1 "a")`, vArr(vInt(1), vStr("a")))
	add("arr:2,3", "(vector 2 3)", vArr(vInt(2), vInt(3)))
	add("arr:1.0", "(vector 1.0)", vArr(vFloat(1)))
	add("arr:map", `(vector (sorted-map "a" 1))`, vArr(vMap(vStr("a"), vInt(1))))
	// bytes
	add("bytes:empty", `(to-bytes "")`, vBytes(0))
	add("bytes:ab", `(to-bytes "ab")`, vBytes(2))
	// functions
	add("fun:lambda", "(lambda (x) x)", vFun())
	add("fun:builtin", "identity", vFun())
	// tagged values
	add("tag:a", `(new `+typedefA+` "a")`, vTag(typedefA, vStr("a")))
	add("tag:2", `(new `+typedefA+` 2)`, vTag(typedefA, vInt(2)))
	add("tagb:a", `(new `+typedefB+` "a")`, vTag(typedefB, vStr("a")))

	// maps built in lisp, string-keyed
	sk := func(k string) *Val { return vStr(k) }
	add("map:empty", "(sorted-map)", vMap())
	add("map:a=1", `(sorted-map "a" 1)`, vMap(sk("a"), vInt(1)))
	add("map:a=2", `(sorted-map "a" 2)`, vMap(sk("a"), vInt(2)))
	add("map:a=str", `(sorted-map "a" "a")`, vMap(sk("a"), vStr("a")))
	add("map:a=1,b=2", `(sorted-map "a" 1 "b" 2)`, vMap(sk("a"), vInt(1), sk("b"), vInt(2)))
	add("map:a=1,b=str", `(sorted-map "a" 1 "b" "a")`, vMap(sk("a"), vInt(1), sk("b"), vStr("a")))
	add("map:b=1", `(sorted-map "b" 1)`, vMap(sk("b"), vInt(1)))
	add("map:a=1,c=3", `(sorted-map "a" 1 "c" 3)`, vMap(sk("a"), vInt(1), sk("c"), vInt(3)))
	add("map:a=true,b=false", `(sorted-map "a" true "b" false)`, vMap(sk("a"), vSym("true"), sk("b"), vSym("false")))
	add("map:a=map", `(sorted-map "a" (sorted-map "a" 1))`, vMap(sk("a"), vMap(sk("a"), vInt(1))))
	add("map:a=arr", `(sorted-map "a" (vector 1))`, vMap(sk("a"), vArr(vInt(1))))
	add("map:a=nil", `(sorted-map "a" ())`, vMap(sk("a"), vNil()))
	add("map:a=2^53+1", `(sorted-map "a" 9007199254740993)`, vMap(sk("a"), vInt(two53+1)))

	// Values whose name / spelling coincides with a declared STRING without
	// being that string (LVal.Str is also a symbol's name, a tagged value's
	// type name, and "" for numbers, (), arrays and maps): for every declared
	// string s the symbol s, the keyword :s, the bytes with the same content,
	// a tagged value whose type name is s -- alone and as map value / element.
	add("sym:a", "'a", vSym("a"))
	add("sym:b", "'b", vSym("b"))
	add("sym:a-unquoted", "(car '(a))", vSym("a"))
	add("kw:a", ":a", vSym(":a"))
	add("kw:true", ":true", vSym(":true"))
	add("sym:n/a", "'n/a", vSym("n/a"))
	add("str:\"n/a\"", `"n/a"`, vStr("n/a"))
	add("str:typename", `"user:`+typedefA+`"`, vStr("user:"+typedefA))
	add("str:\"1\"", `"1"`, vStr("1"))
	add("bytes:a", `(to-bytes "a")`, vBytes(1))
	add("tag:sym-a", `(new `+typedefA+` 'a)`, vTag(typedefA, vSym("a")))
	add("arr:sym-a", "(vector 'a)", vArr(vSym("a")))
	add("arr:a,sym-a", `(vector "a" 'a)`, vArr(vStr("a"), vSym("a")))
	add("map:a=sym-a", `(sorted-map "a" 'a)`, vMap(sk("a"), vSym("a")))
	add("map:a=empty-str", `(sorted-map "a" "")`, vMap(sk("a"), vStr("")))
	add("map:a=sym-a,b=1", `(sorted-map "a" 'a "b" 1)`, vMap(sk("a"), vSym("a"), sk("b"), vInt(1)))
	add("kwmap:a=1", `(sorted-map :a 1)`, vMap(vSym(":a"), vInt(1)))
	// both sides of the derived-type thresholds (age >= 0, adult >= 2, senior >= 3)
	add("arr:3", "(vector 3)", vArr(vInt(3)))
	add("map:a=3", `(sorted-map "a" 3)`, vMap(sk("a"), vInt(3)))
	add("map:a=3,b=1", `(sorted-map "a" 3 "b" 1)`, vMap(sk("a"), vInt(3), sk("b"), vInt(1)))
	add("map:a=3,b=3", `(sorted-map "a" 3 "b" 3)`, vMap(sk("a"), vInt(3), sk("b"), vInt(3)))
	add("map:a=-1", `(sorted-map "a" -1)`, vMap(sk("a"), vInt(-1)))
	// for each declared key: ABSENT, bound to nil, false, "", 0, and a
	// satisfying / violating value of the other key
	add("map:b=2", `(sorted-map "b" 2)`, vMap(sk("b"), vInt(2)))
	add("map:b=false", `(sorted-map "b" false)`, vMap(sk("b"), vSym("false")))
	add("map:b=true", `(sorted-map "b" true)`, vMap(sk("b"), vSym("true")))
	add("map:b=nil", `(sorted-map "b" ())`, vMap(sk("b"), vNil()))
	add("map:a=nil,b=1", `(sorted-map "a" () "b" 1)`, vMap(sk("a"), vNil(), sk("b"), vInt(1)))
	add("map:a=nil,b=2", `(sorted-map "a" () "b" 2)`, vMap(sk("a"), vNil(), sk("b"), vInt(2)))
	add("map:a=nil,b=false", `(sorted-map "a" () "b" false)`, vMap(sk("a"), vNil(), sk("b"), vSym("false")))
	add("map:a=false,b=1", `(sorted-map "a" false "b" 1)`, vMap(sk("a"), vSym("false"), sk("b"), vInt(1)))
	add("map:a=empty-str,b=1", `(sorted-map "a" "" "b" 1)`, vMap(sk("a"), vStr(""), sk("b"), vInt(1)))
	add("map:a=0,b=1", `(sorted-map "a" 0 "b" 1)`, vMap(sk("a"), vInt(0), sk("b"), vInt(1)))
	add("map:a=0", `(sorted-map "a" 0)`, vMap(sk("a"), vInt(0)))
	add("map:a=false", `(sorted-map "a" false)`, vMap(sk("a"), vSym("false")))

	// the same maps symbol-keyed
	symTwin := func(name, src string, v *Val, twin string) {
		in = append(in, Input{Name: name, Src: src, V: v, Twin: twin, TwinKind: "symkey"})
	}
	ym := func(k string) *Val { return vSym(k) }
	symTwin("symmap:a=1", `(sorted-map 'a 1)`, vMap(ym("a"), vInt(1)), "map:a=1")
	symTwin("symmap:a=str", `(sorted-map 'a "a")`, vMap(ym("a"), vStr("a")), "map:a=str")
	symTwin("symmap:a=1,b=2", `(sorted-map 'a 1 'b 2)`, vMap(ym("a"), vInt(1), ym("b"), vInt(2)), "map:a=1,b=2")
	symTwin("symmap:a=1,c=3", `(sorted-map 'a 1 'c 3)`, vMap(ym("a"), vInt(1), ym("c"), vInt(3)), "map:a=1,c=3")
	symTwin("symmap:b=1", `(sorted-map 'b 1)`, vMap(ym("b"), vInt(1)), "map:b=1")
	symTwin("symmap:b=2", `(sorted-map 'b 2)`, vMap(ym("b"), vInt(2)), "map:b=2")
	symTwin("symmap:b=false", `(sorted-map 'b false)`, vMap(ym("b"), vSym("false")), "map:b=false")
	symTwin("symmap:a=nil,b=1", `(sorted-map 'a () 'b 1)`, vMap(ym("a"), vNil(), ym("b"), vInt(1)), "map:a=nil,b=1")

	// JSON-decoded documents and their lisp-built twins (json numbers decode
	// as floats: docs/lang.md "JSON numbers and integer precision").
	type jd struct {
		name, doc, twinSrc string
		v                  *Val
	}
	fl := vFloat
	docs := []jd{
		{"{}", `{}`, `(sorted-map)`, vMap()},
		{"a=1", `{"a":1}`, `(sorted-map "a" 1.0)`, vMap(sk("a"), fl(1))},
		{"a=2", `{"a":2}`, `(sorted-map "a" 2.0)`, vMap(sk("a"), fl(2))},
		{"a=2.5", `{"a":2.5}`, `(sorted-map "a" 2.5)`, vMap(sk("a"), fl(2.5))},
		{"a=str", `{"a":"a"}`, `(sorted-map "a" "a")`, vMap(sk("a"), vStr("a"))},
		{"a=1,b=2", `{"a":1,"b":2}`, `(sorted-map "a" 1.0 "b" 2.0)`, vMap(sk("a"), fl(1), sk("b"), fl(2))},
		{"a=1,b=str", `{"a":1,"b":"a"}`, `(sorted-map "a" 1.0 "b" "a")`, vMap(sk("a"), fl(1), sk("b"), vStr("a"))},
		{"b=1", `{"b":1}`, `(sorted-map "b" 1.0)`, vMap(sk("b"), fl(1))},
		{"a=1,c=3", `{"a":1,"c":3}`, `(sorted-map "a" 1.0 "c" 3.0)`, vMap(sk("a"), fl(1), sk("c"), fl(3))},
		{"a=true,b=false", `{"a":true,"b":false}`, `(sorted-map "a" true "b" false)`, vMap(sk("a"), vSym("true"), sk("b"), vSym("false"))},
		{"a=map", `{"a":{"a":1}}`, `(sorted-map "a" (sorted-map "a" 1.0))`, vMap(sk("a"), vMap(sk("a"), fl(1)))},
		{"a=arr", `{"a":[1]}`, `(sorted-map "a" (vector 1.0))`, vMap(sk("a"), vArr(fl(1)))},
		{"a=null", `{"a":null}`, `(sorted-map "a" ())`, vMap(sk("a"), vNil())},
		{"b=2", `{"b":2}`, `(sorted-map "b" 2.0)`, vMap(sk("b"), fl(2))},
		{"b=false", `{"b":false}`, `(sorted-map "b" false)`, vMap(sk("b"), vSym("false"))},
		{"b=null", `{"b":null}`, `(sorted-map "b" ())`, vMap(sk("b"), vNil())},
		{"a=null,b=1", `{"a":null,"b":1}`, `(sorted-map "a" () "b" 1.0)`, vMap(sk("a"), vNil(), sk("b"), fl(1))},
		{"a=null,b=false", `{"a":null,"b":false}`, `(sorted-map "a" () "b" false)`, vMap(sk("a"), vNil(), sk("b"), vSym("false"))},
		{"a=false,b=1", `{"a":false,"b":1}`, `(sorted-map "a" false "b" 1.0)`, vMap(sk("a"), vSym("false"), sk("b"), fl(1))},
		{"a=empty-str,b=1", `{"a":"","b":1}`, `(sorted-map "a" "" "b" 1.0)`, vMap(sk("a"), vStr(""), sk("b"), fl(1))},
		{"a=0,b=1", `{"a":0,"b":1}`, `(sorted-map "a" 0.0 "b" 1.0)`, vMap(sk("a"), fl(0), sk("b"), fl(1))},
		{"[1]", `[1]`, `(vector 1.0)`, vArr(fl(1))},
		{"[]", `[]`, `(vector)`, vArr()},
		{"[map]", `[{"a":1}]`, `(vector (sorted-map "a" 1.0))`, vArr(vMap(sk("a"), fl(1)))},
		{"str", `"a"`, `"a"`, vStr("a")},
		{"true", `true`, `true`, vSym("true")},
		{"1", `1`, `1.0`, fl(1)},
	}
	have := map[string]bool{}
	for _, i := range in {
		have[i.Src] = true
	}
	for _, d := range docs {
		twinName := ""
		for _, i := range in {
			if i.Src == d.twinSrc {
				twinName = i.Name
			}
		}
		if twinName == "" {
			twinName = "twin:" + d.name
			add(twinName, d.twinSrc, d.v)
		}
		in = append(in, Input{Name: "json:" + d.name, Src: jsonSrc(d.doc), V: markJSON(d.v), Twin: twinName, TwinKind: "json"})
	}
	return in
}

func inputIndex(in []Input) map[string]int {
	m := map[string]int{}
	for i, x := range in {
		m[x.Name] = i
	}
	return m
}
