package c15

// The boring reference model of C15: an RFC 3339 recogniser, proleptic
// Gregorian civil-date <-> epoch arithmetic on integers, and a duration-string
// evaluator on exact rationals.  Nothing in this file uses Go's time package.

import (
	"math"
	"math/big"
	"sort"
	"strings"
)

// inst is an instant: whole seconds since 1970-01-01T00:00:00Z (floor) and
// the nanoseconds 0..999999999 within that second.
type inst struct{ sec, ns int64 }

func (a inst) cmp(b inst) int {
	switch {
	case a.sec < b.sec:
		return -1
	case a.sec > b.sec:
		return 1
	case a.ns < b.ns:
		return -1
	case a.ns > b.ns:
		return 1
	}
	return 0
}

var bigE9 = big.NewInt(1_000_000_000)

// big returns the instant as epoch nanoseconds.
func (a inst) big() *big.Int {
	n := new(big.Int).Mul(big.NewInt(a.sec), bigE9)
	return n.Add(n, big.NewInt(a.ns))
}

// instFromBig is the inverse of big (floor division).
func instFromBig(n *big.Int) inst {
	q, m := new(big.Int).DivMod(n, bigE9, new(big.Int)) // Euclidean: 0 <= m < 1e9
	return inst{q.Int64(), m.Int64()}
}

var (
	bigMaxI64 = big.NewInt(math.MaxInt64)
	bigMinI64 = big.NewInt(math.MinInt64)
)

func fitsI64(n *big.Int) bool { return n.Cmp(bigMinI64) >= 0 && n.Cmp(bigMaxI64) <= 0 }

func isLeap(y int64) bool { return y%4 == 0 && (y%100 != 0 || y%400 == 0) }

func daysIn(y, m int64) int64 {
	switch m {
	case 4, 6, 9, 11:
		return 30
	case 2:
		if isLeap(y) {
			return 29
		}
		return 28
	}
	return 31
}

// daysFromCivil: days since 1970-01-01 of the proleptic Gregorian date
// (year 0 = 1 BC, a leap year).  Integer arithmetic only.
func daysFromCivil(y, m, d int64) int64 {
	if m <= 2 {
		y--
	}
	var era int64
	if y >= 0 {
		era = y / 400
	} else {
		era = (y - 399) / 400
	}
	yoe := y - era*400 // [0,399]
	mp := (m + 9) % 12 // March = 0
	doy := (153*mp+2)/5 + d - 1
	doe := yoe*365 + yoe/4 - yoe/100 + doy
	return era*146097 + doe - 719468
}

// civil is a decoded timestamp; every field is the literal field value.
type civil struct {
	y, mo, d, h, mi, s int64
	ns                 int64
	fracDigits         int
	offSec             int64 // seconds east of UTC
	lowerT, lowerZ     bool
	sec60              bool
}

func (c civil) instant() inst {
	sec := daysFromCivil(c.y, c.mo, c.d)*86400 + c.h*3600 + c.mi*60 + c.s - c.offSec
	return inst{sec, c.ns}
}

func digits(s string, i, n int) (int64, bool) {
	if i+n > len(s) {
		return 0, false
	}
	var v int64
	for k := 0; k < n; k++ {
		ch := s[i+k]
		if ch < '0' || ch > '9' {
			return 0, false
		}
		v = v*10 + int64(ch-'0')
	}
	return v, true
}

// parseStrict is the RFC 3339 section 5.6 recogniser, written from the ABNF:
//
//	date-time = 4DIGIT "-" 2DIGIT "-" 2DIGIT "T" 2DIGIT ":" 2DIGIT ":" 2DIGIT ["." 1*DIGIT] ("Z" / ("+" / "-") 2DIGIT ":" 2DIGIT)
//
// with the range rules of 5.6/5.7 (month 01-12, day 01..days-in-month, hour
// 00-23, minute 00-59, second 00-59 or 60, offset hour 00-23, offset minute
// 00-59).  ok=false means the string is not an RFC 3339 timestamp.  The three
// places where the RFC is permissive and the property statement is silent are
// reported as flags (lower-case t / z, second 60); more than nine fractional
// digits are reported through fracDigits (the value is truncated to ns).
func parseStrict(s string) (c civil, ok bool) {
	var good bool
	if c.y, good = digits(s, 0, 4); !good {
		return c, false
	}
	if len(s) < 20 || s[4] != '-' || s[7] != '-' || s[13] != ':' || s[16] != ':' {
		return c, false
	}
	if c.mo, good = digits(s, 5, 2); !good {
		return c, false
	}
	if c.d, good = digits(s, 8, 2); !good {
		return c, false
	}
	switch s[10] {
	case 'T':
	case 't':
		c.lowerT = true
	default:
		return c, false
	}
	if c.h, good = digits(s, 11, 2); !good {
		return c, false
	}
	if c.mi, good = digits(s, 14, 2); !good {
		return c, false
	}
	if c.s, good = digits(s, 17, 2); !good {
		return c, false
	}
	i := 19
	if i < len(s) && s[i] == '.' {
		i++
		j := i
		for j < len(s) && s[j] >= '0' && s[j] <= '9' {
			j++
		}
		if j == i {
			return c, false
		}
		c.fracDigits = j - i
		scale := int64(100_000_000)
		for k := i; k < j && k < i+9; k++ {
			c.ns += int64(s[k]-'0') * scale
			scale /= 10
		}
		i = j
	}
	if i >= len(s) {
		return c, false
	}
	switch s[i] {
	case 'Z', 'z':
		c.lowerZ = s[i] == 'z'
		if i+1 != len(s) {
			return c, false
		}
	case '+', '-':
		if i+6 != len(s) || s[i+3] != ':' {
			return c, false
		}
		oh, g1 := digits(s, i+1, 2)
		om, g2 := digits(s, i+4, 2)
		if !g1 || !g2 || oh > 23 || om > 59 {
			return c, false
		}
		c.offSec = oh*3600 + om*60
		if s[i] == '-' {
			c.offSec = -c.offSec
		}
	default:
		return c, false
	}
	if c.mo < 1 || c.mo > 12 || c.d < 1 || c.d > daysIn(c.y, c.mo) || c.h > 23 || c.mi > 59 || c.s > 60 {
		return c, false
	}
	if c.s == 60 {
		c.sec60 = true
	}
	return c, true
}

// plain reports whether c is inside the statement's "well-formed" class:
// upper-case T and Z, second <= 59, at most nine fractional digits.
func (c civil) plain() bool {
	return !c.lowerT && !c.lowerZ && !c.sec60 && c.fracDigits <= 9
}

// ---------------------------------------------------------------------------
// field alphabets: every element carries its own classification, written by
// hand from the RFC, independently of parseStrict.  The driver cross-checks
// the two derivations on every enumerated string.

const (
	okField     = 0
	badField    = 1 // missing / malformed / out of range: the statement says "reject"
	unspecField = 2 // RFC permits, the statement is silent: nothing asserted
)

type fieldVal struct {
	text string
	kind int
	tag  string // identity of the defect / zone, "" for ok values
}

type alphabet struct {
	year, month, day, hour, minute, second, frac, offset, sep []fieldVal
}

func ok(ts ...string) []fieldVal {
	var l []fieldVal
	for _, t := range ts {
		l = append(l, fieldVal{t, okField, ""})
	}
	return l
}

func fullAlphabet() alphabet {
	return alphabet{
		year: append(ok("0000", "0001", "1969", "1970", "1999", "2000", "2024", "2100", "9999"),
			fieldVal{"999", badField, "year-three-digits"}, fieldVal{"10000", badField, "year-five-digits"}),
		month: append(ok("01", "02", "04", "12"),
			fieldVal{"00", badField, "month-00"}, fieldVal{"13", badField, "month-13"}, fieldVal{"1", badField, "month-one-digit"}),
		day: append(ok("01", "28", "29", "30", "31"),
			fieldVal{"00", badField, "day-00"}, fieldVal{"32", badField, "day-32"}),
		hour: append(ok("00", "23"),
			fieldVal{"24", badField, "hour-24"}, fieldVal{"5", badField, "hour-one-digit"}),
		minute: append(ok("00", "59"),
			fieldVal{"60", badField, "minute-60"}),
		second: append(ok(":00", ":59"),
			fieldVal{":61", badField, "second-61"}, fieldVal{"", badField, "second-missing"},
			fieldVal{":60", unspecField, "second-60-leap"}),
		frac: append(ok("", ".5", ".123456789", ".000000001"),
			fieldVal{".", badField, "fraction-no-digits"}, fieldVal{",5", badField, "fraction-comma"},
			fieldVal{".1234567890", unspecField, "fraction-ten-digits"}),
		offset: append(ok("Z", "+00:00", "-00:00", "+05:30", "-08:00", "+14:00", "-23:59", "+23:59"),
			fieldVal{"+24:00", badField, "offset-hour-24"}, fieldVal{"+05:60", badField, "offset-minute-60"},
			fieldVal{"+0530", badField, "offset-no-colon"}, fieldVal{"", badField, "offset-missing"},
			fieldVal{"z", unspecField, "offset-lower-z"}),
		sep: append(ok("T"),
			fieldVal{" ", badField, "separator-space"}, fieldVal{"t", unspecField, "separator-lower-t"}),
	}
}

// quickAlphabet is a sub-product of fullAlphabet: every field keeps its
// boundary values and every near-miss kind, fewer interior values.
func quickAlphabet() alphabet {
	f := fullAlphabet()
	pick := func(l []fieldVal, texts ...string) []fieldVal {
		var out []fieldVal
		for _, t := range texts {
			for _, v := range l {
				if v.text == t {
					out = append(out, v)
				}
			}
		}
		return out
	}
	return alphabet{
		year:   pick(f.year, "0000", "2024", "2100", "9999", "999"),
		month:  pick(f.month, "02", "12", "13", "1"),
		day:    pick(f.day, "01", "29", "31", "00"),
		hour:   pick(f.hour, "00", "23", "24", "5"),
		minute: pick(f.minute, "00", "59", "60"),
		second: pick(f.second, ":00", ":59", ":61", ":60"),
		frac:   pick(f.frac, "", ".5", ".123456789", ".", ",5", ".1234567890"),
		offset: pick(f.offset, "Z", "+05:30", "-23:59", "+24:00", "+05:60", "", "z"),
		sep:    f.sep,
	}
}

func (a alphabet) dims() []int {
	return []int{len(a.year), len(a.month), len(a.day), len(a.hour), len(a.minute), len(a.second), len(a.frac), len(a.offset), len(a.sep)}
}

func (a alphabet) size() int64 {
	n := int64(1)
	for _, d := range a.dims() {
		n *= int64(d)
	}
	return n
}

// verdicts of the model
const (
	wellFormed  = "well-formed"
	nearMiss    = "near-miss"
	unspecified = "unspecified"
)

type rfcString struct {
	text    string
	verdict string
	tags    []string // bad tags for a near-miss, zone tags for unspecified
	want    inst     // when well-formed
	civ     civil
}

// at builds the idx-th string of the product (mixed radix, separator fastest)
// and classifies it from the field kinds plus the calendar rule.
func (a alphabet) at(idx int64) rfcString {
	fields := [][]fieldVal{a.year, a.month, a.day, a.hour, a.minute, a.second, a.frac, a.offset, a.sep}
	var pick [9]fieldVal
	for k := len(fields) - 1; k >= 0; k-- {
		n := int64(len(fields[k]))
		pick[k] = fields[k][idx%n]
		idx /= n
	}
	y, mo, d, h, mi, sc, fr, off, sep := pick[0], pick[1], pick[2], pick[3], pick[4], pick[5], pick[6], pick[7], pick[8]
	var r rfcString
	r.text = y.text + "-" + mo.text + "-" + d.text + sep.text + h.text + ":" + mi.text + sc.text + fr.text + off.text
	var bad, zone []string
	for _, f := range pick {
		switch f.kind {
		case badField:
			bad = append(bad, f.tag)
		case unspecField:
			zone = append(zone, f.tag)
		}
	}
	// calendar rule, only decidable when year, month and day are themselves ok
	if y.kind == okField && mo.kind == okField && d.kind == okField {
		yy, _ := digits(y.text, 0, 4)
		mm, _ := digits(mo.text, 0, 2)
		dd, _ := digits(d.text, 0, 2)
		if dd > daysIn(yy, mm) {
			bad = append(bad, "day-beyond-month-length")
		}
	}
	sort.Strings(bad)
	sort.Strings(zone)
	switch {
	case len(bad) > 0:
		r.verdict, r.tags = nearMiss, bad
	case len(zone) > 0:
		r.verdict, r.tags = unspecified, zone
	default:
		r.verdict = wellFormed
	}
	return r
}

// classify is the second, string-level derivation of the verdict.
func classify(s string) (verdict string, c civil) {
	c, ok := parseStrict(s)
	switch {
	case !ok:
		return nearMiss, c
	case !c.plain():
		return unspecified, c
	}
	return wellFormed, c
}

// shape is the coarse feature class of a well-formed timestamp, used as the
// violation identity when one is rejected or mis-read.
func (c civil) shape() string {
	var p []string
	switch {
	case c.y == 0:
		p = append(p, "year-0000")
	case c.y == 9999:
		p = append(p, "year-9999")
	case c.y < 1970:
		p = append(p, "year-before-1970")
	}
	if c.mo == 2 && c.d == 29 {
		p = append(p, "leap-day")
	}
	switch {
	case c.fracDigits == 0:
	default:
		p = append(p, "fraction-"+itoa(int64(c.fracDigits))+"-digits")
	}
	switch {
	case c.offSec > 0:
		p = append(p, "offset-east")
	case c.offSec < 0:
		p = append(p, "offset-west")
	}
	if len(p) == 0 {
		return "plain"
	}
	return strings.Join(p, "+")
}

func itoa(n int64) string { return big.NewInt(n).String() }

// ---------------------------------------------------------------------------
// durations

type durComp struct{ num, unit string }

var unitNS = map[string]int64{
	"ns": 1, "us": 1_000, "µs": 1_000, "μs": 1_000, "ms": 1_000_000,
	"s": 1_000_000_000, "m": 60_000_000_000, "h": 3_600_000_000_000,
}

// durModel is the exact meaning of a duration string sign (num unit)+ :
// the value lies in [lo, hi] nanoseconds, lo == hi unless a component is not
// a whole number of nanoseconds (its rounding direction is not specified).
type durModel struct {
	wellFormed bool
	lo, hi     *big.Int
	inRange    bool // [lo,hi] lies inside int64
	outOfRange bool // [lo,hi] lies entirely outside int64
	zone       string
}

func decimalRat(num string) (*big.Rat, bool) {
	if num == "" || num == "." {
		return nil, false
	}
	dot := false
	for _, ch := range num {
		switch {
		case ch >= '0' && ch <= '9':
		case ch == '.' && !dot:
			dot = true
		default:
			return nil, false
		}
	}
	s := num
	if strings.HasPrefix(s, ".") {
		s = "0" + s
	}
	if strings.HasSuffix(s, ".") {
		s += "0"
	}
	r, ok := new(big.Rat).SetString(s)
	return r, ok
}

func evalDuration(sign string, comps []durComp) durModel {
	var m durModel
	if len(comps) == 0 {
		return m
	}
	lo, hi := new(big.Int), new(big.Int)
	for _, c := range comps {
		u, ok := unitNS[c.unit]
		if !ok {
			return m
		}
		r, ok := decimalRat(c.num)
		if !ok {
			return m
		}
		if c.unit == "μs" { // U+03BC; the docstring names U+00B5 only
			m.zone = "greek-mu-unit"
		}
		if strings.HasPrefix(c.num, ".") || strings.HasSuffix(c.num, ".") {
			m.zone = "bare-dot-decimal" // ".5s" / "1.s": whether a digit is required on both sides is not documented
		}
		r.Mul(r, new(big.Rat).SetInt64(u))
		fl := new(big.Int).Quo(r.Num(), r.Denom()) // r >= 0: Quo is floor
		ce := new(big.Int).Set(fl)
		if !r.IsInt() {
			ce.Add(ce, big.NewInt(1))
		}
		lo.Add(lo, fl)
		hi.Add(hi, ce)
	}
	if sign == "-" {
		lo, hi = new(big.Int).Neg(hi), new(big.Int).Neg(lo)
	}
	m.wellFormed = true
	m.lo, m.hi = lo, hi
	m.inRange = fitsI64(lo) && fitsI64(hi)
	m.outOfRange = hi.Cmp(bigMinI64) < 0 || lo.Cmp(bigMaxI64) > 0
	return m
}

// parseDurationString is the string-level grammar of "a possibly signed
// sequence of decimal numbers, each with optional fraction and a unit suffix"
// over the documented units.  "0" (optionally signed) is the one unit-less form.
func parseDurationString(s string) durModel {
	sign := ""
	if s != "" && (s[0] == '+' || s[0] == '-') {
		sign, s = s[:1], s[1:]
	}
	if s == "0" {
		z := new(big.Int)
		return durModel{wellFormed: true, lo: z, hi: new(big.Int), inRange: true}
	}
	var comps []durComp
	for s != "" {
		i := 0
		for i < len(s) && (s[i] == '.' || (s[i] >= '0' && s[i] <= '9')) {
			i++
		}
		if i == 0 {
			return durModel{}
		}
		num := s[:i]
		s = s[i:]
		unit := ""
		for _, u := range []string{"ns", "us", "µs", "μs", "ms", "s", "m", "h"} {
			if strings.HasPrefix(s, u) {
				// longest match among ns/us/ms vs s, m: "ms" must win over "m"
				if len(u) > len(unit) {
					unit = u
				}
			}
		}
		if unit == "" {
			return durModel{}
		}
		s = s[len(unit):]
		comps = append(comps, durComp{num, unit})
	}
	return evalDuration(sign, comps)
}

// nearestFloat is the correctly rounded value of n/div.
func nearestFloat(n *big.Int, div int64) float64 {
	f, _ := new(big.Rat).SetFrac(n, big.NewInt(div)).Float64()
	return f
}

// floatAgrees: exact equality when |n| <= 2^53 (n is itself a float64, so a
// single correctly rounded division is what exact arithmetic gives), within
// one ulp above that (the quotient of an inexact conversion).
func floatAgrees(got float64, n *big.Int, div int64) bool {
	want := nearestFloat(n, div)
	if got == want {
		return true
	}
	lim := new(big.Int).Lsh(big.NewInt(1), 53)
	if new(big.Int).Abs(n).Cmp(lim) <= 0 {
		return false
	}
	return got == math.Nextafter(want, math.Inf(1)) || got == math.Nextafter(want, math.Inf(-1))
}

// civilFromDays is the inverse of daysFromCivil.
func civilFromDays(z int64) (y, m, d int64) {
	z += 719468
	var era int64
	if z >= 0 {
		era = z / 146097
	} else {
		era = (z - 146096) / 146097
	}
	doe := z - era*146097
	yoe := (doe - doe/1460 + doe/36524 - doe/146096) / 365
	y = yoe + era*400
	doy := doe - (365*yoe + yoe/4 - yoe/100)
	mp := (5*doy + 2) / 153
	d = doy - (153*mp+2)/5 + 1
	if mp < 10 {
		m = mp + 3
	} else {
		m = mp - 9
	}
	if m <= 2 {
		y++
	}
	return
}

func pad(n int64, w int) string {
	s := itoa(n)
	for len(s) < w {
		s = "0" + s
	}
	return s
}

// formatInst renders an instant at the given offset with nine fractional
// digits (or none when ns == 0); ok=false when the civil year leaves 0..9999.
func formatInst(a inst, offSec int64) (string, bool) {
	local := a.sec + offSec
	days := local / 86400
	rem := local % 86400
	if rem < 0 {
		rem += 86400
		days--
	}
	y, m, d := civilFromDays(days)
	if y < 0 || y > 9999 {
		return "", false
	}
	s := pad(y, 4) + "-" + pad(m, 2) + "-" + pad(d, 2) + "T" + pad(rem/3600, 2) + ":" + pad(rem%3600/60, 2) + ":" + pad(rem%60, 2)
	if a.ns != 0 {
		s += "." + pad(a.ns, 9)
	}
	if offSec == 0 {
		return s + "Z", true
	}
	sign, o := "+", offSec
	if o < 0 {
		sign, o = "-", -o
	}
	return s + sign + pad(o/3600, 2) + ":" + pad(o%3600/60, 2), true
}

// sweeps are one-dimensional exhaustive walks that the product's small field
// alphabets cannot afford: every numeric offset, every year's 29 February,
// every day of every month of a leap and a common year, every fraction length.
// The generator states the verdict from first principles; the driver
// cross-checks it against the string-level recogniser like the product's.
func sweeps() []rfcString {
	var out []rfcString
	add := func(text string, bad, zone []string) {
		r := rfcString{text: text}
		switch {
		case len(bad) > 0:
			sort.Strings(bad)
			r.verdict, r.tags = nearMiss, bad
		case len(zone) > 0:
			r.verdict, r.tags = unspecified, zone
		default:
			r.verdict = wellFormed
		}
		out = append(out, r)
	}
	// every numeric offset +-hh:mm, hh 00..25, mm 00..61
	for _, sg := range []string{"+", "-"} {
		for hh := int64(0); hh <= 25; hh++ {
			for mm := int64(0); mm <= 61; mm++ {
				var bad []string
				switch {
				case hh == 24:
					bad = append(bad, "offset-hour-24")
				case hh > 24:
					bad = append(bad, "offset-hour-above-24")
				}
				switch {
				case mm == 60:
					bad = append(bad, "offset-minute-60")
				case mm > 60:
					bad = append(bad, "offset-minute-above-60")
				}
				add("2024-02-29T12:34:56.789"+sg+pad(hh, 2)+":"+pad(mm, 2), bad, nil)
			}
		}
	}
	// 29 February of every year 0000..9999
	for y := int64(0); y <= 9999; y++ {
		var bad []string
		if !(y%4 == 0 && (y%100 != 0 || y%400 == 0)) {
			bad = []string{"day-beyond-month-length"}
		}
		add(pad(y, 4)+"-02-29T23:59:59.999999999Z", bad, nil)
	}
	// every month 00..13 x day 00..32 of a leap, a common and a century year
	mlen := []int64{31, 28, 31, 30, 31, 30, 31, 31, 30, 31, 30, 31}
	for _, y := range []int64{2023, 2024, 2100, 2000} {
		leap := y == 2024 || y == 2000
		for m := int64(0); m <= 13; m++ {
			for d := int64(0); d <= 32; d++ {
				var bad []string
				switch {
				case m == 0:
					bad = append(bad, "month-00")
				case m > 12:
					bad = append(bad, "month-13")
				}
				switch {
				case d == 0:
					bad = append(bad, "day-00")
				case d > 31:
					bad = append(bad, "day-32")
				case m >= 1 && m <= 12:
					n := mlen[m-1]
					if m == 2 && leap {
						n = 29
					}
					if d > n {
						bad = append(bad, "day-beyond-month-length")
					}
				}
				add(pad(y, 4)+"-"+pad(m, 2)+"-"+pad(d, 2)+"T00:00:00-08:00", bad, nil)
			}
		}
	}
	// every hour 00..25, minute 00..61, second 00..61
	for h := int64(0); h <= 25; h++ {
		var bad []string
		if h > 23 {
			bad = []string{"hour-24"}
		}
		add("1999-12-31T"+pad(h, 2)+":00:00+05:30", bad, nil)
	}
	for mi := int64(0); mi <= 61; mi++ {
		var bad []string
		if mi > 59 {
			bad = []string{"minute-60"}
		}
		add("1999-12-31T23:"+pad(mi, 2)+":00+05:30", bad, nil)
	}
	for sc := int64(0); sc <= 61; sc++ {
		var bad, zone []string
		switch {
		case sc == 60:
			zone = []string{"second-60-leap"}
		case sc > 60:
			bad = []string{"second-61"}
		}
		add("1999-12-31T23:59:"+pad(sc, 2)+"+05:30", bad, zone)
	}
	// every fraction length 1..12 x three digit patterns x three offsets x three bases
	for _, base := range []string{"2024-02-29T23:59:59", "0000-01-01T00:00:00", "9999-12-31T23:59:59", "1969-12-31T23:59:59"} {
		for n := 1; n <= 12; n++ {
			for _, pat := range []string{strings.Repeat("9", n), strings.Repeat("0", n-1) + "1", ("123456789012")[:n], strings.Repeat("0", n)} {
				for _, off := range []string{"Z", "+05:30", "-23:59"} {
					var zone []string
					if n > 9 {
						zone = []string{"fraction-more-than-nine-digits"}
					}
					add(base+"."+pat+off, nil, zone)
				}
			}
		}
	}
	// every single-field malformation of one base string (the other fields stay well-formed)
	type mut struct{ text, tag string }
	f := []string{"2024", "-", "02", "-", "29", "T", "12", ":", "34", ":", "56", ".789", "+05:30"}
	muts := map[int][]mut{
		0:  {{"999", "year-three-digits"}, {"10000", "year-five-digits"}, {"", "year-missing"}, {"+2024", "year-signed"}, {"2O24", "year-non-digit"}},
		1:  {{"/", "date-separator-slash"}, {"", "date-separator-missing"}},
		2:  {{"2", "month-one-digit"}, {"", "month-missing"}, {"002", "month-three-digits"}, {"Fe", "month-non-digit"}},
		3:  {{"/", "date-separator-slash"}, {"", "date-separator-missing"}},
		4:  {{"9", "day-one-digit"}, {"", "day-missing"}, {"029", "day-three-digits"}},
		5:  {{" ", "separator-space"}, {"", "separator-missing"}, {"_", "separator-underscore"}, {"TT", "separator-doubled"}},
		6:  {{"1", "hour-one-digit"}, {"", "hour-missing"}, {"012", "hour-three-digits"}, {"-1", "hour-signed"}},
		7:  {{".", "time-separator-dot"}, {"", "time-separator-missing"}},
		8:  {{"4", "minute-one-digit"}, {"", "minute-missing"}, {"034", "minute-three-digits"}},
		9:  {{".", "time-separator-dot"}, {"", "time-separator-missing"}},
		10: {{"6", "second-one-digit"}, {"", "second-digits-missing"}, {"056", "second-three-digits"}},
		11: {{".", "fraction-no-digits"}, {",789", "fraction-comma"}, {".7 89", "fraction-inner-space"}, {".-789", "fraction-signed"}, {".789e0", "fraction-exponent"}},
		12: {{"+5:30", "offset-hour-one-digit"}, {"+05:3", "offset-minute-one-digit"}, {"+0530", "offset-no-colon"}, {"+05", "offset-hour-only"}, {"", "offset-missing"},
			{"+05:30Z", "offset-then-z"}, {"Z+05:30", "z-then-offset"}, {"05:30", "offset-unsigned"}, {"+05:30:00", "offset-with-seconds"}, {" +05:30", "offset-after-space"},
			{"+05:30 ", "trailing-space"}, {"ZZ", "z-doubled"}, {"UTC", "offset-zone-name"}, {"+05.30", "offset-dot"}},
	}
	for pos := 0; pos < len(f); pos++ {
		for _, m := range muts[pos] {
			g := append([]string(nil), f...)
			g[pos] = m.text
			add(strings.Join(g, ""), []string{m.tag}, nil)
		}
	}
	add(" "+strings.Join(f, ""), []string{"leading-space"}, nil)
	add("", []string{"empty-string"}, nil)
	add("2024-02-29", []string{"date-only"}, nil)
	add("12:34:56Z", []string{"time-only"}, nil)
	add("2024-02-29T12:34Z", []string{"second-missing"}, nil)
	add("20240229T123456Z", []string{"basic-format-no-separators"}, nil)
	add("2024-060T12:34:56Z", []string{"ordinal-date"}, nil)
	add("2024-W09-4T12:34:56Z", []string{"week-date"}, nil)
	return out
}
