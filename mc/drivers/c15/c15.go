// Package c15: time values round-trip, order and add consistently, and
// sleeping is bounded (DESIGN §C15).
//
// Five exhaustively enumerated tables:
//
//	rfc     the full product of the field alphabets (well-formed, near-miss, unspecified) x both parsers,
//	        with format / re-parse round trips of every accepted string
//	pair    all ordered pairs of an instant subset: time= time< time> vs the model order, sign and value of
//	        time-from, (time-add t (time-from t u)) = u
//	triple  all ordered triples: transitivity / congruence of the implementation's own answers
//	add     every (instant, duration) pair: (time-from t (time-add t d)) = d
//	dur     every duration string of <= 2 components over numbers x units x sign, plus the int64 boundary:
//	        parse-duration, duration-ns / -s / -ms vs exact rational arithmetic
//	sleep   every (duration, :max, host ceiling, context) combination (sleep.go)
//
// Expected values come from model.go (own RFC 3339 grammar, days-from-civil
// integer arithmetic, big rationals) — never from Go's time package.
package c15

import (
	"fmt"
	"math/big"
	"os"
	"sort"
	"strings"
	"sync"
	"sync/atomic"
	"time"

	"github.com/luthersystems/elps/lisp"

	"verif/mc/core"
	"verif/mc/el"
)

func init() {
	core.Register(&core.Driver{Property: "C15", Run: run, Replay: replay})
}

// The observation helpers are ordinary ELPS functions; every value under
// test flows through the time: builtins named by the property.
const prelude = `
(set 'c15-epoch (time:parse-rfc3339 "1970-01-01T00:00:00Z"))
(defun c15-obs (tm)
  (list (time:format-rfc3339 tm)
        (time:format-rfc3339-nano tm)
        (time:format-rfc3339-nano (time:parse-rfc3339 (time:format-rfc3339 tm)))
        (time:format-rfc3339-nano (time:parse-rfc3339-nano (time:format-rfc3339-nano tm)))
        (time:time= tm (time:parse-rfc3339-nano (time:format-rfc3339-nano tm)))
        (time:duration-ns (time:time-from c15-epoch tm))))
(defun c15-pair (a b)
  (let ([d (time:time-from a b)])
    (list (time:time= a b) (time:time< a b) (time:time> a b)
          (time:duration-ns d)
          (time:time= (time:time-add a d) b)
          (time:format-rfc3339-nano (time:time-add a d)))))
(defun c15-tri (a b c)
  (list (time:time< a b) (time:time< b c) (time:time< a c)
        (time:time= a b) (time:time= b c) (time:time= a c)
        (time:time> a c) (time:time< c a)))
(defun c15-add (tm d)
  (let ([u (time:time-add tm d)])
    (list (time:duration-ns (time:time-from tm u)) (time:duration-ns d)
          (time:format-rfc3339-nano u)
          (time:time< tm u) (time:time> tm u) (time:time= tm u))))
(defun c15-dur (d)
  (list (time:duration-ns d) (time:duration-s d) (time:duration-ms d)))
`

type worker struct{ env *el.Env }

func newWorker(cfgs ...lisp.Config) *worker {
	env := el.MustEnv(el.Opts{Stdlib: true, Configs: cfgs})
	if o := env.Load(prelude); o.IsErr {
		panic("harness: c15 prelude: " + o.Full())
	}
	return &worker{env}
}

func (w *worker) eval(src string) *lisp.LVal {
	w.env.Err.Reset()
	v := w.env.LoadString("c15", src)
	if v == nil {
		return lisp.Nil()
	}
	return v
}

// q renders s as an ELPS string literal; the alphabets contain no quote or
// backslash, anything else is a harness error.
func q(s string) string {
	if strings.ContainsAny(s, "\"\\\n") {
		panic("harness: c15 string needs escaping: " + fmt.Sprintf("%q", s))
	}
	return `"` + s + `"`
}

type kase struct {
	Table string    `json:"table"`
	S     []string  `json:"s,omitempty"`
	Tags  []string  `json:"tags,omitempty"` // rfc: the construction-time bad / zone tags
	Sleep *sleepCfg `json:"sleep,omitempty"`
}

type finding struct{ Class, Expected, Got string }

type caseInfo struct {
	outcome     string
	nontrivial  bool
	transitions int64
	skipped     bool // not executed (counted as a state, not as an evaluation)
}

// checkCase is the straight-line execution of one case; run and replay both
// go through it.
func checkCase(w *worker, k kase) ([]finding, caseInfo) {
	switch k.Table {
	case "rfc":
		return checkRFC(w, k.S[0], k.Tags)
	case "pair":
		return checkPair(w, k.S[0], k.S[1])
	case "triple":
		return checkTriple(w, k.S[0], k.S[1], k.S[2])
	case "add":
		return checkAdd(w, k.S[0], k.S[1])
	case "dur":
		return checkDur(w, k.S[0])
	case "sleep":
		return checkSleep(*k.Sleep)
	}
	return []finding{{"harness-error", "known table", k.Table}}, caseInfo{}
}

// ---------------------------------------------------------------------------
// rfc

type rfcObs struct {
	accepted         bool
	cond             string
	obsErr           string
	f1, f2, rt1, rt2 string
	eq               bool
	dn               int64
}

func (w *worker) observeRFC(parser, s string) rfcObs {
	v := w.eval("(set 'c15-t (time:" + parser + " " + q(s) + "))")
	if v.Type == lisp.LError {
		return rfcObs{cond: v.Str}
	}
	o := rfcObs{accepted: true}
	l := w.eval("(c15-obs c15-t)")
	if l.Type == lisp.LError {
		o.obsErr = l.Str + ": " + el.ErrText(l)
		return o
	}
	if len(l.Cells) != 6 {
		o.obsErr = "harness: c15-obs returned " + l.String()
		return o
	}
	o.f1, o.f2, o.rt1, o.rt2 = l.Cells[0].Str, l.Cells[1].Str, l.Cells[2].Str, l.Cells[3].Str
	o.eq = lisp.True(l.Cells[4])
	o.dn = int64(l.Cells[5].Int)
	return o
}

var parsers = []string{"parse-rfc3339", "parse-rfc3339-nano"}

func checkRFC(w *worker, s string, tags []string) (fs []finding, info caseInfo) {
	verdict, civ := classify(s)
	acc := make([]bool, len(parsers))
	for pi, p := range parsers {
		o := w.observeRFC(p, s)
		info.transitions++
		acc[pi] = o.accepted
		if o.accepted {
			info.transitions += 9
		}
		switch verdict {
		case nearMiss:
			if o.accepted {
				t := "unclassified"
				if len(tags) > 0 {
					t = strings.Join(tags, "+")
				}
				fs = append(fs, finding{p + ":accepts:" + t,
					"rejected: " + s + " is not an RFC 3339 timestamp (" + t + ")", "accepted, reads as " + o.f2})
			}
		case unspecified:
			if o.accepted && o.obsErr == "" && !o.eq {
				fs = append(fs, finding{"roundtrip-nano:time=-false:unspecified-input",
					"(time= t (parse-rfc3339-nano (format-rfc3339-nano t))) for t = (" + p + " " + s + ")", "false; formatted " + o.f2 + " re-read as " + o.rt2})
			}
		case wellFormed:
			fs = append(fs, judgeWellFormed(p, s, civ, o)...)
		}
	}
	info.outcome = fmt.Sprintf("rfc %s accepted=%v/%v", verdict, acc[0], acc[1])
	info.nontrivial = (verdict != nearMiss && (acc[0] || acc[1])) || (verdict == nearMiss && len(tags) == 1)
	return fs, info
}

func judgeWellFormed(p, s string, civ civil, o rfcObs) (fs []finding) {
	shape := civ.shape()
	if !o.accepted {
		return []finding{{p + ":rejects-well-formed:" + shape, "accepted: " + s + " is a well-formed RFC 3339 timestamp", "error condition " + o.cond}}
	}
	if o.obsErr != "" {
		return []finding{{"roundtrip:error:" + shape, "format and re-parse of (" + p + " " + s + ") succeed", o.obsErr}}
	}
	want := civ.instant()
	wantSec := inst{want.sec, 0}
	wantStr, _ := formatInst(want, 0)
	wantSecStr, _ := formatInst(wantSec, 0)
	rd := func(out string) (inst, bool) {
		c, ok := parseStrict(out)
		if !ok || !c.plain() {
			return inst{}, false
		}
		return c.instant(), true
	}
	// parse-rfc3339 is the second-precision form ("for nanosecond precision, use parse-rfc3339-nano"): its
	// instant is held to the second only; parse-rfc3339-nano to the nanosecond.
	precise := p == "parse-rfc3339-nano"
	same := func(got inst) bool {
		if precise {
			return got == want
		}
		return got.sec == want.sec
	}
	prec := "to the nanosecond"
	if !precise {
		prec = "to the second"
	}
	// the parsed instant, observed without the formatter where int64 ns reach
	diff := want.big()
	parserOK := true
	if fitsI64(diff) && !same(instFromBig(big.NewInt(o.dn))) {
		parserOK = false
		fs = append(fs, finding{p + "|time-from:epoch-distance-wrong:" + shape, fmt.Sprintf("(time-from epoch (%s %s)) = %s ns %s", p, s, diff, prec), fmt.Sprintf("%d ns", o.dn)})
	}
	// format-rfc3339: a well-formed string naming the instant truncated to the second
	if c1, ok := parseStrict(o.f1); !ok || !c1.plain() || c1.fracDigits != 0 {
		fs = append(fs, finding{"format-rfc3339:output-not-rfc3339-seconds", "a well-formed second-precision timestamp", o.f1})
	} else if c1.instant() != wantSec && parserOK {
		fs = append(fs, finding{"format-rfc3339:wrong-instant:" + shape, "the instant " + wantSecStr + " for (" + p + " " + s + ")", o.f1})
	}
	f2i, f2ok := rd(o.f2)
	if !f2ok {
		fs = append(fs, finding{"format-rfc3339-nano:output-not-rfc3339", "a well-formed timestamp", o.f2})
	} else if !same(f2i) && parserOK {
		cl := "format-rfc3339-nano:wrong-instant:" + shape
		if !fitsI64(diff) {
			cl = p + "+format-rfc3339-nano:wrong-instant:" + shape
		}
		fs = append(fs, finding{cl, "the instant " + wantStr + " (" + prec + ") for (" + p + " " + s + ")", o.f2})
	}
	if got, ok := rd(o.rt1); (!ok || got != wantSec) && parserOK {
		fs = append(fs, finding{"roundtrip:format-rfc3339/parse-rfc3339:" + shape,
			"(parse-rfc3339 (format-rfc3339 t)) equals t to the second, i.e. " + wantSecStr + ", for t = (" + p + " " + s + ")", o.rt1 + " (formatted as " + o.f1 + ")"})
	}
	if got, ok := rd(o.rt2); (!ok || !same(got) || (f2ok && got != f2i)) && parserOK {
		fs = append(fs, finding{"roundtrip:format-rfc3339-nano/parse-rfc3339-nano:" + shape,
			"(parse-rfc3339-nano (format-rfc3339-nano t)) equals t = " + wantStr + " (" + prec + ") for t = (" + p + " " + s + ")", o.rt2 + " (formatted as " + o.f2 + ")"})
	}
	if !o.eq {
		fs = append(fs, finding{"roundtrip:time=-false:" + shape, "(time= t (parse-rfc3339-nano (format-rfc3339-nano t))) for t = (" + p + " " + s + ")", "false"})
	}
	return fs
}

// ---------------------------------------------------------------------------
// pair / triple / add

func mustInstant(s string) (civil, inst) {
	c, ok := parseStrict(s)
	if !ok || !c.plain() {
		panic("harness: c15 instant subset contains a non-well-formed string: " + s)
	}
	return c, c.instant()
}

func sign(n int64) int {
	switch {
	case n < 0:
		return -1
	case n > 0:
		return 1
	}
	return 0
}

func pairKind(a, b string, ca, cb civil, cmp int, diff *big.Int) string {
	switch {
	case cmp == 0 && a == b:
		return "identical"
	case cmp == 0 && ca.offSec != cb.offSec:
		return "same-instant-different-offset"
	case cmp == 0:
		return "same-instant-different-spelling"
	case new(big.Int).Abs(diff).Cmp(bigE9) < 0:
		return "less-than-a-second-apart"
	case fitsI64(diff):
		return "apart"
	}
	return "beyond-int64-ns-apart"
}

func checkPair(w *worker, a, b string) (fs []finding, info caseInfo) {
	ca, ia := mustInstant(a)
	cb, ib := mustInstant(b)
	cmp := ia.cmp(ib)
	diff := new(big.Int).Sub(ib.big(), ia.big()) // time-from a b = b - a
	kind := pairKind(a, b, ca, cb, cmp, diff)
	l := w.eval("(c15-pair (time:parse-rfc3339-nano " + q(a) + ") (time:parse-rfc3339-nano " + q(b) + "))")
	info.transitions = 9
	info.outcome = fmt.Sprintf("pair %s cmp=%d", kind, cmp)
	info.nontrivial = a != b
	if l.Type == lisp.LError || len(l.Cells) != 6 {
		return []finding{{"pair:error:" + kind, "comparisons and time-from of two parsed instants succeed", el.Observe(l, "").Full()}}, info
	}
	eq, lt, gt := lisp.True(l.Cells[0]), lisp.True(l.Cells[1]), lisp.True(l.Cells[2])
	dn := int64(l.Cells[3].Int)
	addEq, addFmt := lisp.True(l.Cells[4]), l.Cells[5].Str
	ctx := fmt.Sprintf("a=%s b=%s", a, b)
	if eq != (cmp == 0) {
		fs = append(fs, finding{"time=:wrong:" + kind, fmt.Sprintf("(time= a b) = %v for %s", cmp == 0, ctx), fmt.Sprint(eq)})
	}
	if lt != (cmp < 0) {
		fs = append(fs, finding{"time<:wrong:" + kind, fmt.Sprintf("(time< a b) = %v for %s", cmp < 0, ctx), fmt.Sprint(lt)})
	}
	if gt != (cmp > 0) {
		fs = append(fs, finding{"time>:wrong:" + kind, fmt.Sprintf("(time> a b) = %v for %s", cmp > 0, ctx), fmt.Sprint(gt)})
	}
	// the sign of time-from agrees with the order the implementation itself reports
	implOrder := 0
	switch {
	case lt && !gt && !eq:
		implOrder = 1 // b - a > 0
	case gt && !lt && !eq:
		implOrder = -1
	case eq && !lt && !gt:
		implOrder = 0
	default:
		fs = append(fs, finding{"order:not-trichotomous:" + kind, "exactly one of time= time< time> for " + ctx, fmt.Sprintf("=:%v <:%v >:%v", eq, lt, gt)})
		implOrder = -cmp
	}
	if sign(dn) != implOrder || sign(dn) != -cmp {
		fs = append(fs, finding{"time-from:sign-disagrees-with-order:" + kind,
			fmt.Sprintf("sign of (time-from a b) = %d for %s", -cmp, ctx), fmt.Sprintf("%d ns; =:%v <:%v >:%v", dn, eq, lt, gt)})
	}
	if fitsI64(diff) {
		if dn != diff.Int64() {
			fs = append(fs, finding{"time-from:wrong-value:" + kind, fmt.Sprintf("(time-from a b) = %s ns for %s", diff, ctx), fmt.Sprint(dn)})
		} else {
			if !addEq {
				fs = append(fs, finding{"time-add/time-from:not-inverse:" + kind, "(time= (time-add a (time-from a b)) b) for " + ctx, "false; sum formats as " + addFmt})
			}
			if c, ok := parseStrict(addFmt); ok && c.plain() {
				if c.instant() != ib {
					fs = append(fs, finding{"time-add/time-from:wrong-instant:" + kind, "(time-add a (time-from a b)) is the instant of b for " + ctx, addFmt})
				}
			} else if y, _, _ := civilFromDays(floorDiv(ib.sec, 86400)); y >= 1 && y <= 9998 {
				// the sum is printed at a's offset; only a UTC year inside 0001..9998 is certainly printable
				fs = append(fs, finding{"time-add/time-from:result-not-formattable:" + kind, "a well-formed timestamp for (time-add a (time-from a b)), " + ctx, addFmt})
			}
		}
	}
	return fs, info
}

func checkTriple(w *worker, a, b, c string) (fs []finding, info caseInfo) {
	l := w.eval("(c15-tri (time:parse-rfc3339-nano " + q(a) + ") (time:parse-rfc3339-nano " + q(b) + ") (time:parse-rfc3339-nano " + q(c) + "))")
	info.transitions = 11
	if l.Type == lisp.LError || len(l.Cells) != 8 {
		return []finding{{"triple:error", "comparisons of three parsed instants succeed", el.Observe(l, "").Full()}}, info
	}
	var v [8]bool
	for i := range v {
		v[i] = lisp.True(l.Cells[i])
	}
	ltAB, ltBC, ltAC, eqAB, eqBC, eqAC, gtAC, ltCA := v[0], v[1], v[2], v[3], v[4], v[5], v[6], v[7]
	ctx := fmt.Sprintf("a=%s b=%s c=%s", a, b, c)
	law := func(name string, antecedent, consequent bool) {
		if antecedent {
			info.nontrivial = true
			if !consequent {
				fs = append(fs, finding{"order-law:" + name, name + " for " + ctx, fmt.Sprintf("a<b:%v b<c:%v a<c:%v a=b:%v b=c:%v a=c:%v", ltAB, ltBC, ltAC, eqAB, eqBC, eqAC)})
			}
		}
	}
	law("time<-transitive", ltAB && ltBC, ltAC)
	law("time=-transitive", eqAB && eqBC, eqAC)
	law("time=-then-time<", eqAB && ltBC, ltAC)
	law("time<-then-time=", ltAB && eqBC, ltAC)
	law("time<-irreflexive-with-time=", eqAC, !ltAC && !gtAC)
	if gtAC != ltCA {
		fs = append(fs, finding{"order-law:time>-is-converse-of-time<", "(time> a c) = (time< c a) for " + ctx, fmt.Sprintf("%v vs %v", gtAC, ltCA)})
	}
	// against the model order as well
	_, ia := mustInstant(a)
	_, ib := mustInstant(b)
	_, ic := mustInstant(c)
	if ltAB != (ia.cmp(ib) < 0) || ltBC != (ib.cmp(ic) < 0) || ltAC != (ia.cmp(ic) < 0) || eqAB != (ia.cmp(ib) == 0) || eqBC != (ib.cmp(ic) == 0) || eqAC != (ia.cmp(ic) == 0) {
		fs = append(fs, finding{"order-law:triple-disagrees-with-model", "the model's order for " + ctx, fmt.Sprintf("a<b:%v b<c:%v a<c:%v a=b:%v b=c:%v a=c:%v", ltAB, ltBC, ltAC, eqAB, eqBC, eqAC)})
	}
	info.outcome = fmt.Sprintf("triple %d%d%d", ia.cmp(ib)+1, ib.cmp(ic)+1, ia.cmp(ic)+1)
	return fs, info
}

func checkAdd(w *worker, t, d string) (fs []finding, info caseInfo) {
	_, it := mustInstant(t)
	dm := parseDurationString(d)
	if !dm.wellFormed || !dm.inRange || dm.lo.Cmp(dm.hi) != 0 {
		panic("harness: c15 add table needs exact in-range durations: " + d)
	}
	n := dm.lo
	l := w.eval("(c15-add (time:parse-rfc3339-nano " + q(t) + ") (time:parse-duration " + q(d) + "))")
	info.transitions = 9
	info.nontrivial = n.Sign() != 0
	kind := "zero"
	switch {
	case n.Sign() > 0:
		kind = "positive"
	case n.Sign() < 0:
		kind = "negative"
	}
	if new(big.Int).Abs(n).Cmp(bigE9) < 0 && n.Sign() != 0 {
		kind += "-sub-second"
	}
	info.outcome = "add " + kind
	if l.Type == lisp.LError || len(l.Cells) != 6 {
		return []finding{{"add:error:" + kind, "time-add of a parsed instant and a parsed duration succeeds", el.Observe(l, "").Full()}}, info
	}
	back, dn, out := int64(l.Cells[0].Int), int64(l.Cells[1].Int), l.Cells[2].Str
	lt, gt, eq := lisp.True(l.Cells[3]), lisp.True(l.Cells[4]), lisp.True(l.Cells[5])
	ctx := fmt.Sprintf("t=%s d=%s", t, d)
	if dn != n.Int64() {
		fs = append(fs, finding{"parse-duration:wrong-value", fmt.Sprintf("%s ns for %s", n, d), fmt.Sprint(dn)})
		return fs, info
	}
	if back != dn {
		fs = append(fs, finding{"time-from/time-add:not-inverse:" + kind, fmt.Sprintf("(time-from t (time-add t d)) = %d ns for %s", dn, ctx), fmt.Sprint(back)})
	}
	if lt != (n.Sign() > 0) || gt != (n.Sign() < 0) || eq != (n.Sign() == 0) {
		fs = append(fs, finding{"time-add:order-disagrees-with-sign:" + kind, fmt.Sprintf("t < t+d iff d > 0 for %s", ctx), fmt.Sprintf("<:%v >:%v =:%v", lt, gt, eq)})
	}
	want := instFromBig(new(big.Int).Add(it.big(), n))
	if c, ok := parseStrict(out); ok && c.plain() {
		if c.instant() != want {
			ws, _ := formatInst(want, 0)
			fs = append(fs, finding{"time-add:wrong-instant:" + kind, "the instant " + ws + " for " + ctx, out})
		}
	} else if y, _, _ := civilFromDays(floorDiv(want.sec, 86400)); y >= 1 && y <= 9998 {
		fs = append(fs, finding{"time-add:result-not-formattable:" + kind, "a well-formed timestamp for " + ctx, out})
	}
	return fs, info
}

func floorDiv(a, b int64) int64 {
	q := a / b
	if a%b != 0 && (a < 0) != (b < 0) {
		q--
	}
	return q
}

// ---------------------------------------------------------------------------
// dur

func unitsOf(s string) string {
	var us []string
	seen := map[string]bool{}
	rest := strings.TrimLeft(s, "+-")
	for rest != "" {
		i := 0
		for i < len(rest) && (rest[i] == '.' || (rest[i] >= '0' && rest[i] <= '9')) {
			i++
		}
		rest = rest[i:]
		j := 0
		for j < len(rest) && !(rest[j] == '.' || (rest[j] >= '0' && rest[j] <= '9')) {
			j++
		}
		if j == 0 && i == 0 {
			break
		}
		if u := rest[:j]; u != "" && !seen[u] {
			seen[u] = true
			us = append(us, u)
		}
		rest = rest[j:]
	}
	sort.Strings(us)
	if len(us) == 0 {
		return "no-unit"
	}
	return strings.Join(us, ",")
}

func checkDur(w *worker, s string) (fs []finding, info caseInfo) {
	m := parseDurationString(s)
	v := w.eval("(set 'c15-d (time:parse-duration " + q(s) + "))")
	info.transitions = 1
	accepted := v.Type != lisp.LError
	units := unitsOf(s)
	switch {
	case !m.wellFormed:
		info.outcome = fmt.Sprintf("dur malformed accepted=%v", accepted)
	case m.outOfRange:
		info.outcome = fmt.Sprintf("dur out-of-int64 accepted=%v", accepted)
	case !m.inRange:
		info.outcome = fmt.Sprintf("dur straddles-int64 accepted=%v", accepted)
	case m.zone != "":
		info.outcome = fmt.Sprintf("dur zone:%s accepted=%v", m.zone, accepted)
	default:
		info.outcome = fmt.Sprintf("dur well-formed accepted=%v exact=%v", accepted, m.lo.Cmp(m.hi) == 0)
	}
	if !accepted {
		if m.wellFormed && m.inRange && m.zone == "" {
			fs = append(fs, finding{"parse-duration:rejects:" + units, "accepted: " + s + " is a well-formed duration of " + m.lo.String() + " ns", "error condition " + v.Str})
		}
		return fs, info
	}
	info.nontrivial = true
	l := w.eval("(c15-dur c15-d)")
	info.transitions += 3
	if l.Type == lisp.LError || len(l.Cells) != 3 {
		return append(fs, finding{"duration-accessors:error:" + units, "duration-ns/-s/-ms of (parse-duration " + s + ") succeed", el.Observe(l, "").Full()}), info
	}
	dn := big.NewInt(int64(l.Cells[0].Int))
	ds, dms := l.Cells[1].Float, l.Cells[2].Float
	if l.Cells[1].Type != lisp.LFloat || l.Cells[2].Type != lisp.LFloat || l.Cells[0].Type != lisp.LInt {
		fs = append(fs, finding{"duration-accessors:wrong-type", "int, float, float", l.String()})
		return fs, info
	}
	if m.wellFormed {
		if m.outOfRange {
			// the identity of the overflow: the exact value when it is exactly +-2^64 ns (the one sum that wraps a
			// uint64 accumulator to 0), the units otherwise
			id := units
			if two64 := new(big.Int).Lsh(big.NewInt(1), 64); m.lo.Cmp(m.hi) == 0 && new(big.Int).Abs(m.lo).Cmp(two64) == 0 {
				id = "exactly-2^64ns"
			}
			fs = append(fs, finding{"parse-duration:overflow-accepted:" + id, s + " is outside the int64 nanosecond range: an error", dn.String() + " ns"})
		} else if dn.Cmp(m.lo) < 0 || dn.Cmp(m.hi) > 0 {
			want := m.lo.String()
			if m.lo.Cmp(m.hi) != 0 {
				want = "[" + m.lo.String() + ", " + m.hi.String() + "]"
			}
			fs = append(fs, finding{"parse-duration:wrong-value:" + units, want + " ns for " + s, dn.String()})
		}
	}
	if !floatAgrees(ds, dn, 1_000_000_000) {
		fs = append(fs, finding{"duration-s:wrong-value", fmt.Sprintf("%v for %s ns (%s)", nearestFloat(dn, 1_000_000_000), dn, s), fmt.Sprint(ds)})
	}
	if !floatAgrees(dms, dn, 1_000_000) {
		fs = append(fs, finding{"duration-ms:wrong-value", fmt.Sprintf("%v for %s ns (%s)", nearestFloat(dn, 1_000_000), dn, s), fmt.Sprint(dms)})
	}
	return fs, info
}

// ---------------------------------------------------------------------------
// collection, minimal-counterexample filter, re-confirmation

type hit struct {
	ord int64
	k   kase
	f   finding
}

type entry struct {
	count int64
	hits  []hit // the three smallest ord
}

type collector struct {
	mu sync.Mutex
	m  map[string]*entry
}

func (c *collector) add(ord int64, k kase, fs []finding) {
	if len(fs) == 0 {
		return
	}
	c.mu.Lock()
	defer c.mu.Unlock()
	for _, f := range fs {
		e := c.m[f.Class]
		if e == nil {
			e = &entry{}
			c.m[f.Class] = e
		}
		e.count++
		e.hits = append(e.hits, hit{ord, k, f})
		sort.Slice(e.hits, func(i, j int) bool { return e.hits[i].ord < e.hits[j].ord })
		if len(e.hits) > 3 {
			e.hits = e.hits[:3]
		}
	}
}

func hasClass(fs []finding, class string) bool {
	for _, f := range fs {
		if f.Class == class {
			return true
		}
	}
	return false
}

// flush reports the collected disagreements.  A near-miss with several bad
// fields that is accepted is reported only if at least one of its bad fields
// is NOT accepted on its own: every bad field occurs alone in the product, so
// the single-field strings are the minimal counter-examples and carry the
// class; the multi-field ones add no information.
func (c *collector) flush(r *core.Run) {
	lenient := map[string]bool{} // "<parser>:accepts:<tag>" for single tags
	for cl := range c.m {
		if i := strings.Index(cl, ":accepts:"); i > 0 && !strings.Contains(cl[i:], "+") {
			lenient[cl] = true
		}
	}
	var classes []string
	implied := int64(0)
	for cl, e := range c.m {
		if i := strings.Index(cl, ":accepts:"); i > 0 && strings.Contains(cl[i:], "+") {
			all := true
			for _, t := range strings.Split(cl[i+len(":accepts:"):], "+") {
				if !lenient[cl[:i]+":accepts:"+t] {
					all = false
				}
			}
			if all {
				implied += e.count
				continue
			}
		}
		classes = append(classes, cl)
	}
	sort.Strings(classes)
	if implied > 0 {
		r.Extra("rfc_accepted_near_misses_implied_by_single_field_findings", implied)
	}
	var hits []hit
	counts := map[string]int64{}
	for _, cl := range classes {
		counts[cl] = c.m[cl].count
		hits = append(hits, c.m[cl].hits...)
	}
	type verdict struct {
		repro int
		last  []finding
	}
	res := make([]verdict, len(hits))
	// own pool (ParallelRange hands out indices in chunks of 64, which would serialise a handful of hits):
	// CPU-bound re-runs are limited to r.Workers, sleep re-runs only wait and all run side by side
	sem := make(chan struct{}, r.Workers)
	var wgAll sync.WaitGroup
	for i := range hits {
		wgAll.Add(1)
		go func(i int) {
			defer wgAll.Done()
			h := hits[i]
			if h.k.Table == "sleep" {
				var wg sync.WaitGroup
				var n int32
				for k := 0; k < 5; k++ {
					wg.Add(1)
					go func() {
						defer wg.Done()
						if fs, _ := checkCase(nil, h.k); hasClass(fs, h.f.Class) {
							atomic.AddInt32(&n, 1)
						}
					}()
				}
				wg.Wait()
				res[i].repro = int(n)
				return
			}
			sem <- struct{}{}
			defer func() { <-sem }()
			for n := 0; n < 5; n++ {
				fs, _ := checkCase(newWorker(), h.k)
				if hasClass(fs, h.f.Class) {
					res[i].repro++
				}
			}
		}(i)
	}
	wgAll.Wait()
	for i, h := range hits {
		if res[i].repro == 5 {
			r.Violate("c15", h.f.Class, h.k, h.f.Expected, h.f.Got, fmt.Sprintf("%d case(s) in this class; re-confirmed 5/5 in fresh runtimes", counts[h.f.Class]))
		} else {
			r.Flaky(map[string]any{"class": h.f.Class, "case": h.k, "expected": h.f.Expected, "got": h.f.Got, "reproduced": fmt.Sprintf("%d/5", res[i].repro)})
		}
	}
}

// ---------------------------------------------------------------------------
// run

func instantSubset(thorough bool) []string {
	l := []string{
		// one instant, many spellings
		"2024-02-29T12:00:00Z", "2024-02-29T17:30:00+05:30", "2024-02-29T04:00:00-08:00", "2024-03-01T02:00:00+14:00",
		"2024-02-28T12:01:00-23:59", "2024-02-29T12:00:00.000000000Z", "2024-02-29T12:00:00-00:00",
		// one nanosecond / half a second / one second around it
		"2024-02-29T12:00:00.000000001Z", "2024-02-29T11:59:59.999999999Z", "2024-02-29T17:30:00.000000001+05:30",
		"2024-02-29T03:59:59.999999999-08:00", "2024-02-29T12:00:00.5Z", "2024-02-29T12:00:01Z", "2024-02-29T11:59:59Z",
		// the year range
		"0000-01-01T00:00:00Z", "0000-01-01T00:00:00+14:00", "0000-01-01T00:00:00.000000001Z", "0000-01-01T00:00:00+00:01",
		"0000-12-31T23:59:59Z", "0001-01-01T00:00:00Z", "0000-02-29T00:00:00Z",
		"9999-12-31T23:59:59Z", "9999-12-31T23:59:59.999999999Z", "9999-12-31T23:59:59.999999999-23:59",
		"9999-12-31T23:59:59.999999998-23:59", "9999-01-01T00:00:00+14:00", "9999-12-31T00:00:00-23:59",
		// the epoch
		"1970-01-01T00:00:00Z", "1969-12-31T23:59:59.999999999Z", "1970-01-01T00:00:00.000000001Z", "1970-01-01T05:30:00+05:30",
		"1969-12-31T16:00:00-08:00", "1969-12-31T23:59:59Z", "1970-01-01T00:00:01Z",
		// int64 nanoseconds from the epoch: last representable, first not
		"2262-04-11T23:47:16.854775807Z", "2262-04-11T23:47:16.854775808Z", "1677-09-21T00:12:43.145224192Z", "1677-09-21T00:12:43.145224191Z",
		"2262-04-12T05:17:16.854775807+05:30",
		// leap days and the century rule
		"2000-02-29T00:00:00Z", "2100-02-28T23:59:59Z", "2100-03-01T00:00:00Z", "1999-12-31T23:59:59Z", "2000-01-01T00:00:00Z",
		"2000-01-01T00:00:00+00:00", "1900-02-28T23:59:59.999999999Z", "1900-03-01T00:00:00Z",
		// ordinary
		"2023-01-15T10:30:00Z", "2023-01-15T10:30:00.123456789Z", "2023-01-15T10:30:00.123456788Z", "2023-01-15T10:29:00.123456789-00:01",
		"2023-01-15T10:30:00.12345679Z", "2023-01-15T10:30:00.1Z", "2023-01-15T10:30:00.100000000Z", "2023-12-31T23:59:59+23:59",
		"2023-12-31T00:00:59Z", "2024-01-01T00:00:00Z", "2023-06-30T23:59:59.999999999Z", "2023-07-01T00:00:00Z", "2023-07-01T09:00:00+09:00",
	}
	if thorough {
		// model-generated: every base instant +/- exactly MaxInt64 ns and one beyond, in three offsets
		bases := []string{"2024-02-29T12:00:00Z", "1970-01-01T00:00:00Z", "5000-06-15T12:00:00.5Z"}
		max := big.NewInt(0).Set(bigMaxI64)
		for _, b := range bases {
			_, ib := mustInstant(b)
			for _, delta := range []*big.Int{max, new(big.Int).Add(max, big.NewInt(1)), new(big.Int).Neg(max), new(big.Int).Sub(new(big.Int).Neg(max), big.NewInt(2))} {
				t := instFromBig(new(big.Int).Add(ib.big(), delta))
				for _, off := range []int64{0, 19800, -86340} {
					if s, ok := formatInst(t, off); ok {
						l = append(l, s)
					}
				}
			}
		}
		for _, y := range []string{"0400", "1000", "1582", "1600", "1752", "1899", "1900", "2038", "2400", "4000", "8000"} {
			l = append(l, y+"-02-28T23:59:59.999999999Z", y+"-03-01T00:00:00Z")
		}
	}
	// de-duplicate textually, keep order
	seen := map[string]bool{}
	var out []string
	for _, s := range l {
		if !seen[s] {
			seen[s] = true
			out = append(out, s)
		}
	}
	return out
}

func addDurations() []string {
	return []string{"0s", "1ns", "-1ns", "999999999ns", "-999999999ns", "1s", "-1s", "1.000000001s", "1h", "-1h", "24h", "-24h",
		"8760h", "-8760h", "2562047h47m16.854775807s", "-2562047h47m16.854775807s", "-9223372036854775808ns", "1m0.5s", "1.5us"}
}

func durationStrings(thorough bool) []string {
	nums := []string{"0", "1", "59", "1.5"}
	if thorough {
		nums = append(nums, ".5", "1.", "0.001", "100", "007", "0.000000001", "2562047", "9223372036854775807", "9223372036854775808", "1.000000001")
	}
	units := []string{"ns", "us", "µs", "μs", "ms", "s", "m", "h"}
	var comps []string
	for _, n := range nums {
		for _, u := range units {
			comps = append(comps, n+u)
		}
	}
	var out []string
	for _, sg := range []string{"", "+", "-"} {
		for _, a := range comps {
			out = append(out, sg+a)
		}
		for _, a := range comps {
			for _, b := range comps {
				out = append(out, sg+a+b)
			}
		}
	}
	// the int64 boundary in every unit, and the unit-less / malformed fringe (nothing asserted beyond "no wrong value")
	out = append(out,
		"9223372036854775807ns", "9223372036854775808ns", "-9223372036854775807ns", "-9223372036854775808ns", "-9223372036854775809ns",
		"9223372036854775.807us", "9223372036854775.808us", "9223372036854.775807ms", "9223372036854.775808ms",
		"9223372036.854775807s", "9223372036.854775808s", "153722867m16.854775807s", "153722867m16.854775808s",
		"2562047h47m16.854775807s", "2562047h47m16.854775808s", "-2562047h47m16.854775808s", "-2562047h47m16.854775809s", "2562048h", "-2562048h",
		"9223372036854775808ns9223372036854775808ns", "-9223372036.854775808s9223372036.854775808s", "9223372036854775808ns9223372036854775807ns", "2562047h47m16s854ms775us807ns", "2562047h47m16s854ms775us808ns", "1h30m", "500ms", "2h45m30s", "1h1m1s1ms1us1ns", "0.5h0.5m0.5s",
		"0", "+0", "-0", "", "1", "s", "1d", "1 s", " 1s", "1s ", ".s", "-", "+", "--1s", "1h-1m", "1e3s", "1S", "1hr", "1.5.5s", "0x10s", "1_000ms")
	seen := map[string]bool{}
	var ded []string
	for _, s := range out {
		if !seen[s] {
			seen[s] = true
			ded = append(ded, s)
		}
	}
	return ded
}

func run(r *core.Run) {
	col := &collector{m: map[string]*entry{}}
	alpha := quickAlphabet()
	if r.Thorough() {
		alpha = fullAlphabet()
	}
	nprod := alpha.size()
	sweep := sweeps()
	nrfc := nprod + int64(len(sweep))
	insts := instantSubset(r.Thorough())
	durs := durationStrings(r.Thorough())
	adds := addDurations()
	sleeps := sleepCases(r.Thorough())
	ni := int64(len(insts))

	r.Bound("rfc_field_alphabet_sizes[year,month,day,hour,minute,second,fraction,offset,separator]", alpha.dims())
	r.Bound("rfc_strings(full product of the field alphabets) x 2 parsers", nprod)
	r.Bound("rfc_sweep_strings(every offset hh:mm, every year's Feb 29, every month x day of 4 years, every h/m/s value, every fraction length 1..12) x 2 parsers", len(sweep))
	r.Bound("instants", ni)
	r.Bound("ordered_pairs", ni*ni)
	r.Bound("ordered_triples", ni*ni*ni)
	r.Bound("add_cases(instants x durations)", ni*int64(len(adds)))
	r.Bound("duration_strings(<=2 components x sign + boundary list)", len(durs))
	r.Bound("sleep_combinations(duration x :max x ceiling x context)", len(sleeps))
	r.Bound("sleep_watchdog_s", watchdog.Seconds())
	nctx, nexcl := sleepContextCounts(r.Thorough())
	r.Bound("sleep_contexts(no context, stdlib WithCancel/WithTimeout, custom {Done nil|live|closed} x {Deadline none|past|near|far} x {Err nil|Canceled|DeadlineExceeded})", nctx)
	r.Bound("sleep_custom_context_combinations_excluded_as_self_contradictory", nexcl)
	r.Rule("non-trivial = an rfc string some parser accepted or a near-miss with exactly one bad field (distinct by text); a pair of textually different instants; " +
		"a triple where the antecedent of an order law holds; an (instant, non-zero duration) pair; an accepted duration string; a sleep combination the model gives a definite verdict")
	r.Assume("unspecified (only 'terminates, and an accepted value still round-trips' is asserted): second :60, lower-case t / z, more than nine fractional digits")
	r.Assume("duration strings: a component that is not a whole number of nanoseconds (1.5ns) may round either way; µ is U+00B5 as in the docstring, U+03BC and bare-dot decimals (.5s, 1.s) are unspecified; rejection of malformed duration strings is not part of the statement")
	r.Assume("duration-s / duration-ms: exact (correctly rounded n/1e9, n/1e6) when |n| <= 2^53, within one ulp above")
	r.Assume("time-from saturates beyond +-(2^63-1) ns: only its sign is asserted there; time-add/time-from inverses are asserted whenever the difference fits int64 ns")
	r.Assume("an accepted near-miss with several bad fields is not reported separately when each of its bad fields is accepted on its own (the single-field string is the minimal counter-example)")
	r.Assume("sleep: a refusal is an error returned within the 20 s watchdog when the requested sleep is >= 59 min or provably not slept; allowed sleeps are only executed at <= 50 ms, allowed long sleeps are started under a cancellable context and cancelled after 100 ms (under a context nothing can interrupt they are not executed; every must-refuse case is executed under every context); " +
		"custom contexts answer Done / Deadline / Err independently and statically; combinations that contradict themselves (closed Done with nil Err, live or nil Done with Canceled, DeadlineExceeded before the deadline) are excluded; " +
		"a non-positive sleep under a deadline already past is unspecified; " +
		":max above the host ceiling with a duration below it, a non-positive or non-duration :max with a duration under the other caps, and a deadline less than 5 s after the end of the sleep are unspecified")

	// model self-check 1: walk every civil date 0000-01-01 .. 9999-12-31 in calendar order (month lengths and
	// leap rule only); the day number must advance by exactly one, invert, and hit the two anchors.
	if msg := calendarSelfCheck(); msg != "" {
		r.Violate("c15", "harness-error:calendar-self-check", kase{Table: "model"}, "days-from-civil is a bijection consistent with the calendar", msg, "")
		return
	}
	// model self-check 2: the field-level and the string-level classification agree on every string
	var bad int64
	var mu sync.Mutex
	record := func(ord int64, k kase, fs []finding, info caseInfo, key string) {
		r.Outcome(info.outcome)
		if info.skipped {
			return
		}
		r.AddEvals(1)
		r.AddTraces(1)
		r.AddTransitions(info.transitions)
		if info.nontrivial {
			r.Nontrivial(key)
		}
		col.add(ord, k, fs)
	}

	walls := map[string]float64{}
	t0 := time.Now()
	lap := func(name string) {
		walls[name] = float64(time.Since(t0).Milliseconds()) / 1000
		t0 = time.Now()
	}

	// --- rfc
	core.ParallelRange(r, nrfc, func(int) *worker { return newWorker() }, func(w *worker, i int64) {
		var rs rfcString
		if i < nprod {
			rs = alpha.at(i)
		} else {
			rs = sweep[i-nprod]
		}
		v, _ := classify(rs.text)
		if v != rs.verdict {
			mu.Lock()
			bad++
			if bad <= 3 {
				r.Violate("c15", "harness-error:model-self-check", kase{Table: "rfc", S: []string{rs.text}, Tags: rs.tags},
					"field-level verdict "+rs.verdict, "string-level verdict "+v, "the two derivations of the RFC 3339 model disagree")
			}
			mu.Unlock()
			return
		}
		k := kase{Table: "rfc", S: []string{rs.text}, Tags: rs.tags}
		fs, info := checkRFC(w, rs.text, rs.tags)
		record(1<<40|i, k, fs, info, "rfc "+rs.text)
		if i%(nrfc/5+1) == 0 {
			r.Sample(map[string]any{"table": "rfc", "input": rs.text, "model": rs.verdict, "tags": rs.tags, "outcome": info.outcome})
		}
	})
	r.AddStates(nrfc)
	lap("rfc")

	// --- pair
	core.ParallelRange(r, ni*ni, func(int) *worker { return newWorker() }, func(w *worker, i int64) {
		a, b := insts[i/ni], insts[i%ni]
		k := kase{Table: "pair", S: []string{a, b}}
		fs, info := checkPair(w, a, b)
		record(2<<40|i, k, fs, info, "pair "+a+" "+b)
		if i == ni+3 {
			r.Sample(map[string]any{"table": "pair", "a": a, "b": b, "outcome": info.outcome})
		}
	})
	r.AddStates(ni)
	lap("pair")

	// --- triple
	core.ParallelRange(r, ni*ni*ni, func(int) *worker { return newWorker() }, func(w *worker, i int64) {
		a, b, c := insts[i/(ni*ni)], insts[i/ni%ni], insts[i%ni]
		k := kase{Table: "triple", S: []string{a, b, c}}
		fs, info := checkTriple(w, a, b, c)
		record(3<<40|i, k, fs, info, "tri "+a+" "+b+" "+c)
	})

	lap("triple")

	// --- add
	na := int64(len(adds))
	core.ParallelRange(r, ni*na, func(int) *worker { return newWorker() }, func(w *worker, i int64) {
		t, d := insts[i/na], adds[i%na]
		k := kase{Table: "add", S: []string{t, d}}
		fs, info := checkAdd(w, t, d)
		record(4<<40|i, k, fs, info, "add "+t+" "+d)
		if i == na+2 {
			r.Sample(map[string]any{"table": "add", "t": t, "d": d, "outcome": info.outcome})
		}
	})

	lap("add")

	// --- dur
	core.ParallelRange(r, int64(len(durs)), func(int) *worker { return newWorker() }, func(w *worker, i int64) {
		k := kase{Table: "dur", S: []string{durs[i]}}
		fs, info := checkDur(w, durs[i])
		record(5<<40|i, k, fs, info, "dur "+durs[i])
		if i == 40 || i == int64(len(durs))-60 {
			r.Sample(map[string]any{"table": "dur", "input": durs[i], "outcome": info.outcome})
		}
	})
	r.AddStates(int64(len(durs)))
	lap("dur")

	// --- sleep
	sleepOutcomes := map[string]int{}
	core.ParallelRange(r, int64(len(sleeps)), nil, func(_ struct{}, i int64) {
		c := sleeps[i]
		k := kase{Table: "sleep", Sleep: &c}
		fs, info := checkSleepW(c, true)
		mu.Lock()
		sleepOutcomes[info.outcome]++
		mu.Unlock()
		record(6<<40|i, k, fs, info, "sleep "+c.key())
		if i%(int64(len(sleeps))/3+1) == 1 {
			r.Sample(map[string]any{"table": "sleep", "case": c, "outcome": info.outcome})
		}
	})
	r.AddStates(int64(len(sleeps)))
	lap("sleep")
	r.Extra("sleep_outcomes", sleepOutcomes)

	col.flush(r)
	lap("reconfirm")
	r.Extra("table_wall_s", walls)
	fmt.Fprintf(os.Stderr, "c15: table wall seconds %v\n", walls)
}

func calendarSelfCheck() string {
	prev := daysFromCivil(0, 1, 1) - 1
	n := 0
	for y := int64(0); y <= 9999; y++ {
		for m := int64(1); m <= 12; m++ {
			for d := int64(1); d <= daysIn(y, m); d++ {
				z := daysFromCivil(y, m, d)
				if z != prev+1 {
					return fmt.Sprintf("day number of %04d-%02d-%02d is %d, previous day %d", y, m, d, z, prev)
				}
				if yy, mm, dd := civilFromDays(z); yy != y || mm != m || dd != d {
					return fmt.Sprintf("civilFromDays(%d) = %d-%d-%d, want %d-%d-%d", z, yy, mm, dd, y, m, d)
				}
				prev = z
				n++
			}
		}
	}
	if daysFromCivil(1970, 1, 1) != 0 || daysFromCivil(2000, 3, 1) != 11017 || n != 3652425 {
		return fmt.Sprintf("anchors: 1970-01-01 -> %d, 2000-03-01 -> %d, days in 0000..9999 = %d", daysFromCivil(1970, 1, 1), daysFromCivil(2000, 3, 1), n)
	}
	return ""
}

func replay(v core.Violation) (bool, string) {
	k, err := core.CaseOf[kase](v)
	if err != nil {
		return false, err.Error()
	}
	var w *worker
	if k.Table != "sleep" {
		w = newWorker()
	}
	fs, info := checkCase(w, k)
	var b strings.Builder
	fmt.Fprintf(&b, "case: %s\noutcome: %s\n", string(v.Case), info.outcome)
	for _, f := range fs {
		fmt.Fprintf(&b, "finding %s\n  expected: %s\n  got: %s\n", f.Class, f.Expected, f.Got)
	}
	return hasClass(fs, v.Class), b.String()
}
