package c15

// time:sleep — every (duration, :max, host ceiling, context) combination.
//
// Wall clock is used only as a watchdog with margins of >= 100x: a sleep the
// model says must be refused is either >= 59 minutes long (so "returned within
// 2 s" cannot be met by actually sleeping, and cannot be missed by a loaded
// machine) or, when it is short, is recognised by its outcome (nil instead of
// an error), not by its timing.  Allowed sleeps are executed only at <= 50 ms;
// allowed long sleeps are started under a context the driver cancels after
// 100 ms and must then return within the watchdog.

import (
	"context"
	"fmt"
	"math"
	"strconv"
	"strings"
	"sync"
	"sync/atomic"
	"time"

	"github.com/luthersystems/elps/lisp"

	"verif/mc/el"
)

const (
	watchdog  = 20 * time.Second
	longProbe = 100 * time.Millisecond
	shortMax  = int64(50 * time.Millisecond)
	longMin   = int64(59 * time.Minute)
	hourNS    = int64(time.Hour)
)

type sleepCfg struct {
	D       string `json:"d"`       // duration string handed to parse-duration
	Max     string `json:"max"`     // "" absent | "dur:<duration string>" | "raw:<ELPS literal>"
	Ceiling int64  `json:"ceiling"` // lisp.WithMaxSleep(ns); 0 = not configured, negative = explicitly none
	// Ctx is the evaluation context:
	//   background                       no context at all (LoadString)
	//   cancelable | deadline:<ns>       the stdlib's WithCancel / WithTimeout
	//   custom:<done>:<deadline>:<err>   an embedder-written context.Context, every answer fixed:
	//                                    done = nil | live | closed, deadline = none | <ns from now, may be negative>,
	//                                    err = nil | canceled | deadline-exceeded
	Ctx string `json:"ctx"`
	// Route is how the call and the per-call context reach the builtin ("" = the sleep is the whole source,
	// evaluated directly under the context):
	//   root-ctx    the environment was also configured with lisp.WithContext(a live context without deadline
	//               that nobody cancels); "for per-call context control, use the *Context methods" (config.go)
	//   closure     a closure over a let scope, created by an EARLIER load under another (live, never cancelled)
	//               context, is called by the load under the per-call context
	//   let-body    the sleep is a non-last body form of a let
	//   let*-init   the sleep is the value expression of a let* binding
	//   callback    the sleep runs inside a lambda that map calls
	//   host-funcall the host calls a previously defined function through LEnv.FunCallContext
	// The verdict never depends on the route: the context of the CURRENT top-level evaluation governs.
	Route string `json:"route,omitempty"`
}

var sleepRoutes = []string{"root-ctx", "closure", "let-body", "let*-init", "callback", "host-funcall"}

// ctxSpec is the decoded Ctx.
type ctxSpec struct {
	kind        string // background | cancelable | deadline | custom
	done        string // custom: nil | live | closed
	hasDeadline bool
	deadline    int64 // ns from the moment the context is built
	err         string // custom: nil | canceled | deadline-exceeded
}

func (c sleepCfg) spec() ctxSpec {
	p := strings.Split(c.Ctx, ":")
	num := func(s string) int64 {
		n, err := strconv.ParseInt(s, 10, 64)
		if err != nil {
			panic("harness: c15 sleep ctx " + c.Ctx)
		}
		return n
	}
	switch {
	case c.Ctx == "background" || c.Ctx == "cancelable":
		return ctxSpec{kind: c.Ctx}
	case p[0] == "deadline" && len(p) == 2:
		return ctxSpec{kind: "deadline", hasDeadline: true, deadline: num(p[1])}
	case p[0] == "custom" && len(p) == 4:
		sp := ctxSpec{kind: "custom", done: p[1], err: p[3]}
		if p[2] != "none" {
			sp.hasDeadline, sp.deadline = true, num(p[2])
		}
		return sp
	}
	panic("harness: c15 sleep ctx " + c.Ctx)
}

// doneKind names the shape of the context's Done channel (part of the violation identity).
func (sp ctxSpec) doneKind() string {
	switch sp.kind {
	case "background":
		return "no-context"
	case "custom":
		return "custom-done-" + sp.done
	}
	return "stdlib-" + sp.kind
}

// interruptible: the driver can wake a sleep that was (rightly or wrongly) started.
func (sp ctxSpec) interruptible() bool {
	return sp.kind == "cancelable" || sp.kind == "deadline" || (sp.kind == "custom" && sp.done == "live")
}

func (c sleepCfg) key() string { return fmt.Sprintf("%s|%s|%d|%s|%s", c.D, c.Max, c.Ceiling, c.Ctx, c.Route) }

func (c sleepCfg) shape() string {
	m := "none"
	switch {
	case strings.HasPrefix(c.Max, "dur:"):
		m = "duration"
	case strings.HasPrefix(c.Max, "raw:"):
		m = "non-duration"
	}
	ce := "none"
	if c.Ceiling > 0 {
		ce = "set"
	}
	rt := ""
	if c.Route != "" {
		rt = ",route=" + c.Route
	}
	return "max=" + m + ",ceiling=" + ce + ",ctx=" + c.spec().doneKind() + rt
}

func exactNS(s string) int64 {
	m := parseDurationString(s)
	if !m.wellFormed || !m.inRange || m.lo.Cmp(m.hi) != 0 {
		panic("harness: c15 sleep table needs exact in-range durations: " + s)
	}
	return m.lo.Int64()
}

type sleepExpect struct {
	d         int64
	class     string // nonpositive | short | long
	must      bool   // must be refused: an error, immediately, without sleeping
	mustConds map[string]bool
	mustAny   bool // the refusal's condition name is not specified
	why       string
	zone      string // non-empty: an immediate error is also acceptable here
	zoneConds map[string]bool
	zoneAny   bool
}

// sleepModel is the statement, read literally: a duration above the applicable
// cap (one hour when :max is absent, :max when given, the host ceiling always)
// or beyond the context deadline must be refused.
func sleepModel(c sleepCfg) sleepExpect {
	e := sleepExpect{d: exactNS(c.D), mustConds: map[string]bool{}, zoneConds: map[string]bool{}}
	d := e.d
	switch {
	case d <= 0:
		e.class = "nonpositive"
	case d <= shortMax:
		e.class = "short"
	case d >= longMin:
		e.class = "long"
	default:
		panic("harness: c15 sleep durations must be <= 50ms or >= 59m: " + c.D)
	}
	ceil := int64(math.MaxInt64)
	if c.Ceiling > 0 {
		ceil = c.Ceiling
	}
	var reasons, zones []string
	switch {
	case c.Max == "":
		if d > hourNS {
			reasons = append(reasons, "above-default-cap")
		}
		if d > ceil {
			reasons = append(reasons, "above-host-ceiling")
		}
	case strings.HasPrefix(c.Max, "dur:"):
		m := exactNS(c.Max[4:])
		if m > 0 {
			if d > m {
				reasons = append(reasons, "above-max")
			}
			if d > ceil {
				reasons = append(reasons, "above-host-ceiling")
			}
			if len(reasons) == 0 && m > ceil {
				zones = append(zones, "max-above-host-ceiling")
				e.zoneConds[lisp.CondSleepLimitExceeded] = true
			}
		} else if d > m {
			reasons = append(reasons, "above-non-positive-max")
			e.mustAny = true
		} else {
			zones = append(zones, "non-positive-max")
			e.zoneAny = true
		}
	default: // raw: a :max that is not a duration
		if d > hourNS || d > ceil {
			reasons = append(reasons, "above-cap-with-non-duration-max")
			e.mustAny = true
		} else {
			zones = append(zones, "non-duration-max")
			e.zoneAny = true
		}
	}
	if len(reasons) > 0 {
		e.mustConds[lisp.CondSleepLimitExceeded] = true
	}
	sp := c.spec()
	if sp.hasDeadline {
		l := sp.deadline
		switch {
		case d <= 0:
			if l <= 0 { // a sleep of no length against a deadline already past: not decided by the statement
				zones = append(zones, "non-positive-sleep-past-deadline")
				e.zoneConds[lisp.CondContextCancelled] = true
			}
		case l <= 0 || d >= l: // the remaining time is already < l when the call is made
			reasons = append(reasons, "beyond-deadline")
			e.mustConds[lisp.CondContextCancelled] = true
		case l-d < int64(5*time.Second):
			zones = append(zones, "deadline-race")
			e.zoneConds[lisp.CondContextCancelled] = true
		}
	}
	if sp.kind == "custom" && sp.err != "nil" {
		// the context already reports an error: the evaluation (and any sleep in it) must end at once
		reasons = append(reasons, "context-already-cancelled")
		e.mustConds[lisp.CondContextCancelled] = true
	}
	e.must = len(reasons) > 0
	e.why = strings.Join(reasons, "+")
	e.zone = strings.Join(zones, "+")
	return e
}

// customCtx is an embedder-written context.Context whose three answers are
// fixed independently: sleepContext's own doc comment points out that the
// interface permits a Deadline together with a nil Done channel.  A live Done
// channel is closed (and Err set to Canceled first) by cancel().
type customCtx struct {
	done     chan struct{}
	hasDL    bool
	dl       time.Time
	err      atomic.Value // error
	canceled atomic.Bool
}

type errBox struct{ e error }

func newCustomCtx(sp ctxSpec) *customCtx {
	c := &customCtx{hasDL: sp.hasDeadline}
	if sp.hasDeadline {
		c.dl = time.Now().Add(time.Duration(sp.deadline))
	}
	switch sp.err {
	case "nil":
		c.err.Store(errBox{})
	case "canceled":
		c.err.Store(errBox{context.Canceled})
	case "deadline-exceeded":
		c.err.Store(errBox{context.DeadlineExceeded})
	default:
		panic("harness: c15 custom ctx err " + sp.err)
	}
	switch sp.done {
	case "nil":
	case "live":
		c.done = make(chan struct{})
	case "closed":
		c.done = make(chan struct{})
		close(c.done)
	default:
		panic("harness: c15 custom ctx done " + sp.done)
	}
	return c
}

func (c *customCtx) Deadline() (time.Time, bool) { return c.dl, c.hasDL }
func (c *customCtx) Done() <-chan struct{} {
	if c.done == nil {
		return nil
	}
	return c.done
}
func (c *customCtx) Err() error    { return c.err.Load().(errBox).e }
func (c *customCtx) Value(any) any { return nil }
func (c *customCtx) cancel() {
	if c.canceled.CompareAndSwap(false, true) {
		c.err.Store(errBox{context.Canceled})
		close(c.done)
	}
}

type sleepObs struct {
	returned    bool
	isErr       bool
	cond, text  string
	elapsed     time.Duration
	cancelled   bool // the driver cancelled the context after the window
	released    bool // ... and the call then returned within the watchdog
	relCond     string
	cancellable bool
}

func (o sleepObs) String() string {
	switch {
	case o.returned && o.isErr:
		return fmt.Sprintf("error %s after %v (%s)", o.cond, o.elapsed.Round(time.Millisecond), o.text)
	case o.returned:
		return fmt.Sprintf("nil after %v", o.elapsed.Round(time.Millisecond))
	case o.cancelled && o.released:
		return "still blocked at the end of the window; returned " + o.relCond + " after the driver cancelled the context"
	case o.cancelled:
		return "still blocked at the end of the window and for the whole watchdog after the driver cancelled the context"
	}
	return "still blocked at the end of the window (context not cancellable; goroutine abandoned)"
}

func sleepSource(c sleepCfg) string {
	call := sleepCall(c)
	switch c.Route {
	case "closure", "host-funcall":
		return "(c15-f)"
	case "let-body":
		return "(let ([x 1]) " + call + " x)"
	case "let*-init":
		return "(let* ([x 1] [y " + call + "]) y)"
	case "callback":
		return "(car (map 'list (lambda (x) " + call + ") '(1)))"
	}
	return call
}

// sleepPrelude is loaded first, under another context, for the routes that call something defined earlier.
func sleepPrelude(c sleepCfg) string {
	switch c.Route {
	case "closure":
		return "(set 'c15-f (let ([x 1]) (lambda () " + sleepCall(c) + ")))"
	case "host-funcall":
		return "(defun c15-f () " + sleepCall(c) + ")"
	}
	return ""
}

func sleepCall(c sleepCfg) string {
	src := "(time:sleep (time:parse-duration " + q(c.D) + ")"
	switch {
	case strings.HasPrefix(c.Max, "dur:"):
		src += " :max (time:parse-duration " + q(c.Max[4:]) + ")"
	case strings.HasPrefix(c.Max, "raw:"):
		src += " :max " + c.Max[4:]
	}
	return src + ")"
}

func execSleep(c sleepCfg, window time.Duration) sleepObs {
	var cfgs []lisp.Config
	if c.Ceiling != 0 {
		cfgs = append(cfgs, lisp.WithMaxSleep(time.Duration(c.Ceiling)))
	}
	if c.Route == "root-ctx" {
		rootCtx, rootCancel := context.WithCancel(context.Background())
		defer rootCancel()
		cfgs = append(cfgs, lisp.WithContext(rootCtx))
	}
	env := el.MustEnv(el.Opts{Stdlib: true, Configs: cfgs})
	src := sleepSource(c)
	if pre := sleepPrelude(c); pre != "" {
		preCtx, preCancel := context.WithCancel(context.Background())
		defer preCancel()
		if v := env.LoadStringContext(preCtx, "c15-prelude", pre); v.Type == lisp.LError {
			panic("harness: c15 sleep prelude: " + el.ErrText(v))
		}
	}
	var ctx context.Context
	var cancel context.CancelFunc
	switch sp := c.spec(); sp.kind {
	case "background":
	case "cancelable":
		ctx, cancel = context.WithCancel(context.Background())
	case "deadline":
		ctx, cancel = context.WithTimeout(context.Background(), time.Duration(sp.deadline))
	case "custom":
		cc := newCustomCtx(sp)
		ctx = cc
		if sp.done == "live" {
			cancel = cc.cancel
		}
	}
	if cancel != nil {
		defer cancel()
	}
	type res struct {
		v  *lisp.LVal
		dt time.Duration
	}
	ch := make(chan res, 1)
	start := time.Now()
	go func() {
		var v *lisp.LVal
		if c.Route == "host-funcall" && ctx != nil {
			f := env.Get(lisp.Symbol("c15-f"))
			v = env.FunCallContext(ctx, f, lisp.SExpr(nil))
		} else if ctx == nil {
			v = env.LoadString("c15", src)
		} else {
			v = env.LoadStringContext(ctx, "c15", src)
		}
		ch <- res{v, time.Since(start)}
	}()
	o := sleepObs{cancellable: cancel != nil}
	take := func(x res) (bool, string, string) {
		if x.v != nil && x.v.Type == lisp.LError {
			return true, x.v.Str, el.ErrText(x.v)
		}
		return false, "", ""
	}
	tm := time.NewTimer(window)
	defer tm.Stop()
	select {
	case x := <-ch:
		o.returned, o.elapsed = true, x.dt
		o.isErr, o.cond, o.text = take(x)
		return o
	case <-tm.C:
	}
	if cancel != nil {
		o.cancelled = true
		cancel()
		tm2 := time.NewTimer(watchdog)
		defer tm2.Stop()
		select {
		case x := <-ch:
			o.released = true
			if isErr, cond, _ := take(x); isErr {
				o.relCond = "error " + cond
			} else {
				o.relCond = "nil"
			}
		case <-tm2.C:
		}
	}
	return o
}

// established counts, per violation identity, the must-refuse cases that stayed blocked for the full watchdog
// during the sweep.  It only shortens runs that already violate: once an identity is established, the sweep
// pre-screens further cases of it with a 2 s window.  Every reported case is still re-confirmed five times with
// the full watchdog (checkSleep), so the pre-screen decides nothing.
var established sync.Map // string -> *atomic.Int32

const prescreen = 2 * time.Second

func checkSleep(c sleepCfg) ([]finding, caseInfo) { return checkSleepW(c, false) }

func checkSleepW(c sleepCfg, sweep bool) (fs []finding, info caseInfo) {
	e := sleepModel(c)
	window := watchdog
	if sweep && e.must {
		if n, ok := established.Load(e.why + ":" + c.spec().doneKind()); ok && n.(*atomic.Int32).Load() > 0 {
			window = prescreen
		}
	}
	if !e.must {
		switch e.class {
		case "short":
			window = time.Duration(e.d) + 5*time.Second
		case "long":
			window = longProbe
		}
	}
	sp := c.spec()
	if !e.must && e.class == "long" && !sp.interruptible() {
		// an allowed long sleep nothing can interrupt: it would simply sleep
		info.skipped = true
		info.outcome = "sleep allowed-long under an uninterruptible context: not executed"
		return nil, info
	}
	o := execSleep(c, window)
	info.transitions = 1
	info.nontrivial = e.zone == "" || e.must
	src := sleepSource(c)
	desc := fmt.Sprintf("%s with host ceiling %v under context %s", src, time.Duration(c.Ceiling), c.Ctx)
	verdict := "allowed-" + e.class
	if e.must {
		verdict = "must-refuse(" + e.why + ")"
	} else if e.zone != "" {
		verdict = "zone(" + e.zone + ")-" + e.class
	}
	got := "blocked"
	switch {
	case o.returned && o.isErr:
		got = "error:" + o.cond
	case o.returned:
		got = "nil"
	}
	info.outcome = "sleep " + verdict + " -> " + got
	zoneOK := func() bool {
		return e.zone != "" && (e.zoneAny || e.zoneConds[o.cond])
	}
	switch {
	case e.must:
		switch {
		case !o.returned:
			if sweep && window == watchdog {
				n, _ := established.LoadOrStore(e.why+":"+sp.doneKind(), new(atomic.Int32))
				n.(*atomic.Int32).Add(1)
			}
			fs = append(fs, finding{"sleep:not-refused:blocks:" + e.why + ":" + sp.doneKind(), "refused immediately (" + e.why + "): " + desc, o.String()})
		case !o.isErr:
			fs = append(fs, finding{"sleep:not-refused:returns-nil:" + e.why + ":" + sp.doneKind(), "refused (" + e.why + "): " + desc, o.String()})
		case !e.mustAny && !e.mustConds[o.cond] && !zoneOK():
			fs = append(fs, finding{"sleep:refusal-wrong-condition:" + e.why + ":" + sp.doneKind(), fmt.Sprintf("condition among %v: %s", keys(e.mustConds), desc), o.String()})
		}
	case e.class == "long":
		switch {
		case o.returned && o.isErr && !zoneOK():
			fs = append(fs, finding{"sleep:allowed-sleep-refused:" + c.shape(), "starts sleeping (the duration is within every applicable cap and deadline): " + desc, o.String()})
		case !o.returned && o.cancellable && !o.released:
			fs = append(fs, finding{"sleep:blocks-past-cancellation:" + c.shape(), "wakes when the context is cancelled: " + desc, o.String()})
		}
	default: // nonpositive, short
		switch {
		case !o.returned:
			fs = append(fs, finding{"sleep:blocks-longer-than-requested:" + c.shape(), fmt.Sprintf("returns within %v: %s", window, desc), o.String()})
		case o.isErr && !zoneOK():
			fs = append(fs, finding{"sleep:allowed-sleep-errors:" + c.shape(), "returns nil: " + desc, o.String()})
		}
	}
	return fs, info
}

func keys(m map[string]bool) []string {
	var l []string
	for _, k := range []string{lisp.CondSleepLimitExceeded, lisp.CondContextCancelled} {
		if m[k] {
			l = append(l, k)
		}
	}
	return l
}

// customContexts is the product {Done: nil | live | closed} x {Deadline: none | each value} x {Err: nil |
// Canceled | DeadlineExceeded}, restricted to the combinations a context can consistently present:
//
//	Done closed  <=>  Err non-nil            (the Context contract), except that
//	Done nil     may go with DeadlineExceeded once the deadline is past (an Err derived from the clock)
//	DeadlineExceeded only with a deadline already past; Canceled never with a nil Done ("can never be cancelled")
//
// The excluded combinations contradict themselves and the statement says nothing about them.
func customContexts(deadlines []int64) (kept []string, excluded int) {
	dls := []string{"none"}
	for _, d := range deadlines {
		dls = append(dls, strconv.FormatInt(d, 10))
	}
	for _, done := range []string{"nil", "live", "closed"} {
		for i, dl := range dls {
			past := i > 0 && deadlines[i-1] <= 0
			for _, err := range []string{"nil", "canceled", "deadline-exceeded"} {
				ok := false
				switch {
				case err == "nil":
					ok = done != "closed"
				case err == "canceled":
					ok = done == "closed"
				case err == "deadline-exceeded":
					ok = past && done != "live"
				}
				if ok {
					kept = append(kept, "custom:"+done+":"+dl+":"+err)
				} else {
					excluded++
				}
			}
		}
	}
	return kept, excluded
}

func sleepContextCounts(thorough bool) (contexts, excluded int) {
	seen := map[string]bool{}
	for _, c := range sleepCases(thorough) {
		seen[c.Ctx] = true
	}
	dl := []int64{-1, 1, 2, 3}
	if thorough {
		dl = []int64{-2, -1, 0, 1, 2, 3, 4, 5, 6}
	}
	_, excluded = customContexts(dl)
	return len(seen), excluded
}

func sleepCases(thorough bool) []sleepCfg {
	ms, s, m, h := int64(time.Millisecond), int64(time.Second), int64(time.Minute), int64(time.Hour)
	ds := []string{"0s", "1ms", "20ms", "59m", "1h", "1h0m0.000000001s", "2h", "3h"}
	maxs := []string{"", "dur:1ms", "dur:30m", "dur:3h", "dur:0s", "dur:-1s", "raw:5"}
	ceils := []int64{0, 10 * m, 2 * h}
	ctxs := []string{"background", "cancelable", fmt.Sprintf("deadline:%d", 50*ms), fmt.Sprintf("deadline:%d", 10*s), fmt.Sprintf("deadline:%d", 3*h)}
	custom, _ := customContexts([]int64{-1 * s, 1 * ms, 10 * s, 3 * h})
	if thorough {
		ds = []string{"0s", "-1s", "1ns", "1ms", "20ms", "50ms", "59m", "1h", "1h0m0.000000001s", "2h", "2h0m0.000000001s", "3h", "3h0m0.000000001s", "9223372036854775807ns"}
		maxs = []string{"", "dur:1ns", "dur:1ms", "dur:30m", "dur:1h", "dur:2h", "dur:3h", "dur:9223372036854775807ns", "dur:0s", "dur:-1s", "raw:5", `raw:"3h"`, "raw:'never", "raw:()"}
		ceils = []int64{0, -1, 1 * ms, 10 * m, 1 * h, 2 * h}
		ctxs = []string{"background", "cancelable", fmt.Sprintf("deadline:%d", 50*ms), fmt.Sprintf("deadline:%d", 10*s), fmt.Sprintf("deadline:%d", 30*m),
			fmt.Sprintf("deadline:%d", 1*h), fmt.Sprintf("deadline:%d", 3*h)}
		custom, _ = customContexts([]int64{-1 * h, -1 * s, 0, 1 * ms, 50 * ms, 10 * s, 30 * m, 1 * h, 3 * h})
	}
	ctxs = append(ctxs, custom...)
	var out []sleepCfg
	for _, d := range ds {
		for _, mx := range maxs {
			for _, ce := range ceils {
				for _, cx := range ctxs {
					out = append(out, sleepCfg{D: d, Max: mx, Ceiling: ce, Ctx: cx})
				}
				// the routes: every duration x {no :max, :max 30m} x no ceiling (thorough: also 2h) x every
				// context that is one (with no context at all there is nothing a route could lose)
				if (mx == "" || mx == "dur:30m") && (ce == 0 || (thorough && ce == 2*h)) {
					for _, cx := range ctxs {
						if cx == "background" {
							continue
						}
						for _, rt := range sleepRoutes {
							out = append(out, sleepCfg{D: d, Max: mx, Ceiling: ce, Ctx: cx, Route: rt})
						}
					}
				}
			}
		}
	}
	return out
}
