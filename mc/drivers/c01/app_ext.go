package c01

// T-app, extended: the remaining core builtins, macros and special operators
// covered by the reference (verif/mc/ri/builtins_ext.go).
//
// The base table (tables.go) applies every callable to every tuple over one
// alphabet.  The callables added here take up to five arguments and need
// arguments of particular kinds (sorted maps, comparison functions, index
// ints) to reach their defined behaviour at all, so each one is given a list
// of *forms*: a source template with at most three holes and, per hole, the
// complete alphabet that hole ranges over (the remaining argument positions
// are fixed by the template).  Every form is enumerated exhaustively: the
// number of cases of a form is the product of its hole alphabets.
//
// A violation class is  T-app:<name>/<number of arguments>:<ref>-vs-<real>
// with ":<tag>" appended for forms that carry a tag.

import (
	"fmt"
	"sort"
	"strings"
	"sync"

	"verif/mc/core"
	"verif/mc/gen"
)

type xform struct {
	name  string     // the callable under test
	nargs int        // number of arguments it receives in this form (class component)
	tag   string     // optional class suffix
	tmpl  string     // source with one %s per hole
	quick [][]string // alphabet per hole, quick tier
	thor  [][]string // alphabet per hole, thorough tier (nil: same as quick)
	// strict: compare the spelling of keyword keys too (see agreeExt)
	strict bool
}

// appExtOnly: callables enumerated by the forms below and skipped by the
// base loop (which would spend |V|^3 cases on arity errors for each).
var appExtOnly = map[string]bool{}

var extForms []xform

// ---- alphabets ---------------------------------------------------------------

func cat(ls ...[]string) []string {
	var out []string
	seen := map[string]bool{}
	for _, l := range ls {
		for _, s := range l {
			if !seen[s] {
				seen[s] = true
				out = append(out, s)
			}
		}
	}
	return out
}

var (
	// one value of every kind: the ill-typed sampler for positions that are not the subject of a form
	xKinds = []string{"0", "2.5", `"a"`, "'a", ":k", "true", "()", "'(1 2)", "(vector 1 2)", `(sorted-map "a" 1)`, "car", "(lambda (x) x)"}
	xFew   = []string{"1", `"a"`, "()"}

	xInts    = []string{"0", "1", "-1", "2", "3", "7"}
	xIdx     = []string{"-1", "0", "1", "2", "3", "4"}
	xNumsQ   = []string{"0", "1", "-1", "2", "3", "6", "2.5", "0.0"}
	xNumsT   = cat(xNumsQ, []string{"7", "-6", "-2.5", "1.5", "1e21", "1e-7", "9223372036854775807", "-9223372036854775808", "255", "4"})
	xLists   = []string{"()", "'(1)", "'(1 2)", "'(1 2 3)", "'(3 1 2)", "'(a b)", "'((1 2) (3))"}
	xVecs    = []string{"(vector)", "(vector 1 2)", "(vector 3 1 2)"}
	xStrs    = []string{`""`, `"a"`, `"abc"`, `"b"`, `"12"`, `"B"`}
	xStrsT   = cat(xStrs, []string{`"é"`, `"ab"`, `"true"`, `" "`})
	xMaps    = []string{"(sorted-map)", `(sorted-map "a" 1)`, `(sorted-map "a" 1 'b 2)`, "(sorted-map 'a 1)", "(sorted-map :k 1)"}
	xMapsT   = cat(xMaps, []string{`(sorted-map 'b 2 "a" 1)`, `(sorted-map "a" (sorted-map "a" 1))`, `(sorted-map "B" 1 "a" 2 "C" 3)`, `(sorted-map "a" ())`})
	xKeys    = []string{`"a"`, "'a", `"b"`, "'b", `"c"`, ":k", `":k"`, "'k"}
	xKeysT   = cat(xKeys, []string{`""`, "'true", "true", `"B"`})
	xIllMap  = []string{"()", "5", "'(1 2)", "(vector 1 2)", `"a"`, "car"}
	xIllKey  = []string{"5", "()", "'(a)", "2.5", "car"}
	xVals    = []string{"1", `"v"`, "()", "'(1)"}
	xSpecs   = []string{"'list", "'vector", "'string", "'bytes", "5", "'a"}
	xSeqs    = cat(xLists[:5], xVecs)
	xSeqsIll = cat(xSeqs, []string{`""`, `"abc"`, "5", "'a", `(sorted-map "a" 1)`, "car"})
	xLess    = []string{"<", ">", "(lambda (x y) (< x y))", "string<", "(lambda (a b) true)", "(lambda (a b) false)", "5", "car", "(lambda (a) true)",
		"(lambda (x y) (< (car x) (car y)))", "(lambda (x y) (string< (to-string x) (to-string y)))"}
	xSortSeq = cat(xLists[:5], xVecs, []string{"'(2 1 2.5 1)", `'("b" "a" "c")`, `'(1 "a")`, `'(1 "a" 2)`, "(list 2 1)", "5", `"ba"`, `(sorted-map "a" 1)`, "'a",
		"'(a b)", "'(b a c)", "(list 'b 'a)", "'((1 2) (3))", "'((2 a) (1 b) (2 c) (1 d))"})
	xFns1    = []string{"car", "cdr", "list", "length", "(lambda (x) (list x x))", "not", "5", "'car", "(lambda (x y) x)"}
	xFns2    = []string{"cons", "-", "list", "(lambda (x y) (list x y))", "<", "car", "5", "(lambda (&rest r) r)"}
	xArgs    = []string{"'(1 2)", "()", "5", `"ab"`, "(vector 1 2)"}
	xFmts    = []string{`""`, `"a"`, `"{}"`, `"{} {}"`, `"{0}"`, `"{1}{0}"`, `"{0}{0}"`, `"{{}}"`, `"{{{}}}"`, `"{} {0}"`, `"{"`, `"}"`, `"{x}"`, `"{2}"`, `"a{}b"`, "5", "'a"}
	xFmtVals = []string{"1", "2.5", `"s"`, "'a", `'(1 "x")`, "(vector 1)", `(sorted-map "a" 1)`, "()", "true", ":k", "car", "-0.0", `""`}
)

// anyVals: the tier's base alphabet plus the kinds the base alphabet lacks.
func anyVals(thorough bool) []string {
	if thorough {
		return cat(valuesThorough, xMaps[:3], []string{`"12"`, `"b"`, "(vector 3 1 2)", "-0.5"})
	}
	return cat(valuesQuick, xMaps[1:3], []string{`"12"`})
}

func h(ls ...[]string) [][]string { return ls }

// ---- registration ---------------------------------------------------------------

func ext(name string, min, max int) {
	appTable = append(appTable, bsig{name, min, max})
	appExtOnly[name] = true
}

func form(name string, nargs int, tag, tmpl string, quick, thor [][]string) {
	if strings.Count(tmpl, "%s") != len(quick) || (thor != nil && len(thor) != len(quick)) {
		panic("c01: malformed form " + tmpl)
	}
	extForms = append(extForms, xform{name: name, nargs: nargs, tag: tag, tmpl: tmpl, quick: quick, thor: thor})
}

// generic registers the application forms every callable gets: all arities
// from 0 to max+1 (3 for a variadic), the first two positions over the whole
// alphabet, further positions over the kind sampler.
const anyMark = "\x00any"

var xAny = []string{anyMark}

// xAnySmall: the same without numbers of huge magnitude
const anySmallMark = "\x00anysmall"

var xAnySmall = []string{anySmallMark}
var hugeNumbers = map[string]bool{"9223372036854775807": true, "-9223372036854775808": true, "1e21": true}

func generic(name string, min, max int) {
	ext(name, min, max)
	hi := max + 1
	if max < 0 {
		hi = 3
	}
	for k := 0; k <= hi && k <= 4; k++ {
		holes := make([][]string, k)
		for i := range holes {
			switch {
			case k <= 2:
				holes[i] = xAny
			case i == 0:
				holes[i] = xKinds
			default:
				holes[i] = xFew
			}
		}
		if k > 3 {
			// four arguments: vary the first three, fix the fourth
			holes = holes[:3]
			form(name, k, "", "("+name+strings.Repeat(" %s", 3)+" 1)", holes, nil)
			continue
		}
		var thor [][]string
		if k == 3 {
			thor = h(xAny, xKinds, xKinds)
			if name == "make-sequence" {
				thor = nil
			}
		}
		form(name, k, "", "("+name+strings.Repeat(" %s", k)+")", holes, thor)
	}
}

func init() {
	// values the new builtins need, added to the thorough base alphabet (each
	// value added there costs 14 * 3|V|^2 base cases, so the quick alphabet is
	// left alone; the forms below bring their own alphabets)
	valuesThorough = append(valuesThorough, `(sorted-map "a" 1 'b 2)`, "(vector 3 1 2)", `"b"`)

	// a predicate the reference always had but the base table did not list
	appTable = append(appTable, bsig{"sorted-map?", 1, 1})

	// ---- numbers
	generic("/", 0, -1)
	form("/", 2, "", "(/ %s %s)", h(xNumsQ, xNumsQ), h(xNumsT, xNumsT))
	form("/", 3, "", "(/ %s %s %s)", h(xNumsQ, xNumsQ, xNumsQ), h(xNumsT, xNumsT, xNumsT))
	generic("pow", 2, 2)
	form("pow", 2, "", "(pow %s %s)", h(xNumsQ, xNumsQ), h(cat(xNumsT, []string{"62", "63", "64", "-3"}), cat(xNumsT, []string{"62", "63", "64", "-3", "0.5"})))

	// ---- conversions
	generic("to-string", 1, 1)
	form("to-string", 1, "", "(to-string %s)", h([]string{"1.0", "1.01", "1e21", "1e-7", "-0.0", "-2.5", "100", "-7", "'true", "false", ":k", `"é"`, "(vector)", "(sorted-map)"}), nil)
	generic("to-int", 1, 1)
	form("to-int", 1, "", "(to-int %s)", h([]string{`"42"`, `"007"`, `"4.2"`, `"-3"`, `"+1"`, `" 1"`, `"1 "`, `"9223372036854775807"`, `"9223372036854775808"`, `"1e3"`, `"x1"`, `"é"`,
		"42.9", "-42.9", "-0.5", "0.999", "1e21", "1e-7", "9007199254740993", "(vector 1)", "(sorted-map)"}), nil)
	generic("to-float", 1, 1)
	form("to-float", 1, "", "(to-float %s)", h([]string{`"42.2"`, `"42"`, `"-3"`, `"1e3"`, `"-1.23456e+1"`, `"2.5e-1"`, `"abc"`, `"1x"`, `" 1"`, `"+1"`, `".5"`, `"1."`, `"inf"`, `"nan"`, `"0x10"`, `"1_0"`,
		`"1e999"`, `"--1"`, `"1.2.3"`, "42", "-12.3456", "9007199254740993", "(vector 1)", "(sorted-map)"}), nil)

	// ---- types
	generic("type", 1, 1)
	generic("type?", 2, 2)
	form("type?", 2, "", "(type? %s %s)", h([]string{"'int", "'float", "'string", "'list", "'sorted-map", "'array", "'bytes", "'fun", "'vector", "'symbol", "'lisp:int", ":int", `"int"`, "5", "()"}, xAny), nil)
	generic("bool?", 1, 1)
	generic("array?", 1, 1)
	generic("bytes?", 1, 1)
	generic("tagged-value?", 1, 1)
	form("sorted-map?", 1, "", "(sorted-map? %s)", h(xMaps), h(xMapsT))
	form("length", 1, "", "(length %s)", h(xMaps), h(xMapsT))
	form("equal?", 2, "", "(equal? %s %s)", h(cat(xMaps, []string{"()", "'(a 1)"}), cat(xMaps, []string{"()", "'(a 1)"})), h(cat(xMapsT, []string{"()", "'(a 1)"}), cat(xMapsT, []string{"()", "'(a 1)"})))

	// ---- sequences
	generic("empty?", 1, 1)
	form("empty?", 1, "", "(empty? %s)", h(cat(xLists, xVecs, xStrs, xMaps)), nil)
	generic("rest", 1, 1)
	form("rest", 1, "", "(rest %s)", h(cat(xLists, xVecs)), nil)
	generic("append", 2, -1)
	form("append", 3, "", "(append %s %s %s)", h(xSpecs[:2], xSeqsIll, xKinds), nil)
	form("append", 3, "", "(append %s %s 9)", h(xSpecs, xSeqs), nil)
	form("append", 4, "", "(append 'list %s %s %s)", h(xSeqs, xVals, xVals), nil)
	form("append", 4, "", "(append 'vector %s %s %s)", h(xSeqs, xVals, xVals), nil)
	form("append", 3, "unchanged", "(let ([v %s]) (list (append %s v 9) v))", h(xSeqs, xSpecs[:2]), nil)
	generic("append!", 1, -1)
	form("append!", 3, "", "(append! %s %s %s)", h(xSeqsIll, xVals, xVals), nil)
	form("append!", 2, "in-place", "(let ([v %s]) (list (append! v %s) v (append! v 8 9) v))", h(cat(xVecs, []string{"(list 1)", "()"}), xVals), nil)
	generic("concat", 1, -1)
	form("concat", 3, "", "(concat %s %s %s)", h(xSpecs, xSeqsIll, xSeqsIll), nil)
	form("concat", 4, "", "(concat 'list %s %s %s)", h(xSeqs[1:], xSeqs[1:], xSeqs[1:]), h(xSeqs, xSeqs, xSeqs))
	form("concat", 4, "", "(concat 'vector %s %s %s)", h(xSeqs[:4], xSeqs[:4], xSeqs[:4]), h(xSeqs, xSeqs, xSeqs))
	form("concat", 4, "", "(concat 'string %s %s %s)", h(xStrs[:4], xStrs[:4], xStrs[:4]), h(xStrsT, xStrsT, xStrsT))
	form("concat", 2, "copies", "(let* ([v %s] [c (concat %s v)]) (append! c 9) (list v c))", h(xVecs, xSpecs[:2]), nil)
	generic("slice", 4, 4)
	for _, sp := range []string{"'list", "'vector", "'string"} {
		form("slice", 4, "", "(slice "+sp+" %s %s %s)", h(cat(xSeqs, []string{`""`, `"abc"`, `"hello"`}), xIdx, xIdx), h(cat(xSeqsIll, []string{`"hello"`, `"é"`}), cat(xIdx, []string{"5", "2.5", "()"}), cat(xIdx, []string{"5", "2.5", "()"})))
	}
	form("slice", 4, "", "(slice %s %s 1 2)", h(xSpecs, xSeqsIll), nil)
	form("slice", 4, "", "(slice 'list %s %s %s)", h(xKinds, xKinds, xKinds), nil)
	generic("zip", 2, -1)
	form("zip", 3, "", "(zip 'list %s %s)", h(cat(xLists, xSeqsIll), cat(xLists, xSeqsIll)), nil)
	form("zip", 3, "", "(zip %s %s '(1 2))", h(xSpecs, xSeqs), nil)
	form("zip", 4, "", "(zip 'list %s %s %s)", h(xLists, xLists, xLists), nil)
	generic("insert-index", 4, 4)
	form("insert-index", 4, "", "(insert-index 'list %s %s %s)", h(xSeqsIll, cat(xIdx, []string{"2.5", "()"}), xVals), h(cat(xSeqsIll, xLists), cat(xIdx, []string{"2.5", "()", "5", "9223372036854775807"}), xKinds))
	form("insert-index", 4, "", "(insert-index 'vector %s %s %s)", h(xSeqs, xIdx, xVals[:2]), nil)
	form("insert-index", 4, "", "(insert-index %s %s 1 9)", h(xSpecs, xSeqsIll), nil)
	form("insert-index", 4, "unchanged", "(let ([v %s]) (list (insert-index %s v 0 9) v))", h(xSeqs, xSpecs[:2]), nil)
	// make-sequence builds its whole result eagerly: (make-sequence 0 9223372036854775807) exhausts memory
	// (resource bounds are C03/C04's subject), so its alphabet leaves out the three huge numbers
	ext("make-sequence", 2, -1)
	form("make-sequence", 0, "", "(make-sequence)", h(), nil)
	form("make-sequence", 1, "", "(make-sequence %s)", h(xAnySmall), nil)
	form("make-sequence", 2, "", "(make-sequence %s %s)", h(xAnySmall, xAnySmall), nil)
	form("make-sequence", 3, "", "(make-sequence %s %s %s)", h(xKinds, xFew, xFew), nil)
	xSeqNums := []string{"0", "1", "3", "5", "-2", "2.5", "10", `"a"`, "()"}
	form("make-sequence", 2, "", "(make-sequence %s %s)", h(xSeqNums, xSeqNums), nil)
	form("make-sequence", 3, "", "(make-sequence %s %s %s)", h(xSeqNums, xSeqNums, []string{"1", "2", "3", "4", "0.5", "2.5", "0", "-1", `"a"`, "()"}), nil)
	form("make-sequence", 4, "", "(make-sequence 0 %s %s %s)", h(xSeqNums[:4], []string{"1", "2"}, xFew), nil)
	generic("aref", 1, -1)
	form("aref", 2, "", "(aref %s %s)", h(cat(xVecs, []string{"(vector (vector 1 2) (vector 3))", "'(1 2)"}), cat(xIdx, []string{"2.5", "()"})), nil)
	form("aref", 2, "", "(aref (vector %s %s 3) %s)", h(xVals, xVals, cat(xIdx, []string{"2.5"})), nil)
	form("aref", 3, "", "(aref %s %s %s)", h(cat(xVecs, []string{"(vector (vector 1 2) (vector 3))"}), xIdx[1:4], xIdx[1:4]), nil)

	// ---- sorting
	generic("stable-sort", 2, -1)
	xPerms := []string{"'(1 2 3)", "'(1 3 2)", "'(2 1 3)", "'(2 3 1)", "'(3 1 2)", "'(3 2 1)", "'(2 1 2)", "'(1 1)", "'(2 2 1 1)", "'(4 3 2 1)", "'(1 2.5 2 0.5)", `'("b" "B" "a" "")`, "(vector 2 3 1)", "(list 3 2 1)"}
	form("stable-sort", 2, "", "(stable-sort %s %s)", h(xLess, xSortSeq), h(cat(xLess, []string{"<=", ">=", "string>", "(lambda (x y) (> x y))", "="}), cat(xSortSeq, xPerms)))
	xKeyed := []string{`'("bb" "a" "ccc")`, `'("b" "a" "c" "aa")`, "'((2 a) (1 b) (2 c) (1 d))", "'((1 a))", "()", "(vector '(2 a) '(1 b))", "'(1 2)", "5"}
	xKeyFns := []string{"length", "car", "first", "(lambda (p) (nth p 0))", "identity", "5", "(lambda () 1)", "(lambda (a b) a)"}
	form("stable-sort", 3, "", "(stable-sort %s %s %s)", h(xLess[:7], xKeyed, xKeyFns), nil)
	form("stable-sort", 3, "", "(stable-sort string< %s %s)", h([]string{"'(b a c)", "(list 'b 'a)", "'(a b)", "(list :b :a)"}, []string{"to-string", "(lambda (s) (to-string s))"}), nil)
	form("stable-sort", 4, "", "(stable-sort < %s %s %s)", h(xKeyed[:3], xKeyFns[:2], xKeyFns[:2]), nil)
	form("stable-sort", 2, "in-place", "(let ([v %s]) (list (stable-sort %s v) v))", h([]string{"(list 3 1 2)", "(vector 3 1 2)", "(list 1)", "(vector)", "(list 2 1 2.5 1)"}, xLess[:4]), nil)
	generic("insert-sorted", 4, -1)
	xSorted := []string{"()", "'(1)", "'(1 2 4)", "'(1 2 2 4)", "'(4 2 1)", "'(3 1 2)", `'("a" "c")`, "(vector 1 2 4)", "5", `"ab"`, "'a", "'((1 a) (3 b))", "'(a b)"}
	xItems := []string{"0", "2", "3", "2.5", "5", `"b"`, "'a", "()", "'(2 z)"}
	form("insert-sorted", 4, "", "(insert-sorted 'list %s %s %s)", h(xSorted, xLess, xItems), h(cat(xSorted, []string{"'(1 2 3 4 5)", "'(5 4 3 2 1)", "'(0.5 1.5 2.5)", "'(1 1 1)", "'(2)", `'("a" "b" "c")`}), cat(xLess, []string{"<=", ">=", "string>"}), cat(xItems, []string{"1", "4", "6", "-1", "1.5", `"a"`, `"bb"`, `""`})))
	form("insert-sorted", 4, "", "(insert-sorted 'vector %s %s %s)", h(xSorted[:6], xLess[:3], xItems[:5]), nil)
	form("insert-sorted", 4, "", "(insert-sorted %s %s < 3)", h(xSpecs, xSorted), nil)
	xPairs := []string{"()", "'((1 a))", "'((1 a) (3 b))", "'((1 a) (1 b))", "'((1 a) (2 b) (2 c) (3 d))", "'(1 2)"}
	xPairItems := []string{"'(2 z)", "'(1 z)", "'(0 z)", "'(9 z)", "5", "()"}
	form("insert-sorted", 5, "", "(insert-sorted 'list %s < %s %s)", h(xPairs, xPairItems, xKeyFns), nil)
	form("insert-sorted", 6, "", "(insert-sorted 'list %s < '(2 z) %s %s)", h(xPairs[:3], xKeyFns[:2], xKeyFns[:2]), nil)
	form("insert-sorted", 4, "unchanged", "(let ([v %s]) (list (insert-sorted 'list v < %s) v))", h([]string{"(list 1 2 4)", "(list)"}, xItems[:5]), nil)
	generic("search-sorted", 2, 2)
	xSearchPreds := []string{"(lambda (i) (>= i 2))", "(lambda (i) true)", "(lambda (i) false)", "(lambda (i) ())", "(lambda (i) (= i 1))", "(lambda (i) (>= i 7))", "(lambda (i) (> i 0))",
		"(lambda (i) (car i))", "(lambda (i) (if (> i 3) (car i) false))", "5", "car", "(lambda () true)", "(lambda (i) i)"}
	form("search-sorted", 2, "", "(search-sorted %s %s)", h([]string{"0", "1", "2", "3", "5", "8", "9", "-1", "2.5", `"a"`, "()"}, xSearchPreds), nil)
	form("search-sorted", 2, "example", "(let ([test %s]) (search-sorted (length test) (lambda (i) (<= %s (nth test i)))))", h([]string{"'(1 2 4)", "'(1 2 2 4 7)", "()", "(vector 1 3)"}, xInts), nil)

	// ---- sorted maps
	generic("sorted-map", 0, -1)
	form("sorted-map", 4, "", "(sorted-map %s %s %s 2)", h(cat(xKeys, xIllKey[:2]), xKinds, cat(xKeys, xIllKey[:2])), h(cat(xKeysT, xIllKey), xKinds, cat(xKeysT, xIllKey)))
	form("sorted-map", 6, "", `(sorted-map %s 1 %s 2 %s 3)`, h(xKeys[:6], xKeys[:6], xKeys[:6]), h(xKeysT, xKeysT, xKeysT))
	form("sorted-map", 2, "keyword-key-spelling", "%s", h([]string{"(sorted-map :k 1)", "(sorted-map :height 100 :width 50)", "(keys (sorted-map :k 1))", "(assoc (sorted-map) :k 1)", "(assoc! (sorted-map 'a 1) :k 1)"}), nil)
	extForms[len(extForms)-1].strict = true
	for _, f := range []string{"assoc", "assoc!"} {
		generic(f, 3, 3)
		form(f, 3, "", "("+f+" %s %s %s)", h(cat(xMaps, xIllMap), cat(xKeys, xIllKey), xVals), h(cat(xMapsT, xIllMap), cat(xKeysT, xIllKey), xVals))
		form(f, 3, "aliasing", "(let ([m %s]) (list ("+f+" m %s %s) m))", h(xMaps, xKeys, xVals[:2]), h(xMapsT, xKeysT, xVals[:2]))
	}
	for _, f := range []string{"dissoc", "dissoc!", "get", "key?"} {
		generic(f, 2, 2)
		form(f, 2, "", "("+f+" %s %s)", h(cat(xMaps, xIllMap), cat(xKeys, xIllKey)), h(cat(xMapsT, xIllMap), cat(xKeysT, xIllKey)))
	}
	form("dissoc", 2, "aliasing", "(let ([m %s]) (list (dissoc m %s) m))", h(xMaps, xKeys), h(xMapsT, xKeysT))
	form("dissoc!", 2, "aliasing", "(let ([m %s]) (list (dissoc! m %s) m))", h(xMaps, xKeys), h(xMapsT, xKeysT))
	form("get", 2, "nested", "(get (get %s %s) %s)", h(cat(xMapsT[5:8], xMaps[:2]), xKeys[:4], xKeys[:4]), nil)
	generic("keys", 1, 1)
	form("keys", 1, "", "(keys %s)", h(xMaps), h(xMapsT))
	form("keys", 1, "after-assoc", "(keys (assoc %s %s 0))", h(xMaps, xKeys), h(xMapsT, xKeysT))
	generic("get-default", 3, 3)
	xDefaults := []string{"0", "(debug-print 'd)", "(car 5)", "(progn (debug-print 1) 'z)"}
	form("get-default", 3, "", "(get-default %s %s %s)", h(cat(xMaps, xIllMap), cat(xKeys, xIllKey), xDefaults), h(cat(xMapsT, xIllMap), cat(xKeysT, xIllKey), xDefaults))
	form("get-default", 3, "order", "(get-default (progn (debug-print 'm) %s) (progn (debug-print 'k) %s) (progn (debug-print 'd) 0))", h(xMaps, xKeys), nil)

	// ---- higher-order
	generic("compose", 2, 2)
	form("compose", 2, "called", "(funcall (compose %s %s) %s)", h(xFns1, xFns1, xArgs), nil)
	form("compose", 2, "called2", "(funcall (compose %s %s) %s 3)", h(xFns1[:6], cat(xFns2, []string{"+"}), xArgs[:3]), nil)
	form("compose", 2, "called0", "(funcall (compose %s %s))", h(xFns1[:6], []string{"list", "+", "car", "(lambda () 7)"}), nil)
	generic("flip", 1, 1)
	form("flip", 1, "called", "(funcall (flip %s) %s %s)", h(xFns2, xArgs, xArgs), nil)
	form("flip", 1, "called-arity", "(funcall (flip %s)%s)", h(xFns2[:5], []string{"", " 1", " 1 2 3"}), nil)
	generic("unpack", 2, 2)
	form("unpack", 2, "", "(unpack %s %s)", h(cat(xFns1, xFns2), cat(xLists, []string{"(vector 1 2)", "5"})), nil)
	ext("curry-function", 1, -1)
	form("curry-function", 0, "", "(curry-function)", h(), nil)
	form("curry-function", 1, "", "(curry-function %s)", h(xAny), nil)
	form("curry-function", 2, "called", "(funcall (curry-function %s %s) %s)", h(xFns2, xArgs, xArgs), nil)
	form("curry-function", 1, "called", "(funcall (curry-function %s)%s)", h(cat(xFns2, xFns1), []string{"", " 1", " 1 2", " '(1 2)"}), nil)
	form("curry-function", 3, "called", "(funcall (curry-function %s 1 %s) %s)", h(xFns2, xArgs, xArgs[:3]), nil)
	form("curry-function", 2, "lazy", "(progn (curry-function %s %s) 'made)", h([]string{"(car 5)", "nosuch", "+", "5"}, []string{"(car 5)", "nosuch", "1"}), nil)
	form("curry-function", 2, "twice", "(let ([c (curry-function %s %s)]) (list (funcall c 1) (funcall c 2)))", h(xFns2[:4], xArgs[:3]), nil)

	// ---- strings and symbols
	for _, f := range []string{"string=", "string<", "string<=", "string>", "string>="} {
		ext(f, 2, 2)
		form(f, 0, "", "("+f+")", h(), nil)
		form(f, 1, "", "("+f+" %s)", h(xKinds), nil)
		form(f, 2, "", "("+f+" %s %s)", h(xStrs, xStrs), h(xStrsT, xStrsT))
		form(f, 2, "", "("+f+" %s %s)", h(xKinds, xKinds), nil)
		form(f, 3, "", "("+f+" %s %s %s)", h(xStrs[:2], xStrs[:2], xFew), nil)
	}
	generic("symbol=", 2, 2)
	form("symbol=", 2, "", "(symbol= %s %s)", h([]string{"'a", "'b", ":a", ":k", "true", "false", "'true", "'lisp:a", "'user:a", "(car '(a))"}, []string{"'a", "'b", ":a", ":k", "true", "false", "'true", "'lisp:a", "'user:a", "(car '(a))"}), nil)
	generic("format-string", 1, -1)
	form("format-string", 1, "", "(format-string %s)", h(xFmts), nil)
	form("format-string", 2, "", "(format-string %s %s)", h(xFmts, xFmtVals), nil)
	form("format-string", 3, "", "(format-string %s %s %s)", h(xFmts, xFmtVals, xFmtVals[:6]), h(xFmts, xFmtVals, xFmtVals))
	form("format-string", 4, "", "(format-string %s 1 %s %s)", h(cat(xFmts[:10], []string{`"{} {} {}"`, `"{2}{1}{0}"`, `"{0} said {{hello}} to {0}"`}), xFmtVals[:4], xFmtVals[:4]), nil)

	// ---- evaluation
	generic("eval", 1, 1)
	form("eval", 1, "", "(eval %s)", h([]string{"'(+ 1 2)", "'(list 1 2)", "'(car '(1 2))", "'(if true 1 2)", "'nosuch", "'car", "'(quote a)", "'(nosuch 1)", "(list + 1 2)", "(list '+ 1 2)", "'((lambda (x) x) 3)",
		`'"s"`, "'(vector 1)", "'(list 'a)", "''a"}), nil)
	ext("function", 1, 1)
	form("function", 1, "", "(function %s)", h([]string{"car", "list", "nosuch", "true", ":k", "5", `"a"`, "(a)", "()", "'car", "lisp:car", "user:car", "nopkg:car", "if", "defun", "(lambda (x) x)"}), nil)
	form("function", 0, "", "(function)", h(), nil)
	form("function", 2, "", "(function %s %s)", h([]string{"car", "5"}, []string{"car", "5"}), nil)
	form("function", 1, "called", "(funcall (function %s) %s)", h([]string{"car", "list", "length", "not"}, xArgs), nil)
	form("function", 1, "reader", "(funcall #'%s %s)", h([]string{"car", "list", "length", "nosuch"}, xArgs), nil)
	form("function", 1, "scoped", "%s", h([]string{
		"(flet ([lf (x) (list x)]) (funcall (function lf) 1))",
		"(labels ([lf (x) (list x)]) (funcall #'lf 1))",
		"(let ([car 5]) (function car))",
		"(let ([car cdr]) (funcall (function car) '(1 2)))",
		"(progn (set 'v 10) (function v))",
		"(progn (defun my (x) (list x x)) (funcall #'my 3))",
		"(map 'list #'list '(1 2))",
	}), nil)
	ext("expr", 1, 1)
	xPatterns := []string{"(+ % 1)", "(list % %)", "(list %1 %2)", "(list %2 %1)", "(cons %1 %&rest)", "%&rest", "(list %&rest)", "5", "(list)", "%", "%1", "(list %2)", "(list % %1)", "(list (list %1) %2)", "(list '% 1)", "(list %1 (quote %2))", "()"}
	xCalls := []string{"", " 1", " 1 2", " 1 2 3"}
	form("expr", 1, "called", "(funcall (expr %s)%s)", h(xPatterns, xCalls), nil)
	form("expr", 1, "reader", "(funcall #^%s%s)", h(xPatterns, xCalls), nil)
	form("expr", 1, "", "(expr %s)", h(xPatterns), nil)
	form("expr", 0, "", "(expr)", h(), nil)
	form("expr", 2, "", "(expr %s %s)", h(xPatterns[:3], xPatterns[:3]), nil)
	form("expr", 1, "scoped", "(let ([z 10]) (map 'list #^(+ %s z) '(1 2)))", h([]string{"%", "%1", "1"}), nil)
	ext("qualified-symbol", 1, 1)
	form("qualified-symbol", 1, "", "(qualified-symbol %s)", h([]string{"a", "car", "user:a", "lisp:car", "other:x", ":k", "'a", "5", `"a"`, "(a)", "()", "true"}), nil)
	form("qualified-symbol", 0, "", "(qualified-symbol)", h(), nil)
	form("qualified-symbol", 2, "", "(qualified-symbol a b)", h(), nil)
	ext("trace", 1, 2)
	form("trace", 1, "", "(trace %s)", h(xAny), nil)
	form("trace", 2, "", "(trace %s %s)", h(xKinds, []string{`"m"`, `""`, `"two words"`}), nil)
	form("trace", 1, "once", "(trace (progn (debug-print 'e) %s))", h(xFew), nil)
	form("trace", 1, "error", "(trace (car 5)%s)", h([]string{"", ` "m"`}), nil)
	form("trace", 0, "", "(trace)", h(), nil)
	form("trace", 3, "", `(trace 1 "m" 2)`, h(), nil)
}

// ---- input classes ---------------------------------------------------------------

var funNames = map[string]bool{"car": true, "cdr": true, "list": true, "length": true, "not": true, "list?": true, "symbol?": true, "+": true, "-": true,
	"<": true, ">": true, "nil?": true, "cons": true, "string<": true, "identity": true, "first": true}

func isFunLit(s string) bool { return strings.HasPrefix(s, "(lambda") || funNames[s] }

// sequences whose ELEMENTS are symbols or lists (values that would mean something else if evaluated again)
var formElemSeqs = []string{"'(a b)", "'((1 2) (3))", "'((2 a) (1 b) (2 c) (1 d))", "'((1 a))", "(vector '(2 a) '(1 b))", "'((1 a) (3 b))", "'((1 a) (1 b))",
	"'((1 a) (2 b) (2 c) (3 d))", "'(2 z)", "'(1 z)", "'(0 z)", "'(9 z)", "'(b a c)", "(list 'b 'a)"}

// caseTag refines the violation class by the class of the input, so that a
// recorded finding cannot hide a different failure of the same callable.
func caseTag(name, src string, args []string) string {
	switch {
	case name == "type" || name == "type?":
		if len(args) > 0 && isFunLit(args[len(args)-1]) {
			return "function-value"
		}
	case name == "stable-sort" || name == "insert-sorted":
		if name == "stable-sort" && len(args) == 3 && !isFunLit(args[2]) && strings.HasPrefix(src, "(stable-sort ") {
			return "key-not-function"
		}
		for _, f := range formElemSeqs {
			if strings.Contains(src, f) {
				return "elements-are-forms"
			}
		}
	}
	return ""
}

// ---- execution ---------------------------------------------------------------

// agreeExt is agree with one more normalisation: whether a freshly built empty
// list prints as '() or () is not documented for any of these builtins
// (lang.md calls both of them nil), so the two spellings are identified.
//
// Keyword keys of a sorted-map: lang.md prints them bare, (sorted-map :height 100
// :width 50), the implementation prints ':height.  That one contradiction is
// recorded through the strict forms tagged keyword-key-spelling; everywhere else
// the two spellings are identified, so that the lookup / update semantics of
// maps with keyword keys stay under test instead of drowning in it.
func agreeExt(a, b obs, strict bool) bool {
	n := func(o obs) obs {
		o.Text = strings.ReplaceAll(o.Text, "'()", "()")
		o.Out = strings.ReplaceAll(o.Out, "'()", "()")
		if !strict {
			o.Text = strings.ReplaceAll(o.Text, "':", ":")
			o.Out = strings.ReplaceAll(o.Out, "':", ":")
		}
		return o
	}
	return agree(n(a), n(b))
}

// the zones the extended reference leaves open (each one answers <unspecified> in ri/builtins_ext.go, with the reason)
var extUnspecified = []string{
	"printing: whether a freshly built empty list prints '() or (); the spelling ':k vs :k of a keyword map key outside the strict keyword-key-spelling forms",
	"/: no arguments; MinInt / -1.  pow: an int power of magnitude >= 9.2e18.  to-string: -0.0.  to-int: NaN/Inf/huge floats, signed / out-of-range / padded numerals.  to-float: inf, nan, hex, '_', leading '+' or '.', trailing '.', out-of-range",
	"type / type?: the type name of a symbol, of a special operator or macro.  bool?: the quoted symbols 'true 'false.  empty?: a sorted-map",
	"type specifiers other than 'list / 'vector (and 'string for concat, slice); append! on a list; concat across families (string into list, list into string, map); slice of a non-ASCII string, of a list into 'string; zip 'vector and zip of vectors",
	"make-sequence: more than one step, step <= 0, NaN/Inf, fractional start/step that are no multiple of 1/4, more than 4096 elements (harness bound)",
	"stable-sort / insert-sorted: more than one key function; a predicate that is no strict weak order on the keys; comparisons of which only some fail; a non-function predicate or key when nothing needs comparing; insert-sorted into an unsorted list, into a vector, and among equivalent elements when the candidate positions print differently; the in-place effect of stable-sort on a quoted literal (docstring and lang.md disagree)",
	"search-sorted: n < 0, n > 64 (harness bound), a non-monotone or partially failing predicate, a non-function predicate with n = 0",
	"sorted maps: one key written with two spellings; a keyword and a same-named symbol/string in one map; a key given as an unquoted non-keyword symbol value (true); assoc! dissoc dissoc! keys key? get-default on (); get key? dissoc get-default with a key that is neither string nor symbol; get / get-default on a list or array",
	"compose / flip of a non-function (when it is rejected); flip of a function that does not have exactly two required parameters; curry-function arguments mentioning the symbol rest",
	"format-string: brace forms other than {} {N} {{ }}; surplus or unreferenced values; values containing functions or -0.0",
	"eval: visibility of the caller's lexical bindings (the reference evaluates at package scope).  function: a quoted symbol, a special operator or macro.  expr: % mixed with %N, gaps in the numbering, other %-names, quoted placeholders, nested expr, #^ before a form with nested lists.  qualified-symbol: keyword or quoted argument.  trace: a message that is not a string literal",
}

func tableAppExt(r *core.Run) {
	r.Rule("T-app (extended callables): each callable is exercised through a list of forms, a source template with at most three holes and a complete alphabet per hole " +
		"(all arities 0..max+1 over the base alphabet plus sorted maps, then typed alphabets: numbers, index ints, lists, vectors, strings, maps, keys, comparison and key functions, type specifiers, one value of every kind as the ill-typed sampler); " +
		"every form is enumerated exhaustively (cases = product of its hole alphabets); forms tagged unchanged / aliasing / in-place / copies observe the argument after the call")
	for _, u := range extUnspecified {
		r.Assume("unspecified (not compared): " + u)
	}
	thorough := r.Thorough()
	av := anyVals(thorough)
	perName := map[string]int64{}
	var mu sync.Mutex
	unspecPer := map[string]int64{} // cases the reference leaves open, per callable
	valPer := map[string]int64{}    // cases whose documented outcome is a value (not an error), per callable
	var total int64
	for _, f := range extForms {
		f := f
		holes := f.quick
		if thorough && f.thor != nil {
			holes = f.thor
		}
		bases := make([]int, len(holes))
		alph := make([][]string, len(holes))
		n := int64(1)
		for i, hl := range holes {
			if len(hl) == 1 && hl[0] == anyMark {
				hl = av
			}
			if len(hl) == 1 && hl[0] == anySmallMark {
				hl = nil
				for _, v := range av {
					if !hugeNumbers[v] {
						hl = append(hl, v)
					}
				}
			}
			alph[i] = hl
			bases[i] = len(hl)
			n *= int64(len(hl))
		}
		perName[f.name] += n
		total += n
		core.ParallelRange(r, n, nil, func(_ struct{}, i int64) {
			ds := make([]int, len(bases))
			gen.Radix(i, bases, ds)
			args := make([]any, len(ds))
			for x, d := range ds {
				args[x] = alph[x][d]
			}
			src := fmt.Sprintf(f.tmpl, args...)
			ref, real := runRef(src), runReal(src)
			r.AddEvals(1)
			r.AddTransitions(1)
			r.AddTraces(1)
			r.Outcome("T-app:" + ref.Class + "/" + real.Class)
			if ref.Class != "unspecified" {
				r.Nontrivial(src)
			}
			if ref.Class != "err" {
				mu.Lock()
				if ref.Class == "unspecified" {
					unspecPer[f.name]++
				} else {
					valPer[f.name]++
				}
				mu.Unlock()
			}
			if agreeExt(ref, real, f.strict) {
				return
			}
			cls := fmt.Sprintf("T-app:%s/%d:%s-vs-%s", f.name, f.nargs, ref.Class, real.Class)
			if f.tag != "" {
				cls += ":" + f.tag
			}
			strs := make([]string, len(args))
			for x := range args {
				strs[x] = args[x].(string)
			}
			if t := caseTag(f.name, src, strs); t != "" {
				cls += ":" + t
			}
			if r.Seen(cls) >= 2 {
				r.CountOnly(cls)
				return
			}
			for n := 0; n < 3; n++ {
				if agreeExt(runRef(src), runReal(src), f.strict) {
					r.Flaky(kase{"T-app", src})
					return
				}
			}
			r.Violate("c01", cls, kase{"T-app", src}, "reference: "+ref.String(), "elps: "+real.String(), "")
		})
		r.AddStates(1)
	}
	names := make([]string, 0, len(perName))
	for k := range perName {
		names = append(names, k)
	}
	sort.Strings(names)
	counts := map[string]int64{}
	for _, k := range names {
		counts[k] = perName[k]
	}
	r.Bound("T-app_ext_forms", len(extForms))
	r.Bound("T-app_ext_cases", total)
	r.Extra("T-app_ext_cases_per_callable", counts)
	r.Extra("T-app_ext_value_outcomes_per_callable", valPer)
	r.Extra("T-app_ext_unspecified_per_callable", unspecPer)
	r.Sample(kase{"T-app", "(let ([m (sorted-map \"a\" 1)]) (list (assoc m 'b 2) m))"})
}
