// Package c01: core-language programs evaluate as the reference prescribes
// (DESIGN §C01).  The reference is the definitional interpreter verif/mc/ri;
// both it and the real interpreter consume the same rendered source text.
package c01

import (
	"fmt"
	"os"
	"strings"

	"verif/mc/core"
	"verif/mc/el"
	"verif/mc/gen"
	"verif/mc/ri"
)

func init() {
	core.Register(&core.Driver{Property: "C01", Run: run, Replay: replay})
}

type kase struct {
	Table string `json:"table"`
	Src   string `json:"src"`
}

const prelude = "(set 'y 10) (defun f (x) (debug-print 'f x) (+ x 1)) (defun g (&optional a &rest r) (list a r)) "

// outcome of one side, comparable.
type obs struct {
	Class string // val | err | unspecified
	Text  string // value rendering or condition name
	Out   string
}

func (o obs) String() string { return fmt.Sprintf("%s<%s> out=%q", o.Class, o.Text, o.Out) }

func runRef(src string) obs {
	in := ri.New()
	v, e, perr := in.Load(src)
	if perr != nil {
		return obs{Class: "unspecified", Text: "ref-parse: " + perr.Error()}
	}
	if in.OutOfFuel {
		return obs{Class: "unspecified", Text: "ref-out-of-fuel"}
	}
	if e != nil {
		if strings.HasPrefix(e.Cond, "<") {
			return obs{Class: "unspecified", Text: e.Cond}
		}
		return obs{Class: "err", Text: e.Cond, Out: in.Out.String()}
	}
	return obs{Class: "val", Text: v.String(), Out: in.Out.String()}
}

func runReal(src string) obs {
	env := el.MustEnv(el.Opts{})
	o := env.Load(src)
	if o.IsErr {
		return obs{Class: "err", Text: o.Cond, Out: el.NormFuns(o.Out)}
	}
	return obs{Class: "val", Text: el.NormFuns(o.Text), Out: el.NormFuns(o.Out)}
}

func agree(a, b obs) bool {
	if a.Class == "unspecified" || b.Class == "unspecified" {
		return true
	}
	return a.Class == b.Class && negZero(a.Text) == negZero(b.Text) && negZero(a.Out) == negZero(b.Out)
}

// negZero drops the sign of a printed float zero ("-0" as a whole token).
func negZero(s string) string {
	if !strings.Contains(s, "-0") {
		return s
	}
	var sb strings.Builder
	for i := 0; i < len(s); i++ {
		if s[i] == '-' && i+1 < len(s) && s[i+1] == '0' && (i+2 == len(s) || strings.ContainsRune(" )\n", rune(s[i+2]))) && (i == 0 || strings.ContainsRune(" ('", rune(s[i-1]))) {
			continue
		}
		sb.WriteByte(s[i])
	}
	return sb.String()
}

// classify a disagreement into a stable class: the set of operators in the
// smallest... (cheap approximation: the heads present, sorted, capped).
func classify(table, src string, ref, real obs) string {
	return table + ":" + ref.Class + "-vs-" + real.Class + ":" + heads(strings.TrimPrefix(src, prelude))
}

func heads(src string) string {
	forms, err := ri.Read(src)
	if err != nil {
		return "?"
	}
	seen := map[string]bool{}
	var order []string
	var walk func(v *ri.Val)
	walk = func(v *ri.Val) {
		if v.K == ri.KList {
			if len(v.Cells) > 0 && v.Cells[0].K == ri.KSym && !v.Quoted {
				if !seen[v.Cells[0].S] {
					seen[v.Cells[0].S] = true
					order = append(order, v.Cells[0].S)
				}
			}
			for _, c := range v.Cells {
				walk(c)
			}
		}
	}
	for _, f := range forms {
		walk(f)
	}
	if len(order) > 4 {
		order = order[:4]
	}
	return strings.Join(order, ",")
}

func check(r *core.Run, table, src string) {
	ref := runRef(src)
	real := runReal(src)
	r.AddEvals(1)
	r.AddTraces(1)
	r.AddTransitions(1)
	if ref.Class != "unspecified" {
		r.Nontrivial(src)
	}
	r.Outcome(table + ":" + ref.Class + "/" + real.Class)
	if agree(ref, real) {
		return
	}
	cls := classify(table, src, ref, real)
	if r.Seen(cls) >= 3 {
		r.CountOnly(cls)
		return
	}
	// re-confirm in fresh runtimes
	for i := 0; i < 5; i++ {
		if agree(runRef(src), runReal(src)) {
			r.Flaky(kase{table, src})
			return
		}
	}
	r.Violate("c01", cls, kase{table, src}, "reference: "+ref.String(), "elps: "+real.String(), "")
}

func replay(v core.Violation) (bool, string) {
	k, err := core.CaseOf[kase](v)
	if err != nil {
		return false, err.Error()
	}
	ref, real := runRef(k.Src), runReal(k.Src)
	return !agree(ref, real), fmt.Sprintf("src: %s\nreference: %s\nelps:      %s", k.Src, ref, real)
}

// ---------------------------------------------------------------------------
// T-scope: binding x closure x mutation x evaluation order

var scopeCons = []gen.Con{
	{Name: "1", Arity: 0}, {Name: "2", Arity: 0}, {Name: "x", Arity: 0}, {Name: "y", Arity: 0}, {Name: "'a", Arity: 0}, {Name: "()", Arity: 0},
	{Name: "LAM", Arity: 1}, {Name: "LAMZ", Arity: 1}, {Name: "LETF", Arity: 1}, {Name: "DP", Arity: 1}, {Name: "F", Arity: 1}, {Name: "SETX", Arity: 1}, {Name: "SETY", Arity: 1},
	{Name: "DT", Arity: 1}, {Name: "TF", Arity: 1}, {Name: "AS", Arity: 1}, {Name: "NOT", Arity: 1}, {Name: "T2", Arity: 1},
	{Name: "LET", Arity: 2}, {Name: "LET2", Arity: 2}, {Name: "FC", Arity: 2}, {Name: "PG", Arity: 2}, {Name: "AND", Arity: 2}, {Name: "OR", Arity: 2},
	{Name: "FLET", Arity: 2}, {Name: "LABELS", Arity: 2}, {Name: "PLUS", Arity: 2}, {Name: "LIST", Arity: 2}, {Name: "COND", Arity: 2},
	{Name: "IF", Arity: 3}, {Name: "LETS", Arity: 3},
}

func renderScope(t *gen.Tree) string {
	k := func(i int) string { return renderScope(t.Kids[i]) }
	switch t.Con.Name {
	case "1", "2", "x", "y", "'a", "()":
		return t.Con.Name
	case "LAM":
		return "(lambda (x) " + k(0) + ")"
	case "LAMZ":
		// a parameter that shadows nothing: the body's x and y are the creator's
		return "(lambda (z) " + k(0) + ")"
	case "LETF":
		// a closure created by a let init and called after the binding exists: its x is the ENCLOSING x
		return "(let ([x (lambda (z) " + k(0) + ")]) (funcall x 1))"
	case "DP":
		return "(debug-print " + k(0) + ")"
	case "F":
		return "(f " + k(0) + ")"
	case "SETX":
		return "(set! x " + k(0) + ")"
	case "SETY":
		return "(set 'y " + k(0) + ")"
	case "DT":
		return "(dotimes (x 2) " + k(0) + ")"
	case "TF":
		return "(thread-first " + k(0) + " (f))"
	case "AS":
		return "(assert " + k(0) + ")"
	case "NOT":
		return "(not " + k(0) + ")"
	case "T2":
		return "(let ([h (lambda () " + k(0) + ")]) (list (funcall h) (funcall h)))"
	case "LET":
		return "(let ([x " + k(0) + "]) " + k(1) + ")"
	case "LET2":
		return "(let ([x " + k(0) + "] [y x]) (list y " + k(1) + "))"
	case "FC":
		return "(funcall " + k(0) + " " + k(1) + ")"
	case "PG":
		return "(progn " + k(0) + " " + k(1) + ")"
	case "AND":
		return "(and " + k(0) + " " + k(1) + ")"
	case "OR":
		return "(or " + k(0) + " " + k(1) + ")"
	case "FLET":
		return "(flet ([f (x) " + k(0) + "]) " + k(1) + ")"
	case "LABELS":
		return "(labels ([f (x) " + k(0) + "]) " + k(1) + ")"
	case "PLUS":
		return "(+ " + k(0) + " " + k(1) + ")"
	case "LIST":
		return "(list " + k(0) + " " + k(1) + ")"
	case "COND":
		return "(cond (" + k(0) + " " + k(1) + ") (else 3))"
	case "IF":
		return "(if " + k(0) + " " + k(1) + " " + k(2) + ")"
	case "LETS":
		return "(let* ([x " + k(0) + "] [y " + k(1) + "]) " + k(2) + ")"
	}
	panic("con " + t.Con.Name)
}

func tableScope(r *core.Run, maxSize int) {
	g := gen.NewGrammar(scopeCons)
	total := g.Total(maxSize)
	r.Bound("T-scope_max_nodes", maxSize)
	r.Bound("T-scope_terms", total)
	ctxs := []string{"%s", "(let ([x 7]) %s)", "(let ([x 7]) (list %s x y))"}
	r.Bound("T-scope_contexts", len(ctxs))
	core.ParallelRange(r, total, nil, func(_ struct{}, i int64) {
		e := renderScope(g.At(maxSize, i))
		for _, c := range ctxs {
			check(r, "T-scope", prelude+fmt.Sprintf(c, e))
		}
		if i%50021 == 17 {
			r.Sample(kase{"T-scope", prelude + fmt.Sprintf(ctxs[2], e)})
		}
	})
	r.AddStates(total)
}

func run(r *core.Run) {
	r.Rule("T-scope: every term of the scope grammar (6 leaves, 12 unary, 11 binary, 2 ternary constructors over let, let*, lambda, funcall, set!, set, progn, if, cond, and, or, flet, labels, user-function call, +, list, debug-print, dotimes, thread-first, assert, not, a closure called twice) up to the node bound, in 3 contexts; " +
		"T-reenter: 38 forms (thread-first/last with first, second and third steps of 2..6 elements, let, let*, flet, labels, lambda call, funcall, apply, list, cond, and/or, dotimes, quasiquote, handler-bind, map, foldl, assert, format-string, a user macro, set!, if, progn) whose own evaluation recursively re-enters the same source form before using what it was given earlier, recursion depth 0..3, evaluated twice; " +
		"T-rec: closures created in every iteration of self / mutual / labels / funcall / apply (tail and non-tail) recursion, 5 capture shapes x 3 uses x 0..3 iterations; T-bind: every formals list x every argument list (see bounds); T-app: every covered builtin x every argument tuple over the value alphabet. " +
		"Each program is rendered to source text and given to both the definitional interpreter (verif/mc/ri) and the real interpreter; value rendering, error condition and stderr transcript must agree. Non-trivial = the reference defines an outcome; distinct by source text")
	r.Assume("function values are rendered as #<fun> on both sides")
	r.Assume("the reference leaves undefined (unspecified, not compared): a symbol used as function designator while a same-named lexical binding exists; set with a package-qualified name")
	size := 4
	if r.Thorough() {
		size = 5
	}
	only := os.Getenv("C01_ONLY") // development aid: run one table
	if only == "" || only == "scope" {
		tableScope(r, size)
	}
	if only == "" || only == "bind" {
		tableBind(r)
	}
	if only == "" || only == "app" {
		tableApp(r)
	}
	if only == "appext" { // development aid: the extended application forms alone
		tableAppExt(r)
	}
	if only == "" || only == "rec" || only == "reenter" {
		tableReenter(r)
	}
	if only == "" || only == "rec" {
		tableRec(r)
	}
}
