package c01

import (
	"fmt"
	"strings"

	"verif/mc/core"
	"verif/mc/el"
	"verif/mc/gen"
	"verif/mc/ri"
)

// ---------------------------------------------------------------------------
// T-bind: parameter binding.  One runtime pair per formals list; every
// argument list is a separate top-level evaluation in it.

type pair struct {
	env *el.Env
	in  *ri.Interp
}

func newPair(setup string) (*pair, obs, obs) {
	p := &pair{env: el.MustEnv(el.Opts{}), in: ri.New()}
	a, b := p.eval(setup)
	return p, a, b
}

func (p *pair) eval(src string) (obs, obs) {
	// reference
	var ref obs
	p.in.Out.Reset()
	p.in.Fuel = 200000
	v, e, perr := p.in.Load(src)
	switch {
	case perr != nil:
		ref = obs{Class: "unspecified", Text: "ref-parse: " + perr.Error()}
	case p.in.OutOfFuel:
		ref = obs{Class: "unspecified", Text: "ref-out-of-fuel"}
	case e != nil && strings.HasPrefix(e.Cond, "<"):
		ref = obs{Class: "unspecified", Text: e.Cond}
	case e != nil:
		ref = obs{Class: "err", Text: e.Cond, Out: p.in.Out.String()}
	default:
		ref = obs{Class: "val", Text: v.String(), Out: p.in.Out.String()}
	}
	o := p.env.Load(src)
	var real obs
	if o.IsErr {
		real = obs{Class: "err", Text: o.Cond, Out: el.NormFuns(o.Out)}
	} else {
		real = obs{Class: "val", Text: el.NormFuns(o.Text), Out: el.NormFuns(o.Out)}
	}
	return ref, real
}

var bindTokens = []string{"p", "q", "&optional", "&rest", "&key"}

// formalsLists: every sequence of up to maxLen tokens with parameter names
// made distinct (p, q -> p0, p1, ...), legal or not.
func formalsLists(maxLen int) [][]string {
	var out [][]string
	n := gen.SeqCount(len(bindTokens), maxLen)
	for i := int64(0); i < n; i++ {
		ds := gen.SeqAt(len(bindTokens), maxLen, i)
		var f []string
		names := 0
		for _, d := range ds {
			t := bindTokens[d]
			if t == "p" || t == "q" {
				if t == "q" { // only one spelling is needed once names are made distinct
					f = nil
					names = -1
					break
				}
				t = fmt.Sprintf("p%d", names)
				names++
			}
			f = append(f, t)
		}
		if names < 0 {
			continue
		}
		out = append(out, f)
	}
	return out
}

func paramNames(f []string) []string {
	var ns []string
	for _, t := range f {
		if !strings.HasPrefix(t, "&") {
			ns = append(ns, t)
		}
	}
	return ns
}

var bindArgAlpha = []string{"1", "2", ":p0", ":p1", ":z", "()"}

func tableBind(r *core.Run) {
	maxF, maxA := 4, 4
	if r.Thorough() {
		maxF, maxA = 5, 5
	}
	fls := formalsLists(maxF)
	nArgs := gen.SeqCount(len(bindArgAlpha), maxA)
	r.Bound("T-bind_formals_lists", len(fls))
	r.Bound("T-bind_max_formals", maxF)
	r.Bound("T-bind_arg_lists_per_formals", nArgs)
	styles := []string{"direct", "funcall", "apply", "lambda", "flet", "labels"}
	r.Bound("T-bind_call_styles", styles)
	core.ParallelRange(r, int64(len(fls)), nil, func(_ struct{}, fi int64) {
		f := fls[fi]
		formals := "(" + strings.Join(f, " ") + ")"
		body := "(list " + strings.Join(paramNames(f), " ") + ")"
		if len(paramNames(f)) == 0 {
			body = "(list)"
		}
		setup := fmt.Sprintf("(defun fn %s %s)", formals, body)
		p, a, b := newPair(setup)
		r.AddStates(1)
		if !agree(a, b) {
			r.Violate("c01", "T-bind:definition:"+formals, kase{"T-bind", setup}, a.String(), b.String(), "")
			return
		}
		for ai := int64(0); ai < nArgs; ai++ {
			ds := gen.SeqAt(len(bindArgAlpha), maxA, ai)
			args := make([]string, len(ds))
			for i, d := range ds {
				args[i] = bindArgAlpha[d]
			}
			as := strings.Join(args, " ")
			sp := ""
			if as != "" {
				sp = " "
			}
			for si, st := range styles {
				if si >= 3 && ai%7 != 0 && !r.Thorough() { // local-function styles: every 7th argument list in the quick tier
					continue
				}
				var src string
				switch st {
				case "direct":
					src = "(fn" + sp + as + ")"
				case "funcall":
					src = "(funcall fn" + sp + as + ")"
				case "apply":
					src = "(apply fn (list" + sp + as + "))"
				case "lambda":
					src = fmt.Sprintf("((lambda %s %s)%s%s)", formals, body, sp, as)
				case "flet":
					src = fmt.Sprintf("(flet ([lf %s %s]) (lf%s%s))", formals, body, sp, as)
				case "labels":
					src = fmt.Sprintf("(labels ([lf %s %s]) (lf%s%s))", formals, body, sp, as)
				}
				ref, real := p.eval(src)
				r.AddEvals(1)
				r.AddTransitions(1)
				r.AddTraces(1)
				r.Outcome("T-bind:" + ref.Class + "/" + real.Class)
				if ref.Class != "unspecified" {
					r.Nontrivial(setup + src)
				}
				if agree(ref, real) {
					continue
				}
				cls := fmt.Sprintf("T-bind:%s:%s:%s-vs-%s", formals, st, ref.Class, real.Class)
				if r.Seen(cls) >= 1 {
					r.CountOnly(cls)
					continue
				}
				full := setup + " " + src
				if agree(runRef(full), runReal(full)) {
					r.Flaky(kase{"T-bind", full})
					continue
				}
				r.Violate("c01", cls, kase{"T-bind", full}, "reference: "+ref.String(), "elps: "+real.String(), "")
			}
		}
		if fi == int64(len(fls))/2 {
			r.Sample(kase{"T-bind", setup + " (fn 1 :p0 2)"})
		}
	})
}

// ---------------------------------------------------------------------------
// T-app: application tables.

type bsig struct {
	name     string
	min, max int // max -1 = variadic (table uses min..3)
}

// the callables covered by the reference interpreter's builtin table
var appTable = []bsig{
	{"+", 0, -1}, {"-", 0, -1}, {"*", 0, -1}, {"<", 2, 2}, {"<=", 2, 2}, {">", 2, 2}, {">=", 2, 2}, {"=", 2, 2},
	{"mod", 2, 2}, {"max", 1, -1}, {"min", 1, -1}, {"not", 1, 1}, {"nil?", 1, 1}, {"identity", 1, 1},
	{"list", 0, -1}, {"vector", 0, -1}, {"cons", 2, 2}, {"car", 1, 1}, {"cdr", 1, 1}, {"first", 1, 1}, {"second", 1, 1},
	{"nth", 2, 2}, {"length", 1, 1}, {"funcall", 1, -1}, {"apply", 1, -1}, {"map", 3, 3}, {"foldl", 3, 3}, {"foldr", 3, 3},
	{"select", 3, 3}, {"reject", 3, 3}, {"all?", 2, 2}, {"any?", 2, 2}, {"reverse", 2, 2}, {"equal?", 2, 2},
	{"int?", 1, 1}, {"float?", 1, 1}, {"number?", 1, 1}, {"string?", 1, 1}, {"symbol?", 1, 1}, {"list?", 1, 1},
	{"vector?", 1, 1}, {"true?", 1, 1},
}

var valuesQuick = []string{
	"0", "1", "-1", "2.5", `""`, `"a"`, "'a", ":k", "true", "()", "'(1 2)", "'(a b)", "'((1 2) (3))", "(vector 1 2)",
	"'list", "'vector", "(lambda (x) x)", "(lambda (x y) (+ x y))", "car", "list?", "symbol?",
	"(lambda (&rest r) r)", // a callee that lets its &rest list escape: every application must hand it a list of its own
}

var valuesThorough = append(append([]string{}, valuesQuick...),
	"3", "7", "9223372036854775807", "-9223372036854775808", "0.0", "-2.5", "1e21", `"abc"`, "'b", "false", "'(3 1 2)", "'(1)",
	"(vector)", "(list 'a 1)", "(lambda () 1)", "+", "<", "nil?")

func tableApp(r *core.Run) {
	vals := valuesQuick
	if r.Thorough() {
		vals = valuesThorough
	}
	r.Bound("T-app_callables", len(appTable))
	r.Bound("T-app_value_alphabet", len(vals))
	names := make([]string, len(appTable))
	for i, b := range appTable {
		names[i] = b.name
	}
	r.Extra("T-app_covered_names", names)
	type job struct {
		b bsig
		k int
	}
	var jobs []job
	for _, b := range appTable {
		if appExtOnly[b.name] {
			continue // enumerated form by form in app_ext.go
		}
		hi := b.max + 1
		if b.max < 0 {
			hi = 3
		}
		if hi > 4 {
			hi = 4
		}
		for k := 0; k <= hi; k++ {
			jobs = append(jobs, job{b, k})
		}
	}
	for _, j := range jobs {
		j := j
		total := gen.Pow(len(vals), j.k)
		if j.k >= 4 {
			continue
		}
		core.ParallelRange(r, total, nil, func(_ struct{}, i int64) {
			ds := make([]int, j.k)
			bases := make([]int, j.k)
			for x := range bases {
				bases[x] = len(vals)
			}
			gen.Radix(i, bases, ds)
			var sb strings.Builder
			sb.WriteString("(" + j.b.name)
			for _, d := range ds {
				sb.WriteString(" " + vals[d])
			}
			sb.WriteString(")")
			src := sb.String()
			ref, real := runRef(src), runReal(src)
			r.AddEvals(1)
			r.AddTransitions(1)
			r.AddTraces(1)
			r.Outcome("T-app:" + ref.Class + "/" + real.Class)
			if ref.Class != "unspecified" {
				r.Nontrivial(src)
			}
			if agree(ref, real) {
				return
			}
			cls := fmt.Sprintf("T-app:%s/%d:%s-vs-%s", j.b.name, j.k, ref.Class, real.Class)
			if r.Seen(cls) >= 2 {
				r.CountOnly(cls)
				return
			}
			for n := 0; n < 3; n++ {
				if agree(runRef(src), runReal(src)) {
					r.Flaky(kase{"T-app", src})
					return
				}
			}
			r.Violate("c01", cls, kase{"T-app", src}, "reference: "+ref.String(), "elps: "+real.String(), "")
		})
		r.AddStates(1)
	}
	r.Sample(kase{"T-app", "(map 'list (lambda (x) x) '(a b))"})
	tableNum(r)
	tableCond(r)
	tableAppExt(r) // app_ext.go
}

// T-num: the numeric tower at its boundaries, in BOTH tiers: every numeric builtin of arity <= 3 over boundary
// integers (int64 limits, 2^53 neighbours), small ints, and floats (fractions, a huge one, zero).
var numValues = []string{"0", "1", "-1", "2", "3", "7", "9223372036854775807", "-9223372036854775808", "9007199254740993", "-9007199254740992",
	"0.5", "2.5", "-2.5", "1e21", "0.0",
	// values that have no literal: not-a-number (unordered: every ordering relation with it is false) and the infinities
	"(/ 0.0 0)", "(/ 1.0 0)", "(/ -1.0 0)"}

var numTable = []bsig{{"+", 0, 3}, {"-", 0, 3}, {"*", 0, 3}, {"/", 1, 3}, {"mod", 2, 2}, {"pow", 2, 2}, {"max", 1, 3}, {"min", 1, 3},
	{"<", 2, 2}, {"<=", 2, 2}, {">", 2, 2}, {">=", 2, 2}, {"=", 2, 2}}

func tableNum(r *core.Run) {
	r.Bound("T-num_value_alphabet", len(numValues))
	r.Bound("T-num_callables", len(numTable))
	for _, b := range numTable {
		for k := b.min; k <= b.max; k++ {
			b, k := b, k
			total := gen.Pow(len(numValues), k)
			core.ParallelRange(r, total, nil, func(_ struct{}, i int64) {
				ds := make([]int, k)
				bases := make([]int, k)
				for x := range bases {
					bases[x] = len(numValues)
				}
				gen.Radix(i, bases, ds)
				var sb strings.Builder
				sb.WriteString("(" + b.name)
				for _, d := range ds {
					sb.WriteString(" " + numValues[d])
				}
				sb.WriteString(")")
				src := sb.String()
				ref, real := runRef(src), runReal(src)
				r.AddEvals(1)
				r.AddTransitions(1)
				r.AddTraces(1)
				r.Outcome("T-num:" + ref.Class + "/" + real.Class)
				if ref.Class != "unspecified" {
					r.Nontrivial(src)
				}
				if agree(ref, real) {
					return
				}
				cls := fmt.Sprintf("T-num:%s/%d:%s-vs-%s", b.name, k, ref.Class, real.Class)
				if r.Seen(cls) >= 2 {
					r.CountOnly(cls)
					return
				}
				r.Violate("c01", cls, kase{"T-num", src}, "reference: "+ref.String(), "elps: "+real.String(), "")
			})
			r.AddStates(1)
		}
	}
	r.Sample(kase{"T-num", "(* 9223372036854775807 2 0.5)"})
}

// T-cond: clause SHAPES of cond.  Every sequence of 0..4 clauses over a clause alphabet (true / false / empty-list /
// effectful tests, else and :else clauses, clauses with no, one and two body forms, a test that fails): which clause is
// taken, which tests run, that an else clause anywhere but last is an error when it is reached -- and only then.
var condClauses = []string{"(true 1)", "(false 2)", "(else 3)", "(() 4)", "((debug-print 'p) 5 6)", "(true)", "(else)", "((car 7) 8)", "(:else 9)", "((debug-print ()) (debug-print 'q))"}

func tableCond(r *core.Run) {
	maxLen := 3
	if r.Thorough() {
		maxLen = 4
	}
	r.Bound("T-cond_clause_alphabet", condClauses)
	r.Bound("T-cond_max_clauses", maxLen)
	for k := 0; k <= maxLen; k++ {
		k := k
		total := gen.Pow(len(condClauses), k)
		core.ParallelRange(r, total, nil, func(_ struct{}, i int64) {
			ds := make([]int, k)
			bases := make([]int, k)
			for x := range bases {
				bases[x] = len(condClauses)
			}
			gen.Radix(i, bases, ds)
			var sb strings.Builder
			sb.WriteString("(cond")
			for _, d := range ds {
				sb.WriteString(" " + condClauses[d])
			}
			sb.WriteString(")")
			src := sb.String()
			ref, real := runRef(src), runReal(src)
			r.AddEvals(1)
			r.AddTransitions(1)
			r.AddTraces(1)
			r.Outcome("T-cond:" + ref.Class + "/" + real.Class)
			if ref.Class != "unspecified" {
				r.Nontrivial(src)
			}
			if agree(ref, real) {
				return
			}
			cls := fmt.Sprintf("T-cond:%d-clauses:%s-vs-%s", k, ref.Class, real.Class)
			if r.Seen(cls) >= 2 {
				r.CountOnly(cls)
				return
			}
			r.Violate("c01", cls, kase{"T-cond", src}, "reference: "+ref.String(), "elps: "+real.String(), "")
		})
		r.AddStates(1)
	}
}

// ---------------------------------------------------------------------------
// T-rec: closures created inside (tail-)recursive iterations keep the
// environment of THEIR iteration; assignment through one is seen exactly by
// the closures sharing that binding.

func tableRec(r *core.Run) {
	caps := []string{
		"(lambda () n)",
		"(let ([m n]) (lambda () m))",
		"(lambda () (set! n (+ n 10)) n)",
		"((lambda (k) (lambda () (+ k n))) 100)",
		"(let ([c 0]) (lambda () (set! c (+ c n)) c))",
	}
	bodies := []struct{ id, src string }{
		{"if-else", "(defun build (n acc) (if (= n 0) acc (build (- n 1) (cons CAP acc))))"},
		{"cond", "(defun build (n acc) (cond ((= n 0) acc) (else (build (- n 1) (cons CAP acc)))))"},
		{"progn-let", "(defun build (n acc) (if (= n 0) acc (progn (debug-print n) (let ([a2 (cons CAP acc)]) (build (- n 1) a2)))))"},
		{"mutual", "(defun build (n acc) (if (= n 0) acc (build2 (- n 1) (cons CAP acc)))) (defun build2 (n acc) (if (= n 0) acc (build (- n 1) (cons CAP acc))))"},
		{"non-tail", "(defun build (n acc) (if (= n 0) acc (cons CAP (build (- n 1) acc))))"},
		{"labels", "(defun build (n0 acc0) (labels ([lp (n acc) (if (= n 0) acc (lp (- n 1) (cons CAP acc)))]) (lp n0 acc0)))"},
		{"funcall-tail", "(defun build (n acc) (if (= n 0) acc (funcall build (- n 1) (cons CAP acc))))"},
		{"apply-tail", "(defun build (n acc) (if (= n 0) acc (apply build (list (- n 1) (cons CAP acc)))))"},
		// dotimes: ONE binding of the loop symbol for all turns; after the last turn it holds the number of turns, with
		// and without a result expression (an omitted result is the result ()).  n counts 0..k-1 here.
		{"dotimes", "(defun build (k acc) (dotimes (n k) (set! acc (cons CAP acc))) acc)"},
		{"dotimes-result", "(defun build (k acc) (dotimes (n k acc) (set! acc (cons CAP acc))))"},
		{"dotimes-nil-result", "(defun build (k acc) (dotimes (n k ()) (set! acc (cons CAP acc))) acc)"},
		{"dotimes-set-last", "(defun build (k acc) (dotimes (n k) (set! acc (cons CAP acc)) (set! n (+ n 0))) acc)"},
	}
	uses := []string{
		"(map 'list (lambda (f) (funcall f)) L)",
		"(list (map 'list (lambda (f) (funcall f)) L) (map 'list (lambda (f) (funcall f)) L))",
		"(list (funcall (car L)) (map 'list (lambda (f) (funcall f)) L) (funcall (car L)))",
	}
	n := 0
	for _, b := range bodies {
		for _, c := range caps {
			for _, u := range uses {
				for k := 0; k <= 3; k++ {
					def := strings.ReplaceAll(b.src, "CAP", c)
					use := strings.ReplaceAll(u, "L", "lst")
					src := fmt.Sprintf("%s (let ([lst (build %d '())]) (if (nil? lst) 'empty %s))", def, k, use)
					check(r, "T-rec", src)
					n++
				}
			}
		}
	}
	r.Bound("T-rec_programs", n)
	r.AddStates(int64(len(bodies) * len(caps)))
	r.Sample(kase{"T-rec", "(defun build (n acc) (if (= n 0) acc (build (- n 1) (cons (lambda () n) acc)))) (map 'list (lambda (f) (funcall f)) (build 3 '()))"})
}

// ---------------------------------------------------------------------------
// T-reenter: a form that is RE-ENTERED while an earlier evaluation of the same source form is still in progress.  The
// recursive call sits in a part of the form that is evaluated before the form uses something it computed or was given
// earlier (the threaded value, an earlier binding, an earlier argument, the loop variable): each activation works on
// its own copy of whatever the operator builds from the form.

func tableReenter(r *core.Run) {
	const R = "(f (- n 1))"
	forms := []struct{ id, src string }{
		{"thread-last/2", "(thread-last n (+ " + R + "))"},
		{"thread-last/3", "(thread-last n (list " + R + " 'x))"},
		{"thread-last/4", "(thread-last n (list " + R + " 'x 'y))"},
		{"thread-last/two-steps", "(thread-last n (list " + R + " 'x) (cons 'h))"},
		{"thread-last/later-step", "(thread-last n (list 'x 'y) (append (list " + R + ")))"},
		{"thread-last/later-step-3", "(thread-last n (identity) (list " + R + " 'x))"},
		{"thread-last/later-step-4", "(thread-last n (+ 0) (list 'a " + R + " 'b))"},
		{"thread-last/later-step-5", "(thread-last n (+ 0) (list 'a " + R + " 'b 'c))"},
		{"thread-last/later-step-6", "(thread-last n (+ 0) (list 'a 'b " + R + " 'c 'd))"},
		{"thread-last/third-step-3", "(thread-last n (+ 0) (* 1) (list " + R + " 'x))"},
		{"thread-first/later-step-3", "(thread-first n (identity) (list " + R + " 'x))"},
		{"thread-first/later-step-5", "(thread-first n (+ 0) (list 'a " + R + " 'b 'c))"},
		{"thread-first/third-step-3", "(thread-first n (+ 0) (* 1) (list " + R + " 'x))"},
		{"thread-first/2", "(thread-first n (list " + R + "))"},
		{"thread-first/3", "(thread-first n (list " + R + " 'x))"},
		{"thread-first/4", "(thread-first n (list 'x " + R + " 'y))"},
		{"thread-first/two-steps", "(thread-first n (list " + R + " 'x) (cons 'h))"},
		{"let", "(let ([a n] [b " + R + "] [c n]) (list a b c))"},
		{"let*", "(let* ([a n] [b " + R + "] [c (list a n)]) (list a b c))"},
		{"flet", "(flet ([g (x) (list x n)]) (list (g " + R + ") (g n)))"},
		{"labels", "(labels ([g (x) (list x n)]) (list (g " + R + ") (g n)))"},
		{"lambda-call", "((lambda (a b c) (list a b c)) n " + R + " n)"},
		{"funcall", "(funcall (lambda (a b c) (list a b c)) n " + R + " n)"},
		{"apply", "(apply list n " + R + " (list n))"},
		{"list", "(list n " + R + " n)"},
		{"cond", "(cond ((nil? " + R + ") 'never) ((= n 1) (list 'one n)) (else (list 'more n)))"},
		{"and-or", "(or (and " + R + " false) (list n))"},
		{"dotimes", "(let ([acc '()]) (dotimes (i n) (set! acc (cons (list i " + R + " i) acc))) acc)"},
		{"quasiquote", "(quasiquote (n (unquote n) (unquote " + R + ") (unquote-splicing (list n)) n))"},
		{"handler-bind", "(handler-bind ([condition (lambda (c &rest d) (list 'handled n d))]) (list n " + R + " (if (= n 2) (error 'boom n) n)))"},
		{"map", "(map 'list (lambda (x) (list x n)) (list n " + R + "))"},
		{"foldl", "(foldl (lambda (acc x) (cons (list x n) acc)) '() (list n " + R + "))"},
		{"assert", "(progn (assert (list " + R + ") \"m {}\" n) n)"},
		{"format-string", "(format-string \"{} {} {}\" n " + R + " n)"},
		{"user-macro", "(my-pair n " + R + ")"},
		{"set!", "(let ([v n]) (set! v (list v " + R + " v)) v)"},
		{"if", "(if " + R + " (list n) (list 'no n))"},
		{"progn", "(progn n " + R + " (list n))"},
	}
	n := 0
	for _, f := range forms {
		for depth := 0; depth <= 3; depth++ {
			src := fmt.Sprintf("(defmacro my-pair (a b) (quasiquote (list (unquote a) (unquote b) (unquote a))))\n(defun f (n) (if (= n 0) 'base %s))\n(list (f %d) (f %d))", f.src, depth, depth)
			check(r, "T-reenter", src)
			n++
		}
	}
	// the OPERATOR position: the head of a call is itself a call that re-enters the enclosing function (directly, through
	// a second function, under if / let / progn / cond, in and out of tail position); "expr1 is evaluated first (and must
	// evaluate to a function)", whatever position the whole call is in.  acc is a curried accumulator: applied to a
	// number it returns another accumulator, applied to a symbol it reports what it has seen.
	const P = "(pick (- n 1))"
	heads := []struct{ id, src string }{
		{"head/tail", "(" + P + " n)"},
		{"head/if-tail", "(if (= n 99) 'no (" + P + " n))"},
		{"head/cond-tail", "(cond ((= n 99) 'no) (else (" + P + " n)))"},
		{"head/progn-tail", "(progn (debug-print 'turn n) (" + P + " n))"},
		{"head/let-tail", "(let ([m (+ n 0)]) (" + P + " m))"},
		{"head/or-tail", "(or false (" + P + " n))"},
		{"head/non-tail", "(car (list (" + P + " n) n))"},
		{"head/head-is-if", "((if (> n 0) " + P + " car) n)"},
		{"head/head-is-let", "((let ([g " + P + "]) g) n)"},
		{"head/head-is-call-of-call", "(((lambda (g) (lambda (k) (funcall g k))) " + P + ") n)"},
		{"head/mutual", "((pick2 (- n 1)) n)"},
		{"head/funcall-of-head", "(funcall " + P + " n)"},
		{"head/twice", "((" + P + " n) n)"},
	}
	for _, h := range heads {
		for depth := 0; depth <= 4; depth++ {
			src := fmt.Sprintf("(defun acc (k) (lambda (x) (if (symbol? x) (list 'seen k) (acc (+ k x)))))\n(defun pick (n) (if (= n 0) (acc 0) %s))\n(defun pick2 (n) (if (= n 0) (acc 100) ((pick (- n 1)) n)))\n(list ((pick %d) 'end) ((pick %d) 'end))", h.src, depth, depth)
			check(r, "T-reenter", src)
			n++
		}
	}
	r.Bound("T-reenter_programs", n)
	r.AddStates(int64(len(forms) + len(heads)))
}
