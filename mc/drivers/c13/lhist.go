package c13

// LOAD histories: load D1, mutate EVERY container of the result in place
// (append! a marker to every vector, assoc! a marker into every map), then
// load D2 - in the same runtime and in another runtime of the same process -
// and demand a FRESH value: the second load must agree with the independent
// decoder on D2 exactly as a first load would.  Then, for every container of
// D2's value in turn: load D2 again, mutate only that container, and demand
// that the rest of the value is unchanged (two distinct empty containers of
// one document are distinct objects).

import (
	"encoding/hex"
	"encoding/json"
	"fmt"

	"github.com/luthersystems/elps/lisp"
)

type loadHistCase struct {
	Kind string `json:"kind"` // "lhist"
	D1   string `json:"d1_hex"`
	D1r  string `json:"d1"`
	L1   string `json:"loader1"`
	SN1  bool   `json:"string_numbers1"`
	EI1  bool   `json:"exact_integers1"`
	D2   string `json:"d2_hex"`
	D2r  string `json:"d2"`
	L2   string `json:"loader2"`
	SN2  bool   `json:"string_numbers2"`
	EI2  bool   `json:"exact_integers2"`
}

const marker = "c13-marker"

// seedDocs are the documents whose loaded value is mutated (D1): the hand
// documents of the brief and the smallest token documents.
var seedDocs = []string{`[]`, `{}`, `[[],[]]`, `{"a":[],"b":[]}`, `{"a":{},"b":{}}`, `[{},{}]`, `[[]]`, `[{}]`, `{"a":[]}`, `{"a":{}}`, `[[],[true]]`, `[1,{"a":[{}]}]`}

type loadForm struct {
	loader string
	sn, ei bool
}

var seedForms = []loadForm{{"string", false, false}, {"string", false, true}, {"string", true, false}, {"bytes", false, false}, {"message", false, true}}

func hasEmptyContainer(n *node) bool {
	if (n.kind == kArr || n.kind == kObj) && len(n.elems) == 0 {
		return true
	}
	for _, e := range n.elems {
		if hasEmptyContainer(e) {
			return true
		}
	}
	return false
}

// emptyContainerDocs: every valid token-sequence document of at most maxTok
// tokens that holds an empty array or object (top level, nested, repeated),
// distinct by bytes, in enumeration order, after the seed documents.
func emptyContainerDocs(maxTok int) [][]byte {
	seen := map[string]bool{}
	var out [][]byte
	add := func(b []byte) {
		if !seen[string(b)] {
			seen[string(b)] = true
			out = append(out, append([]byte{}, b...))
		}
	}
	for _, s := range seedDocs {
		add([]byte(s))
	}
	// only '[' ']' '{' '}' openers can start such a document, possibly after spaces
	ds := newSeqSpace(len(docTokens), maxTok)
	var buf [8]int
	var doc []byte
	for i := int64(0); i < ds.total; i++ {
		idx := ds.at(i, buf[:0])
		doc = doc[:0]
		brackets := false
		for _, t := range idx {
			doc = append(doc, docTokens[t]...)
			if t < 4 {
				brackets = true
			}
		}
		if !brackets {
			continue
		}
		if n, _, ok, _ := parseJSON(doc); ok && hasEmptyContainer(n) {
			add(doc)
		}
	}
	return out
}

func loadHistSpace(thorough bool) []loadHistCase {
	maxTok := 4
	if thorough {
		maxTok = 5
	}
	d2s := emptyContainerDocs(maxTok)
	var out []loadHistCase
	for _, d1 := range seedDocs {
		for _, f1 := range seedForms {
			for _, d2 := range d2s {
				for _, ld := range loaders {
					for m := 0; m < 4; m++ {
						out = append(out, loadHistCase{Kind: "lhist", D1: hex.EncodeToString([]byte(d1)), D1r: d1, L1: f1.loader, SN1: f1.sn, EI1: f1.ei,
							D2: hex.EncodeToString(d2), D2r: fmt.Sprintf("%q", d2), L2: ld, SN2: m&1 != 0, EI2: m&2 != 0})
					}
				}
			}
		}
	}
	return out
}

func inProcessLoadSubset(all []loadHistCase) []loadHistCase {
	hand := map[string]bool{}
	for _, s := range seedDocs {
		hand[hex.EncodeToString([]byte(s))] = true
	}
	var out []loadHistCase
	for _, c := range all {
		if hand[c.D2] && c.L2 == "string" && c.L1 == "string" {
			out = append(out, c)
		}
	}
	return out
}

// containers lists the containers of a loaded value in pre-order (array
// elements in order, object members in name order).
func containers(v *lisp.LVal, out []*lisp.LVal) []*lisp.LVal {
	switch v.Type {
	case lisp.LArray:
		out = append(out, v)
		if len(v.Cells) == 2 {
			for _, c := range v.Cells[1].Cells {
				out = containers(c, out)
			}
		}
	case lisp.LSortMap:
		out = append(out, v)
		ents := v.MapEntries()
		if ents.Type != lisp.LError {
			for _, e := range ents.Cells {
				out = containers(e.Cells[1], out)
			}
		}
	}
	return out
}

// markRef rebuilds the reference tree (objects de-duplicated last-wins, in
// name order) with the marker added to container number target (-1: none),
// counting in the same pre-order as containers().
func markRef(n *node, counter *int, target int) *node {
	switch n.kind {
	case kArr:
		me := *counter
		*counter++
		c := &node{kind: kArr}
		for _, e := range n.elems {
			c.elems = append(c.elems, markRef(e, counter, target))
		}
		if me == target {
			c.elems = append(c.elems, &node{kind: kStr, str: []byte(marker)})
		}
		return c
	case kObj:
		me := *counter
		*counter++
		c := &node{kind: kObj}
		for _, m := range n.members() {
			c.keys = append(c.keys, &node{kind: kStr, str: m.key, lossy: m.lossy})
			c.elems = append(c.elems, markRef(m.val, counter, target))
		}
		if me == target {
			c.keys = append(c.keys, &node{kind: kStr, str: []byte(marker)})
			c.elems = append(c.elems, &node{kind: kStr, str: []byte(marker)})
		}
		return c
	}
	return n
}

func (w *worker) mutate(c *lisp.LVal) *lisp.LVal {
	w.set("c13-c", c)
	if c.Type == lisp.LArray {
		return w.eval(`(append! c13-c "` + marker + `")`)
	}
	return w.eval(`(assoc! c13-c "` + marker + `" "` + marker + `")`)
}

func runLoadHistory(w, other *worker, c loadHistCase) (fs []finding, outcome string, evals int64) {
	e0 := w.evalCount() + other.evalCount()
	defer func() { evals = w.evalCount() + other.evalCount() - e0 }()
	d1, err1 := hex.DecodeString(c.D1)
	d2, err2 := hex.DecodeString(c.D2)
	if err1 != nil || err2 != nil {
		return []finding{{"load-history:harness:bad-case", "hex", c.D1 + " " + c.D2}}, "harness", 0
	}
	c1 := docCase{Kind: "doc", Loader: c.L1, SN: c.SN1, EI: c.EI1}
	c2 := docCase{Kind: "doc", Loader: c.L2, SN: c.SN2, EI: c.EI2}
	ref2 := analyse(d2)

	// 1-2: load D1 and mutate every container of the result in place
	r1 := w.loadDoc(d1, c1)
	nmut := 0
	if r1.Type != lisp.LError {
		for _, k := range containers(r1, nil) {
			if m := w.mutate(k); m.Type == lisp.LError {
				return []finding{{"load-history:harness:mutation-failed", "append!/assoc! on a loaded container succeeds", describe(m)}}, "harness", 0
			}
			nmut++
		}
	}
	// 3-4: a later load of D2 is a fresh value, in this runtime and in another one
	for i, t := range []*worker{w, other} {
		where := []string{"same-runtime", "other-runtime"}[i]
		f, out := judgeDoc(ref2, c2, t.loadDoc(d2, c2))
		if f != nil {
			fs = append(fs, finding{"load-history:load-after-mutating-an-earlier-result(" + where + "):" + f.Class,
				"a fresh value: " + f.Expected, f.Got + fmt.Sprintf(" (after loading %s and mutating its %d containers in place)", c.D1r, nmut)})
			outcome = "stale:" + out
			continue
		}
		if len(fs) == 0 {
			outcome = out
		}
	}
	if len(fs) > 0 {
		return fs, outcome, 0
	}
	if len(outcome) < 9 || outcome[:9] != "accepted:" {
		return nil, outcome, 0
	}
	// 5: containers of one loaded document are distinct objects
	n := len(containers(w.loadDoc(d2, c2), nil))
	for target := 0; target < n; target++ {
		r := w.loadDoc(d2, c2)
		ks := containers(r, nil)
		if r.Type == lisp.LError || len(ks) != n {
			fs = append(fs, finding{"load-history:reload-differs", fmt.Sprintf("%d containers again", n), describe(r)})
			return fs, "reload-differs", 0
		}
		if m := w.mutate(ks[target]); m.Type == lisp.LError {
			return []finding{{"load-history:harness:mutation-failed", "append!/assoc! on a loaded container succeeds", describe(m)}}, "harness", 0
		}
		cnt := 0
		want := markRef(ref2.n, &cnt, target)
		if cl, d := cmpLoaded(r, want, c.SN2, c.EI2, "$"); cl != "" {
			kind := "array"
			if ks[target].Type == lisp.LSortMap {
				kind = "object"
			}
			fs = append(fs, finding{"load-history:containers-of-one-document-share-storage:" + kind,
				fmt.Sprintf("only container #%d of the loaded value changes when it is mutated in place: %s", target, d), describe(r)})
			return fs, "shared-storage", 0
		}
	}
	return nil, fmt.Sprintf("fresh+distinct(%d containers)", n), 0
}

func (c loadHistCase) raw() json.RawMessage { b, _ := json.Marshal(c); return b }
