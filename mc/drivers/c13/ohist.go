package c13

// OBJECT histories: ONE document-holding object - a message minted by
// json:dump-message from a value, a message minted by json:dump-message from
// an embedder's json.RawMessage, an embedder's json.RawMessage itself, a
// string, a bytes value - is bound to a global once and then goes through
// every history up to a length over the operation alphabet
//
//	load the object, with :string-numbers in {omitted,true,false} x
//	                      :exact-integers in {omitted,true,false}      (9 forms)
//	(json:use-string-numbers b), (json:use-exact-integers b)          (4 forms)
//	mutate every container of the most recent load result in place    (1 form)
//
// The reference model is the pair of serializer defaults the history has set
// so far.  The oracle: EVERY load of the history agrees with the independent
// decoder on the object's document under the options in force FOR THAT CALL
// (the keyword when given, else the current default) - whatever the object
// was loaded as before, and whatever was done to the values earlier loads
// returned - and the object's bytes are the same after the history.

import (
	"bytes"
	"encoding/hex"
	"encoding/json"
	"fmt"
	"strings"
	"time"

	"github.com/luthersystems/elps/lisp"
)

type objHistCase struct {
	Kind   string   `json:"kind"`   // "ohist"
	Source string   `json:"source"` // see objSources
	V      *val     `json:"v,omitempty"`
	DumpSN bool     `json:"dump_string_numbers,omitempty"`
	Hex    string   `json:"doc_hex,omitempty"`
	Repr   string   `json:"object"`
	Ops    []string `json:"ops"`
}

func (c objHistCase) raw() json.RawMessage { b, _ := json.Marshal(c); return b }

const (
	srcOwnValue = "own-message"        // (json:dump-message <value>)
	srcOwnRaw   = "own-message-of-raw" // (json:dump-message <embedder json.RawMessage>)
	srcRaw      = "raw-message"        // an embedder's *json.RawMessage
	srcString   = "string"
	srcBytes    = "bytes"
)

var objSources = []string{srcOwnValue, srcOwnRaw, srcRaw, srcString, srcBytes}

func objLoader(source string) string {
	switch source {
	case srcString:
		return "string"
	case srcBytes:
		return "bytes"
	}
	return "message"
}

// ---------------------------------------------------------------------------
// operation alphabet

type objOp struct {
	name   string
	kind   byte // 'L' load, 'S' use-string-numbers, 'E' use-exact-integers, 'M' mutate
	sn, ei int  // load: -1 omitted, 0 false, 1 true
	b      bool // use-*: the argument
	src    map[string]string
}

var objOps = func() []objOp {
	var ops []objOp
	kw := func(name string, v int) string {
		switch v {
		case 0:
			return " :" + name + " false"
		case 1:
			return " :" + name + " true"
		}
		return ""
	}
	// loads first, simplest first
	for _, ei := range []int{-1, 1, 0} {
		for _, sn := range []int{-1, 1, 0} {
			o := objOp{kind: 'L', sn: sn, ei: ei, src: map[string]string{}}
			o.name = "(load" + kw("string-numbers", sn) + kw("exact-integers", ei) + ")"
			for _, ld := range loaders {
				o.src[ld] = "(json:load-" + ld + " c13-o" + kw("string-numbers", sn) + kw("exact-integers", ei) + ")"
			}
			ops = append(ops, o)
		}
	}
	for _, b := range []bool{true, false} {
		ops = append(ops, objOp{kind: 'E', b: b, name: fmt.Sprintf("(json:use-exact-integers %v)", b)})
	}
	for _, b := range []bool{true, false} {
		ops = append(ops, objOp{kind: 'S', b: b, name: fmt.Sprintf("(json:use-string-numbers %v)", b)})
	}
	ops = append(ops, objOp{kind: 'M', name: "(mutate-every-container-of-the-last-result)"})
	return ops
}()

func objOpByName(name string) (objOp, bool) {
	for _, o := range objOps {
		if o.name == name {
			return o, true
		}
	}
	return objOp{}, false
}

// objHistories: every operation sequence of length 1..maxLen that ends in a
// load (every load is judged, so a history that does not end in one is a
// prefix of a longer one) and holds no mutation before the first load (there
// is nothing to mutate yet); shorter first.
func objHistories(maxLen int) [][]int {
	ss := newSeqSpace(len(objOps), maxLen)
	var out [][]int
	var buf [8]int
	for i := int64(0); i < ss.total; i++ {
		idx := ss.at(i, buf[:0])
		if len(idx) == 0 || objOps[idx[len(idx)-1]].kind != 'L' {
			continue
		}
		loaded, ok := false, true
		for _, k := range idx {
			switch objOps[k].kind {
			case 'L':
				loaded = true
			case 'M':
				ok = ok && loaded
			}
		}
		if ok {
			out = append(out, append([]int{}, idx...))
		}
	}
	return out
}

// ---------------------------------------------------------------------------
// object alphabet

// objValues are the values a message is minted from: each number shape the
// three decode modes tell apart (small int, ints at and beyond 2^53, the
// int64 limits, integral / fractional / negative-zero floats, a float whose
// canonical text is an integer literal beyond int64), the other scalars, and
// containers (empty, flat, nested, repeated empties) holding them.
func objValues() []val {
	big := int64(9007199254740993) // 2^53+1
	return []val{
		vInt(1),
		vInt(big),
		vVec(vInt(1), vInt(2), vInt(3)),
		vMap([]mkey{keyStr("id")}, []val{vInt(big)}),
		vVec(),
		vMap(nil, nil),
		vInt(0),
		vInt(-big),
		vInt(9007199254740992),
		vInt(9223372036854775807),
		vInt(-9223372036854775808),
		vFloat(0.5),
		vFloat(1),
		vFloat(negZero()),
		vFloat(1e19),
		vFloat(1e21),
		vStr("a"),
		vStr("1"),
		vNil(),
		vBool(true),
		vVec(vVec(), vVec()),
		vVec(vVec(vInt(big))),
		vMap([]mkey{keyStr("a"), keyStr("b")}, []val{vVec(vInt(1)), vMap(nil, nil)}),
		vVec(vInt(1), vFloat(0.5), vStr("a"), vNil(), vBool(false)),
		vList(vInt(1), vInt(2)),
		vMap([]mkey{keyStr("a")}, []val{vMap([]mkey{keyStr("b")}, []val{vVec(vInt(big), vFloat(1e19))})}),
	}
}

func negZero() float64 { z := 0.0; return -z }

// objDocs are the documents of the sources that are not minted from a value:
// what the values above dump to is joined by documents dump never writes
// (integer literals beyond int64, exponents, "1.0", "-0", white space,
// duplicate names, a number beyond float64, invalid documents).
var objDocs = []string{
	`1`, `9007199254740993`, `[1,2,3]`, `{"id":9007199254740993}`, `[]`, `{}`,
	`9223372036854775808`, `18446744073709551617`, `[1,18446744073709551617]`, `10000000000000000000`,
	`1e2`, `1.0`, `-0`, `0.5`, ` [ 1 , 2 ] `, `{"a":1,"a":[2]}`, `[[],[]]`, `{"a":[1],"b":{}}`, `"a"`, `null`,
	`1e999`, `[1,]`, ``,
}

type objSpec struct {
	source string
	v      *val
	dumpSN bool
	doc    string
}

func (o objSpec) repr() string {
	switch o.source {
	case srcOwnValue:
		return "(json:dump-message " + o.v.render() + ifs(o.dumpSN, " :string-numbers true", "") + ")"
	case srcOwnRaw:
		return fmt.Sprintf("(json:dump-message <json.RawMessage %q>)", o.doc)
	case srcRaw:
		return fmt.Sprintf("<json.RawMessage %q>", o.doc)
	case srcBytes:
		return fmt.Sprintf("<bytes %q>", o.doc)
	}
	return fmt.Sprintf("%q", o.doc)
}

func objSpecs() []objSpec {
	var out []objSpec
	vs := objValues()
	for i := range vs {
		out = append(out, objSpec{source: srcOwnValue, v: &vs[i]})
	}
	for i := range vs {
		out = append(out, objSpec{source: srcOwnValue, v: &vs[i], dumpSN: true})
	}
	for _, src := range []string{srcOwnRaw, srcRaw, srcString, srcBytes} {
		for _, d := range objDocs {
			out = append(out, objSpec{source: src, doc: d})
		}
	}
	return out
}

func (o objSpec) newCase(ops []int) objHistCase {
	c := objHistCase{Kind: "ohist", Source: o.source, V: o.v, DumpSN: o.dumpSN, Repr: o.repr()}
	if o.v == nil {
		c.Hex = hex.EncodeToString([]byte(o.doc))
	}
	for _, k := range ops {
		c.Ops = append(c.Ops, objOps[k].name)
	}
	return c
}

// ---------------------------------------------------------------------------
// execution

const objResetSrc = `(json:use-string-numbers false) (json:use-exact-integers false)`

// mintObject binds c13-o and returns the document the object holds.
func (w *worker) mintObject(c objHistCase) (doc []byte, refused *lisp.LVal) {
	switch c.Source {
	case srcOwnValue, srcOwnRaw:
		if c.Source == srcOwnValue {
			w.set("c13-ov", c.V.build(false))
		} else {
			d, _ := hex.DecodeString(c.Hex)
			rm := json.RawMessage(d)
			w.set("c13-ov", lisp.Native(&rm))
		}
		r := w.eval(`(set 'c13-o (json:dump-message c13-ov` + ifs(c.DumpSN, " :string-numbers true", "") + `)) (json:message-bytes c13-o)`)
		if r.Type != lisp.LBytes {
			return nil, r
		}
		return append([]byte{}, r.Bytes()...), nil
	}
	d, _ := hex.DecodeString(c.Hex)
	switch c.Source {
	case srcRaw:
		rm := json.RawMessage(append([]byte{}, d...))
		w.set("c13-o", lisp.Native(&rm))
	case srcString:
		w.set("c13-o", lisp.String(string(d)))
	case srcBytes:
		w.set("c13-o", lisp.Bytes(append([]byte{}, d...)))
	}
	return d, nil
}

// objRelation names how a load relates to what happened to the object before
// it (the violation class is built from it).
func objRelation(nloads int, mutated, otherEI, otherSN bool) string {
	switch {
	case nloads == 0:
		return "first-load"
	case mutated:
		return "load-after-mutating-an-earlier-result"
	case otherEI:
		return "load-after-load-under-other-exact-integers"
	case otherSN:
		return "load-after-load-under-other-string-numbers"
	}
	return "repeated-load-under-the-same-options"
}

// runObjHistory executes one history on w.  nontrivial: the history loads the
// object at least twice and, between two loads, the options in force change
// or an earlier result is mutated.
func (w *worker) runObjHistory(c objHistCase) (fs []finding, outcome string, nontrivial bool) {
	add := func(cl, exp, got string) { fs = append(fs, finding{cl, exp, got}) }
	pre := "object-history:" + c.Source + ":"
	if r := w.eval(objResetSrc); r.Type == lisp.LError {
		return []finding{{pre + "harness:reset-failed", "json:use-* succeed", describe(r)}}, "harness", false
	}
	doc, refused := w.mintObject(c)
	if refused != nil {
		if lisp.IsInternalPanic(refused) {
			return []finding{{pre + "mint:host-panic", "no host panic", describe(refused)}}, "mint-panic", false
		}
		if c.Source == srcOwnValue {
			return []finding{{pre + "mint:dump-message-refuses-a-plain-value", "a message", describe(refused)}}, "mint-refused", false
		}
		// an embedder's bytes dump refuses to pass on (invalid, or not loadable): no object, no history
		return nil, "mint-refused(embedder bytes)", false
	}
	ref := analyse(doc)
	loader := objLoader(c.Source)
	defSN, defEI := false, false
	nloads, mutated := 0, false
	seenMode := map[[2]bool]bool{}
	var last *lisp.LVal
	var trail []string
	for step, name := range c.Ops {
		op, ok := objOpByName(name)
		if !ok {
			return []finding{{pre + "harness:unknown-op", "an operation of the alphabet", name}}, "harness", false
		}
		switch op.kind {
		case 'S', 'E':
			src := op.name
			if r := w.eval(src); r.Type == lisp.LError {
				return []finding{{pre + "harness:use-failed", src + " succeeds", describe(r)}}, "harness", false
			}
			if op.kind == 'S' {
				defSN = op.b
			} else {
				defEI = op.b
			}
		case 'M':
			if last == nil {
				continue
			}
			for _, k := range containers(last, nil) {
				if m := w.mutate(k); m.Type == lisp.LError {
					return []finding{{pre + "harness:mutation-failed", "append!/assoc! on a loaded container succeeds", describe(m)}}, "harness", false
				}
				mutated = true
			}
		case 'L':
			sn, ei := defSN, defEI
			if op.sn >= 0 {
				sn = op.sn == 1
			}
			if op.ei >= 0 {
				ei = op.ei == 1
			}
			otherEI, otherSN := false, false
			for m := range seenMode {
				otherSN = otherSN || m[0] != sn
				otherEI = otherEI || (m[0] == sn && m[1] != ei)
			}
			rel := objRelation(nloads, mutated, otherEI, otherSN)
			if nloads > 0 && (mutated || otherEI || otherSN) {
				nontrivial = true
			}
			res := w.eval(op.src[loader])
			f, out := judgeDoc(ref, docCase{Kind: "doc", Loader: loader, SN: sn, EI: ei}, res)
			if f != nil {
				add(pre+rel+":"+f.Class,
					fmt.Sprintf("operation %d %s decodes the object's document %s under the options in force for THIS call (%s): %s", step+1, op.name, clip(doc), modeName(sn, ei), f.Expected),
					f.Got+" after "+strings.Join(c.Ops[:step], " "))
				out = "WRONG:" + out
			}
			trail = append(trail, rel+"="+out)
			nloads++
			seenMode[[2]bool{sn, ei}] = true
			last = nil
			if res != nil && res.Type != lisp.LError {
				last = res
			}
		}
	}
	// the object itself is what it was
	switch c.Source {
	case srcOwnValue, srcOwnRaw, srcRaw:
		r := w.eval(`(json:message-bytes c13-o)`)
		if r.Type != lisp.LBytes || !bytes.Equal(r.Bytes(), doc) {
			add(pre+"message-bytes-differ-after-the-history", clip(doc), describe(r))
		}
	}
	w.set("c13-o", lisp.Nil())
	// outcome class: how many loads, and the relation and verdict of the last one
	return fs, fmt.Sprintf("%d-loads/last:%s", nloads, trail[len(trail)-1]), nontrivial
}

func objHistOnce(raw json.RawMessage) ([]finding, error) {
	var c objHistCase
	if err := json.Unmarshal(raw, &c); err != nil {
		return nil, err
	}
	fs, _, _ := newWorker().runObjHistory(c)
	return fs, nil
}

// ---------------------------------------------------------------------------
// the O part of the run

func (x *explorer) runObjHistories() {
	r := x.r
	maxLen := 3
	if r.Thorough() {
		maxLen = 4
	}
	hs := objHistories(maxLen)
	specs := objSpecs()
	var opNames []string
	for _, o := range objOps {
		opNames = append(opNames, o.name)
	}
	r.Rule("OBJECT histories: for every document-holding object of the object alphabet - a message minted by json:dump-message from each of the listed values (with and without :string-numbers), " +
		"a message minted by json:dump-message from an embedder json.RawMessage holding each of the listed documents, that json.RawMessage itself, the document as a string, as bytes - bound to a global ONCE, " +
		"and every sequence of 1..N operations over {load the object with :string-numbers in {omitted,true,false} x :exact-integers in {omitted,true,false}, (json:use-string-numbers b), (json:use-exact-integers b), " +
		"mutate in place every container of the most recent load result} that ends in a load and has no mutation before the first load: EVERY load of the sequence must agree with the independent decoder on the object's document " +
		"under the options in force for that call (the keyword when given, else the default the history has set so far - the reference model is that pair of defaults), exactly as a first load in a fresh runtime would " +
		"(int / float / string per number, integer-range-error, fresh containers), and json:message-bytes of the object is unchanged at the end. " +
		"Non-trivial object history = the object is loaded at least twice and between two loads the options in force change or an earlier result is mutated (distinct by object and operation sequence).")
	r.Assume("OBJECT histories: what a load returns is a function of the object's document and the options of that call only; a loaded value belongs to the caller (mutating it in place is never visible in a later load). " +
		"A json:dump-message of embedder bytes that dump refuses (invalid, or a number beyond float64) mints no object and ends the history (outcome mint-refused); the unspecified zones of part D (numbers beyond float64, ill-formed UTF-8) apply to each load unchanged")
	r.Bound("object_history_max_ops", maxLen)
	r.Bound("object_history_ops", opNames)
	r.Bound("object_history_sequences", len(hs))
	r.Bound("object_history_sources", objSources)
	r.Bound("object_history_values", len(objValues()))
	r.Bound("object_history_documents", objDocs)
	r.Bound("object_histories", len(hs)*len(specs))
	n := int64(len(hs)) * int64(len(specs))
	defer trace("object-histories", n, time.Now())
	ns := int64(len(specs))
	x.parallel(n, func(w *worker, st *stats, i int64) {
		spec := specs[i%ns]
		c := spec.newCase(hs[i/ns])
		e0 := w.evals
		fs, out, nt := w.runObjHistory(c)
		d := w.evals - e0
		r.AddEvals(d)
		r.AddTransitions(d)
		r.AddStates(1)
		r.AddTraces(1)
		if nt {
			r.Nontrivial("ohist:" + c.Repr + ":" + strings.Join(c.Ops, ""))
		}
		st.outcomes["object-history/"+c.Source+"/"+out]++
		if i == n/2 || i == n-1 {
			r.Sample(map[string]any{"space": "object-histories", "object": c.Repr, "ops": c.Ops, "outcome": out})
		}
		if len(fs) > 0 {
			x.report(c, fs)
		}
	})
}
