package c13

// An independent RFC 8259 recogniser / decoder.  It is the oracle of the
// property: it does not use encoding/json, strconv's float parser or
// unicode/utf8.  Numbers are kept as their literal text; their meaning is
// computed with math/big (numval.go).

import (
	"bytes"
	"sort"
)

type nkind int

const (
	kNull nkind = iota
	kBool
	kNum
	kStr
	kArr
	kObj
)

func (k nkind) String() string {
	return [...]string{"null", "bool", "number", "string", "array", "object"}[k]
}

// node is a decoded JSON value.
type node struct {
	kind  nkind
	b     bool
	num   string // literal text of a number
	str   []byte // decoded string (UTF-8; U+FFFD where the text was lossy)
	lossy bool   // str: the text held ill-formed UTF-8 or an unpaired \u surrogate: content unspecified
	elems []*node
	keys  []*node // object member names (kStr), document order, duplicates kept
}

// docFlags describe zones in which RFC 8259 leaves the outcome open.
type docFlags struct {
	badUTF8      bool // ill-formed UTF-8 inside a string (RFC 8259 §8.1: text MUST be UTF-8) - acceptance unspecified
	loneSurr     bool // \uD800-style unpaired surrogate escape (§8.2: behaviour unpredictable) - must parse, content unspecified
	dupKeys      bool // §4: names SHOULD be unique; modelled as last-wins
	outsideSpace bool // insignificant whitespace present (for the canonical-form check of dump output)
}

type parser struct {
	b     []byte
	i     int
	fl    docFlags
	why   string // reason class of the first syntax error
	depth int
}

func (p *parser) fail(why string) bool {
	if p.why == "" {
		p.why = why
	}
	return false
}

// parseJSON recognises b as a JSON text.  ok=false: syntactically invalid
// (why is a short stable reason class).
func parseJSON(b []byte) (n *node, fl docFlags, ok bool, why string) {
	p := &parser{b: b}
	p.ws()
	if p.i >= len(p.b) {
		return nil, p.fl, false, "empty"
	}
	n, good := p.value()
	if !good {
		return nil, p.fl, false, p.why
	}
	p.ws()
	if p.i != len(p.b) {
		return nil, p.fl, false, "trailing-data"
	}
	return n, p.fl, true, ""
}

func (p *parser) ws() {
	for p.i < len(p.b) {
		switch p.b[p.i] {
		case ' ', '\t', '\n', '\r':
			p.fl.outsideSpace = true
			p.i++
		default:
			return
		}
	}
}

func (p *parser) value() (*node, bool) {
	if p.i >= len(p.b) {
		return nil, p.fail("truncated")
	}
	switch c := p.b[p.i]; {
	case c == '{':
		return p.object()
	case c == '[':
		return p.array()
	case c == '"':
		return p.str()
	case c == '-' || (c >= '0' && c <= '9'):
		return p.number()
	case c == 't':
		return p.lit("true", &node{kind: kBool, b: true})
	case c == 'f':
		return p.lit("false", &node{kind: kBool, b: false})
	case c == 'n':
		return p.lit("null", &node{kind: kNull})
	case c == '.' || c == '+':
		return nil, p.fail("bad-number:no-integer-part")
	case c == '}' || c == ']' || c == ',' || c == ':':
		return nil, p.fail("unexpected-punctuation")
	default:
		return nil, p.fail("unexpected-byte")
	}
}

func (p *parser) lit(s string, n *node) (*node, bool) {
	if len(p.b)-p.i < len(s) {
		if bytes.HasPrefix([]byte(s), p.b[p.i:]) {
			return nil, p.fail("truncated-literal")
		}
		return nil, p.fail("bad-literal")
	}
	if string(p.b[p.i:p.i+len(s)]) != s {
		return nil, p.fail("bad-literal")
	}
	p.i += len(s)
	return n, true
}

func isDigit(c byte) bool { return c >= '0' && c <= '9' }

func (p *parser) number() (*node, bool) {
	st := p.i
	if p.b[p.i] == '-' {
		p.i++
		if p.i >= len(p.b) || !isDigit(p.b[p.i]) {
			return nil, p.fail("bad-number:minus-without-digit")
		}
	}
	if p.b[p.i] == '0' {
		p.i++
		if p.i < len(p.b) && isDigit(p.b[p.i]) {
			return nil, p.fail("bad-number:leading-zero")
		}
	} else {
		for p.i < len(p.b) && isDigit(p.b[p.i]) {
			p.i++
		}
	}
	if p.i < len(p.b) && p.b[p.i] == '.' {
		p.i++
		if p.i >= len(p.b) || !isDigit(p.b[p.i]) {
			return nil, p.fail("bad-number:no-digit-after-point")
		}
		for p.i < len(p.b) && isDigit(p.b[p.i]) {
			p.i++
		}
	}
	if p.i < len(p.b) && (p.b[p.i] == 'e' || p.b[p.i] == 'E') {
		p.i++
		if p.i < len(p.b) && (p.b[p.i] == '+' || p.b[p.i] == '-') {
			p.i++
		}
		if p.i >= len(p.b) || !isDigit(p.b[p.i]) {
			return nil, p.fail("bad-number:no-digit-in-exponent")
		}
		for p.i < len(p.b) && isDigit(p.b[p.i]) {
			p.i++
		}
	}
	return &node{kind: kNum, num: string(p.b[st:p.i])}, true
}

func hexv(c byte) int {
	switch {
	case c >= '0' && c <= '9':
		return int(c - '0')
	case c >= 'a' && c <= 'f':
		return int(c-'a') + 10
	case c >= 'A' && c <= 'F':
		return int(c-'A') + 10
	}
	return -1
}

// appendRune appends the UTF-8 encoding of a scalar value.
func appendRune(dst []byte, r int) []byte {
	switch {
	case r < 0x80:
		return append(dst, byte(r))
	case r < 0x800:
		return append(dst, byte(0xC0|r>>6), byte(0x80|r&0x3F))
	case r < 0x10000:
		return append(dst, byte(0xE0|r>>12), byte(0x80|(r>>6)&0x3F), byte(0x80|r&0x3F))
	default:
		return append(dst, byte(0xF0|r>>18), byte(0x80|(r>>12)&0x3F), byte(0x80|(r>>6)&0x3F), byte(0x80|r&0x3F))
	}
}

var replacement = []byte{0xEF, 0xBF, 0xBD}

// utf8Len returns the length of the well-formed UTF-8 sequence at the start
// of b (Unicode 15 table 3-7), or 0 if the first byte does not start one.
func utf8Len(b []byte) int {
	if len(b) == 0 {
		return 0
	}
	c := b[0]
	cont := func(i int, lo, hi byte) bool { return i < len(b) && b[i] >= lo && b[i] <= hi }
	switch {
	case c < 0x80:
		return 1
	case c >= 0xC2 && c <= 0xDF:
		if cont(1, 0x80, 0xBF) {
			return 2
		}
	case c == 0xE0:
		if cont(1, 0xA0, 0xBF) && cont(2, 0x80, 0xBF) {
			return 3
		}
	case (c >= 0xE1 && c <= 0xEC) || c == 0xEE || c == 0xEF:
		if cont(1, 0x80, 0xBF) && cont(2, 0x80, 0xBF) {
			return 3
		}
	case c == 0xED:
		if cont(1, 0x80, 0x9F) && cont(2, 0x80, 0xBF) {
			return 3
		}
	case c == 0xF0:
		if cont(1, 0x90, 0xBF) && cont(2, 0x80, 0xBF) && cont(3, 0x80, 0xBF) {
			return 4
		}
	case c >= 0xF1 && c <= 0xF3:
		if cont(1, 0x80, 0xBF) && cont(2, 0x80, 0xBF) && cont(3, 0x80, 0xBF) {
			return 4
		}
	case c == 0xF4:
		if cont(1, 0x80, 0x8F) && cont(2, 0x80, 0xBF) && cont(3, 0x80, 0xBF) {
			return 4
		}
	}
	return 0
}

// scrub replaces every byte that is not part of a well-formed UTF-8 sequence
// by U+FFFD (one replacement per offending byte).
func scrub(s []byte) (out []byte, changed bool) {
	for i := 0; i < len(s); {
		n := utf8Len(s[i:])
		if n == 0 {
			out = append(out, replacement...)
			changed = true
			i++
			continue
		}
		out = append(out, s[i:i+n]...)
		i += n
	}
	return out, changed
}

func (p *parser) hex4() (int, bool) {
	if p.i+4 > len(p.b) {
		return 0, false
	}
	v := 0
	for k := 0; k < 4; k++ {
		h := hexv(p.b[p.i+k])
		if h < 0 {
			return 0, false
		}
		v = v<<4 | h
	}
	p.i += 4
	return v, true
}

func (p *parser) str() (*node, bool) {
	p.i++ // opening quote
	n := &node{kind: kStr, str: []byte{}}
	for {
		if p.i >= len(p.b) {
			return nil, p.fail("unterminated-string")
		}
		c := p.b[p.i]
		switch {
		case c == '"':
			p.i++
			return n, true
		case c < 0x20:
			return nil, p.fail("control-char-in-string")
		case c == '\\':
			p.i++
			if p.i >= len(p.b) {
				return nil, p.fail("unterminated-string")
			}
			e := p.b[p.i]
			p.i++
			switch e {
			case '"', '\\', '/':
				n.str = append(n.str, e)
			case 'b':
				n.str = append(n.str, '\b')
			case 'f':
				n.str = append(n.str, '\f')
			case 'n':
				n.str = append(n.str, '\n')
			case 'r':
				n.str = append(n.str, '\r')
			case 't':
				n.str = append(n.str, '\t')
			case 'u':
				u, ok := p.hex4()
				if !ok {
					return nil, p.fail("bad-unicode-escape")
				}
				switch {
				case u >= 0xD800 && u <= 0xDBFF:
					// high surrogate: pairs with an immediately following \uDC00-\uDFFF
					save := p.i
					if p.i+1 < len(p.b) && p.b[p.i] == '\\' && p.b[p.i+1] == 'u' {
						p.i += 2
						lo, ok := p.hex4()
						if ok && lo >= 0xDC00 && lo <= 0xDFFF {
							n.str = appendRune(n.str, 0x10000+((u-0xD800)<<10)+(lo-0xDC00))
							continue
						}
						p.i = save // the following escape is validated on its own
					}
					n.str = append(n.str, replacement...)
					n.lossy = true
					p.fl.loneSurr = true
				case u >= 0xDC00 && u <= 0xDFFF:
					n.str = append(n.str, replacement...)
					n.lossy = true
					p.fl.loneSurr = true
				default:
					n.str = appendRune(n.str, u)
				}
			default:
				return nil, p.fail("bad-escape")
			}
		case c < 0x80:
			n.str = append(n.str, c)
			p.i++
		default:
			l := utf8Len(p.b[p.i:])
			if l == 0 {
				n.str = append(n.str, replacement...)
				n.lossy = true
				p.fl.badUTF8 = true
				p.i++
				continue
			}
			n.str = append(n.str, p.b[p.i:p.i+l]...)
			p.i += l
		}
	}
}

func (p *parser) array() (*node, bool) {
	p.i++
	n := &node{kind: kArr}
	p.ws()
	if p.i < len(p.b) && p.b[p.i] == ']' {
		p.i++
		return n, true
	}
	for {
		p.ws()
		v, ok := p.value()
		if !ok {
			return nil, false
		}
		n.elems = append(n.elems, v)
		p.ws()
		if p.i >= len(p.b) {
			return nil, p.fail("truncated")
		}
		switch p.b[p.i] {
		case ',':
			p.i++
		case ']':
			p.i++
			return n, true
		default:
			return nil, p.fail("missing-comma-or-bracket")
		}
	}
}

func (p *parser) object() (*node, bool) {
	p.i++
	n := &node{kind: kObj}
	p.ws()
	if p.i < len(p.b) && p.b[p.i] == '}' {
		p.i++
		return n, true
	}
	for {
		p.ws()
		if p.i >= len(p.b) {
			return nil, p.fail("truncated")
		}
		if p.b[p.i] != '"' {
			return nil, p.fail("object-key-not-string")
		}
		k, ok := p.str()
		if !ok {
			return nil, false
		}
		p.ws()
		if p.i >= len(p.b) {
			return nil, p.fail("truncated")
		}
		if p.b[p.i] != ':' {
			return nil, p.fail("missing-colon")
		}
		p.i++
		p.ws()
		v, ok := p.value()
		if !ok {
			return nil, false
		}
		for _, o := range n.keys {
			if bytes.Equal(o.str, k.str) {
				p.fl.dupKeys = true
			}
		}
		n.keys = append(n.keys, k)
		n.elems = append(n.elems, v)
		p.ws()
		if p.i >= len(p.b) {
			return nil, p.fail("truncated")
		}
		switch p.b[p.i] {
		case ',':
			p.i++
		case '}':
			p.i++
			return n, true
		default:
			return nil, p.fail("missing-comma-or-brace")
		}
	}
}

// member is one surviving object member under the last-wins model.
type member struct {
	key   []byte
	lossy bool
	val   *node
}

// members returns the object's members with duplicate names resolved
// last-wins, sorted by name bytes.
func (n *node) members() []member {
	var out []member
	for i := range n.keys {
		found := false
		for j := range out {
			if bytes.Equal(out[j].key, n.keys[i].str) {
				out[j].val = n.elems[i]
				out[j].lossy = out[j].lossy || n.keys[i].lossy
				found = true
			}
		}
		if !found {
			out = append(out, member{key: n.keys[i].str, lossy: n.keys[i].lossy, val: n.elems[i]})
		}
	}
	sort.SliceStable(out, func(a, b int) bool { return bytes.Compare(out[a].key, out[b].key) < 0 })
	return out
}

// anyLossy reports whether any string of the tree (names included) is lossy.
func (n *node) anyLossy() bool {
	if n.lossy {
		return true
	}
	for _, k := range n.keys {
		if k.lossy {
			return true
		}
	}
	for _, e := range n.elems {
		if e.anyLossy() {
			return true
		}
	}
	return false
}
