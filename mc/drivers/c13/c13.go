// Package c13: JSON encoding and decoding are faithful, canonical and mutually
// consistent (DESIGN §C13).
//
// Two exhaustively enumerated spaces, one oracle:
//
//	V  every value of a stated value alphabet / tree grammar is bound to a
//	   global of a real runtime (built with the public lisp constructors) and
//	   sent through json:dump-string / dump-bytes / dump-message and back
//	   through json:load-string / load-bytes / load-message;
//	D  every token sequence up to length L over the document-token alphabet,
//	   concatenated without separators, and every byte string of length <= 2,
//	   is loaded through load-string, load-bytes and load-message under all
//	   four (:string-numbers, :exact-integers) combinations, given as keywords
//	   and (shorter sequences) as json:use-* defaults.
//
// plus three history spaces: H (dump histories, hist.go), LOAD histories
// (lhist.go) and O (object histories, ohist.go: one message / string / bytes
// object loaded repeatedly under every sequence of per-call options, default
// changes and in-place mutations of earlier results).
//
// The oracle is the RFC 8259 recogniser/decoder of ref.go with math/big
// numbers (numval.go); encoding/json is imported only for the
// json.RawMessage *type* an embedder hands to load-message.
package c13

import (
	"bytes"
	"encoding/hex"
	"encoding/json"
	"fmt"
	"math"
	"math/big"
	"sort"
	"strings"

	"github.com/luthersystems/elps/lisp"

	"verif/mc/core"
	"verif/mc/el"
)

func init() {
	core.Register(&core.Driver{Property: "C13", Run: run, Replay: replay})
}

// ---------------------------------------------------------------------------
// worker: one real runtime, programs parsed once

type worker struct {
	env   *el.Env
	progs map[string]lisp.Program
	defs  [4]*worker // runtimes whose option defaults were set with json:use-*
	evals int64      // programs evaluated on this runtime

	capped map[int]*worker // runtimes with Runtime.MaxAlloc set

	bound    bool // c13-ds / c13-db / c13-dm are bound to boundDoc
	boundDoc string
}

func (w *worker) evalCount() int64 {
	n := w.evals
	for _, d := range w.defs {
		if d != nil {
			n += d.evals
		}
	}
	for _, d := range w.capped {
		n += d.evals
	}
	return n
}

func newWorker() *worker {
	return &worker{env: el.MustEnv(el.Opts{Stdlib: true}), progs: map[string]lisp.Program{}}
}

func (w *worker) set(name string, v *lisp.LVal) {
	if r := w.env.PutGlobal(lisp.Symbol(name), v); r.Type == lisp.LError {
		panic("harness: PutGlobal: " + r.String())
	}
}

func (w *worker) eval(src string) *lisp.LVal {
	p, ok := w.progs[src]
	if !ok {
		var err error
		p, err = el.Parse("c13", src)
		if err != nil {
			panic("harness: parse " + src + ": " + err.Error())
		}
		w.progs[src] = p
	}
	w.evals++
	return w.env.LoadProgram(p)
}

// withDefaults returns the runtime in which (json:use-string-numbers sn) and
// (json:use-exact-integers ei) have been called.
func (w *worker) withDefaults(sn, ei bool) *worker {
	i := 0
	if sn {
		i |= 1
	}
	if ei {
		i |= 2
	}
	if w.defs[i] == nil {
		d := newWorker()
		r := d.eval(fmt.Sprintf("(json:use-string-numbers %v) (json:use-exact-integers %v)", sn, ei))
		if r.Type == lisp.LError {
			panic("harness: json:use-*: " + r.String())
		}
		w.defs[i] = d
	}
	return w.defs[i]
}

type finding struct {
	Class    string
	Expected string
	Got      string
}

func describe(v *lisp.LVal) string {
	if v == nil {
		return "<nil result>"
	}
	if v.Type == lisp.LError {
		return "ERR<" + v.Str + ": " + el.ErrText(v) + ">"
	}
	s := v.String()
	if len(s) > 300 {
		s = s[:300] + "…"
	}
	return "VAL<" + s + ">"
}

// ---------------------------------------------------------------------------
// D: documents

type docCase struct {
	Kind     string   `json:"kind"` // "doc"
	Hex      string   `json:"hex"`
	Repr     string   `json:"repr"`
	Tokens   []string `json:"tokens,omitempty"`
	Loader   string   `json:"loader"` // string | bytes | message
	SN       bool     `json:"string_numbers"`
	EI       bool     `json:"exact_integers"`
	Defaults bool     `json:"via_use_defaults,omitempty"`
	Cap      int      `json:"runtime_max_alloc,omitempty"` // the runtime's per-operation allocation cap (members per container) when set
}

func modeName(sn, ei bool) string {
	switch {
	case sn && ei:
		return "strnum+exact"
	case sn:
		return "strnum"
	case ei:
		return "exact"
	}
	return "default"
}

var loaders = []string{"string", "bytes", "message"}

func loadSrc(loader string, sn, ei, defaults bool) string {
	arg := map[string]string{"string": "c13-ds", "bytes": "c13-db", "message": "c13-dm"}[loader]
	s := "(json:load-" + loader + " " + arg
	if !defaults {
		if sn {
			s += " :string-numbers true"
		}
		if ei {
			s += " :exact-integers true"
		}
	}
	return s + ")"
}

func (w *worker) bindDoc(doc []byte) {
	if w.bound && w.boundDoc == string(doc) {
		return
	}
	w.bound, w.boundDoc = true, string(doc)
	w.set("c13-ds", lisp.String(string(doc)))
	w.set("c13-db", lisp.Bytes(append([]byte{}, doc...)))
	rm := json.RawMessage(append([]byte{}, doc...))
	w.set("c13-dm", lisp.Native(&rm))
}

func (w *worker) loadDoc(doc []byte, c docCase) *lisp.LVal {
	t := w
	if c.Defaults {
		t = w.withDefaults(c.SN, c.EI)
	}
	if c.Cap > 0 {
		if w.capped == nil {
			w.capped = map[int]*worker{}
		}
		if w.capped[c.Cap] == nil {
			k := newWorker()
			k.env.Runtime.MaxAlloc = c.Cap
			w.capped[c.Cap] = k
		}
		t = w.capped[c.Cap]
	}
	t.bindDoc(doc)
	return t.eval(loadSrc(c.Loader, c.SN, c.EI, c.Defaults))
}

// docRef is the reference's reading of one document.
type docRef struct {
	ok  bool
	why string
	n   *node
	fl  docFlags
}

func analyse(doc []byte) docRef {
	n, fl, ok, why := parseJSON(doc)
	return docRef{ok: ok, why: why, n: n, fl: fl}
}

// numErrs collects what the numbers of a valid document can signal in a mode.
type numErrs struct {
	rng      bool // json:integer-range-error (a surviving integer literal that does not fit and is not canonical float text)
	overflow bool // a number converted to float64 whose magnitude exceeds the float64 range (unspecified zone)
	shadowed bool // an overflowing number in a member shadowed by a later duplicate name (unspecified zone)
}

func (e *numErrs) scan(n *node, sn, ei, live bool) {
	switch n.kind {
	case kNum:
		if sn {
			return
		}
		d := parseDecimal(n.num)
		_, over := d.float64()
		if !live {
			e.shadowed = e.shadowed || over
			return
		}
		if ei && d.intForm && n.num != "-0" {
			if fitsInt64(d.bigInt()) {
				return
			}
			f, _ := d.float64()
			if over || canonicalFloatText(n.num, f) != "" {
				e.rng = true
			}
			return
		}
		if over {
			e.overflow = true
		}
	case kArr:
		for _, c := range n.elems {
			e.scan(c, sn, ei, live)
		}
	case kObj:
		for i, c := range n.elems {
			last := true
			for j := i + 1; j < len(n.keys); j++ {
				if bytes.Equal(n.keys[j].str, n.keys[i].str) {
					last = false
				}
			}
			e.scan(c, sn, ei, live && last)
		}
	}
}

func lkind(v *lisp.LVal) string {
	if v.IsNil() {
		return "nil"
	}
	return v.Type.String()
}

// cmpLoaded compares a loaded value with the reference tree n under a mode.
// It returns "" or (class detail, description).
func cmpLoaded(v *lisp.LVal, n *node, sn, ei bool, path string) (string, string) {
	bad := func(cl, f string, a ...any) (string, string) {
		return cl, path + ": " + fmt.Sprintf(f, a...)
	}
	switch n.kind {
	case kNull:
		if !v.IsNil() {
			return bad("null-as-"+lkind(v), "null must load as (), got %s", describe(v))
		}
	case kBool:
		if v.Type != lisp.LSymbol || v.Str != map[bool]string{true: lisp.TrueSymbol, false: lisp.FalseSymbol}[n.b] {
			return bad("bool", "%v must load as the boolean, got %s", n.b, describe(v))
		}
	case kStr:
		if v.Type != lisp.LString {
			return bad("string-as-"+lkind(v), "a JSON string must load as a string, got %s", describe(v))
		}
		if !n.lossy && v.Str != string(n.str) {
			return bad("string-content", "string must decode to %q, got %q", n.str, v.Str)
		}
	case kNum:
		if sn {
			if v.Type != lisp.LString {
				return bad("strnum-as-"+lkind(v), ":string-numbers must return the literal %q as a string, got %s", n.num, describe(v))
			}
			if v.Str != n.num {
				return bad("strnum-text", ":string-numbers must return the literal text %q, got %q", n.num, v.Str)
			}
			return "", ""
		}
		d := parseDecimal(n.num)
		f, _ := d.float64()
		if ei && d.intForm && n.num != "-0" {
			if bi := d.bigInt(); fitsInt64(bi) {
				if v.Type != lisp.LInt {
					return bad("exact:int-as-"+lkind(v), "integer literal %s that fits must load as an int, got %s", n.num, describe(v))
				}
				if big.NewInt(int64(v.Int)).Cmp(bi) != 0 {
					return bad("exact:int-value", "integer literal %s must load exactly, got %d", n.num, v.Int)
				}
				return "", ""
			}
			// does not fit: only the canonical-float-text exception reaches here
		}
		if v.Type != lisp.LFloat {
			return bad("float-as-"+lkind(v), "number %s must load as a float in this mode, got %s", n.num, describe(v))
		}
		if math.Float64bits(v.Float) != math.Float64bits(f) {
			return bad("float-value", "number %s must load as the nearest float64 %v (bits %x), got %v (bits %x)", n.num, f, math.Float64bits(f), v.Float, math.Float64bits(v.Float))
		}
	case kArr:
		if v.Type != lisp.LArray {
			return bad("array-as-"+lkind(v), "a JSON array must load as an array, got %s", describe(v))
		}
		if len(v.Cells) != 2 || v.Cells[0].Len() != 1 {
			return bad("array-dims", "a JSON array must load as a vector, got %s", describe(v))
		}
		cells := v.Cells[1].Cells
		if len(cells) != len(n.elems) {
			return bad("array-length", "array of %d must load with %d elements, got %d", len(n.elems), len(n.elems), len(cells))
		}
		for i := range cells {
			if cl, d := cmpLoaded(cells[i], n.elems[i], sn, ei, fmt.Sprintf("%s[%d]", path, i)); cl != "" {
				return cl, d
			}
		}
	case kObj:
		if v.Type != lisp.LSortMap {
			return bad("object-as-"+lkind(v), "a JSON object must load as a sorted-map, got %s", describe(v))
		}
		ents := v.MapEntries()
		if ents.Type == lisp.LError {
			return bad("object-entries", "sorted-map entries: %s", describe(ents))
		}
		ms := n.members()
		anyLossyKey := false
		for _, m := range ms {
			anyLossyKey = anyLossyKey || m.lossy
		}
		if anyLossyKey {
			return "", "" // names with unspecified content: membership is not compared
		}
		if len(ents.Cells) != len(ms) {
			return bad("object-size", "object must load with %d members (duplicate names: last wins), got %d", len(ms), len(ents.Cells))
		}
		for i, m := range ms {
			k := ents.Cells[i].Cells[0]
			if k.Type != lisp.LString || k.Str != string(m.key) {
				return bad("object-key", "member %d must be named %q (string), got %s", i, m.key, describe(k))
			}
			if cl, d := cmpLoaded(ents.Cells[i].Cells[1], m.val, sn, ei, fmt.Sprintf("%s.%q", path, m.key)); cl != "" {
				return cl, d
			}
		}
	}
	return "", ""
}

// judgeDoc compares one load outcome with the reference.  outcome is a short
// class for the vacuity counters.
func judgeDoc(ref docRef, c docCase, res *lisp.LVal) (f *finding, outcome string) {
	mode := modeName(c.SN, c.EI)
	pre := "load-" + c.Loader + "/" + mode + ifs(c.Defaults, "(use-defaults)", "") + ":"
	if res == nil {
		return &finding{pre + "nil-result", "a value or an error", "nil"}, "nil"
	}
	if lisp.IsInternalPanic(res) {
		return &finding{pre + "host-panic", "no host panic", describe(res)}, "panic"
	}
	isErr := res.Type == lisp.LError
	if c.Cap > 0 {
		pre += "max-alloc:"
	}
	if !isErr {
		// whatever the document, a load that succeeds never hands back an error value inside the result
		if where := holdsError(res, "$"); where != "" {
			return &finding{pre + "loaded-value-holds-an-error-value", "an error is signalled, or a value made of data only", "at " + where + ": " + describe(res)}, "holds-error"
		}
	}
	if c.Cap > 0 && ref.ok && overCap(ref.n, c.Cap) {
		// unspecified zone: a container with more members than the runtime's
		// allocation cap.  Refused (not as a syntax error) or loaded as data.
		if isErr && res.Str == "json:syntax-error" {
			return &finding{pre + "over-cap-as-syntax-error", "not json:syntax-error (the document is syntactically valid)", describe(res)}, "over-cap:syntax-error"
		}
		return nil, "over-cap:" + ifs(isErr, "rejected", "accepted")
	}
	if !ref.ok {
		if !isErr {
			return &finding{pre + "accepts-invalid:" + ref.why, "rejected (reference: " + ref.why + ")", describe(res)}, "accepted-invalid"
		}
		if !c.SN && res.Str != "json:syntax-error" {
			return &finding{pre + "invalid-not-syntax-error:" + ref.why, "condition json:syntax-error (reference: " + ref.why + ")", describe(res)}, "rejected-other"
		}
		return nil, "rejected:" + ifs(res.Str == "json:syntax-error", "syntax-error", "other")
	}
	// syntactically valid
	if ref.fl.badUTF8 {
		// RFC 8259 §8.1 requires UTF-8; what a decoder does with ill-formed
		// bytes inside a string is not specified: either outcome, but a
		// structure that is returned must still be the document's structure.
		if isErr {
			return nil, "badutf8:rejected"
		}
		if cl, d := cmpLoaded(res, ref.n, c.SN, c.EI, "$"); cl != "" {
			return &finding{pre + "value:" + cl, d, describe(res)}, "badutf8:mismatch"
		}
		return nil, "badutf8:accepted"
	}
	var ne numErrs
	ne.scan(ref.n, c.SN, c.EI, true)
	switch {
	case ne.overflow || ne.shadowed:
		// unspecified zone: a literal beyond the float64 range.  A value that
		// is nevertheless returned is not compared; an error must not claim
		// the (valid) document is malformed.
		if isErr && res.Str == "json:syntax-error" {
			return &finding{pre + "valid-overflow-as-syntax-error", "not json:syntax-error (the document is syntactically valid)", describe(res)}, "overflow:syntax-error"
		}
		return nil, "overflow:" + ifs(isErr, "rejected:"+res.Str, "accepted")
	case ne.rng:
		if !isErr {
			return &finding{pre + "oversized-integer-accepted", "json:integer-range-error", describe(res)}, "range:accepted"
		}
		if res.Str != "json:integer-range-error" {
			return &finding{pre + "oversized-integer-wrong-condition", "json:integer-range-error", describe(res)}, "range:other"
		}
		return nil, "range-error"
	}
	if isErr {
		return &finding{pre + "rejects-valid:" + ref.n.kind.String(), "accepted (reference decodes a " + ref.n.kind.String() + ")", describe(res)}, "rejected-valid"
	}
	if cl, d := cmpLoaded(res, ref.n, c.SN, c.EI, "$"); cl != "" {
		return &finding{pre + "value:" + cl, d, describe(res)}, "mismatch"
	}
	return nil, "accepted:" + ref.n.kind.String()
}

// holdsError returns the path of an error value nested in a loaded value.
func holdsError(v *lisp.LVal, path string) string {
	switch v.Type {
	case lisp.LError:
		return path
	case lisp.LArray:
		if len(v.Cells) == 2 {
			for i, c := range v.Cells[1].Cells {
				if p := holdsError(c, fmt.Sprintf("%s[%d]", path, i)); p != "" {
					return p
				}
			}
		}
	case lisp.LSortMap:
		ents := v.MapEntries()
		if ents.Type == lisp.LError {
			return path + "(entries)"
		}
		for _, e := range ents.Cells {
			if e.Type == lisp.LError {
				return path + "(entry)"
			}
			if p := holdsError(e.Cells[1], fmt.Sprintf("%s.%q", path, e.Cells[0].Str)); p != "" {
				return p
			}
		}
	}
	return ""
}

// overCap: some container of the document has more members than n (objects
// counted after duplicate names are merged).
func overCap(n *node, cap int) bool {
	switch n.kind {
	case kArr:
		if len(n.elems) > cap {
			return true
		}
	case kObj:
		if len(n.members()) > cap {
			return true
		}
	}
	for _, e := range n.elems {
		if overCap(e, cap) {
			return true
		}
	}
	return false
}

func (w *worker) checkDoc(doc []byte, ref docRef, c docCase) (*finding, string) {
	f, out := judgeDoc(ref, c, w.loadDoc(doc, c))
	if f == nil && c.Loader == "string" && !c.Defaults && c.Cap == 0 && strings.HasPrefix(out, "accepted:") {
		// a loaded value dumps to a valid, sorted document holding the same data
		src := "(json:dump-string " + loadSrc(c.Loader, c.SN, c.EI, false) + ifs(c.SN, " :string-numbers true", "") + ")"
		res := w.eval(src)
		pre := "redump-of-load-" + c.Loader + "/" + modeName(c.SN, c.EI) + ":"
		if res.Type != lisp.LString {
			return &finding{pre + "error:" + ref.n.kind.String(), "a document", describe(res)}, "redump-error"
		}
		n2, fl, ok, why := parseJSON([]byte(res.Str))
		if !ok || fl.badUTF8 || fl.loneSurr || fl.dupKeys {
			return &finding{pre + "invalid-json:" + why, "a valid document", fmt.Sprintf("%q", res.Str)}, "redump-invalid"
		}
		if d := sameData(n2, ref.n, c.SN, c.EI, "$"); d != "" {
			return &finding{pre + "data-differs:" + ref.n.kind.String(), d, fmt.Sprintf("%q from %q", res.Str, doc)}, "redump-mismatch"
		}
	}
	return f, out
}

// sameData: the re-dumped document n2 holds the data of the original document
// n as the mode reads it (numbers: the same float64 / the same exact integer /
// the literal text as a string), with members sorted and unique.
func sameData(n2, n *node, sn, ei bool, path string) string {
	if n.kind == kNum {
		if sn {
			if n2.kind != kStr || string(n2.str) != n.num {
				return fmt.Sprintf("%s: number %s must re-dump as the string of its text", path, n.num)
			}
			return ""
		}
		if n2.kind != kNum {
			return path + ": number re-dumped as " + n2.kind.String()
		}
		d, d2 := parseDecimal(n.num), parseDecimal(n2.num)
		if ei && d.intForm && n.num != "-0" && fitsInt64(d.bigInt()) {
			if !d2.intForm || d2.bigInt().Cmp(d.bigInt()) != 0 {
				return fmt.Sprintf("%s: integer %s re-dumped as %s", path, n.num, n2.num)
			}
			return ""
		}
		f, _ := d.float64()
		f2, _ := d2.float64()
		if math.Float64bits(f) != math.Float64bits(f2) {
			return fmt.Sprintf("%s: number %s (float %v) re-dumped as %s (float %v)", path, n.num, f, n2.num, f2)
		}
		return ""
	}
	if n2.kind != n.kind {
		return fmt.Sprintf("%s: %s re-dumped as %s", path, n.kind, n2.kind)
	}
	switch n.kind {
	case kBool:
		if n2.b != n.b {
			return path + ": boolean differs"
		}
	case kStr:
		if !n.lossy && !bytes.Equal(n2.str, n.str) {
			return fmt.Sprintf("%s: string %q re-dumped as %q", path, n.str, n2.str)
		}
	case kArr:
		if len(n2.elems) != len(n.elems) {
			return path + ": array length differs"
		}
		for i := range n.elems {
			if d := sameData(n2.elems[i], n.elems[i], sn, ei, fmt.Sprintf("%s[%d]", path, i)); d != "" {
				return d
			}
		}
	case kObj:
		ms := n.members()
		for _, m := range ms {
			if m.lossy {
				return ""
			}
		}
		if len(n2.keys) != len(ms) {
			return fmt.Sprintf("%s: %d members re-dumped as %d", path, len(ms), len(n2.keys))
		}
		for i, m := range ms {
			if !bytes.Equal(n2.keys[i].str, m.key) {
				return fmt.Sprintf("%s: member %d should be %q (sorted), document has %q", path, i, m.key, n2.keys[i].str)
			}
			if d := sameData(n2.elems[i], m.val, sn, ei, fmt.Sprintf("%s.%q", path, m.key)); d != "" {
				return d
			}
		}
	}
	return ""
}

// ---------------------------------------------------------------------------
// V: values

type valCase struct {
	Kind   string   `json:"kind"` // "val"
	Family string   `json:"family"`
	Render string   `json:"render"`
	V      *val     `json:"v,omitempty"`
	Gen    *genSpec `json:"gen,omitempty"` // generated shapes too deep to spell out (nest / wide)
}

// genSpec names a generated value: nest(kind, n) or wide(kind, n).
type genSpec struct {
	Shape string `json:"shape"` // nest | wide
	Kind  string `json:"container"`
	N     int    `json:"n"`
	Core  int    `json:"core,omitempty"` // nest-core / beside-deep: index into repeatCores
}

func (c valCase) value() val {
	if c.Gen != nil {
		if c.Gen.Shape == "wide" {
			return wide(c.Gen.Kind, c.Gen.N)
		}
		if c.Gen.Shape == "nest-core" {
			return nestOver(c.Gen.Kind, c.Gen.N, repeatCores()[c.Gen.Core])
		}
		if c.Gen.Shape == "beside-deep" {
			return vVec(nest(c.Gen.Kind, c.Gen.N), repeatCores()[c.Gen.Core])
		}
		return nest(c.Gen.Kind, c.Gen.N)
	}
	return *c.V
}

// nestLimit is the nesting depth beyond which encoding/json's decoder (and so
// json:load-*) refuses a document.
const nestLimit = 10000

func (x *xnode) depth() int {
	d := 0
	for _, e := range x.elems {
		if k := e.depth(); k > d {
			d = k
		}
	}
	if x.kind == kArr || x.kind == kObj {
		d++
	}
	return d
}

const dumpSrc = `(vector (json:dump-string c13-v) (json:dump-string c13-v) (json:dump-string c13-v :string-numbers true) (json:dump-bytes c13-v) (json:message-bytes (json:dump-message c13-v)) (json:dump-bytes c13-v :string-numbers true) (json:message-bytes (json:dump-message c13-v :string-numbers true)))`

var rtSrcs = []struct{ name, src string }{
	{"load-string/default", `(json:load-string c13-t)`},
	{"load-string/exact", `(json:load-string c13-t :exact-integers true)`},
	{"load-string/strnum", `(json:load-string c13-t :string-numbers true)`},
	{"load-bytes/exact", `(json:load-bytes c13-tb :exact-integers true)`},
	{"load-message/exact", `(json:load-message (json:dump-message c13-v) :exact-integers true)`},
	{"load-string/default(of :string-numbers dump)", `(json:load-string c13-ts)`},
	{"load-string/strnum(of :string-numbers dump)", `(json:load-string c13-ts :string-numbers true)`},
	{"equal?/default", `(equal? c13-n (json:load-string c13-t))`},
	{"equal?/exact", `(equal? c13-n (json:load-string c13-t :exact-integers true))`},
	{"equal?/exact-flipped", `(equal? (json:load-bytes c13-tb :exact-integers true) c13-n)`},
	{"redump/exact", `(json:dump-string (json:load-string c13-t :exact-integers true))`},
	{"redump/strnum", `(json:dump-string (json:load-string c13-ts) :string-numbers true)`},
}

var rtSrc = func() string {
	var p []string
	for _, r := range rtSrcs {
		p = append(p, r.src)
	}
	return "(vector " + strings.Join(p, " ") + ")"
}()

const evalsPerVal = 7 + 14 + 2

func vecCells(v *lisp.LVal, n int) []*lisp.LVal {
	if v == nil || v.Type != lisp.LArray || len(v.Cells) != 2 || len(v.Cells[1].Cells) != n {
		return nil
	}
	return v.Cells[1].Cells
}

func charClass(b []byte) string {
	// the class of the first "interesting" byte of a string, for violation classes
	for i := 0; i < len(b); i++ {
		c := b[i]
		switch {
		case c == '"' || c == '\\':
			return "quote-or-backslash"
		case c < 0x20:
			return "control"
		case c == '<' || c == '>' || c == '&':
			return "html"
		case c == 0x7f:
			return "del"
		case c >= 0x80:
			if l := utf8Len(b[i:]); l == 0 {
				return "ill-formed-utf8"
			} else if l == 3 && b[i] == 0xE2 && b[i+1] == 0x80 && (b[i+2] == 0xA8 || b[i+2] == 0xA9) {
				return "u2028-9"
			} else if l == 4 {
				return "astral"
			}
			return "non-ascii"
		}
	}
	return "ascii"
}

func floatRegion(f float64) string {
	a := math.Abs(f)
	switch {
	case a == 0:
		return "zero"
	case a < 1e-6:
		return "below-1e-6"
	case a >= 1e21:
		return "from-1e21"
	case a >= 9223372036854775808.0:
		return "2^63..1e21"
	case a >= 9007199254740992.0:
		return "2^53..2^63"
	case a == math.Trunc(a):
		return "integral"
	}
	return "fraction"
}

// cmpDump compares the reference's decode of a dumped document with the data
// the value denotes.
func cmpDump(n *node, x *xnode, path string) (string, string) {
	bad := func(cl, f string, a ...any) (string, string) {
		return cl, path + ": " + fmt.Sprintf(f, a...)
	}
	if n.kind != x.kind {
		return bad("structure:"+x.kind.String()+"-as-"+n.kind.String(), "expected a JSON %s, document has a %s", x.kind, n.kind)
	}
	switch x.kind {
	case kBool:
		if n.b != x.b {
			return bad("bool", "expected %v", x.b)
		}
	case kNum:
		d := parseDecimal(n.num)
		if x.isInt {
			if !d.intForm || d.bigInt().Cmp(big.NewInt(x.i)) != 0 {
				return bad("int-text", "int %d is written %s", x.i, n.num)
			}
			if n.num != big.NewInt(x.i).String() {
				return bad("int-text-noncanonical", "int %d is written %s", x.i, n.num)
			}
			return "", ""
		}
		f, over := d.float64()
		if over || math.Float64bits(f) != math.Float64bits(x.f) {
			return bad("float-value:"+floatRegion(x.f), "float %v (bits %x) is written %s, which denotes %v", x.f, math.Float64bits(x.f), n.num, f)
		}
		if why := canonicalFloatText(n.num, x.f); why != "" {
			return bad("float-noncanonical:"+floatRegion(x.f), "float %v is written %s: %s", x.f, n.num, why)
		}
	case kStr:
		if !bytes.Equal(n.str, x.str) {
			return bad("string:"+charClass(x.str), "string %q is written as a literal that decodes to %q", x.str, n.str)
		}
	case kArr:
		if len(n.elems) != len(x.elems) {
			return bad("array-length", "expected %d elements, document has %d", len(x.elems), len(n.elems))
		}
		for i := range x.elems {
			if cl, d := cmpDump(n.elems[i], x.elems[i], fmt.Sprintf("%s[%d]", path, i)); cl != "" {
				return cl, d
			}
		}
	case kObj:
		if x.keyBad {
			// names that are not well-formed UTF-8 may collide or reorder once
			// replaced by U+FFFD: only the member count is compared
			if len(n.keys) != len(x.keys) {
				return bad("object-size", "expected %d members, document has %d", len(x.keys), len(n.keys))
			}
			return "", ""
		}
		for i := 1; i < len(n.keys); i++ {
			if bytes.Compare(n.keys[i-1].str, n.keys[i].str) >= 0 {
				return bad("keys-unsorted", "member names not strictly ascending: %q then %q", n.keys[i-1].str, n.keys[i].str)
			}
		}
		if len(n.keys) != len(x.keys) {
			return bad("object-size", "expected %d members, document has %d", len(x.keys), len(n.keys))
		}
		for i := range x.keys {
			if !bytes.Equal(n.keys[i].str, x.keys[i]) {
				return bad("object-key:"+charClass(x.keys[i]), "member %d: expected name %q, document has %q", i, x.keys[i], n.keys[i].str)
			}
			if cl, d := cmpDump(n.elems[i], x.elems[i], fmt.Sprintf("%s.%q", path, x.keys[i])); cl != "" {
				return cl, d
			}
		}
	}
	return "", ""
}

// cmpStrNum: the :string-numbers document is the default document with every
// number replaced by a JSON string holding the number's text.
func cmpStrNum(sn, def *node, path string) string {
	if def.kind == kNum {
		if sn.kind != kStr || string(sn.str) != def.num {
			return fmt.Sprintf("%s: number %s must be written as the string %q", path, def.num, def.num)
		}
		return ""
	}
	if sn.kind != def.kind || len(sn.elems) != len(def.elems) || len(sn.keys) != len(def.keys) {
		return path + ": structure differs from the default document"
	}
	switch def.kind {
	case kBool:
		if sn.b != def.b {
			return path + ": boolean differs"
		}
	case kStr:
		if !bytes.Equal(sn.str, def.str) {
			return path + ": string differs"
		}
	}
	for i := range def.keys {
		if !bytes.Equal(sn.keys[i].str, def.keys[i].str) {
			return path + ": member name differs"
		}
	}
	for i := range def.elems {
		if d := cmpStrNum(sn.elems[i], def.elems[i], fmt.Sprintf("%s/%d", path, i)); d != "" {
			return d
		}
	}
	return ""
}

func clip(b []byte) string {
	if len(b) > 300 {
		return fmt.Sprintf("%q…(%d bytes)", b[:300], len(b))
	}
	return fmt.Sprintf("%q", b)
}

func strOrBytes(v *lisp.LVal) ([]byte, bool) {
	switch v.Type {
	case lisp.LString:
		return []byte(v.Str), true
	case lisp.LBytes:
		return v.Bytes(), true
	}
	return nil, false
}

// checkVal runs one value through dump and back.  outcome is a vacuity class.
func (w *worker) checkVal(c valCase) (fs []finding, outcome string) {
	add := func(cl, exp, got string) { fs = append(fs, finding{cl, exp, got}) }
	cv := c.value()
	x := cv.expect()
	w.set("c13-v", cv.build(false))
	w.set("c13-n", cv.build(true))
	dres := w.eval(dumpSrc)
	if lisp.IsInternalPanic(dres) {
		add("dump:host-panic", "no host panic", describe(dres))
		return fs, "dump-panic"
	}
	if cv.nonFinite() {
		// unspecified zone: NaN and the infinities have no JSON form; the only
		// demand is that no invalid document comes back.
		if dres.Type == lisp.LError {
			return nil, "nonfinite:dump-refused"
		}
		if cells := vecCells(dres, 7); cells != nil {
			if b, ok := strOrBytes(cells[0]); ok {
				if _, _, good, why := parseJSON(b); !good {
					add("dump:nonfinite-invalid-json", "an error or a valid document", fmt.Sprintf("%q (%s)", b, why))
				}
			}
		}
		return fs, "nonfinite:dumped"
	}
	if dres.Type == lisp.LError {
		add("dump:error:"+x.kind.String(), "a JSON document", describe(dres))
		return fs, "dump-error"
	}
	cells := vecCells(dres, 7)
	if cells == nil {
		add("dump:harness-shape", "vector of 7", describe(dres))
		return fs, "dump-shape"
	}
	var outs [7][]byte
	for i, cl := range cells {
		b, ok := strOrBytes(cl)
		wantBytes := i >= 3
		if !ok || (cl.Type == lisp.LBytes) != wantBytes {
			add("dump:result-type", "string from dump-string, bytes from dump-bytes/message-bytes", describe(cl))
			return fs, "dump-type"
		}
		outs[i] = b
	}
	t, tsn := outs[0], outs[2]
	if !bytes.Equal(outs[1], t) {
		add("dump:nondeterministic", fmt.Sprintf("%q again", t), fmt.Sprintf("%q", outs[1]))
	}
	if !bytes.Equal(outs[3], t) {
		add("dump:dump-bytes-differs-from-dump-string", fmt.Sprintf("%q", t), fmt.Sprintf("%q", outs[3]))
	}
	if !bytes.Equal(outs[4], t) {
		add("dump:dump-message-differs-from-dump-string", fmt.Sprintf("%q", t), fmt.Sprintf("%q", outs[4]))
	}
	if !bytes.Equal(outs[5], tsn) {
		add("dump:strnum:dump-bytes-differs-from-dump-string", fmt.Sprintf("%q", tsn), fmt.Sprintf("%q", outs[5]))
	}
	if !bytes.Equal(outs[6], tsn) {
		add("dump:strnum:dump-message-differs-from-dump-string", fmt.Sprintf("%q", tsn), fmt.Sprintf("%q", outs[6]))
	}
	// the json:use-string-numbers default must give the :string-numbers document
	dw := w.withDefaults(true, false)
	dw.set("c13-v", cv.build(false))
	if r := dw.eval(`(json:dump-string c13-v)`); r.Type != lisp.LString || r.Str != string(tsn) {
		add("dump:use-string-numbers-default-differs", clip(tsn), describe(r))
	}
	// ... and a second runtime writes the same bytes (the keyword overrides the default)
	if r := dw.eval(`(json:dump-string c13-v :string-numbers false)`); r.Type != lisp.LString || r.Str != string(t) {
		add("dump:differs-between-runtimes", clip(t), describe(r))
	}

	n, fl, ok, why := parseJSON(t)
	switch {
	case !ok:
		add("dump:invalid-json:"+why, "a syntactically valid document", fmt.Sprintf("%q", t))
		return fs, "dump-invalid"
	case fl.badUTF8:
		add("dump:ill-formed-utf8-in-document", "a UTF-8 document", fmt.Sprintf("%q", t))
	case fl.loneSurr:
		add("dump:unpaired-surrogate-escape", "no unpaired \\u surrogate", fmt.Sprintf("%q", t))
	case fl.dupKeys && !x.hasBadKey():
		add("dump:duplicate-member-names", "unique member names", fmt.Sprintf("%q", t))
	}
	if cl, d := cmpDump(n, x, "$"); cl != "" {
		add("dump:"+cl, d, fmt.Sprintf("%q", t))
	}
	nsn, _, oksn, whysn := parseJSON(tsn)
	if !oksn {
		add("dump:strnum:invalid-json:"+whysn, "a syntactically valid document", fmt.Sprintf("%q", tsn))
		return fs, "dump-invalid"
	}
	if d := cmpStrNum(nsn, n, "$"); d != "" {
		add("dump:strnum:not-the-default-document-with-quoted-numbers", d, fmt.Sprintf("default %q, :string-numbers %q", t, tsn))
	}
	if len(fs) > 0 {
		return fs, "dump-mismatch"
	}

	// and back
	w.set("c13-t", lisp.String(string(t)))
	w.set("c13-tb", lisp.Bytes(append([]byte{}, t...)))
	w.set("c13-ts", lisp.String(string(tsn)))
	res := w.eval(rtSrc)
	rc := vecCells(res, len(rtSrcs))
	if rc == nil {
		// some call failed: find which
		rc = make([]*lisp.LVal, len(rtSrcs))
		for i, r := range rtSrcs {
			rc[i] = w.eval(r.src)
		}
	}
	deep := x.depth() > nestLimit
	type exp struct {
		n      *node
		sn, ei bool
	}
	exps := []exp{{n, false, false}, {n, false, true}, {n, true, false}, {n, false, true}, {n, false, true}, {nsn, false, false}, {nsn, true, false}}
	for i, r := range rtSrcs {
		v := rc[i]
		if lisp.IsInternalPanic(v) {
			add("roundtrip:"+r.name+":host-panic", "no host panic", describe(v))
			continue
		}
		if v.Type == lisp.LError {
			if deep {
				// one defect, one class: every load path shares the decoder's nesting limit
				add("roundtrip:rejects-own-output:nested-deeper-than-10000", "load accepts every document dump produces", fmt.Sprintf("%s: %s on %s", r.name, describe(v), clip(t)))
				break
			}
			add("roundtrip:"+r.name+":rejects-own-output:"+v.Str, "load accepts every document dump produces", fmt.Sprintf("%s on %s", describe(v), clip(t)))
			continue
		}
		if i < len(exps) {
			if cl, d := cmpLoaded(v, exps[i].n, exps[i].sn, exps[i].ei, "$"); cl != "" {
				add("roundtrip:"+r.name+":"+cl, d, fmt.Sprintf("%s from %q", describe(v), t))
			}
			continue
		}
		if x.hasBadKey() {
			continue // names collide / reorder after replacement: equal? is not demanded
		}
		if strings.HasPrefix(r.name, "redump/") {
			if x.anyScrubbed() {
				continue // U+FFFD read back from \ufffd is a well-formed character and is written raw
			}
			// dump . load is the identity on dump's own documents (exact integers;
			// a :string-numbers document holds no number at all)
			want := t
			if r.name == "redump/strnum" {
				want = tsn
			}
			if v.Type != lisp.LString || v.Str != string(want) {
				add("roundtrip:"+r.name+":not-idempotent:"+x.kind.String(), fmt.Sprintf("dump(load(d)) = d = %q", want), describe(v))
			}
			continue
		}
		if v.Type != lisp.LSymbol || v.Str != lisp.TrueSymbol {
			add("roundtrip:"+r.name+":not-equal:"+x.kind.String(), "(equal? value (load (dump value))) is true (lists read back as arrays, ill-formed UTF-8 as U+FFFD)", fmt.Sprintf("%s; document %q", describe(v), t))
		}
	}
	if len(fs) > 0 {
		return fs, "roundtrip-mismatch"
	}
	return nil, "ok:" + x.kind.String()
}

// ---------------------------------------------------------------------------
// confirmation, reporting

func classes(fs []finding) string {
	var c []string
	for _, f := range fs {
		c = append(c, f.Class)
	}
	sort.Strings(c)
	return strings.Join(c, "|")
}

func runCase(w *worker, raw json.RawMessage) ([]finding, error) {
	var head struct {
		Kind string `json:"kind"`
	}
	if err := json.Unmarshal(raw, &head); err != nil {
		return nil, err
	}
	switch head.Kind {
	case "doc":
		var c docCase
		if err := json.Unmarshal(raw, &c); err != nil {
			return nil, err
		}
		doc, err := hex.DecodeString(c.Hex)
		if err != nil {
			return nil, err
		}
		f, _ := w.checkDoc(doc, analyse(doc), c)
		if f == nil {
			return nil, nil
		}
		return []finding{*f}, nil
	case "val":
		var c valCase
		if err := json.Unmarshal(raw, &c); err != nil {
			return nil, err
		}
		fs, _ := w.checkVal(c)
		return fs, nil
	case "hist", "lhist":
		fs, _, err := histOnce(raw)
		return fs, err
	case "ohist":
		return objHistOnce(raw)
	}
	return nil, fmt.Errorf("unknown case kind %q", head.Kind)
}

// report re-confirms the findings of a case in five fresh runtimes and
// records those listed in record.
func report(r *core.Run, c any, fs, record []finding) {
	if len(fs) == 0 {
		return
	}
	raw, err := json.Marshal(c)
	if err != nil {
		panic("harness: " + err.Error())
	}
	want := classes(fs)
	for i := 0; i < 5; i++ {
		again, err := runCase(newWorker(), raw)
		if err != nil {
			panic("harness: " + err.Error())
		}
		if classes(again) != want {
			r.Flaky(map[string]any{"case": c, "first": want, "rerun": classes(again)})
			return
		}
	}
	for _, f := range record {
		r.Violate("c13", f.Class, c, f.Expected, f.Got, "")
	}
}

func replay(v core.Violation) (bool, string) {
	fs, err := runCase(newWorker(), v.Case)
	if err != nil {
		return false, err.Error()
	}
	var b strings.Builder
	fmt.Fprintf(&b, "case: %s\n", v.Case)
	hit := false
	for _, f := range fs {
		fmt.Fprintf(&b, "finding %s\n  expected: %s\n  got: %s\n", f.Class, f.Expected, f.Got)
		if f.Class == v.Class {
			hit = true
		}
	}
	if len(fs) == 0 {
		b.WriteString("no finding\n")
	}
	return hit, b.String()
}
