package c13

import (
	"encoding/hex"
	"fmt"
	"math"
	"os"
	"runtime/debug"
	"runtime/pprof"
	"sort"
	"strings"
	"sync"
	"sync/atomic"
	"time"

	"verif/mc/core"
)

// stats are per-goroutine counters, merged when the goroutine ends.
type stats struct {
	outcomes map[string]int64
}

type explorer struct {
	r        *core.Run
	mu       sync.Mutex
	outcomes map[string]int64
	seen     map[string]int // confirmed-or-attempted reports per class
	skipped  int64
	bigNT    int64 // non-trivial cases counted by construction (injective enumerations too large to hash)
}

// parallel visits every index of [0,n) exactly once on r.Workers goroutines.
func (x *explorer) parallel(n int64, fn func(w *worker, st *stats, i int64)) {
	const chunk = 256
	var next int64
	var capped int32
	var wg sync.WaitGroup
	for id := 0; id < x.r.Workers; id++ {
		wg.Add(1)
		go func() {
			defer wg.Done()
			w := newWorker()
			st := &stats{outcomes: map[string]int64{}}
			defer func() {
				x.mu.Lock()
				for k, v := range st.outcomes {
					x.outcomes[k] += v
				}
				x.mu.Unlock()
			}()
			for {
				lo := atomic.AddInt64(&next, chunk) - chunk
				if lo >= n {
					return
				}
				if x.r.Expired() {
					atomic.StoreInt32(&capped, 1)
					return
				}
				hi := lo + chunk
				if hi > n {
					hi = n
				}
				for i := lo; i < hi; i++ {
					fn(w, st, i)
				}
			}
		}()
	}
	wg.Wait()
	if capped != 0 {
		x.r.Cap(fmt.Sprintf("soft deadline reached in a range of %d (next unvisited index ≈ %d)", n, atomic.LoadInt64(&next)))
	}
}

// report confirms and records findings; at most 3 cases per class are
// confirmed (core keeps 3 per class), the rest are counted.
func (x *explorer) report(c any, fs []finding) {
	var keep []finding
	x.mu.Lock()
	for _, f := range fs {
		if x.seen[f.Class] < 3 {
			x.seen[f.Class]++
			keep = append(keep, f)
		} else {
			x.skipped++
		}
	}
	x.mu.Unlock()
	if len(keep) > 0 {
		report(x.r, c, fs, keep)
	}
}

// ---------------------------------------------------------------------------

type family struct {
	name string
	n    int64
	at   func(i int64) val
	gen  func(i int64) *genSpec // set instead of at for generated shapes
	// hashNT: record each non-trivial case by key (false: the enumeration is
	// injective and large; counted by construction)
	hashNT bool
}

func nontrivialVal(v val) bool {
	switch v.K {
	case "vec", "list", "map", "float":
		return true
	case "int":
		return v.I >= 1<<53 || v.I <= -(1<<53)
	case "str":
		return charClass(v.str()) != "ascii"
	}
	return false
}

func trace(name string, n int64, t0 time.Time) {
	if os.Getenv("C13_TRACE") != "" {
		d := time.Since(t0)
		fmt.Fprintf(os.Stderr, "c13: %-28s n=%-10d %8.1fs  %.1fµs/case\n", name, n, d.Seconds(), float64(d.Microseconds())/float64(n+1))
	}
}

func (x *explorer) runFamily(f family) {
	r := x.r
	defer trace(f.name, f.n, time.Now())
	r.Bound("values:"+f.name, f.n)
	var nt int64
	x.parallel(f.n, func(w *worker, st *stats, i int64) {
		c := valCase{Kind: "val", Family: f.name}
		if f.gen != nil {
			c.Gen = f.gen(i)
		} else {
			v := f.at(i)
			c.V = &v
		}
		v := c.value()
		c.Render = v.render()
		fs, out := w.checkVal(c)
		st.outcomes["value/"+f.name+"/"+out]++
		r.AddEvals(evalsPerVal)
		r.AddTransitions(evalsPerVal)
		r.AddStates(1)
		r.AddTraces(1)
		if nontrivialVal(v) {
			if f.hashNT {
				if c.Gen != nil {
					r.Nontrivial(fmt.Sprintf("gen:%v", *c.Gen))
				} else {
					r.Nontrivial("val:" + f.name + ":" + c.Render)
				}
			} else {
				atomic.AddInt64(&nt, 1)
			}
		}
		if i == f.n/2 && (f.name == "floats" || f.name == "strings" || f.name == "trees" || f.name == "maps-3-names" || f.name == "map-two-names" || f.name == "nesting-limit") {
			r.Sample(map[string]any{"family": f.name, "value": c.Render, "outcome": out})
		}
		if len(fs) > 0 {
			x.report(c, fs)
		}
	})
	atomic.AddInt64(&x.bigNT, nt)
}

func (x *explorer) runDocs(name string, n int64, at func(i int64, buf []int) (doc []byte, tokens []string), defaultsUpTo, allLoadersUpTo int) {
	r := x.r
	defer trace(name, n, time.Now())
	r.Bound("documents:"+name, n)
	x.parallel(n, func(w *worker, st *stats, i int64) {
		var buf [8]int
		doc, toks := at(i, buf[:0])
		ref := analyse(doc)
		r.AddStates(1)
		r.AddTraces(1)
		if ref.ok {
			r.Nontrivial("doc:" + string(doc))
		}
		e0 := w.evalCount()
		try := func(c docCase) {
			f, out := w.checkDoc(doc, ref, c)
			st.outcomes["document/"+modeName(c.SN, c.EI)+"/"+out]++
			if f != nil {
				c.Hex, c.Repr, c.Tokens, c.Kind = hex.EncodeToString(doc), fmt.Sprintf("%q", doc), toks, "doc"
				x.report(c, []finding{*f})
			}
		}
		if toks == nil || len(toks) <= allLoadersUpTo {
			for _, ld := range loaders {
				for m := 0; m < 4; m++ {
					try(docCase{Loader: ld, SN: m&1 != 0, EI: m&2 != 0})
				}
			}
		} else {
			// the longest sequences: all four modes through load-string, and one
			// mode each through the two loaders that wrap the same decoder
			for m := 0; m < 4; m++ {
				try(docCase{Loader: "string", SN: m&1 != 0, EI: m&2 != 0})
			}
			try(docCase{Loader: "bytes", EI: true})
			try(docCase{Loader: "message"})
		}
		if name == "member-names-x-failing-values" {
			// the same documents in a runtime whose allocation cap is 2 members
			for m := 0; m < 4; m++ {
				try(docCase{Loader: "string", SN: m&1 != 0, EI: m&2 != 0, Cap: memberCap})
			}
		}
		if toks != nil && len(toks) <= defaultsUpTo {
			for m := 0; m < 4; m++ {
				try(docCase{Loader: "string", SN: m&1 != 0, EI: m&2 != 0, Defaults: true})
			}
		}
		nload := w.evalCount() - e0
		r.AddEvals(nload)
		r.AddTransitions(nload)
		if i == n/3 || i == n-1 {
			r.Sample(map[string]any{"space": name, "document": fmt.Sprintf("%q", doc), "reference": ifs(ref.ok, "valid "+kindOf(ref), "invalid: "+ref.why)})
		}
	})
}

func kindOf(ref docRef) string {
	if ref.n == nil {
		return ""
	}
	return ref.n.kind.String()
}

func run(r *core.Run) {
	if p := os.Getenv("C13_PROF"); p != "" {
		f, _ := os.Create(p)
		_ = pprof.StartCPUProfile(f)
		defer pprof.StopCPUProfile()
	}
	defer debug.SetGCPercent(debug.SetGCPercent(200))
	x := &explorer{r: r, outcomes: map[string]int64{}, seen: map[string]int{}}
	th := r.Thorough()

	r.Rule("V: every value of the families below is built with the public lisp constructors, bound to a global of a real stdlib runtime and sent through " +
		"json:dump-string (twice), dump-bytes, dump-message/message-bytes (each also with :string-numbers, and under the json:use-string-numbers default) and back through " +
		"load-string {default, :exact-integers, :string-numbers}, load-bytes, load-message and equal?. " +
		"D: every token sequence of length <= L over the 32-token document alphabet (concatenated without separators), every byte string of length <= 2, every string literal whose raw body is any single byte / any pair over a 48-byte class alphabet (all 256 bytes in thorough) / any triple over a 12-byte alphabet placed at 8 grammar positions (whole document, padded, array element, member name, member value), every byte 0..255 inserted at and substituted for every offset of 26 template documents (each scalar kind as the whole document, padded, nested), and every member N:V with N over a 9-name boundary alphabet (empty name, one space, escapes, U+FFFF, astral, plain) and V over 17 values (integers beyond int64, floats beyond float64, over-cap containers, the same nested, plain values) at 8 object positions plus every two-member object over those pairs (equal names included), also loaded in a runtime whose allocation cap is 2 members, " +
		"through load-string, load-bytes, load-message x the four (:string-numbers, :exact-integers) keyword combinations (sequences of 5 tokens, thorough only: load-string x 4 modes, load-bytes :exact-integers, load-message default), plus load-string under the four json:use-* default combinations for the shorter sequences. " +
		"H: every dump history of the shapes {bad,fix,good | bad,bad,fix,good | good,poison,bad,fix,good | bad,fix,good-rewrapped | bad,other-good,fix,good} over towers of maps / vectors / lists-in-maps of the stated depths (around the encoder's 64-level second pass), " +
		"failing leaf in {NaN,+Inf,-Inf,lambda,self-reference,reference to the root} set and repaired IN PLACE with assoc!/dissoc!, through dump-string / dump-bytes / dump-message with and without :string-numbers (failing and final dump through the same form, plus every pair of different forms at depth 80); non-trivial history = the tower reaches the second pass. " +
		"LOAD histories: for every seed document with an empty container (hand documents [] {} [[],[]] {a:[],b:[]} {a:{},b:{}} [{},{}] ...) x 5 load forms: load it, mutate EVERY container of the result in place (append! a marker to every vector, assoc! a marker into every map); then for every valid token-sequence document of the small bound that holds an empty array/object (top level, nested, repeated) x 3 load entry points x 4 modes: load it in the same runtime and in another runtime - the value must be fresh (agree with the independent decoder) - and, for each container of that value in turn, reload, mutate only that container and demand the rest unchanged (distinct containers of one document are distinct objects). " +
		"Non-trivial value = a container, a float, an int beyond 2^53 or a string needing an escape/non-ASCII (distinct by rendering); non-trivial document = the reference recogniser accepts it (distinct by bytes). " +
		"states = enumerated terms (values + token sequences + byte strings; distinct token sequences may concatenate to the same bytes), transitions = json:* calls compared with the reference.")
	r.Assume("oracle = own RFC 8259 recogniser/decoder (no encoding/json, no strconv float parsing, no unicode/utf8); a number means the float64 nearest to its exact decimal value (math/big, ties to even), -0 keeps its sign")
	r.Assume("lists read back as arrays (JSON has one sequence type; json:load-* documents 'arrays become ELPS arrays'): (equal? v (load (dump v))) is demanded of v with every non-empty list replaced by the vector of the same elements")
	r.Assume("a byte of a string that is not part of a well-formed UTF-8 sequence is written as \\ufffd and reads back as U+FFFD (one per byte); map names that are not well-formed UTF-8 may collide or reorder after that replacement: for such maps only validity and member count are compared")
	r.Assume("symbols other than true/false are outside the value set except as map names. KEY-KIND COLLAPSE RULE: a sorted-map accepts exactly strings and symbols as keys (quoted symbols, the bare symbols true/false, keywords, any constructed symbol; everything else is refused as unhashable); a member's identity is its spelling (a keyword's colon is part of it: :a is not a), so 'a, a-as-bare-symbol and \"a\" are one member and the later insertion's value wins; every member is written as the JSON STRING of its spelling whatever its kind (true -> \"true\"), and json:load-* gives every name back as a string, which equal? treats as the same key")
	r.Assume("canonical float text = the shortest decimal that decodes to the float (closest such), laid out like ECMAScript Number::toString (plain digits for 1e-6 <= |x| < 1e21 as docs/lang.md states, d.ddde±x otherwise), -0 as \"-0\" (lang.md)")
	r.Assume("UNSPECIFIED (only 'no host panic' and, for dump, 'no invalid document' are asserted): NaN and the infinities; a syntactically valid document holding a number beyond the float64 range (1e999) outside :string-numbers - any outcome except json:syntax-error; a document with ill-formed UTF-8 inside a string - accepted or rejected, structure compared when accepted; the content of a string written with an unpaired \\uD800-style escape (must be accepted)")
	r.Assume("duplicate member names: last wins; under :exact-integers '-0' stays a float and an oversized integer literal that is already canonical float text (10000000000000000000) loads as that float - both as documented in docs/lang.md")
	r.Assume("HISTORY part: a successful dump must be byte-identical to the dump of a structurally equal value freshly built in a runtime that never saw a failing dump; a finite acyclic value must never be refused; a refusal must not claim a cycle ('contains itself' - the one place message text is read, because the clause is about the stated reason) unless the value has one. What a dump of NaN/Inf/a function/a cyclic value does is otherwise unspecified (no panic; no invalid document). The whole history space runs single-goroutine in a child process with GOMAXPROCS=1 GOGC=off (collections only between histories) so that reuse of pooled encoder state is deterministic; the in-process sub-space is labelled 'in-process' (reuse likely, not guaranteed)")
	r.Assume("a load that succeeds never hands back an error value anywhere inside its result (checked on every accepted document, unspecified zones included). UNSPECIFIED: a container with more members than the runtime's allocation cap (Runtime.MaxAlloc) - refused, not as json:syntax-error, or loaded as plain data")
	r.Assume("invalid documents must be rejected in every mode; the condition must be json:syntax-error unless :string-numbers is in force (the statement names only the default and :exact-integers modes)")

	if os.Getenv("C13_ONLY") == "O" { // development switch: the object-history part alone
		x.runObjHistories()
		x.finish()
		return
	}

	// ----- H: dump histories (child process + in-process sub-space)
	waitHistories := x.startHistories()

	// ----- V: scalars
	ints := intSet()
	x.runFamily(family{name: "ints", n: int64(len(ints)), hashNT: true, at: func(i int64) val { return vInt(ints[i]) }})
	sig := 3
	if th {
		sig = 4
	}
	floats := floatSet(sig)
	r.Bound("float_significant_digits", sig)
	x.runFamily(family{name: "floats", n: int64(len(floats)), hashNT: !th, at: func(i int64) val { return vFloat(floats[i]) }})
	x.runFamily(family{name: "floats-in-containers", n: int64(len(floats)) / 97, hashNT: true, at: func(i int64) val {
		f := vFloat(floats[i*97])
		return vMap([]mkey{keyStr("f"), keySym("a")}, []val{vVec(f, vList(f)), f})
	}})
	nonfin := []val{vFloat(math.NaN()), vFloat(math.Inf(1)), vFloat(math.Inf(-1)), vVec(vFloat(math.NaN())), vMap([]mkey{keyStr("a")}, []val{vFloat(math.Inf(1))})}
	x.runFamily(family{name: "nonfinite(unspecified)", n: int64(len(nonfin)), hashNT: true, at: func(i int64) val { return nonfin[i] }})

	strLen := 3
	if th {
		strLen = 4
	}
	r.Bound("string_alphabet", len(strSymbols))
	r.Bound("string_max_symbols", strLen)
	ss := newSeqSpace(len(strSymbols), strLen)
	x.runFamily(family{name: "strings", n: ss.total, hashNT: true, at: func(i int64) val {
		var buf [8]int
		return vStr(seqString(ss.at(i, buf[:0])))
	}})
	x.runFamily(family{name: "byte-strings<=2", n: 1 + 256 + 65536, hashNT: true, at: func(i int64) val {
		switch {
		case i == 0:
			return vStr("")
		case i <= 256:
			return vStr(string([]byte{byte(i - 1)}))
		}
		i -= 257
		return vStr(string([]byte{byte(i >> 8), byte(i)}))
	}})

	// ----- V: map names
	keyLen := 2
	if th {
		keyLen = 3
	}
	ks := newSeqSpace(len(strSymbols), keyLen)
	x.runFamily(family{name: "map-one-name", n: ks.total * 2, hashNT: true, at: func(i int64) val {
		var buf [8]int
		s := seqString(ks.at(i/2, buf[:0]))
		k := keyStr(s)
		if i%2 == 1 {
			k = keySym(s)
		}
		return vMap([]mkey{k}, []val{vInt(1)})
	}})
	pairLen := 1
	if th {
		pairLen = 2
	}
	ps := newSeqSpace(len(strSymbols), pairLen)
	r.Bound("map_name_pair_symbols", pairLen)
	x.runFamily(family{name: "map-two-names", n: ps.total * ps.total, hashNT: !th, at: func(i int64) val {
		var b1, b2 [8]int
		s1 := seqString(ps.at(i/ps.total, b1[:0]))
		s2 := seqString(ps.at(i%ps.total, b2[:0]))
		return vMap([]mkey{keyStr(s1), keyStr(s2)}, []val{vInt(1), vStr(s1)})
	}})

	// ----- V: member-name kinds x spellings that collide with JSON syntax
	names := allNames()
	r.Bound("name_spellings", len(nameSpellings))
	r.Bound("name_kinds", "string,quoted-symbol,bare-symbol(true/false/keyword/constructed)")
	nn := int64(len(names))
	x.runFamily(family{name: "map-name-kinds", n: nn * 4, hashNT: true, at: func(i int64) val {
		return wrap(vMap([]mkey{names[i/4]}, []val{vInt(1)}), int(i%4))
	}})
	x.runFamily(family{name: "map-name-kind-pairs", n: nn * nn * 2, hashNT: true, at: func(i int64) val {
		j := i / 2
		return wrap(vMap([]mkey{names[j/nn], names[j%nn]}, []val{vStr("yes"), vBool(false)}), int(i%2)*2)
	}})
	p4 := perms4()
	kindSp := []string{"a", "true", "false", "null", "1", ""}
	x.runFamily(family{name: "map-name-same-spelling-all-kinds", n: int64(len(kindSp) * len(p4)), hashNT: true, at: func(i int64) val {
		sp := kindSp[i/int64(len(p4))]
		four := []mkey{keyStr(sp), keySym(sp), keyBare(sp), keyBare(":" + sp)}
		var ks []mkey
		var vs []val
		for n, k := range p4[i%int64(len(p4))] {
			ks = append(ks, four[k])
			vs = append(vs, vInt(int64(n)))
		}
		return vMap(ks, vs)
	}})

	// ----- V: trees
	leaves := []val{vNil(), vInt(1), vStr("a")}
	spell := []mkey{keyStr("b"), keySym("a")}
	if th {
		leaves = []val{vNil(), vBool(true), vInt(1), vFloat(0.5), vStr("a")}
		spell = []mkey{keyStr("b"), keySym("a"), keySym("b")}
	}
	const depth = 3
	ts := newTreeSpace(leaves, spell, depth)
	r.Bound("tree_depth", depth)
	r.Bound("tree_width", 2)
	r.Bound("tree_leaves", len(leaves))
	r.Bound("tree_name_spellings", len(spell))
	x.runFamily(family{name: "trees", n: ts.cnt[depth], hashNT: !th, at: func(i int64) val { return ts.at(depth, i) }})
	leaves3 := []val{vNil(), vBool(false), vInt(-1), vFloat(1e21), vStr("\""), vVec()}
	spell3 := []mkey{keyStr("b"), keySym("a"), keySym("b"), keyStr("c"), keyStr("é"), keyStr("")}
	m3 := threeKeyMaps(leaves3, spell3)
	x.runFamily(family{name: "maps-3-names", n: int64(len(m3)), hashNT: true, at: func(i int64) val { return m3[i] }})

	maxDepth, maxWidth := 130, 70
	if th {
		maxDepth, maxWidth = 600, 400
	}
	r.Bound("nest_depth", maxDepth)
	r.Bound("container_width", maxWidth)
	kinds := []string{"vec", "list", "map", "mix"}
	x.runFamily(family{name: "deep", n: int64(maxDepth * len(kinds)), hashNT: true, gen: func(i int64) *genSpec {
		return &genSpec{Shape: "nest", Kind: kinds[i%int64(len(kinds))], N: int(i/int64(len(kinds))) + 1}
	}})
	// the same scalar twice below / beside a deep nest (the encoder changes its cycle bookkeeping at depth 64)
	coreDepths := []int{1, 2, 61, 62, 63, 64, 65, 66, maxDepth}
	ncores := len(repeatCores())
	r.Bound("repeated_leaf_cores", ncores)
	r.Bound("repeated_leaf_depths", coreDepths)
	x.runFamily(family{name: "deep-repeated-leaves", n: int64(len(coreDepths) * len(kinds) * ncores * 2), hashNT: true, gen: func(i int64) *genSpec {
		shape := []string{"nest-core", "beside-deep"}[i%2]
		i /= 2
		core := int(i % int64(ncores))
		i /= int64(ncores)
		return &genSpec{Shape: shape, Kind: kinds[i%int64(len(kinds))], N: coreDepths[i/int64(len(kinds))], Core: core}
	}})
	x.runFamily(family{name: "wide", n: int64((maxWidth + 1) * 3), hashNT: true, gen: func(i int64) *genSpec {
		return &genSpec{Shape: "wide", Kind: kinds[i%3], N: int(i / 3)}
	}})
	// the decoder's nesting limit: dump has none, encoding/json's decoder stops at 10000
	limitDepths := []int{nestLimit - 1, nestLimit, nestLimit + 1, nestLimit + 2}
	x.runFamily(family{name: "nesting-limit", n: int64(len(limitDepths) * 2), hashNT: true, gen: func(i int64) *genSpec {
		return &genSpec{Shape: "nest", Kind: []string{"vec", "map"}[i%2], N: limitDepths[i/2]}
	}})

	// ----- D: documents
	L, dl := 4, 3
	if th {
		L, dl = 5, 4
	}
	r.Bound("doc_tokens", len(docTokens))
	r.Bound("doc_max_tokens", L)
	r.Bound("doc_use_defaults_max_tokens", dl)
	r.Bound("doc_modes", 4)
	r.Bound("doc_all_loaders_x_modes_max_tokens", 4)
	r.Bound("doc_loaders", strings.Join(loaders, ","))
	x.runDocs("bytes<=2", 1+256+65536, func(i int64, _ []int) ([]byte, []string) {
		switch {
		case i == 0:
			return []byte{}, nil
		case i <= 256:
			return []byte{byte(i - 1)}, nil
		}
		i -= 257
		return []byte{byte(i >> 8), byte(i)}, nil
	}, 0, 0)
	bodies := stringBodies(th)
	r.Bound("doc_string_bodies", len(bodies))
	r.Bound("doc_string_shapes", len(stringShapes))
	x.runDocs("string-literal-bodies-x-positions", int64(len(bodies)*len(stringShapes)), func(i int64, _ []int) ([]byte, []string) {
		sh := stringShapes[i%int64(len(stringShapes))]
		var doc []byte
		doc = append(doc, sh.pre...)
		doc = append(doc, '"')
		doc = append(doc, bodies[i/int64(len(stringShapes))]...)
		doc = append(doc, '"')
		return append(doc, sh.post...), nil
	}, 0, 0)
	edits := byteEdits()
	r.Bound("doc_byte_templates", len(byteTemplates))
	x.runDocs("every-byte-at-every-offset-of-templates", int64(len(edits))*256, func(i int64, _ []int) ([]byte, []string) {
		return edits[i/256].apply(byte(i % 256)), nil
	}, 0, 0)
	mdocs := memberDocs()
	r.Bound("doc_member_names", memberNames)
	r.Bound("doc_member_values", len(memberValues))
	r.Bound("doc_member_max_alloc_cap", memberCap)
	x.runDocs("member-names-x-failing-values", int64(len(mdocs)), func(i int64, _ []int) ([]byte, []string) { return mdocs[i], nil }, 0, 0)
	ds := newSeqSpace(len(docTokens), L)
	x.runDocs("token-sequences", ds.total, func(i int64, buf []int) ([]byte, []string) {
		idx := ds.at(i, buf)
		toks := make([]string, len(idx))
		var doc []byte
		for k, t := range idx {
			toks[k] = docTokens[t]
			doc = append(doc, docTokens[t]...)
		}
		return doc, toks
	}, dl, 4)

	// ----- O: object histories (one object, repeated loads under changing options, results mutated in between)
	x.runObjHistories()

	waitHistories()

	x.finish()
}

// finish emits the outcome classes (exact counts).
func (x *explorer) finish() {
	r := x.r
	var keys []string
	for k := range x.outcomes {
		keys = append(keys, k)
	}
	sort.Strings(keys)
	for _, k := range keys {
		for n := x.outcomes[k]; n > 0; n-- {
			r.Outcome(k)
		}
	}
	r.Extra("nontrivial_counted_by_construction", x.bigNT)
	if x.skipped > 0 {
		r.Extra("further_findings_in_already_reported_classes", x.skipped)
	}
}
