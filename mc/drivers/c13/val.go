package c13

// The value model: a boring Go tree of the JSON-representable ELPS values the
// property quantifies over, its construction as a real *lisp.LVal through the
// public constructors, and the JSON data it must serialise to.

import (
	"bytes"
	"encoding/hex"
	"fmt"
	"math"
	"sort"
	"strconv"
	"strings"

	"github.com/luthersystems/elps/lisp"
)

// val is one model value.  It is JSON-serialisable (replay artefacts).
type val struct {
	K string `json:"k"`           // nil true false int float str vec list map
	I int64  `json:"i,omitempty"` // int
	F string `json:"f,omitempty"` // float: hex of the IEEE bits
	S string `json:"s,omitempty"` // str: hex of the bytes
	E []val  `json:"e,omitempty"` // vec/list elements, map values
	M []mkey `json:"m,omitempty"` // map keys in insertion order (parallel to E)
}

type mkey struct {
	S   string `json:"s"` // hex of the name
	Sym bool   `json:"sym,omitempty"`
	// Bare: the key is the unquoted symbol itself - what the expressions true,
	// false and :keyword evaluate to (true/false are the lisp.Bool singletons);
	// Sym without Bare is the quoted symbol 'name.
	Bare bool `json:"bare,omitempty"`
}

func vNil() val            { return val{K: "nil"} }
func vBool(b bool) val     { return val{K: map[bool]string{true: "true", false: "false"}[b]} }
func vInt(i int64) val     { return val{K: "int", I: i} }
func vFloat(f float64) val { return val{K: "float", F: strconv.FormatUint(math.Float64bits(f), 16)} }
func vStr(s string) val    { return val{K: "str", S: hex.EncodeToString([]byte(s))} }
func vVec(e ...val) val    { return val{K: "vec", E: e} }
func vList(e ...val) val {
	if len(e) == 0 {
		return vNil()
	}
	return val{K: "list", E: e}
}
func keyStr(s string) mkey             { return mkey{S: hex.EncodeToString([]byte(s))} }
func keySym(s string) mkey             { return mkey{S: hex.EncodeToString([]byte(s)), Sym: true} }
func keyBare(s string) mkey            { return mkey{S: hex.EncodeToString([]byte(s)), Sym: true, Bare: true} }
func vMap(keys []mkey, vals []val) val { return val{K: "map", M: keys, E: vals} }

func (v val) float() float64 {
	u, _ := strconv.ParseUint(v.F, 16, 64)
	return math.Float64frombits(u)
}
func (v val) str() []byte   { b, _ := hex.DecodeString(v.S); return b }
func (k mkey) name() []byte { b, _ := hex.DecodeString(k.S); return b }

// render is a readable rendering for reports (clipped at ~400 bytes).
func (v val) render() string {
	var b strings.Builder
	v.renderTo(&b)
	if b.Len() > 400 {
		return b.String()[:400] + "…"
	}
	return b.String()
}

func (v val) renderTo(b *strings.Builder) {
	if b.Len() > 400 {
		return
	}
	switch v.K {
	case "nil":
		b.WriteString("()")
	case "true", "false":
		b.WriteString(v.K)
	case "int":
		b.WriteString(strconv.FormatInt(v.I, 10))
	case "float":
		fmt.Fprintf(b, "%v(float 0x%s)", v.float(), v.F)
	case "str":
		fmt.Fprintf(b, "%q", v.str())
	case "vec", "list":
		b.WriteString(ifs(v.K == "list", "(list", "(vector"))
		for _, e := range v.E {
			b.WriteByte(' ')
			e.renderTo(b)
		}
		b.WriteByte(')')
	case "map":
		b.WriteString("(sorted-map")
		for i, e := range v.E {
			if v.M[i].Bare {
				fmt.Fprintf(b, " #sym<%q> ", v.M[i].name())
			} else if v.M[i].Sym {
				b.WriteString(" '" + string(v.M[i].name()) + " ")
			} else {
				fmt.Fprintf(b, " %q ", v.M[i].name())
			}
			e.renderTo(b)
		}
		b.WriteByte(')')
	default:
		b.WriteString("?" + v.K)
	}
}

func ifs(c bool, a, b string) string {
	if c {
		return a
	}
	return b
}

// build constructs the real value.  normal=true builds the value load is
// expected to hand back for the dumped document: lists become vectors (JSON
// has one sequence type and json:load-* documents "arrays become ELPS
// arrays") and every byte of a string that is not well-formed UTF-8 becomes
// U+FFFD (the replacement the encoder writes).
func (v val) build(normal bool) *lisp.LVal {
	switch v.K {
	case "nil":
		return lisp.Nil()
	case "true":
		return lisp.Bool(true)
	case "false":
		return lisp.Bool(false)
	case "int":
		return lisp.Int(int(v.I))
	case "float":
		return lisp.Float(v.float())
	case "str":
		b := v.str()
		if normal {
			b, _ = scrub(b)
		}
		return lisp.String(string(b))
	case "vec", "list":
		cells := make([]*lisp.LVal, len(v.E))
		for i, e := range v.E {
			cells[i] = e.build(normal)
		}
		if v.K == "list" && !normal {
			return lisp.QExpr(cells)
		}
		return lisp.Array(nil, cells)
	case "map":
		m := lisp.SortedMap()
		for i, e := range v.E {
			name := v.M[i].name()
			if normal {
				name, _ = scrub(name)
			}
			var k *lisp.LVal
			if v.M[i].Bare && !normal {
				switch string(name) {
				case lisp.TrueSymbol:
					k = lisp.Bool(true)
				case lisp.FalseSymbol:
					k = lisp.Bool(false)
				default:
					k = lisp.Symbol(string(name))
				}
			} else if v.M[i].Sym && !normal {
				k = lisp.Quote(lisp.Symbol(string(name)))
			} else {
				k = lisp.String(string(name))
			}
			if r := m.MapSet(k, e.build(normal)); r.Type == lisp.LError {
				panic("harness: MapSet: " + r.String())
			}
		}
		return m
	}
	panic("harness: bad val kind " + v.K)
}

// xnode is the JSON data a value must serialise to.
type xnode struct {
	kind   nkind
	b      bool
	isInt  bool
	i      int64
	f      float64
	str    []byte
	scrubd bool // str had ill-formed UTF-8 replaced
	elems  []*xnode
	keys   [][]byte // sorted, unique (objects)
	keyBad bool     // some key had ill-formed UTF-8: order / uniqueness after replacement is unspecified
}

// expect computes the JSON data of v: maps become objects with members
// sorted by name (a later insertion under an equal name replaces the earlier
// one, whatever the spelling), vectors and non-empty lists become arrays, the
// empty list is null.
func (v val) expect() *xnode {
	switch v.K {
	case "nil":
		return &xnode{kind: kNull}
	case "true":
		return &xnode{kind: kBool, b: true}
	case "false":
		return &xnode{kind: kBool}
	case "int":
		return &xnode{kind: kNum, isInt: true, i: v.I}
	case "float":
		return &xnode{kind: kNum, f: v.float()}
	case "str":
		s, ch := scrub(v.str())
		if s == nil {
			s = []byte{}
		}
		return &xnode{kind: kStr, str: s, scrubd: ch}
	case "vec", "list":
		x := &xnode{kind: kArr}
		for _, e := range v.E {
			x.elems = append(x.elems, e.expect())
		}
		return x
	case "map":
		type ent struct {
			raw []byte
			v   *xnode
		}
		var ents []ent
		for i, e := range v.E {
			name := v.M[i].name()
			found := false
			for j := range ents {
				if bytes.Equal(ents[j].raw, name) {
					ents[j].v = e.expect()
					found = true
				}
			}
			if !found {
				ents = append(ents, ent{name, e.expect()})
			}
		}
		sort.SliceStable(ents, func(a, b int) bool { return bytes.Compare(ents[a].raw, ents[b].raw) < 0 })
		x := &xnode{kind: kObj}
		for _, e := range ents {
			s, ch := scrub(e.raw)
			if s == nil {
				s = []byte{}
			}
			x.keyBad = x.keyBad || ch
			x.keys = append(x.keys, s)
			x.elems = append(x.elems, e.v)
		}
		return x
	}
	panic("harness: bad val kind " + v.K)
}

// hasBadKey: some map in v has a name that is not well-formed UTF-8.
func (x *xnode) hasBadKey() bool {
	if x.keyBad {
		return true
	}
	for _, e := range x.elems {
		if e.hasBadKey() {
			return true
		}
	}
	return false
}

// nonFinite: v holds NaN or an infinity (no JSON representation).
func (v val) nonFinite() bool {
	if v.K == "float" {
		f := v.float()
		return math.IsNaN(f) || math.IsInf(f, 0)
	}
	for _, e := range v.E {
		if e.nonFinite() {
			return true
		}
	}
	return false
}

// anyScrubbed: some string of the data had ill-formed UTF-8 replaced.
func (x *xnode) anyScrubbed() bool {
	if x.scrubd || x.keyBad {
		return true
	}
	for _, e := range x.elems {
		if e.anyScrubbed() {
			return true
		}
	}
	return false
}
