package c13

// The enumerated spaces.  Every enumerator is an index -> case function over
// a fixed, sorted alphabet: the order is part of the replay contract and no
// Go map is iterated.

import (
	"fmt"
	"math"
	"sort"
	"strconv"
)

// ---------------------------------------------------------------------------
// documents

// docTokens is the document-token alphabet (DESIGN §C13 plus '-', a surrogate
// pair, a string holding an ill-formed UTF-8 byte and a string holding a RAW
// TAB - a control byte that is invalid inside a JSON string).  Tokens are
// concatenated WITHOUT separators, so sequences also form "11", "1.5",
// "-1", "1e21", "-9223372036854775808", "100000000000000000000", ...
var docTokens = []string{
	"{", "}", "[", "]", ",", ":",
	`"a"`, "\"\u00e9\"", `"\ud800"`, `"\ud83d\ude00"`, "\"\x80\"", "\"\t\"",
	"0", "-0", "1", "1.0", "1e2", "1E+2", "01", "1.", ".5", "-",
	"9007199254740993", "9223372036854775807", "9223372036854775808", "10000000000000000000", "1e999",
	"true", "false", "null", "nul",
	" ",
}

// seqSpace enumerates all sequences of length 0..maxLen over an alphabet of
// size a: index -> (length, digits).
type seqSpace struct {
	a      int
	maxLen int
	starts []int64 // starts[l] = index of the first sequence of length l
	total  int64
}

func newSeqSpace(a, maxLen int) seqSpace {
	s := seqSpace{a: a, maxLen: maxLen}
	n := int64(1)
	for l := 0; l <= maxLen; l++ {
		s.starts = append(s.starts, s.total)
		s.total += n
		n *= int64(a)
	}
	return s
}

// at returns the i-th sequence (shorter first; within a length, the first
// position varies slowest).
func (s seqSpace) at(i int64, buf []int) []int {
	l := 0
	for l+1 <= s.maxLen && i >= s.starts[l+1] {
		l++
	}
	i -= s.starts[l]
	buf = buf[:0]
	for k := 0; k < l; k++ {
		buf = append(buf, 0)
	}
	for k := l - 1; k >= 0; k-- {
		buf[k] = int(i % int64(s.a))
		i /= int64(s.a)
	}
	return buf
}

// ---------------------------------------------------------------------------
// numbers

func intSet() []int64 {
	seen := map[int64]bool{}
	add := func(v int64) { seen[v] = true }
	add(0)
	add(math.MinInt64)
	add(math.MaxInt64)
	for k := 0; k <= 62; k++ {
		p := int64(1) << uint(k)
		for _, v := range []int64{p - 1, p, p + 1} {
			add(v)
			add(-v)
		}
	}
	add(math.MinInt64 + 1)
	add(math.MaxInt64 - 1)
	p := int64(1)
	for k := 0; k <= 18; k++ {
		for _, v := range []int64{p - 1, p, p + 1} {
			add(v)
			add(-v)
		}
		p *= 10
	}
	var out []int64
	for v := range seen {
		out = append(out, v)
	}
	sort.Slice(out, func(i, j int) bool { return out[i] < out[j] })
	return out
}

// floatSet: every float whose shortest decimal has at most `sig` significant
// digits and a decimal exponent in [-28, 25], every power of two, the format
// switch points, the 2^53 / 2^63 / range edges - each with both signs and its
// two nextafter neighbours.
func floatSet(sig int) []float64 {
	seen := map[uint64]bool{}
	add1 := func(f float64) {
		if math.IsNaN(f) || math.IsInf(f, 0) {
			return
		}
		seen[math.Float64bits(f)] = true
	}
	add := func(f float64) {
		for _, g := range []float64{f, -f} {
			add1(g)
			add1(math.Nextafter(g, math.Inf(1)))
			add1(math.Nextafter(g, math.Inf(-1)))
		}
	}
	max := 1
	for i := 0; i < sig; i++ {
		max *= 10
	}
	for d := 1; d < max; d++ {
		if d%10 == 0 {
			continue
		}
		for e := -28; e <= 25; e++ {
			f, err := strconv.ParseFloat(fmt.Sprintf("%de%d", d, e), 64)
			if err != nil {
				panic("harness: " + err.Error())
			}
			add(f)
		}
	}
	for k := -1074; k <= 1023; k++ {
		add(math.Ldexp(1, k))
	}
	for _, f := range []float64{0, 1, 0.1, 0.5, 1.5, 1e-5, 1e-6, 1e-7, 9.5e-7, 1e20, 1e21, 1e22, 1e23, 123456789012345680000, 1.7976931348623157e308,
		2.2250738585072014e-308, 5e-324, 9007199254740992, 9007199254740994, 9223372036854775808, 18446744073709551616, 1e19, 4611686018427387904,
		4611686018427388928, 0.000001234, 1234567.125, 3.141592653589793, 2.718281828459045, 1e100, 1e-100, 1e300, 1e-300, 4.35, 0.3, 2.5e-5} {
		add(f)
	}
	var out []uint64
	for b := range seen {
		out = append(out, b)
	}
	sort.Slice(out, func(i, j int) bool { return out[i] < out[j] })
	fs := make([]float64, len(out))
	for i, b := range out {
		fs[i] = math.Float64frombits(b)
	}
	return fs
}

// ---------------------------------------------------------------------------
// strings

// strSymbols is the string alphabet: one symbol per escape / encoding class.
var strSymbols = []string{
	"a", " ", "\"", "\\", "/", "\n", "\t", "\r", "\b", "\f", "\x00", "\x1f", "\x7f", "<", ">", "&", ";",
	"\u00e9", "\u0080", "\u07ff", "\u0800", "\u2028", "\u2029", "\ud7ff", "\ue000", "\ufffd", "\uffff", "\U00010000", "\U0001f600", "\U0010ffff",
	"\x80", "\xc3", "\xed\xa0\x80",
	// the byte-order mark and the neighbours of the two always-escaped separators
	"\ufeff", "\u2027", "\u202a", "\u202f",
}

// keySymbols: the well-formed subset used for member names whose order is compared.
func wellFormed(s string) bool {
	_, ch := scrub([]byte(s))
	return !ch
}

func seqString(idx []int) string {
	s := ""
	for _, i := range idx {
		s += strSymbols[i]
	}
	return s
}

// ---------------------------------------------------------------------------
// trees

// treeSpace enumerates D(depth): D(0) is empty and
//
//	D(d) = leaves ++ {(vector), (sorted-map)}
//	    ++ (vector x)   ++ (vector x y)      x,y in D(d-1)
//	    ++ (list x)     ++ (list x y)
//	    ++ (sorted-map k x)          for each 1-key sequence
//	    ++ (sorted-map k1 x k2 y)    for each 2-key sequence (insertion order, string and symbol spellings)
type treeSpace struct {
	leaves []val
	keys1  [][]mkey
	keys2  [][]mkey
	cnt    []int64
}

func newTreeSpace(leaves []val, spell []mkey, depth int) *treeSpace {
	t := &treeSpace{leaves: leaves}
	for i := range spell {
		t.keys1 = append(t.keys1, []mkey{spell[i]})
		for j := range spell {
			if i != j {
				t.keys2 = append(t.keys2, []mkey{spell[i], spell[j]})
			}
		}
	}
	t.cnt = []int64{0}
	for d := 1; d <= depth; d++ {
		c := t.cnt[d-1]
		t.cnt = append(t.cnt, int64(len(leaves))+2+2*(c+c*c)+int64(len(t.keys1))*c+int64(len(t.keys2))*c*c)
	}
	return t
}

func (t *treeSpace) at(d int, i int64) val {
	if i < int64(len(t.leaves)) {
		return t.leaves[i]
	}
	i -= int64(len(t.leaves))
	if i == 0 {
		return vVec()
	}
	if i == 1 {
		return vMap(nil, nil)
	}
	i -= 2
	c := t.cnt[d-1]
	for _, list := range []bool{false, true} {
		mk := vVec
		if list {
			mk = vList
		}
		if i < c {
			return mk(t.at(d-1, i))
		}
		i -= c
		if i < c*c {
			return mk(t.at(d-1, i/c), t.at(d-1, i%c))
		}
		i -= c * c
	}
	if i < int64(len(t.keys1))*c {
		return vMap(t.keys1[i/c], []val{t.at(d-1, i%c)})
	}
	i -= int64(len(t.keys1)) * c
	ks := t.keys2[i/(c*c)]
	i %= c * c
	return vMap(ks, []val{t.at(d-1, i/c), t.at(d-1, i%c)})
}

// threeKeyMaps: every insertion order of three distinct spellings x every
// leaf triple.
func threeKeyMaps(leaves []val, spell []mkey) []val {
	var out []val
	for i := range spell {
		for j := range spell {
			for k := range spell {
				if i == j || j == k || i == k {
					continue
				}
				for a := range leaves {
					for b := range leaves {
						for c := range leaves {
							out = append(out, vMap([]mkey{spell[i], spell[j], spell[k]}, []val{leaves[a], leaves[b], leaves[c]}))
						}
					}
				}
			}
		}
	}
	return out
}

// nest wraps the int 1 in depth containers of the given kind (vec, list, map,
// mix = the three in rotation).
func nest(kind string, depth int) val {
	v := vInt(1)
	for d := 0; d < depth; d++ {
		k := kind
		if kind == "mix" {
			k = []string{"vec", "map", "list"}[d%3]
		}
		switch k {
		case "vec":
			v = vVec(v)
		case "list":
			v = vList(v)
		case "map":
			v = vMap([]mkey{keyStr("k")}, []val{v})
		}
	}
	return v
}

// nestOver wraps core in depth containers of the given kind.
func nestOver(kind string, depth int, core val) val {
	v := core
	for d := 0; d < depth; d++ {
		k := kind
		if kind == "mix" {
			k = []string{"vec", "map", "list"}[d%3]
		}
		switch k {
		case "vec":
			v = vVec(v)
		case "list":
			v = vList(v)
		case "map":
			v = vMap([]mkey{keyStr("k")}, []val{v})
		}
	}
	return v
}

// repeatCores: small acyclic values in which the SAME scalar (or an equal
// empty container) occurs more than once -- what an identity-keyed "already
// on the path" set must not mistake for a cycle (true, false and nil are
// shared objects in the interpreter; small ints and strings may be).
func repeatCores() []val {
	ab := []mkey{keyStr("a"), keyStr("b")}
	return []val{
		vVec(vBool(true), vBool(true)), vVec(vBool(false), vBool(false)), vVec(vNil(), vNil()),
		vVec(vInt(1), vInt(1)), vVec(vStr("a"), vStr("a")), vVec(vFloat(0.5), vFloat(0.5)),
		vMap(ab, []val{vBool(true), vBool(true)}), vMap(ab, []val{vBool(false), vNil()}),
		vVec(vVec(), vVec()), vVec(vBool(true), vVec(vBool(true))), vList(vBool(true), vBool(false), vBool(true)),
		vVec(vMap(nil, nil), vMap(nil, nil)),
	}
}

// wide builds a container with n members; map names are inserted in
// descending numeric order ("k10" sorts before "k2").
func wide(kind string, n int) val {
	var es []val
	var ks []mkey
	for i := 0; i < n; i++ {
		es = append(es, vInt(int64(i)))
		ks = append(ks, keyStr("k"+strconv.Itoa(n-1-i)))
	}
	switch kind {
	case "vec":
		return vVec(es...)
	case "list":
		return vList(es...)
	}
	return vMap(ks, es)
}

// ---------------------------------------------------------------------------
// member-name kinds

// nameSpellings are member-name spellings that collide with JSON syntax when
// written bare, or that need escaping, plus plain ones.
var nameSpellings = []string{
	"true", "false", "null", "nil", "1", "-1", "-0", "1e3", "0.5", "NaN", "Infinity", "", "a", ":a", ":true", ":", "json:null", "True",
	"a\"b", "a\\b", "\"a\"", "\n", "\x00", "<", "{", "[1]", " ", "\u00e9", "\u2028", "\U0001f600", "\x80",
}

// nameKinds: a sorted-map accepts exactly strings and symbols as keys
// (anything else is "unhashable type"); symbols come quoted ('a) or bare
// (true, false, :keyword, or any symbol an embedder constructs).
var nameKinds = []func(string) mkey{keyStr, keySym, keyBare}

func allNames() []mkey {
	var out []mkey
	for _, s := range nameSpellings {
		for _, k := range nameKinds {
			out = append(out, k(s))
		}
	}
	return out
}

// wrap places m at a nesting position: 0 top level, 1 in a vector, 2 as a
// member value of a map, 3 three levels down (list in map in vector).
func wrap(m val, pos int) val {
	switch pos {
	case 1:
		return vVec(m)
	case 2:
		return vMap([]mkey{keyStr("o")}, []val{m})
	case 3:
		return vVec(vMap([]mkey{keyBare("true")}, []val{vList(vInt(0), m)}))
	}
	return m
}

// perms4 are the 24 orders of 0..3.
func perms4() [][]int {
	var out [][]int
	for a := 0; a < 4; a++ {
		for b := 0; b < 4; b++ {
			for c := 0; c < 4; c++ {
				for d := 0; d < 4; d++ {
					if a != b && a != c && a != d && b != c && b != d && c != d {
						out = append(out, []int{a, b, c, d})
					}
				}
			}
		}
	}
	return out
}

// ---------------------------------------------------------------------------
// byte classes at grammar positions

// stringBodies: raw byte strings placed between two quotes: the empty body,
// every single byte, every pair over a 48-byte class alphabet (all 32 control
// bytes, the quote/backslash/escape letters, DEL, UTF-8 lead and continuation
// bytes) - every pair of bytes in the thorough tier - and every triple over
// a 12-byte alphabet.
func stringBodies(thorough bool) [][]byte {
	var out [][]byte
	out = append(out, []byte{})
	for b := 0; b < 256; b++ {
		out = append(out, []byte{byte(b)})
	}
	var c2 []byte
	if thorough {
		for b := 0; b < 256; b++ {
			c2 = append(c2, byte(b))
		}
	} else {
		for b := 0; b < 0x20; b++ {
			c2 = append(c2, byte(b))
		}
		c2 = append(c2, ' ', '"', '\\', '/', 'a', 'u', '0', 0x7f, 0x80, 0xbf, 0xc3, 0xa9, 0xe2, 0xed, 0xf0, 0xff)
	}
	for _, x := range c2 {
		for _, y := range c2 {
			out = append(out, []byte{x, y})
		}
	}
	c3 := []byte{0x00, 0x09, 0x0a, 0x1f, 'a', '"', '\\', 'n', 0xc3, 0xa9, 0x80, ' '}
	for _, x := range c3 {
		for _, y := range c3 {
			for _, z := range c3 {
				out = append(out, []byte{x, y, z})
			}
		}
	}
	return out
}

// stringShapes place a string literal S at every grammar position a string
// can take: the whole document, padded, array element, member name, member
// value.
var stringShapes = []struct{ pre, post string }{
	{"", ""}, {" ", ""}, {"", " "}, {"\n", "\t"}, {"[", "]"}, {"[1,", "]"}, {"{", ":1}"}, {`{"k":`, "}"},
}

// byteTemplates are valid documents - every scalar kind as the whole
// document, padded, nested - into which every byte 0..255 is inserted at
// every offset and substituted for every byte.
var byteTemplates = []string{
	`"ab"`, `""`, ` "ab" `, `["ab"]`, `{"ab":"cd"}`, "\"\u00e9\"", `"\u00e9"`, `"\n"`,
	`0`, `-0`, `12`, `1.5`, `1e2`, `-1.5E+2`, ` 1 `, `[1.5e2]`,
	`true`, `false`, `null`, ` null `, `[true]`, `{"a":true}`,
	`[]`, `{}`, `[1,2]`, `{"a":1,"b":[null]}`,
}

type byteEdit struct {
	tpl, pos int
	insert   bool
}

func byteEdits() []byteEdit {
	var out []byteEdit
	for t, s := range byteTemplates {
		for p := 0; p <= len(s); p++ {
			out = append(out, byteEdit{t, p, true})
		}
		for p := 0; p < len(s); p++ {
			out = append(out, byteEdit{t, p, false})
		}
	}
	return out
}

func (e byteEdit) apply(b byte) []byte {
	s := byteTemplates[e.tpl]
	out := make([]byte, 0, len(s)+1)
	out = append(out, s[:e.pos]...)
	out = append(out, b)
	if e.insert {
		return append(out, s[e.pos:]...)
	}
	return append(out, s[e.pos+1:]...)
}

// ---------------------------------------------------------------------------
// member names x failing values

// memberNames is the boundary alphabet of member names (as JSON literals):
// the empty name, a one-space name, names needing escapes, the last BMP code
// point, an astral name, plain names.
var memberNames = []string{`""`, `" "`, `"a"`, `"\""`, `"\u0000"`, "\"\u00e9\"", `"\uffff"`, `"\ud83d\ude00"`, `"z"`}

// memberValues: values whose load fails in some mode (integers beyond int64,
// floats beyond float64), containers that exceed a small allocation cap, the
// same one level further down, and values that load in every mode.
var memberValues = []string{
	`1`, `-0`, `1.5`, `"s"`, `null`, `9223372036854775807`, `9223372036854775808`, `-9223372036854775809`, `10000000000000000000`,
	`123456789012345678901234567890`, `1e400`, `-1e400`, `[1,2,3]`, `{"p":1,"q":2,"r":3}`, `[9223372036854775808]`, `{"":9223372036854775808}`, `{"":1e400}`,
}

// memberShapes place one member N:V at every object position: only member,
// first, last, in an element, in a member value, under the empty name, padded.
var memberShapes = []struct{ pre, mid, post string }{
	{"{", ":", "}"}, {"{", ":", `,"m":1}`}, {`{"m":1,`, ":", "}"}, {"[{", ":", "}]"}, {`{"o":{`, ":", "}}"}, {`{"":{`, ":", "}}"}, {"[0,{", ":", "},0]"}, {" { ", " : ", " } "},
}

const memberCap = 2

func memberDocs() [][]byte {
	var out [][]byte
	var pairs []string
	for _, n := range memberNames {
		for _, v := range memberValues {
			for _, sh := range memberShapes {
				out = append(out, []byte(sh.pre+n+sh.mid+v+sh.post))
			}
			pairs = append(pairs, n+":"+v)
		}
	}
	// two members: every name/value pair with every other (equal names included: last wins)
	for _, a := range pairs {
		for _, b := range pairs {
			out = append(out, []byte("{"+a+","+b+"}"))
		}
	}
	return out
}
