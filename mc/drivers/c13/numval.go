package c13

// The meaning of a JSON number literal, computed with math/big only.

import (
	"math"
	"math/big"
	"strings"
)

// decimal is a parsed number literal: value = (-1)^neg * digits * 10^exp10,
// digits without leading zeros ("" = zero).
type decimal struct {
	neg     bool
	digits  string
	exp10   *big.Int
	intForm bool // written as an integer: no '.', no exponent
}

// parseDecimal splits a literal already validated against the JSON number
// grammar.
func parseDecimal(t string) decimal {
	var d decimal
	s := t
	if strings.HasPrefix(s, "-") {
		d.neg = true
		s = s[1:]
	}
	mant, exp := s, ""
	if i := strings.IndexAny(s, "eE"); i >= 0 {
		mant, exp = s[:i], s[i+1:]
	}
	ip, fp := mant, ""
	if i := strings.IndexByte(mant, '.'); i >= 0 {
		ip, fp = mant[:i], mant[i+1:]
	}
	d.intForm = !strings.ContainsAny(t, ".eE")
	e := new(big.Int)
	if exp != "" {
		e.SetString(strings.TrimPrefix(exp, "+"), 10)
	}
	e.Sub(e, big.NewInt(int64(len(fp))))
	dg := strings.TrimLeft(ip+fp, "0")
	// move trailing zeros into the exponent
	z := len(dg) - len(strings.TrimRight(dg, "0"))
	if z > 0 && dg != "" {
		dg = dg[:len(dg)-z]
		e.Add(e, big.NewInt(int64(z)))
	}
	d.digits = dg
	d.exp10 = e
	return d
}

// bigInt returns the exact value of an integer-form literal.
func (d decimal) bigInt() *big.Int {
	if d.digits == "" {
		return new(big.Int)
	}
	v, _ := new(big.Int).SetString(d.digits, 10)
	v.Mul(v, new(big.Int).Exp(big.NewInt(10), d.exp10, nil))
	if d.neg {
		v.Neg(v)
	}
	return v
}

// float64 returns the float64 nearest to the exact value (ties to even) and
// whether the magnitude overflows the float64 range.
func (d decimal) float64() (f float64, overflow bool) {
	sign := 1.0
	if d.neg {
		sign = -1
	}
	if d.digits == "" {
		return math.Copysign(0, sign), false
	}
	// magnitude is in [10^(e+n-1), 10^(e+n)) with n = len(digits)
	top := new(big.Int).Add(d.exp10, big.NewInt(int64(len(d.digits))))
	if top.Cmp(big.NewInt(400)) > 0 {
		return math.Inf(int(sign)), true
	}
	if top.Cmp(big.NewInt(-400)) < 0 {
		return math.Copysign(0, sign), false
	}
	m, _ := new(big.Int).SetString(d.digits, 10)
	r := new(big.Rat)
	e := d.exp10.Int64() // |e| is bounded by the two guards above plus len(digits)
	p := new(big.Int).Exp(big.NewInt(10), big.NewInt(abs64(e)), nil)
	if e >= 0 {
		r.SetInt(m.Mul(m, p))
	} else {
		r.SetFrac(m, p)
	}
	f, _ = r.Float64()
	if math.IsInf(f, 0) {
		return math.Inf(int(sign)), true
	}
	return math.Copysign(f, sign), false
}

func abs64(x int64) int64 {
	if x < 0 {
		return -x
	}
	return x
}

var (
	minInt64 = big.NewInt(math.MinInt64)
	maxInt64 = big.NewInt(math.MaxInt64)
)

func fitsInt64(v *big.Int) bool { return v.Cmp(minInt64) >= 0 && v.Cmp(maxInt64) <= 0 }

// esLayout renders significant digits s (no trailing zeros, non-empty) with
// decimal point position n (value = 0.s * 10^n) the way ECMAScript
// Number::toString does, which is the layout the libjson encoder documents
// ("Convert as if by ES6 number to string conversion").
func esLayout(neg bool, s string, n int) string {
	k := len(s)
	var b strings.Builder
	if neg {
		b.WriteByte('-')
	}
	switch {
	case k <= n && n <= 21:
		b.WriteString(s)
		b.WriteString(strings.Repeat("0", n-k))
	case 0 < n && n <= 21:
		b.WriteString(s[:n])
		b.WriteByte('.')
		b.WriteString(s[n:])
	case -6 < n && n <= 0:
		b.WriteString("0.")
		b.WriteString(strings.Repeat("0", -n))
		b.WriteString(s)
	default:
		b.WriteString(s[:1])
		if k > 1 {
			b.WriteByte('.')
			b.WriteString(s[1:])
		}
		b.WriteByte('e')
		e := n - 1
		if e < 0 {
			b.WriteByte('-')
			e = -e
		} else {
			b.WriteByte('+')
		}
		b.WriteString(big.NewInt(int64(e)).String())
	}
	return b.String()
}

// ratOf returns digits*10^e exactly.
func ratOf(digits *big.Int, e int64) *big.Rat {
	p := new(big.Int).Exp(big.NewInt(10), big.NewInt(abs64(e)), nil)
	r := new(big.Rat)
	if e >= 0 {
		return r.SetInt(new(big.Int).Mul(digits, p))
	}
	return r.SetFrac(digits, p)
}

func roundsTo(digits *big.Int, e int64, x float64) bool {
	if digits.Sign() == 0 {
		return x == 0
	}
	f, _ := ratOf(digits, e).Float64()
	return f == x
}

// canonicalFloatText reports why text is NOT the canonical JSON rendering of
// the finite float x ("" = it is): it must decode to x, use the fewest
// significant digits that still decode to x, among those be the closest to x,
// and be laid out in the ES6 Number::toString form (plain digits for
// 1e-6 <= |x| < 1e21, d.ddde±x otherwise; -0 is "-0").
func canonicalFloatText(text string, x float64) string {
	if x == 0 {
		want := "0"
		if math.Signbit(x) {
			want = "-0"
		}
		if text != want {
			return "zero is rendered as " + want
		}
		return ""
	}
	d := parseDecimal(text)
	if d.digits == "" {
		return "text denotes zero"
	}
	if d.neg != (x < 0) {
		return "sign differs"
	}
	top := new(big.Int).Add(d.exp10, big.NewInt(int64(len(d.digits))))
	if !top.IsInt64() || abs64(top.Int64()) > 400 {
		return "exponent out of the float64 range"
	}
	ax := math.Abs(x)
	s, _ := new(big.Int).SetString(d.digits, 10)
	e := d.exp10.Int64()
	if !roundsTo(s, e, ax) {
		return "text does not decode to the float"
	}
	// fewest digits: the two neighbours on the next coarser decimal grid
	lo := new(big.Int).Quo(s, big.NewInt(10))
	hi := new(big.Int).Add(lo, big.NewInt(1))
	if len(d.digits) > 1 && (roundsTo(lo, e+1, ax) || roundsTo(hi, e+1, ax)) {
		return "a shorter digit string decodes to the same float"
	}
	// closest among the equally short candidates
	exact := new(big.Rat).SetFloat64(ax)
	dist := func(v *big.Int) *big.Rat {
		r := new(big.Rat).Sub(ratOf(v, e), exact)
		return r.Abs(r)
	}
	ds := dist(s)
	for _, c := range []*big.Int{new(big.Int).Sub(s, big.NewInt(1)), new(big.Int).Add(s, big.NewInt(1))} {
		if c.Sign() > 0 && roundsTo(c, e, ax) && dist(c).Cmp(ds) < 0 {
			return "an equally short digit string is closer to the float"
		}
	}
	if want := esLayout(x < 0, d.digits, int(top.Int64())); want != text {
		return "layout: ES6 form is " + want
	}
	return ""
}
