package c13

// H: dump HISTORIES.  A history is a short sequence of dump operations in one
// process over values that share containers: a tower is dumped while it holds
// a leaf that makes the dump fail, the leaf is repaired IN PLACE (assoc! /
// dissoc!), and the same containers are dumped again (or re-wrapped in a new
// tower and dumped).  The oracle is history independence: every successful
// dump equals the dump of a structurally equal, freshly built value in a
// runtime that never saw a failing dump, a dump of a finite acyclic value is
// never refused, and a refusal never claims a cycle the value does not have.
//
// Process-wide encoder state (e.g. a sync.Pool) is per-P and cleared by the
// GC, so the whole history space is executed single-goroutine in a CHILD
// process started with GOMAXPROCS=1 GOGC=off (collections only between
// histories); a sub-space is also executed in-process on one goroutine.

import (
	"bytes"
	"encoding/json"
	"fmt"
	"math"
	"os"
	"os/exec"
	"runtime"
	"runtime/debug"
	"sort"
	"strings"

	"github.com/luthersystems/elps/lisp"
)

type histCase struct {
	Kind   string `json:"kind"`   // "hist"
	Tower  string `json:"tower"`  // map | vec | maplist (lists in maps)
	Depth  int    `json:"depth"`  // containers wrapped around the innermost map
	Leaf   string `json:"leaf"`   // nan +inf -inf lambda self root
	Repair string `json:"repair"` // assoc (a number over the leaf) | dissoc (remove it)
	Shape  string `json:"shape"`  // see histShapes
	Entry  string `json:"entry"`  // string | bytes | message: entry point of the failing dumps
	SN     bool   `json:"string_numbers"`
	FEntry string `json:"final_entry"` // entry point of the dumps that must succeed
	FSN    bool   `json:"final_string_numbers"`
}

var (
	histTowers  = []string{"map", "vec", "maplist"}
	histLeaves  = []string{"nan", "+inf", "-inf", "lambda", "self", "root"}
	histRepairs = []string{"assoc", "dissoc"}
	// bad = dump with the failing leaf, fix = repair in place, good = dump that must succeed
	histShapes = []string{
		"bad,fix,good",
		"bad,bad,fix,good",
		"good,poison,bad,fix,good",
		"bad,fix,good-rewrapped",  // the repaired tower inside 64 fresh containers
		"bad,other-good,fix,good", // an unrelated fresh deep value is dumped in between
	}
	histEntries = []string{"string", "bytes", "message"}
)

// the encoder's second (cycle-tracking) pass starts when the document nests
// 64 levels: depth+2 levels for a tower of depth containers.
func histDepths(thorough bool) []int {
	d := []int{3, 40, 61, 62, 63, 64, 80, 130}
	if thorough {
		d = append(d, 200, 600)
	}
	return d
}

func histSpace(thorough bool) []histCase {
	var out []histCase
	for _, tw := range histTowers {
		for _, d := range histDepths(thorough) {
			for _, lf := range histLeaves {
				for _, rp := range histRepairs {
					for _, sh := range histShapes {
						for _, e := range histEntries {
							for _, sn := range []bool{false, true} {
								out = append(out, histCase{Kind: "hist", Tower: tw, Depth: d, Leaf: lf, Repair: rp, Shape: sh, Entry: e, SN: sn, FEntry: e, FSN: sn})
							}
						}
					}
				}
			}
		}
	}
	// failing and succeeding dump through different entry points / modes
	for _, tw := range histTowers {
		for _, lf := range []string{"nan", "lambda", "root"} {
			for _, e := range histEntries {
				for _, sn := range []bool{false, true} {
					for _, fe := range histEntries {
						for _, fsn := range []bool{false, true} {
							if e == fe && sn == fsn {
								continue
							}
							out = append(out, histCase{Kind: "hist", Tower: tw, Depth: 80, Leaf: lf, Repair: "assoc", Shape: histShapes[0], Entry: e, SN: sn, FEntry: fe, FSN: fsn})
						}
					}
				}
			}
		}
	}
	return out
}

// inProcessSubset is the sub-space also executed inside the checking process.
func inProcessSubset(all []histCase) []histCase {
	var out []histCase
	for _, c := range all {
		if (c.Depth == 3 || c.Depth == 80) && c.Entry == "string" && c.FEntry == "string" && !c.SN && !c.FSN {
			out = append(out, c)
		}
	}
	return out
}

func wrapReal(kind string, i int, c *lisp.LVal) *lisp.LVal {
	switch {
	case kind == "vec":
		return lisp.Array(nil, []*lisp.LVal{c})
	case kind == "maplist" && i%2 == 0:
		return lisp.QExpr([]*lisp.LVal{c, lisp.Int(0)})
	}
	m := lisp.SortedMap()
	m.MapSet("k", c)
	return m
}

func wrapModel(kind string, i int, c val) val {
	switch {
	case kind == "vec":
		return vVec(c)
	case kind == "maplist" && i%2 == 0:
		return vList(c, vInt(0))
	}
	return vMap([]mkey{keyStr("k")}, []val{c})
}

func towerModel(kind string, depth int, inner val) val {
	v := inner
	for i := 0; i < depth; i++ {
		v = wrapModel(kind, i, v)
	}
	return v
}

func innerModel(repaired bool, repair string) val {
	if repaired && repair == "dissoc" {
		return vMap([]mkey{keyStr("y")}, []val{vInt(1)})
	}
	return vMap([]mkey{keyStr("x"), keyStr("y")}, []val{vInt(7), vInt(1)})
}

func dumpExpr(entry string, sn bool, name string) string {
	opt := ifs(sn, " :string-numbers true", "")
	switch entry {
	case "bytes":
		return "(json:dump-bytes " + name + opt + ")"
	case "message":
		return "(json:message-bytes (json:dump-message " + name + opt + "))"
	}
	return "(json:dump-string " + name + opt + ")"
}

const rewrapExtra = 64

// runHistory executes one history on w; fresh is a runtime that is only ever
// given freshly built, dumpable values.
func runHistory(w, fresh *worker, c histCase) (fs []finding, outcome string, evals int64) {
	add := func(cl, exp, got string) { fs = append(fs, finding{cl, exp, got}) }
	inner := lisp.SortedMap()
	inner.MapSet("x", lisp.Int(7))
	inner.MapSet("y", lisp.Int(1))
	root := inner
	for i := 0; i < c.Depth; i++ {
		root = wrapReal(c.Tower, i, root)
	}
	w.set("c13-inner", inner)
	w.set("c13-root", root)
	cyclic := false
	repaired := false
	var trail []string

	expectGood := func(step string, name string, model val) {
		src := dumpExpr(c.FEntry, c.FSN, name)
		got := w.eval(src)
		evals++
		fresh.set("c13-root", model.build(false))
		want := fresh.eval(dumpExpr(c.FEntry, c.FSN, "c13-root"))
		evals++
		wb, ok := strOrBytes(want)
		if want.Type == lisp.LError || !ok {
			add("history:harness:fresh-dump-failed", "the freshly built value dumps", describe(want))
			return
		}
		if lisp.IsInternalPanic(got) {
			add("history:host-panic", "no host panic", describe(got))
			return
		}
		if got.Type == lisp.LError {
			cl := "history:dumpable-value-refused"
			if strings.Contains(el_errText(got), "contains itself") {
				cl = "history:acyclic-value-refused-as-cyclic"
			}
			add(cl+":after-failed-dump("+c.Leaf+")", fmt.Sprintf("%s: the document a freshly built equal value dumps to: %s", step, clip(wb)), describe(got))
			trail = append(trail, step+":REFUSED")
			return
		}
		gb, ok := strOrBytes(got)
		if !ok || !bytes.Equal(gb, wb) {
			add("history:document-differs-from-fresh-dump", fmt.Sprintf("%s: %s", step, clip(wb)), describe(got))
			trail = append(trail, step+":differs")
			return
		}
		trail = append(trail, step+":ok")
	}

	steps := strings.Split(c.Shape, ",")
	if steps[0] != "good" {
		steps = append([]string{"poison"}, steps...)
	}
	for _, st := range steps {
		switch st {
		case "poison":
			switch c.Leaf {
			case "nan":
				w.set("c13-bad", lisp.Float(math.NaN()))
			case "+inf":
				w.set("c13-bad", lisp.Float(math.Inf(1)))
			case "-inf":
				w.set("c13-bad", lisp.Float(math.Inf(-1)))
			}
			src := map[string]string{"nan": `(assoc! c13-inner "x" c13-bad)`, "+inf": `(assoc! c13-inner "x" c13-bad)`, "-inf": `(assoc! c13-inner "x" c13-bad)`,
				"lambda": `(assoc! c13-inner "x" (lambda () 1))`, "self": `(assoc! c13-inner "x" c13-inner)`, "root": `(assoc! c13-inner "x" c13-root)`}[c.Leaf]
			if r := w.eval(src); r.Type == lisp.LError {
				add("history:harness:poison-failed", "assoc! succeeds", describe(r))
				return fs, "harness", evals
			}
			cyclic = c.Leaf == "self" || c.Leaf == "root"
		case "bad":
			got := w.eval(dumpExpr(c.Entry, c.SN, "c13-root"))
			evals++
			switch {
			case lisp.IsInternalPanic(got):
				add("history:host-panic", "no host panic", describe(got))
			case got.Type == lisp.LError:
				// the reason given must be true of the value itself
				if !cyclic && strings.Contains(el_errText(got), "contains itself") {
					add("history:acyclic-value-refused-as-cyclic:holding("+c.Leaf+")", "a refusal for a reason that is true of the value ("+c.Leaf+" leaf, no cycle)", describe(got))
				}
				trail = append(trail, "bad:refused")
			default:
				// unspecified zone (no JSON form): a document that does come back must be valid
				if b, ok := strOrBytes(got); ok {
					if _, _, good, why := parseJSON(b); !good {
						add("history:unencodable-value-dumped-as-invalid-json", "an error or a valid document", clip(b)+" ("+why+")")
					}
				}
				trail = append(trail, "bad:dumped")
			}
		case "fix":
			src := `(assoc! c13-inner "x" 7)`
			if c.Repair == "dissoc" {
				src = `(dissoc! c13-inner "x")`
			}
			if r := w.eval(src); r.Type == lisp.LError {
				add("history:harness:repair-failed", "the repair succeeds", describe(r))
				return fs, "harness", evals
			}
			cyclic, repaired = false, true
		case "good":
			expectGood("dump of the "+ifs(repaired, "repaired", "initial")+" tower", "c13-root", towerModel(c.Tower, c.Depth, innerModel(repaired, c.Repair)))
		case "good-rewrapped":
			wr := root
			for i := 0; i < rewrapExtra; i++ {
				wr = wrapReal(c.Tower, c.Depth+i, wr)
			}
			w.set("c13-wrap", wr)
			expectGood("dump of the repaired tower inside 64 new containers", "c13-wrap", towerModel(c.Tower, c.Depth+rewrapExtra, innerModel(true, c.Repair)))
		case "other-good":
			m := towerModel(c.Tower, 70, vMap([]mkey{keyStr("z")}, []val{vInt(2)}))
			w.set("c13-other", m.build(false))
			expectGood("dump of an unrelated fresh deep value", "c13-other", m)
		}
	}
	// leave no cycle behind in the runtime's globals
	w.set("c13-inner", lisp.Nil())
	w.set("c13-root", lisp.Nil())
	return fs, strings.Join(trail, ","), evals
}

func el_errText(v *lisp.LVal) string {
	if v == nil || v.Type != lisp.LError {
		return ""
	}
	return (*lisp.ErrorVal)(v).ErrorMessage()
}

// ---------------------------------------------------------------------------
// child process protocol

const childEnv = "C13_HISTORY_CHILD"

type histFinding struct {
	Case     json.RawMessage `json:"case"`
	Class    string          `json:"class"`
	Expected string          `json:"expected"`
	Got      string          `json:"got"`
}

type histResult struct {
	Histories int64            `json:"histories"`
	Evals     int64            `json:"evals"`
	Outcomes  map[string]int64 `json:"outcomes"`
	Findings  []histFinding    `json:"findings"`
	MaxProcs  int              `json:"gomaxprocs"`
}

// hcase is one history of either kind.
type hcase struct {
	D *histCase
	L *loadHistCase
}

func (h hcase) raw() json.RawMessage {
	if h.L != nil {
		return h.L.raw()
	}
	b, _ := json.Marshal(h.D)
	return b
}

func parseHCase(raw []byte) (hcase, error) {
	var head struct {
		Kind string `json:"kind"`
	}
	if err := json.Unmarshal(raw, &head); err != nil {
		return hcase{}, err
	}
	if head.Kind == "lhist" {
		var c loadHistCase
		err := json.Unmarshal(raw, &c)
		return hcase{L: &c}, err
	}
	var c histCase
	err := json.Unmarshal(raw, &c)
	return hcase{D: &c}, err
}

func allHistories(thorough bool) []hcase {
	var out []hcase
	for _, c := range histSpace(thorough) {
		c := c
		out = append(out, hcase{D: &c})
	}
	for _, c := range loadHistSpace(thorough) {
		c := c
		out = append(out, hcase{L: &c})
	}
	return out
}

// runHistories executes cases in order on one goroutine.  gcEvery > 0: the
// collector is off and runs only between histories.
func runHistories(cases []hcase, gcEvery int) histResult {
	res := histResult{Outcomes: map[string]int64{}, MaxProcs: runtime.GOMAXPROCS(0)}
	w, fresh := newWorker(), newWorker()
	perClass := map[string]int{}
	for i, h := range cases {
		var fs []finding
		var key string
		var n int64
		if h.L != nil {
			var out string
			fs, out, n = runLoadHistory(w, fresh, *h.L)
			key = "load-history/" + h.L.L2 + "/" + modeName(h.L.SN2, h.L.EI2) + "/" + out
		} else {
			c := *h.D
			var out string
			fs, out, n = runHistory(w, fresh, c)
			key = "history/" + c.Shape + "/" + c.Leaf + "/" + ifs(c.Depth+2 >= 64, "deep", "shallow") + "/" + out
		}
		res.Histories++
		res.Evals += n
		res.Outcomes[key]++
		for _, f := range fs {
			if perClass[f.Class] < 4 {
				perClass[f.Class]++
				res.Findings = append(res.Findings, histFinding{h.raw(), f.Class, f.Expected, f.Got})
			}
		}
		if gcEvery > 0 && (i+1)%gcEvery == 0 {
			runtime.GC()
		}
	}
	return res
}

// childMain is entered from init() when this binary is started as the
// history child: it runs the requested histories and writes the result as
// JSON on stdout.
func childMain(arg string) {
	debug.SetGCPercent(-1)
	var cases []hcase
	switch {
	case arg == "quick" || arg == "thorough":
		cases = allHistories(arg == "thorough")
	default:
		h, err := parseHCase([]byte(arg))
		if err != nil {
			fmt.Fprintln(os.Stderr, "c13 history child:", err)
			os.Exit(3)
		}
		cases = []hcase{h}
	}
	res := runHistories(cases, 200)
	b, _ := json.Marshal(res)
	os.Stdout.Write(b)
	os.Exit(0)
}

func init() {
	if arg := os.Getenv(childEnv); arg != "" {
		childMain(arg)
	}
}

// spawnHistories runs arg ("quick", "thorough" or one case as JSON) in a
// child process with one P and the collector off.
func spawnHistories(arg string) (histResult, error) {
	var res histResult
	exe, err := os.Executable()
	if err != nil {
		return res, err
	}
	cmd := exec.Command(exe)
	var env []string
	for _, e := range os.Environ() {
		if !strings.HasPrefix(e, "GOMAXPROCS=") && !strings.HasPrefix(e, "GOGC=") && !strings.HasPrefix(e, childEnv+"=") {
			env = append(env, e)
		}
	}
	cmd.Env = append(env, childEnv+"="+arg, "GOMAXPROCS=1", "GOGC=off")
	var stderr bytes.Buffer
	cmd.Stderr = &stderr
	out, err := cmd.Output()
	if err != nil {
		return res, fmt.Errorf("history child: %v: %s", err, stderr.String())
	}
	if err := json.Unmarshal(out, &res); err != nil {
		return res, fmt.Errorf("history child output: %v", err)
	}
	return res, nil
}

// histOnce re-executes one history straight-line: in a fresh child process
// (deterministic pool reuse) or, if no child can be started, in-process.
func histOnce(raw json.RawMessage) ([]finding, string, error) {
	h, err := parseHCase(raw)
	if err != nil {
		return nil, "", err
	}
	res, err := spawnHistories(string(raw))
	how := "child process GOMAXPROCS=1 GOGC=off"
	if err != nil {
		res = runHistories([]hcase{h}, 0)
		how = "in-process (" + err.Error() + ")"
	}
	var fs []finding
	for _, f := range res.Findings {
		fs = append(fs, finding{f.Class, f.Expected, f.Got})
	}
	return fs, how, nil
}

// runHistoryPart is the H part of the run: the whole space in a child
// process (concurrently with the other parts), a sub-space in-process.
func (x *explorer) startHistories() (wait func()) {
	r := x.r
	dumpH := histSpace(r.Thorough())
	loadH := loadHistSpace(r.Thorough())
	var all, sub []hcase
	for i := range dumpH {
		all = append(all, hcase{D: &dumpH[i]})
	}
	for i := range loadH {
		all = append(all, hcase{L: &loadH[i]})
	}
	for _, c := range inProcessSubset(dumpH) {
		c := c
		sub = append(sub, hcase{D: &c})
	}
	for _, c := range inProcessLoadSubset(loadH) {
		c := c
		sub = append(sub, hcase{L: &c})
	}
	r.Bound("dump_histories", len(dumpH))
	r.Bound("load_histories", len(loadH))
	r.Bound("load_history_seed_documents", seedDocs)
	r.Bound("load_history_second_documents", len(loadH)/(len(seedDocs)*len(seedForms)*12))
	r.Bound("histories_also_in_process", len(sub))
	r.Bound("history_tower_depths", histDepths(r.Thorough()))
	r.Bound("history_shapes", histShapes)
	r.Bound("history_failing_leaves", histLeaves)
	type out struct {
		res histResult
		err error
	}
	ch := make(chan out, 1)
	go func() {
		res, err := spawnHistories(r.Tier)
		ch <- out{res, err}
	}()
	// in-process, before the parallel parts start (one running goroutine)
	merge := func(res histResult, where string) {
		r.AddStates(res.Histories)
		r.AddTraces(res.Histories)
		r.AddEvals(res.Evals)
		r.AddTransitions(res.Evals)
		x.mu.Lock()
		for k, v := range res.Outcomes {
			x.outcomes[where+"/"+k] += v
		}
		x.mu.Unlock()
		sort.SliceStable(res.Findings, func(i, j int) bool { return res.Findings[i].Class < res.Findings[j].Class })
		for _, f := range res.Findings {
			x.report(f.Case, []finding{{f.Class, f.Expected, f.Got}})
		}
	}
	merge(runHistories(sub, 0), "in-process")
	for _, h := range all {
		if h.L != nil || h.D.Depth+2 >= 64 {
			r.Nontrivial("hist:" + string(h.raw()))
		}
	}
	return func() {
		o := <-ch
		if o.err != nil {
			// no child: run the whole space here, single goroutine, and say so
			r.Assume("HISTORY part: the child process could not be started (" + o.err.Error() + "); the whole history space was executed in-process on one goroutine instead (pool reuse likely, not guaranteed)")
			merge(runHistories(all, 0), "in-process-fallback")
			return
		}
		r.Extra("history_child", map[string]any{"gomaxprocs": o.res.MaxProcs, "gogc": "off (collections only between histories)", "histories": o.res.Histories, "json_calls": o.res.Evals})
		merge(o.res, "child")
	}
}
