package c13

import (
	"math"
	"testing"
)

// Sanity checks of the reference model itself (hand-written expectations from
// RFC 8259 and ECMA-262 Number::toString).

func TestRecogniser(t *testing.T) {
	valid := []string{`null`, ` true `, "\t[ ]\n", `{}`, `{"a":1}`, `[1,2]`, `0`, `-0`, `1.0`, `1e2`, `1E+2`, `1e-2`, `-1.5e+10`, `""`, `"é"`, `"😀"`,
		`"\ud800"`, `"\/"`, `"\b\f\n\r\t\"\\"`, `{"a":{"b":[null,false]}}`, `[[[[]]]]`, `1e999`, `123456789012345678901234567890`, "\"\x7f\"", `{"a":1,"a":2}`}
	invalid := []string{``, ` `, `nul`, `nulll`, `tru`, `True`, `01`, `1.`, `.5`, `-`, `+1`, `1e`, `1e+`, `0x10`, `-01`, `[1,]`, `[,1]`, `[1 2]`, `{"a"}`, `{"a":}`, `{a:1}`, `{"a":1,}`,
		`{1:2}`, `"`, `"a`, "\"\n\"", "\"\x00\"", `"\x"`, `"\u12"`, `"\u12g4"`, `'a'`, `[1] 2`, `1 2`, `{}{}`, `]`, `}`, `,`, `:`, `[`, `{`, `[1`, `{"a":1`, `--1`, `1.e2`, `1..2`, "\xef\xbb\xbf1", `NaN`, `Infinity`, `-Infinity`}
	for _, s := range valid {
		if _, _, ok, why := parseJSON([]byte(s)); !ok {
			t.Errorf("valid %q rejected: %s", s, why)
		}
	}
	for _, s := range invalid {
		if _, _, ok, _ := parseJSON([]byte(s)); ok {
			t.Errorf("invalid %q accepted", s)
		}
	}
	n, _, _, _ := parseJSON([]byte(`"😀é\ud800x"`))
	if string(n.str) != "\U0001f600é�x" || !n.lossy {
		t.Errorf("string decode: %q lossy=%v", n.str, n.lossy)
	}
	if _, fl, ok, _ := parseJSON([]byte("\"\x80\"")); !ok || !fl.badUTF8 {
		t.Errorf("ill-formed UTF-8 must be flagged")
	}
	if _, fl, ok, _ := parseJSON([]byte("\"\xed\xa0\x80\"")); !ok || !fl.badUTF8 {
		t.Errorf("UTF-8 encoded surrogate must be flagged")
	}
}

func TestNumbers(t *testing.T) {
	cases := []struct {
		s    string
		f    float64
		over bool
	}{{"0", 0, false}, {"-0", math.Copysign(0, -1), false}, {"1", 1, false}, {"1.5", 1.5, false}, {"1e2", 100, false}, {"1E+2", 100, false}, {"9007199254740993", 9007199254740992, false},
		{"9223372036854775807", 9223372036854775808, false}, {"1e999", math.Inf(1), true}, {"-1e999", math.Inf(-1), true}, {"1e-999", 0, false}, {"0e999", 0, false},
		{"1e9999999999999999999999", math.Inf(1), true}, {"1e-9999999999999999999999", 0, false}, {"5e-324", 5e-324, false}, {"2e-324", 0, false}, {"3e-324", 5e-324, false},
		{"1.7976931348623157e308", math.MaxFloat64, false}, {"1.7976931348623159e308", math.Inf(1), true}, {"0.1", 0.1, false}, {"100000000000000000000", 1e20, false},
		{"0.000001", 1e-6, false}, {"9007199254740993.0", 9007199254740992, false}, {"9007199254740995", 9007199254740996, false}}
	for _, c := range cases {
		f, over := parseDecimal(c.s).float64()
		if over != c.over || math.Float64bits(f) != math.Float64bits(c.f) {
			t.Errorf("%s: got %v over=%v, want %v over=%v", c.s, f, over, c.f, c.over)
		}
	}
	if parseDecimal("1e2").intForm || !parseDecimal("-12").intForm || parseDecimal("1.0").intForm {
		t.Errorf("intForm")
	}
	if parseDecimal("-9223372036854775808").bigInt().Cmp(minInt64) != 0 || fitsInt64(parseDecimal("9223372036854775808").bigInt()) {
		t.Errorf("int64 edges")
	}
}

func TestCanonicalFloatText(t *testing.T) {
	p1, p2 := 0.1, 0.2
	good := []struct {
		s string
		f float64
	}{{"0", 0}, {"-0", math.Copysign(0, -1)}, {"1", 1}, {"1.5", 1.5}, {"100", 100}, {"0.000001", 1e-6}, {"1e-7", 1e-7}, {"1.5e-7", 1.5e-7}, {"100000000000000000000", 1e20},
		{"1e+21", 1e21}, {"1.5e+300", 1.5e300}, {"5e-324", 5e-324}, {"1.7976931348623157e+308", math.MaxFloat64}, {"9007199254740992", 9007199254740992},
		{"9223372036854776000", 9223372036854775808}, {"10000000000000000000", 1e19}, {"0.1", 0.1}, {"123456789012345680000", 123456789012345680000}, {"-2.5e-7", -2.5e-7},
		{"1e+23", 1e23}, {"0.30000000000000004", p1 + p2}}
	for _, c := range good {
		if why := canonicalFloatText(c.s, c.f); why != "" {
			t.Errorf("%s should be canonical for %v: %s", c.s, c.f, why)
		}
	}
	bad := []struct {
		s string
		f float64
	}{{"1.0", 1}, {"1e0", 1}, {"1e2", 100}, {"1e+20", 1e20}, {"1000000000000000000000", 1e21}, {"1e-6", 1e-6}, {"0.0000001", 1e-7}, {"1e-07", 1e-7}, {"1E-7", 1e-7},
		{"9223372036854775808", 9223372036854775808}, {"0.10000000000000001", 0.1}, {"0", math.Copysign(0, -1)}, {"-0", 0}, {"2", 1}, {"1e21", 1e21}, {"9.999999999999999e+22", 1e23}}
	for _, c := range bad {
		if why := canonicalFloatText(c.s, c.f); why == "" {
			t.Errorf("%s should NOT be canonical for %v", c.s, c.f)
		}
	}
}

func TestEnumerators(t *testing.T) {
	s := newSeqSpace(3, 2)
	if s.total != 13 {
		t.Fatalf("seq total %d", s.total)
	}
	seen := map[string]bool{}
	for i := int64(0); i < s.total; i++ {
		k := ""
		for _, d := range s.at(i, nil) {
			k += string(rune('a' + d))
		}
		if seen[k] {
			t.Errorf("dup %q", k)
		}
		seen[k] = true
	}
	ts := newTreeSpace([]val{vNil(), vInt(1)}, []mkey{keyStr("b"), keySym("a")}, 2)
	got := map[string]bool{}
	for i := int64(0); i < ts.cnt[2]; i++ {
		got[ts.at(2, i).render()] = true
	}
	// (list) is nil, so (list x)/(list x y) never collide with leaves; every index is a distinct term
	if int64(len(got)) != ts.cnt[2] {
		t.Errorf("tree enumeration not injective: %d terms, %d distinct", ts.cnt[2], len(got))
	}
}
