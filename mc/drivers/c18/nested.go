package c18

import (
	"fmt"
	"strconv"
	"strings"

	"github.com/luthersystems/elps/lisp"

	"verif/mc/core"
	"verif/mc/el"
)

// Nested loads.  "a handler or the embedding host receives location and trace unchanged": an error raised inside a
// source that lisp code loads with load-string / load-bytes keeps the calls that were active INSIDE the loaded source,
// followed by the load call and whatever was active around it.  The oracle is differential and needs no model of the
// inner source's name: the same source S is (a) loaded by the host directly and (b) loaded by a lisp function through
// each load builtin, bare and under a rethrowing handler; (b)'s trace must be (a)'s trace, unchanged, followed by
// exactly the frames of the load builtin and of the lisp function around it, and the location must be the same.

type nestedReport struct {
	IsErr  bool
	Cond   string
	Pos    string
	Frames []frame
}

func (r nestedReport) String() string {
	if !r.IsErr {
		return "no error"
	}
	var fs []string
	for _, f := range r.Frames {
		fs = append(fs, fmt.Sprintf("%s@%d:%d", f.Name, f.Line, f.Col))
	}
	return fmt.Sprintf("%s at %s frames[%s]", r.Cond, r.Pos, strings.Join(fs, " "))
}

func runNested(name, src string, tro bool, pre string) nestedReport {
	env := el.MustEnv(el.Opts{})
	if !tro {
		env.Runtime.Debugger = el.Dormant{}
	}
	if pre != "" {
		if p := env.LoadString("prelude.lisp", pre); p.Type == lisp.LError {
			panic("harness: prelude: " + p.String())
		}
	}
	v := env.LoadString(name, src)
	var r nestedReport
	if v.Type != lisp.LError {
		return r
	}
	r.IsErr, r.Cond, r.Pos = true, v.Str, "<no position>"
	if loc, ok := v.Source(); ok {
		r.Pos = fmt.Sprintf("%d:%d", loc.Line, loc.Col)
	}
	if st := v.CallStack(); st != nil {
		for i := len(st.Frames) - 1; i >= 0; i-- {
			f := st.Frames[i]
			fr := frame{Name: f.Name}
			if f.Source != nil {
				fr.Line, fr.Col = f.Source.Line, f.Source.Col
			}
			r.Frames = append(r.Frames, fr)
		}
	}
	return r
}

var nestedLoaders = []struct{ id, def string }{
	{"load-string", "(defun run-nested (s) (load-string s) 'after)"},
	{"load-bytes", "(defun run-nested (s) (load-bytes (to-bytes s)) 'after)"},
	{"load-string-in-let", "(defun run-nested (s) (let ([r (load-string s)]) (list r)))"},
}

var nestedWrappers = []struct{ id, pre, post string }{
	{"bare", "", ""},
	{"rethrown", "(handler-bind ([condition (lambda (c &rest d) (rethrow))]) ", ")"},
}

type nestedKase struct {
	Pre     string `json:"prelude,omitempty"` // definitions loaded separately: the inner source is then the failing form alone, at byte offset 0
	Inner   string `json:"inner_source"`
	Leaf    string `json:"leaf"`
	Ctx     string `json:"context"`
	Loader  int    `json:"loader"`
	Wrapper int    `json:"wrapper"`
	TRO     bool   `json:"tro"`
}

func (k nestedKase) outer() string {
	return nestedLoaders[k.Loader].def + "\n" + nestedWrappers[k.Wrapper].pre + "(run-nested " + strconv.Quote(k.Inner) + ")" + nestedWrappers[k.Wrapper].post
}

func nestedJudge(k nestedKase) (string, string) {
	host := runNested("inner.lisp", k.Inner, k.TRO, k.Pre)
	if !host.IsErr {
		return "", ""
	}
	got := runNested("outer.lisp", k.outer(), k.TRO, k.Pre)
	detail := fmt.Sprintf("inner source loaded by the host:   %s\nthe same source loaded from lisp:  %s", host, got)
	if !got.IsErr || got.Cond != host.Cond {
		return "nested-load:condition", detail
	}
	if got.Pos != host.Pos {
		return "nested-load:location", detail
	}
	extra := len(got.Frames) - len(host.Frames)
	if extra < 2 {
		return "nested-load:inner-frames-lost", detail
	}
	for i, f := range host.Frames {
		g := got.Frames[i]
		if g.Name != f.Name || g.Line != f.Line || g.Col != f.Col {
			return "nested-load:inner-frames-changed", detail
		}
	}
	rest := got.Frames[len(host.Frames):]
	if !strings.HasSuffix(rest[0].Name, "load-string") && !strings.HasSuffix(rest[0].Name, "load-bytes") {
		return "nested-load:load-frame-missing", detail
	}
	found := false
	for _, f := range rest {
		if strings.HasSuffix(f.Name, "run-nested") {
			found = true
		}
	}
	if !found {
		return "nested-load:outer-frames-lost", detail
	}
	return "", detail
}

func nestedLoads(r *core.Run) {
	var ks []nestedKase
	for li := range leaves {
		for ci := -1; ci < len(contexts); ci++ {
			var idx []int
			if ci >= 0 {
				idx = []int{ci}
			}
			b, ok := build(li, idx, 0)
			if !ok {
				continue
			}
			// the same failing expression ALONE in the inner source: the blamed form may start at byte offset 0
			expr := leaves[li].src
			if ci >= 0 {
				expr = strings.Replace(contexts[ci].tpl, "HOLE", expr, 1)
			}
			pre := strings.Join(preludeForms, "\n")
			for lo := range nestedLoaders {
				for w := range nestedWrappers {
					for _, tro := range []bool{false, true} {
						ks = append(ks, nestedKase{Inner: b.Src, Leaf: b.Leaf, Ctx: b.Ctx, Loader: lo, Wrapper: w, TRO: tro})
						ks = append(ks, nestedKase{Pre: pre, Inner: expr, Leaf: b.Leaf, Ctx: b.Ctx + "@offset0", Loader: lo, Wrapper: w, TRO: tro})
					}
				}
			}
		}
	}
	r.Bound("nested_load_programs", len(ks))
	core.ParallelRange(r, int64(len(ks)), nil, func(_ struct{}, i int64) {
		k := ks[i]
		cls, detail := nestedJudge(k)
		r.AddEvals(2)
		r.AddTransitions(1)
		r.AddTraces(1)
		r.AddStates(1)
		if detail != "" {
			r.Nontrivial(k.outer())
		}
		r.Outcome("nested-load:" + ifs(cls == "", "ok", cls))
		if cls == "" {
			return
		}
		full := cls + ":" + nestedLoaders[k.Loader].id + ":" + nestedWrappers[k.Wrapper].id
		if r.Seen(full) >= 1 {
			r.CountOnly(full)
			return
		}
		r.Violate("c18", full, k, "the trace the host sees when it loads the inner source itself, followed by the load call and its callers; same location", detail, "")
	})
}
