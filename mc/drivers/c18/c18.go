// Package c18: errors identify the failing form and the calls that were
// active (DESIGN §C18).  Every error kind is raised at every position of every
// context nesting up to a depth bound, each program rendered in three source
// layouts; the reference interpreter (verif/mc/ri) carries source positions
// and an active-call chain and says which form is to blame and which calls
// were active.
package c18

import (
	"fmt"
	"strings"

	"github.com/luthersystems/elps/lisp"

	"verif/mc/core"
	"verif/mc/el"
	"verif/mc/ri"
)

func init() {
	core.Register(&core.Driver{Property: "C18", Run: run, Replay: replay})
}

var preludeForms = []string{
	"(defun fail-in-f (x) (error 'boom x))",
	"(defun callit (th) (funcall th))",
	"(defun thunk-a (th) (funcall th))",
	"(defun thunk-b (th) (funcall th))",
	"(defmacro mt (x) (quasiquote (list 1 (unquote x))))",
	"(defmacro mb (x) (list (car '(list)) 1 x))",
	"(defmacro mterr () (quasiquote (car 5)))",
	"(defmacro mberr () (list (car '(car)) 5))",
	"(defmacro ms (&rest body) (quasiquote (progn (unquote-splicing body))))",
	"(defmacro msplerr (&rest xs) (quasiquote (car 5 (unquote-splicing xs))))",
	"(defmacro mspl2 (x &rest xs) (quasiquote (list (unquote x) (+ 0 (unquote-splicing xs)))))",
	"(defun rec (n) (if (<= n 0) (car 5) (+ 1 (rec (- n 1)))))",
	"(defun tailrec (n) (if (<= n 0) (car 5) (tailrec (- n 1))))",
	// a tail loop that only fails when it is entered with -1: called as a callback, an EARLIER invocation loops
	// (frames are reused) and a LATER one fails
	"(defun tailwalk (n) (if (<= n 0) (if (= n -1) (car 5) 0) (tailwalk (- n 1))))",
	// tail loops whose LATER turn cannot be bound (fix 4224554): the failing call is the tail call, not the loop's first call
	"(defun tailfew (n) (if (<= n 0) 0 (tailfew)))",
	"(defun tailmany (n) (if (<= n 0) 0 (tailmany (- n 1) 2)))",
	"(defun tailfew2 (n) (if (<= n 1) (tailfew2) (tailfew2 (- n 1))))",
	"(defun tailkey (n &key k) (if (<= n 0) 0 (tailkey (- n 1) :zz 1)))",
	"(defun tailopt (n &optional o) (if (<= n 0) 0 (tailopt (- n 1) 1 2)))",
	"(defun tailapply (n) (if (<= n 0) 0 (apply tailapply '())))",
	"(defun tailfuncall (n) (if (<= n 0) 0 (funcall tailfuncall)))",
	"(defun tailmutb (n) (tailmuta))",
	"(defun tailmuta (n) (if (<= n 0) 0 (tailmutb (- n 1))))",
}

type leaf struct {
	id, src   string
	recursive bool
}

var leaves = []leaf{
	{"unbound", "zz", false},
	{"qualified-unbound", "lisp:no-such-thing", false},
	{"unknown-package", "nosuchpkg:thing", false},
	{"qualified-unbound-operator", "(lisp:no-such-fn 1)", false},
	{"unbound-designator-funcall", "(funcall 'zzfn 1)", false},
	{"unbound-designator-apply", "(apply 'zzfn '(1))", false},
	{"unbound-designator-map", "(map 'list 'zzfn '(1 2))", false},
	{"unbound-designator-foldl", "(foldl 'zzfn 0 '(1 2))", false},
	{"let-rebinds-constant", "(let ([zq (+ 1 2)] [true (* 2 2)]) 0)", false},
	{"letseq-rebinds-constant", "(let* ([zq (+ 1 2)] [false (* 2 2)]) 0)", false},
	{"flet-rebinds-constant", "(flet ([zg (x) x] [true (x) (+ x 1)]) 0)", false},
	{"dotimes-rebinds-constant", "(dotimes (true (+ 1 1)) 1)", false},
	{"error", "(error 'boom 1)", false},
	{"type", "(car 5)", false},
	{"arity", "(cons 1)", false},
	{"in-function", "(fail-in-f 1)", false},
	{"macro-template-form", "(mterr)", false},
	{"macro-built-form", "(mberr)", false},
	{"set!-unbound", "(set! qq 1)", false},
	{"macro-splice-template-form", "(msplerr 1 2)", false},
	{"non-tail-recursion", "(rec 2)", true},
	{"tail-recursion", "(tailrec 2)", true},
	{"callback-after-tail-loop-map", "(map 'list tailwalk '(2 -1))", true},
	{"callback-after-tail-loop-foldl", "(foldl (lambda (a x) (tailwalk x)) 0 '(3 2 -1))", true},
	{"tail-call-too-few", "(tailfew 1)", true},
	{"tail-call-too-many", "(tailmany 1)", true},
	{"tail-call-unknown-key", "(tailkey 1)", true},
	{"tail-call-too-many-optional", "(tailopt 1)", true},
	{"tail-call-too-few-apply", "(tailapply 1)", true},
	{"tail-call-too-few-funcall", "(tailfuncall 1)", true},
	{"tail-call-too-few-third-turn", "(tailfew2 3)", true},
	{"tail-call-too-few-mutual", "(tailmuta 2)", true},
	{"callback-after-tail-loop-map-lambda", "(map 'list (lambda (x) (+ 1 (tailwalk x))) '(2 -1))", true},
}

type ctx struct{ id, tpl string }

var contexts = []ctx{
	{"arg1", "(list HOLE 2)"},
	{"arg2", "(list 1 HOLE)"},
	{"let-value", "(let ([v HOLE]) v)"},
	{"let-body", "(let ([v 1]) v HOLE)"},
	{"let*-value", "(let* ([v 1] [w HOLE]) w)"},
	{"if-test", "(if HOLE 1 2)"},
	{"if-then", "(if true HOLE 2)"},
	{"if-else", "(if false 1 HOLE)"},
	{"cond-test", "(cond (HOLE 1))"},
	{"cond-body", "(cond (true HOLE))"},
	{"progn", "(progn 1 HOLE)"},
	{"lambda-call", "((lambda (p) HOLE) 1)"},
	{"funcall", "(funcall (lambda (p) HOLE) 1)"},
	{"apply", "(apply (lambda (p) HOLE) '(1))"},
	{"map-callback", "(map 'list (lambda (p) HOLE) '(1))"},
	{"labels", "(labels ([lf (p) HOLE]) (lf 1))"},
	{"flet", "(flet ([lf (p) HOLE]) (lf 1))"},
	{"handler-body", "(handler-bind ([nomatch (lambda (c &rest d) 0)]) HOLE)"},
	{"in-handler", "(handler-bind ([trigger (lambda (c &rest d) HOLE)]) (error 'trigger))"},
	{"dotimes", "(dotimes (i 1) HOLE)"},
	{"thread-first", "(thread-first 1 (list HOLE))"},
	{"thunk", "(callit (lambda () HOLE))"},
	{"macro-template-arg", "(mt HOLE)"},
	{"macro-built-arg", "(mb HOLE)"},
	{"macro-splice-arg", "(ms 1 HOLE)"},
	{"macro-splice-nested", "(mspl2 1 2 HOLE)"},
	{"rethrown", "(handler-bind ([condition (lambda (c &rest d) (rethrow))]) HOLE)"},
	// the SAME failing expression raised twice at the same depth through different callers; the first error is
	// swallowed: the second one must carry ITS callers, not a trace kept from the first
	{"after-swallowed/other-caller", "(let ([th (lambda () HOLE)]) (ignore-errors (thunk-a th)) (thunk-b th))"},
	{"after-swallowed/other-caller-same-depth", "(let ([th (lambda () HOLE)]) (ignore-errors (thunk-a th)) (progn (thunk-b th)))"},
	{"after-handled/other-caller-same-depth", "(let ([th (lambda () HOLE)]) (handler-bind ([condition (lambda (c &rest d) 0)]) (thunk-a th)) (progn (thunk-b th)))"},
	{"after-handled/other-caller", "(let ([th (lambda () HOLE)]) (handler-bind ([condition (lambda (c &rest d) 0)]) (thunk-a th)) (thunk-b th))"},
}

// ---------------------------------------------------------------------------
// layouts

func layout(forms []*ri.Val, mode int) string {
	var sb strings.Builder
	for i, f := range forms {
		if mode == 2 {
			if i > 0 {
				sb.WriteString("\n")
			}
			fmt.Fprintf(&sb, "; form %d\n\n", i)
		}
		pp(&sb, f, 0, mode)
		sb.WriteString("\n")
	}
	return sb.String()
}

func pp(sb *strings.Builder, v *ri.Val, indent, mode int) {
	if v.K != ri.KList {
		sb.WriteString(v.String())
		return
	}
	open, close := "(", ")"
	if v.Bracket {
		open, close = "[", "]"
	} else if v.Quoted {
		open = "'("
	}
	sb.WriteString(open)
	for i, c := range v.Cells {
		if i > 0 {
			if mode == 0 || len(v.Cells) <= 1 {
				sb.WriteString(" ")
			} else {
				sb.WriteString("\n")
				if mode == 2 && i == 1 {
					sb.WriteString(strings.Repeat(" ", indent+2) + "; arg\n")
				}
				sb.WriteString(strings.Repeat(" ", indent+2))
			}
		}
		pp(sb, c, indent+2, mode)
	}
	sb.WriteString(close)
}

// ---------------------------------------------------------------------------

type frame struct {
	Name string `json:"name"`
	Line int    `json:"line"`
	Col  int    `json:"col"`
}

type report struct {
	IsErr  bool
	Cond   string
	Line   int
	Col    int
	HasPos bool
	Frames []frame // innermost first
}

func (r report) String() string {
	if !r.IsErr {
		return "no error"
	}
	var fs []string
	for _, f := range r.Frames {
		fs = append(fs, fmt.Sprintf("%s@%d:%d", f.Name, f.Line, f.Col))
	}
	pos := "<no position>"
	if r.HasPos {
		pos = fmt.Sprintf("%d:%d", r.Line, r.Col)
	}
	return fmt.Sprintf("%s at %s frames[%s]", r.Cond, pos, strings.Join(fs, " "))
}

func runReal(src string, tro bool, files map[string]string) report {
	env := el.MustEnv(el.Opts{})
	if !tro {
		env.Runtime.Debugger = el.Dormant{}
	}
	if files != nil {
		env.Runtime.Library = mapLibrary(files)
	}
	v := env.LoadString("prog.lisp", src)
	var r report
	if v.Type != lisp.LError {
		return r
	}
	r.IsErr, r.Cond = true, v.Str
	if loc, ok := v.Source(); ok {
		r.HasPos, r.Line, r.Col = true, loc.Line, loc.Col
		if loc.File != "prog.lisp" {
			r.HasPos = false
		}
	}
	if st := v.CallStack(); st != nil {
		for i := len(st.Frames) - 1; i >= 0; i-- {
			f := st.Frames[i]
			fr := frame{Name: f.Name}
			if f.Source != nil {
				fr.Line, fr.Col = f.Source.Line, f.Source.Col
			}
			r.Frames = append(r.Frames, fr)
		}
	}
	return r
}

func runRef(src string, files map[string]string) (report, bool) {
	in := ri.New()
	lm := defLoadModel(in, files) // rejected.go: load-string / load-bytes / load-file / to-bytes
	_, e, perr := in.Load(src)
	var r report
	if perr != nil || in.OutOfFuel || lm.unspecified {
		return r, false
	}
	if e == nil {
		return r, true
	}
	if strings.HasPrefix(e.Cond, "<") {
		return r, false
	}
	r.IsErr, r.Cond = true, e.Cond
	if e.Pos != nil {
		r.HasPos, r.Line, r.Col = true, e.Pos.Line, e.Pos.Col
	}
	for i := len(e.Frames) - 1; i >= 0; i-- {
		f := e.Frames[i]
		fr := frame{Name: f.Name}
		if f.Pos != nil {
			fr.Line, fr.Col = f.Pos.Line, f.Pos.Col
		}
		r.Frames = append(r.Frames, fr)
	}
	return r, true
}

func sameFrame(a, b frame) bool {
	// line 0 = the reference leaves this frame's call-site position unspecified
	// (a handler invoked by handler-bind has no call expression of its own)
	if b.Line != 0 && (a.Line != b.Line || a.Col != b.Col) { // a = the real frame, b = the reference frame
		return false
	}
	// anonymous functions have no name on one or both sides
	return a.Name == "" || b.Name == "" || a.Name == b.Name
}

func framesEqual(a, b []frame) bool {
	if len(a) != len(b) {
		return false
	}
	for i := range a {
		if !sameFrame(a[i], b[i]) {
			return false
		}
	}
	return true
}

// subseq: a is an order-preserving subsequence of b.
func subseq(a, b []frame) bool {
	j := 0
	for _, x := range a {
		for j < len(b) && !sameFrame(x, b[j]) {
			j++
		}
		if j == len(b) {
			return false
		}
		j++
	}
	return true
}

type kase struct {
	Src       string `json:"src"`
	Leaf      string `json:"leaf"`
	Ctx       string `json:"contexts"`
	Layout    int    `json:"layout"`
	Recursive bool   `json:"recursive"`
	SetBang   bool   `json:"set_bang"`
	// Files is the source library of the runtime (load-file); nil = no library configured
	Files map[string]string `json:"files,omitempty"`
}

// judge returns "" or a class + detail.
func judge(k kase) (string, string) {
	ref, ok := runRef(k.Src, k.Files)
	if !ok {
		return "", ""
	}
	off := runReal(k.Src, false, k.Files)
	on := runReal(k.Src, true, k.Files)
	detail := fmt.Sprintf("reference:        %s\nelps (TRO off):   %s\nelps (TRO on):    %s", ref, off, on)
	if ref.IsErr != off.IsErr || ref.IsErr != on.IsErr {
		return "error-vs-value", detail
	}
	if !ref.IsErr {
		return "", ""
	}
	if ref.Cond != off.Cond || ref.Cond != on.Cond {
		return "condition", detail
	}
	for _, r := range []report{off, on} {
		if !r.HasPos {
			return "location-missing-or-outside-source", detail
		}
		posOK := r.Line == ref.Line && r.Col == ref.Col
		if !posOK && k.SetBang {
			// for set! on an unbound name the symbol or the set! call may be blamed
			posOK = r.Line == ref.Line && (r.Col == ref.Col-6)
		}
		if !posOK {
			return "location", detail
		}
	}
	if !framesEqual(off.Frames, ref.Frames) {
		return "trace-tro-off", detail
	}
	// Elimination may merge frames only where a call in tail position re-enters
	// a function that is already active (that includes a builtin such as
	// funcall calling funcall in tail position).  So: when no function name
	// occurs twice in the reference chain the traces must be equal; otherwise
	// the trace must be an order-preserving subsequence that keeps the innermost
	// and the outermost frame, and NON-tail recursion keeps all its frames.
	repeats := false
	seen := map[string]bool{}
	for _, f := range ref.Frames {
		if f.Name != "" && seen[f.Name] {
			repeats = true
		}
		seen[f.Name] = true
	}
	if !repeats {
		if !framesEqual(on.Frames, ref.Frames) {
			return "trace-tro-on", detail
		}
	} else {
		n := len(on.Frames)
		// a merged frame keeps the call-site position of the frame it reused, so
		// the innermost frame is compared by name only
		if n == 0 || !subseq(on.Frames, ref.Frames) || (ref.Frames[0].Name != "" && on.Frames[0].Name != ref.Frames[0].Name) || !sameFrame(on.Frames[n-1], ref.Frames[len(ref.Frames)-1]) {
			return "trace-tro-on-not-a-subsequence", detail
		}
		if k.Leaf == "non-tail-recursion" && (count(on.Frames, "rec") != count(ref.Frames, "rec") || count(on.Frames, "+") != count(ref.Frames, "+")) {
			return "trace-tro-on-merged-non-tail-frames", detail
		}
	}
	return "", detail
}

func count(fs []frame, name string) int {
	n := 0
	for _, f := range fs {
		if f.Name == name {
			n++
		}
	}
	return n
}

func build(leafIdx int, ctxIdx []int, mode int) (kase, bool) {
	return buildLeaf(leaves[leafIdx], nil, ctxIdx, mode)
}

func buildLeaf(l leaf, files map[string]string, ctxIdx []int, mode int) (kase, bool) {
	expr := l.src
	var names []string
	for _, ci := range ctxIdx { // innermost first
		expr = strings.Replace(contexts[ci].tpl, "HOLE", expr, 1)
		names = append(names, contexts[ci].id)
	}
	one := strings.Join(preludeForms, "\n") + "\n" + expr
	forms, err := ri.Read(one)
	if err != nil {
		return kase{}, false
	}
	return kase{Src: layout(forms, mode), Leaf: l.id, Ctx: strings.Join(names, "<"), Layout: mode, Recursive: l.recursive, SetBang: l.id == "set!-unbound", Files: files}, true
}

func run(r *core.Run) {
	depth := 2
	if r.Thorough() {
		depth = 3
	}
	r.Bound("context_depth", depth)
	r.Bound("error_kinds", len(leaves))
	r.Bound("contexts", len(contexts))
	r.Bound("layouts", 3)
	r.Rule("every error kind (unbound symbol, package-qualified unbound symbol as a value and as an operator, symbol of an unknown package, an unbound symbol handed as a function designator to funcall / apply / map / foldl, a binding form rejecting a name at bind time after its value forms ran (let / let* / flet / dotimes), (error ..), builtin type error, wrong arity, error inside a called function, a failing form written in a macro template, a failing form a macro built with list, set! of an unbound name, non-tail and tail recursion ending in an error) at every position of every nesting up to the depth bound of 31 contexts (argument positions, let/let* value and body, if test/branches, cond test/body, progn, lambda call, funcall, apply, map callback, labels, flet, handler-bind body, inside a handler, dotimes, thread-first, thunk, macro template argument, macro built argument, rethrown), each in 3 source layouts; plus every error kind x every context loaded from lisp through load-string / load-bytes (bare and under a rethrowing handler, elimination on and off) against the same source loaded by the host; plus every error kind x every context with the definitions and the failing expression in two differently named sources of one runtime (the library as one source, and as one source per form so that every source starts at the same position), against the same text loaded as one source. Non-trivial = the program fails; distinct by source text")
	r.Assume("frame names are compared only where both sides name the function (anonymous lambdas have no name)")
	r.Assume("with elimination on, the trace of a program containing recursion must be an order-preserving subsequence of the reference chain whose innermost frame is present; for non-tail recursion and for programs without recursion it must be equal")
	var seqs [][]int
	var rec func(cur []int)
	rec = func(cur []int) {
		seqs = append(seqs, append([]int(nil), cur...))
		if len(cur) == depth {
			return
		}
		for c := range contexts {
			rec(append(cur, c))
		}
	}
	rec(nil)
	total := int64(len(leaves) * len(seqs) * 3)
	r.Bound("programs", total)
	core.ParallelRange(r, total, nil, func(_ struct{}, i int64) {
		mode := int(i % 3)
		rest := i / 3
		li := int(rest % int64(len(leaves)))
		si := rest / int64(len(leaves))
		k, ok := build(li, seqs[si], mode)
		if !ok {
			return
		}
		cls, detail := judge(k)
		r.AddEvals(3)
		r.AddTransitions(1)
		r.AddTraces(1)
		if detail != "" {
			r.Nontrivial(k.Src)
		}
		r.Outcome(k.Leaf + ":" + ifs(cls == "", "ok", cls))
		if i%30011 == 11 {
			r.Sample(k)
		}
		if cls == "" {
			return
		}
		first := k.Ctx
		if j := strings.Index(first, "<"); j >= 0 {
			first = first[:j]
		}
		full := cls + ":" + k.Leaf + ":" + first
		if r.Seen(full) >= 1 {
			r.CountOnly(full)
			return
		}
		if c2, _ := judge(k); c2 == "" {
			r.Flaky(k)
			return
		}
		r.Violate("c18", full, k, "location = the blamed form, trace = the active calls", detail, "")
	})
	r.AddStates(int64(len(seqs) * len(leaves)))
	nestedLoads(r)
	multiSources(r)
	rejectedLoads(r)
	hostHistories(r)
}

func ifs(c bool, a, b string) string {
	if c {
		return a
	}
	return b
}

func replay(v core.Violation) (bool, string) {
	if strings.HasPrefix(v.Class, "multi-source:") {
		mk, err := core.CaseOf[multiKase](v)
		if err != nil {
			return false, err.Error()
		}
		cls, detail := multiJudge(mk)
		return cls != "", detail
	}
	if strings.HasPrefix(v.Class, "host-history:") {
		hk, err := core.CaseOf[historyKase](v)
		if err != nil {
			return false, err.Error()
		}
		cls, detail := historyJudge(hk)
		return cls != "", detail
	}
	if strings.HasPrefix(v.Class, "nested-load:") {
		nk, err := core.CaseOf[nestedKase](v)
		if err != nil {
			return false, err.Error()
		}
		cls, detail := nestedJudge(nk)
		return cls != "", nk.outer() + "\n" + cls + "\n" + detail
	}
	k, err := core.CaseOf[kase](v)
	if err != nil {
		return false, err.Error()
	}
	cls, detail := judge(k)
	return cls != "", k.Src + "\n" + cls + "\n" + detail
}
