package c18

import (
	"fmt"
	"strings"

	"github.com/luthersystems/elps/lisp"

	"verif/mc/core"
	"verif/mc/el"
)

// Several sources in one runtime.  "The error's location lies within that source": when the definitions live in one
// source (lib.lisp) and the failing expression in another (main.lisp), both loaded by the host into the same runtime,
// every position of the report names the source its form was written in.  The oracle is the single-source table
// (itself decided against the reference interpreter): the same text split at the boundary between the definitions and
// the expression must give the same report, with line l of the whole text mapped to (lib.lisp, l) or (main.lisp, l-P).
// Two splits: the library as ONE source, and every library form as a source of its own (each then starts at offset 0,
// line 1, column 1 -- the same position the expression in main.lisp starts at).

type filePos struct {
	File string
	Line int
	Col  int
}

type fileFrame struct {
	Name string
	At   filePos
}

type fileReport struct {
	IsErr  bool
	Cond   string
	At     filePos
	Frames []fileFrame
}

func (r fileReport) String() string {
	if !r.IsErr {
		return "no error"
	}
	var fs []string
	for _, f := range r.Frames {
		fs = append(fs, fmt.Sprintf("%s@%s:%d:%d", f.Name, f.At.File, f.At.Line, f.At.Col))
	}
	return fmt.Sprintf("%s at %s:%d:%d frames[%s]", r.Cond, r.At.File, r.At.Line, r.At.Col, strings.Join(fs, " "))
}

type namedSource struct{ Name, Text string }

func runFiles(srcs []namedSource, tro bool) fileReport {
	env := el.MustEnv(el.Opts{})
	if !tro {
		env.Runtime.Debugger = el.Dormant{}
	}
	var v *lisp.LVal
	for i, s := range srcs {
		v = env.LoadString(s.Name, s.Text)
		if v.Type == lisp.LError && i < len(srcs)-1 {
			panic("harness: library source failed: " + v.String())
		}
	}
	var r fileReport
	if v.Type != lisp.LError {
		return r
	}
	r.IsErr, r.Cond = true, v.Str
	r.At = filePos{File: "<no position>"}
	if loc, ok := v.Source(); ok {
		r.At = filePos{loc.File, loc.Line, loc.Col}
	}
	if st := v.CallStack(); st != nil {
		for i := len(st.Frames) - 1; i >= 0; i-- {
			f := st.Frames[i]
			fr := fileFrame{Name: f.Name, At: filePos{File: "<no position>"}}
			if f.Source != nil {
				fr.At = filePos{f.Source.File, f.Source.Line, f.Source.Col}
			}
			r.Frames = append(r.Frames, fr)
		}
	}
	return r
}

type multiKase struct {
	Leaf  string `json:"leaf"`
	Ctx   string `json:"context"`
	Expr  string `json:"main_source"`
	Split string `json:"split"` // one-library-source | one-source-per-form
	TRO   bool   `json:"tro"`
}

func (k multiKase) sources() []namedSource {
	var out []namedSource
	if k.Split == "one-library-source" {
		out = append(out, namedSource{"lib.lisp", strings.Join(preludeForms, "\n")})
	} else {
		for _, f := range preludeForms {
			out = append(out, namedSource{"lib.lisp", f})
		}
	}
	return append(out, namedSource{"main.lisp", k.Expr})
}

func multiJudge(k multiKase) (string, string) {
	P := len(preludeForms) // every library form is one line
	single := runFiles([]namedSource{{"prog.lisp", strings.Join(preludeForms, "\n") + "\n" + k.Expr}}, k.TRO)
	if !single.IsErr {
		return "", ""
	}
	mp := func(p filePos) filePos {
		if p.File != "prog.lisp" {
			return p
		}
		if p.Line > P {
			return filePos{"main.lisp", p.Line - P, p.Col}
		}
		if k.Split == "one-library-source" {
			return filePos{"lib.lisp", p.Line, p.Col}
		}
		return filePos{"lib.lisp", 1, p.Col}
	}
	want := fileReport{IsErr: true, Cond: single.Cond, At: mp(single.At)}
	for _, f := range single.Frames {
		want.Frames = append(want.Frames, fileFrame{f.Name, mp(f.At)})
	}
	got := runFiles(k.sources(), k.TRO)
	detail := fmt.Sprintf("one source (positions mapped to the split): %s\nthe same text as separate sources:          %s", want, got)
	if !got.IsErr || got.Cond != want.Cond {
		return "multi-source:condition", detail
	}
	if got.At != want.At {
		return "multi-source:location", detail
	}
	if len(got.Frames) != len(want.Frames) {
		return "multi-source:trace-length", detail
	}
	for i := range got.Frames {
		if got.Frames[i] != want.Frames[i] {
			return "multi-source:trace", detail
		}
	}
	return "", detail
}

func multiSources(r *core.Run) {
	var ks []multiKase
	for _, l := range leaves {
		for ci := -1; ci < len(contexts); ci++ {
			expr, cid := l.src, "top"
			if ci >= 0 {
				expr, cid = strings.Replace(contexts[ci].tpl, "HOLE", expr, 1), contexts[ci].id
			}
			for _, split := range []string{"one-library-source", "one-source-per-form"} {
				for _, tro := range []bool{false, true} {
					ks = append(ks, multiKase{Leaf: l.id, Ctx: cid, Expr: expr, Split: split, TRO: tro})
				}
			}
		}
	}
	r.Bound("multi_source_programs", len(ks))
	core.ParallelRange(r, int64(len(ks)), nil, func(_ struct{}, i int64) {
		k := ks[i]
		cls, detail := multiJudge(k)
		r.AddEvals(2)
		r.AddTransitions(1)
		r.AddTraces(1)
		r.AddStates(1)
		if detail != "" {
			r.Nontrivial("multi:" + k.Split + ":" + k.Expr)
		}
		r.Outcome("multi-source:" + ifs(cls == "", "ok", cls))
		if cls == "" {
			return
		}
		full := cls + ":" + k.Leaf + ":" + k.Split
		if r.Seen(full) >= 1 {
			r.CountOnly(full)
			return
		}
		r.Violate("c18", full, k, "the report of the same text loaded as one source, each position mapped to the source its line went to", detail, "")
	})
}
