package c18

import (
	"context"
	"fmt"
	"strings"

	"github.com/luthersystems/elps/lisp"

	"verif/mc/core"
	"verif/mc/el"
	"verif/mc/ri"
)

// Load builtins rejecting their argument.  "... the call expression for an error signalled by `error` or by a function
// rejecting its arguments": load-string / load-bytes / load-file reject a value of the wrong type, text the reader
// cannot read, and a file the source library does not have.  They are special among the builtins because they hand
// their argument to the ROOT environment of the runtime, not to the environment that is evaluating the call: whatever
// error is made there sees the root environment's idea of "the form being evaluated" (the enclosing top-level form,
// one of its sub-forms, or the last form of a source loaded earlier).  Three parts:
//
//  1. loadLeaves: fixed rejections at every context nesting up to depth 2 in every layout, against the reference;
//  2. rejectedLoads: every text over the reader's token alphabet up to a length that the runtime's own reader rejects
//     when the host hands it over directly, handed to every load builtin in every context (the reference model
//     rejects it at the call expression);
//  3. hostHistories: every history of host loads into ONE runtime (earlier sources that loaded, failed while running,
//     could not be read) ending in every such text: the location the host receives lies within the source that
//     failed, never in a source loaded earlier.

// loadFiles is the source library of the runtimes that evaluate loadLeaves.
var loadFiles = map[string]string{
	"ok.lisp":  "(+ 1 2)",
	"bad.lisp": "(list 1\n  (unclosed",
}

var loadLeaves = []leaf{
	{"load-string-non-string", "(load-string 5)", false}, // rejected by the evaluating environment itself
	{"load-string-unreadable", "(load-string \"(unclosed\")", false},
	{"load-bytes-unreadable", "(load-bytes (to-bytes \"(a b ]\"))", false},
	{"load-file-unreadable", "(load-file \"bad.lisp\")", false},
	{"load-file-missing", "(load-file \"nosuch.lisp\")", false},
	{"load-file-readable", "(car (load-file \"ok.lisp\"))", false}, // the load succeeds, the NEXT rejection is car's
	{"load-string-readable", "(car (load-string \"(+ 1 2)\"))", false},
}

// mapLibrary is a lisp.SourceLibrary over a fixed table.
type mapLibrary map[string]string

func (m mapLibrary) LoadSource(_ lisp.SourceContext, loc string) (string, string, []byte, error) {
	if s, ok := m[loc]; ok {
		return loc, loc, []byte(s), nil
	}
	return "", "", nil, fmt.Errorf("no such file: %s", loc)
}

// readable: the runtime's reader accepts the text when the host hands it over directly (no environment involved).
func readable(text string) bool {
	_, err := el.FastReader().Read("text", strings.NewReader(text))
	return err == nil
}

// loadModel is the reference model of the load builtins; unspecified is set when an evaluation left the zone the
// model speaks about (then the program is not judged).
type loadModel struct{ unspecified bool }

func defLoadModel(in *ri.Interp, files map[string]string) *loadModel {
	lm := &loadModel{}
	isBytes := map[*ri.Val]bool{} // the reference interpreter has no bytes type: values made by to-bytes
	out := func(cond string) (*ri.Val, *ri.Err) {
		lm.unspecified = true
		return nil, &ri.Err{Cond: cond}
	}
	load := func(text string, at *ri.Val) (*ri.Val, *ri.Err) {
		if !readable(text) {
			return nil, in.Errf(at, "error", "the reader cannot read the text")
		}
		if _, err := ri.Read(text); err != nil {
			return out("<readers-disagree>") // the reader's grammar is another property's subject
		}
		v, e, _ := in.Load(text)
		if e != nil {
			// the failing form lies in ANOTHER source: the nested-load part's subject
			return out("<error-inside-loaded-source>")
		}
		return v, nil
	}
	in.DefBuiltin("to-bytes", []string{"s"}, func(in *ri.Interp, a []*ri.Val, at *ri.Val) (*ri.Val, *ri.Err) {
		if a[0].K != ri.KStr || isBytes[a[0]] {
			return out("<to-bytes-of-a-non-string>")
		}
		b := ri.Str(a[0].S)
		isBytes[b] = true
		return b, nil
	})
	in.DefBuiltin("load-string", []string{"s"}, func(in *ri.Interp, a []*ri.Val, at *ri.Val) (*ri.Val, *ri.Err) {
		if a[0].K != ri.KStr || isBytes[a[0]] {
			return nil, in.Errf(at, "error", "first argument is not a string")
		}
		return load(a[0].S, at)
	})
	in.DefBuiltin("load-bytes", []string{"b"}, func(in *ri.Interp, a []*ri.Val, at *ri.Val) (*ri.Val, *ri.Err) {
		if !isBytes[a[0]] {
			return nil, in.Errf(at, "error", "first argument is not bytes")
		}
		return load(a[0].S, at)
	})
	in.DefBuiltin("load-file", []string{"loc"}, func(in *ri.Interp, a []*ri.Val, at *ri.Val) (*ri.Val, *ri.Err) {
		if a[0].K != ri.KStr || isBytes[a[0]] {
			return nil, in.Errf(at, "error", "first argument is not a string")
		}
		if files == nil {
			return out("<no-source-library-configured>") // a host configuration error, not a rejected argument
		}
		text, ok := files[a[0].S]
		if !ok {
			return nil, in.Errf(at, "error", "the library has no such file")
		}
		return load(text, at)
	})
	return lm
}

// ---------------------------------------------------------------------------
// every text over the reader's token alphabet

var textTokens = []string{"(", ")", "[", "]", "\"", "'", "a", "1"}

// tokenTexts: every sequence of up to maxLen tokens joined by one space, shortest first ("" included).
func tokenTexts(maxLen int) []string {
	out := []string{""}
	level := []string{""}
	for n := 1; n <= maxLen; n++ {
		var next []string
		for _, p := range level {
			for _, t := range textTokens {
				s := t
				if p != "" {
					s = p + " " + t
				}
				next = append(next, s)
			}
		}
		out = append(out, next...)
		level = next
	}
	return out
}

var textLoaders = []struct {
	id   string
	expr func(text string) (string, map[string]string)
}{
	{"load-string-text", func(t string) (string, map[string]string) {
		return "(load-string " + quoteLisp(t) + ")", nil
	}},
	{"load-bytes-text", func(t string) (string, map[string]string) {
		return "(load-bytes (to-bytes " + quoteLisp(t) + "))", nil
	}},
	{"load-file-text", func(t string) (string, map[string]string) {
		return "(load-file \"t.lisp\")", map[string]string{"t.lisp": t}
	}},
}

// quoteLisp: the tokens are ASCII; only the double quote needs an escape.
func quoteLisp(s string) string { return "\"" + strings.ReplaceAll(s, "\"", "\\\"") + "\"" }

func rejectedLoads(r *core.Run) {
	maxLen, layouts := 2, []int{1}
	if r.Thorough() {
		maxLen, layouts = 3, []int{0, 1, 2}
	}
	texts := tokenTexts(maxLen)
	unreadable := 0
	for _, t := range texts {
		if !readable(t) {
			unreadable++
		}
	}
	r.Bound("rejected_load_token_alphabet", strings.Join(textTokens, " "))
	r.Bound("rejected_load_text_tokens_max", maxLen)
	r.Bound("rejected_load_texts", len(texts))
	r.Bound("rejected_load_texts_the_reader_rejects", unreadable)
	r.Bound("rejected_load_layouts", len(layouts))
	r.Rule("load builtins rejecting their argument: (a) at every nesting of up to 2 contexts in the 3 layouts: load-string of a non-string, load-string / load-bytes / load-file of text the reader cannot read, load-file of a file the library does not have, and a rejection right after a successful load-file; (b) every text of up to the bounded number of tokens over the reader's token alphabet ( ) [ ] \" ' a 1 that the runtime's reader rejects when the host hands it over directly, handed to each of load-string / load-bytes / load-file (as the content of a library file) at top level and inside each of the contexts. Reference: the builtin rejects such a text at its call expression, and the trace is the active-call chain at that call. Non-trivial = the program fails; distinct by source text")
	r.Assume("not judged by the rejected-load part: token texts the reader accepts (what a loaded text does is the nested-load part's subject; the continuation after a successful load is covered by the fixed leaves), a loaded text that fails while it runs, and load-file in a runtime without a source library")
	type job struct {
		l      leaf
		files  map[string]string
		ctx    []int // innermost first
		layout int
	}
	var jobs []job
	// (a) the fixed leaves at every context nesting up to depth 2, in the three layouts
	seqs := [][]int{nil}
	for c := range contexts {
		seqs = append(seqs, []int{c})
	}
	for c := range contexts {
		for d := range contexts {
			seqs = append(seqs, []int{c, d})
		}
	}
	for _, l := range loadLeaves {
		for _, sq := range seqs {
			for m := 0; m < 3; m++ {
				jobs = append(jobs, job{l, loadFiles, sq, m})
			}
		}
	}
	r.Bound("rejected_load_fixed_leaves", len(loadLeaves))
	r.Bound("rejected_load_fixed_leaf_context_depth", 2)
	r.Bound("rejected_load_fixed_leaf_programs", len(jobs))
	// (b) every token text through every load builtin, at top level and in every context
	for _, t := range texts {
		if readable(t) {
			continue // accepted: what the loaded text then does is not this part's subject
		}
		for lo := range textLoaders {
			expr, files := textLoaders[lo].expr(t)
			for _, sq := range seqs[:1+len(contexts)] {
				for _, m := range layouts {
					jobs = append(jobs, job{leaf{id: textLoaders[lo].id, src: expr}, files, sq, m})
				}
			}
		}
	}
	r.Bound("rejected_load_programs", len(jobs))
	core.ParallelRange(r, int64(len(jobs)), nil, func(_ struct{}, i int64) {
		j := jobs[i]
		k, ok := buildLeaf(j.l, j.files, j.ctx, j.layout)
		if !ok {
			return
		}
		cls, detail := judge(k)
		r.AddEvals(3)
		r.AddTransitions(1)
		r.AddTraces(1)
		r.AddStates(1)
		if detail != "" {
			r.Nontrivial(k.Src)
		}
		r.Outcome(k.Leaf + ":" + ifs(cls == "", ifs(detail == "", "value-or-not-judged", "ok"), cls))
		if i%5003 == 7 {
			r.Sample(k)
		}
		if cls == "" {
			return
		}
		first := ifs(k.Ctx == "", "top", k.Ctx) // the innermost context, as in the main product
		if n := strings.Index(first, "<"); n >= 0 {
			first = first[:n]
		}
		full := cls + ":" + k.Leaf + ":" + first
		if r.Seen(full) >= 1 {
			r.CountOnly(full)
			return
		}
		for n := 0; n < 5; n++ { // re-confirm in fresh runtimes
			if c2, _ := judge(k); c2 != cls {
				r.Flaky(k)
				return
			}
		}
		r.Violate("c18", full, k, "location = the load call expression, trace = the calls active at it", detail, "")
	})
}

// ---------------------------------------------------------------------------
// histories of host loads into one runtime

type historyKase struct {
	Sources []namedSource `json:"sources"` // loaded in this order; the last one is the one under test
	Kinds   []string      `json:"kinds"`
	API     string        `json:"api"` // how the host loads the last source
	TRO     bool          `json:"tro"`
}

var historyPrefixKinds = []struct{ id, text string }{
	{"loaded", "(set 'a 1)\n(set 'b 2)\n"},
	{"loaded-nested-scopes", "(set 'f (lambda (x)\n  (let ([v x])\n    (list v 2))))\n(funcall f 1)\n"},
	{"failed-while-running", "(set 'c 3)\n(list 1\n  (car 5))\n"},
	{"unreadable", "(set 'd 4)\n(unclosed\n"},
}

var historyAPIs = []string{"LoadString", "LoadStringContext", "LoadLocation", "LoadLocationContext"}

func historyJudge(k historyKase) (string, string) {
	env := el.MustEnv(el.Opts{})
	if !k.TRO {
		env.Runtime.Debugger = el.Dormant{}
	}
	var v *lisp.LVal
	last := k.Sources[len(k.Sources)-1]
	for i, s := range k.Sources {
		if i < len(k.Sources)-1 {
			v = env.LoadString(s.Name, s.Text)
			continue
		}
		switch k.API {
		case "LoadString":
			v = env.LoadString(s.Name, s.Text)
		case "LoadStringContext":
			v = env.LoadStringContext(context.Background(), s.Name, s.Text)
		case "LoadLocation":
			v = env.LoadLocation(s.Name, s.Name, strings.NewReader(s.Text))
		case "LoadLocationContext":
			v = env.LoadLocationContext(context.Background(), s.Name, s.Name, strings.NewReader(s.Text))
		default:
			panic("harness: unknown api " + k.API)
		}
	}
	if v.Type != lisp.LError {
		return "", ""
	}
	loc, ok := v.Source()
	lines := strings.Count(last.Text, "\n") + 1
	detail := fmt.Sprintf("the host loads %d sources into one runtime; the last one, %s (%d lines), ends in: %s\nlocation received: ", len(k.Sources), last.Name, lines, v.Str)
	if !ok {
		detail += "<no position>"
		if readable(last.Text) {
			return "host-history:location-missing", detail
		}
		return "", detail // a source that was never parsed: whether its failure carries a position is not specified
	}
	detail += fmt.Sprintf("%s:%d:%d", loc.File, loc.Line, loc.Col)
	if loc.File != last.Name {
		return "host-history:location-in-another-source", detail
	}
	if loc.Line < 1 || loc.Line > lines {
		return "host-history:location-outside-the-source", detail
	}
	return "", detail
}

func hostHistories(r *core.Run) {
	maxLen, depth := 2, 2
	if r.Thorough() {
		maxLen, depth = 3, 3
	}
	var prefixes [][]int
	var rec func(cur []int)
	rec = func(cur []int) {
		prefixes = append(prefixes, append([]int(nil), cur...))
		if len(cur) == depth {
			return
		}
		for p := range historyPrefixKinds {
			rec(append(cur, p))
		}
	}
	rec(nil)
	type lastSrc struct{ kind, text string }
	var lasts []lastSrc
	for _, p := range historyPrefixKinds {
		lasts = append(lasts, lastSrc{p.id, p.text})
	}
	for _, t := range tokenTexts(maxLen) {
		lasts = append(lasts, lastSrc{ifs(readable(t), "token-text", "unreadable-token-text"), t})
	}
	var ks []historyKase
	for _, pre := range prefixes {
		for _, l := range lasts {
			for _, api := range historyAPIs {
				for _, tro := range []bool{false, true} {
					k := historyKase{API: api, TRO: tro}
					for i, p := range pre {
						k.Sources = append(k.Sources, namedSource{fmt.Sprintf("s%d.lisp", i+1), historyPrefixKinds[p].text})
						k.Kinds = append(k.Kinds, historyPrefixKinds[p].id)
					}
					k.Sources = append(k.Sources, namedSource{fmt.Sprintf("s%d.lisp", len(pre)+1), l.text})
					k.Kinds = append(k.Kinds, l.kind)
					ks = append(ks, k)
				}
			}
		}
	}
	r.Bound("host_history_earlier_sources_max", depth)
	r.Bound("host_history_last_sources", len(lasts))
	r.Bound("host_histories", len(ks))
	r.Rule("host-load histories: up to the bounded number of earlier sources (one that loaded, one that loaded and left nested scopes behind, one that failed while running, one the reader rejected), then a last source that is each of those and each token text of the rejected-load part, loaded through each of LoadString / LoadStringContext / LoadLocation / LoadLocationContext, elimination on and off. Oracle: when the last load ends in an error that carries a location, the location names the last source and a line of it; an error of a source that was read carries a location. Non-trivial = the last load fails")
	r.Assume("whether the failure of a source the reader rejected carries a location at all is not specified (the source was never parsed); if it carries one it must lie within that source")
	core.ParallelRange(r, int64(len(ks)), nil, func(_ struct{}, i int64) {
		k := ks[i]
		cls, detail := historyJudge(k)
		r.AddEvals(int64(len(k.Sources)))
		r.AddTransitions(int64(len(k.Sources)))
		r.AddTraces(1)
		r.AddStates(1)
		if detail != "" {
			r.Nontrivial("history:" + fmt.Sprint(k.Sources) + k.API)
		}
		r.Outcome("host-history:" + ifs(cls == "", ifs(detail == "", "loaded", "ok"), cls))
		if cls == "" {
			return
		}
		full := cls + ":" + k.Kinds[len(k.Kinds)-1] + ":after-" + ifs(len(k.Kinds) == 1, "nothing", strings.Join(k.Kinds[:len(k.Kinds)-1], "+"))
		if r.Seen(full) >= 1 {
			r.CountOnly(full)
			return
		}
		for n := 0; n < 5; n++ { // re-confirm in fresh runtimes
			if c2, _ := historyJudge(k); c2 != cls {
				r.Flaky(k)
				return
			}
		}
		r.Violate("c18", full, k, "a location within the source whose load failed (or none, for a source the reader rejected)", detail, "")
	})
}
