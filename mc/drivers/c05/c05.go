// Package c05: a runtime is left clean after every top-level evaluation,
// successful or not (DESIGN §C05).
//
// Explicit-state search over HISTORIES of top-level operations on one
// runtime.  An operation is (entry point, program template, effect sequence,
// fault); the fault space of every operation is enumerated completely (step
// budget at every n, cancellation at every k, physical height at every h, an
// ordinary error / a host panic at every host-call index).  After every
// operation returns the driver checks
//
//   - the invariants: empty call stack, no pending condition, zero evaluator
//     nesting, current package restored, evaluation context restored;
//   - stopped-cleanly / as-if: with c effects confirmed by (snap), the
//     observable state and the transcript + step count of a fixed probe
//     program equal those of a FRESH runtime in which exactly the first c (or
//     c+1) effects were evaluated cleanly, straight-line, at top level.
//
// The canonical state of a history is the list of cleanly completed effects
// (that is what the oracle proves the runtime is equivalent to), refined by
// the fault kind of the last operation; BFS de-duplicates on it.
package c05

import (
	"context"
	"fmt"
	"os"
	"sort"
	"strings"
	"sync"

	"github.com/luthersystems/elps/lisp"

	"verif/mc/core"
	"verif/mc/el"
)

func init() {
	core.Register(&core.Driver{Property: "C05", Run: run, Replay: replay})
}

const prelude = `
(in-package 'p)
(set 'pa 0)
(set 'a 0)
(set 'b 0)
(set 'v (vector))
(set 'm (sorted-map))
(defun f () 0)
(defun call-thunks (&rest ts) (set 'pcalls (+ 1 (if (nil? (ignore-errors pcalls)) 0 pcalls))) (map 'list (lambda (t) (funcall t)) ts) 'done)
(defun call2 (t1 t2) (funcall t1) (funcall t2) 'done)
(export 'pa 'call-thunks 'call2)
(in-package 'user)
(defun user-call (th) (funcall th))
(defmacro user-mac (form) form)
(set 'a 0)
(set 'b 0)
(set 'v (vector))
(set 'm (sorted-map))
(defun f () 0)
`

// effect kinds: each is one form; (nx) yields a run-position dependent value.
var effects = []string{
	"(set 'a (nx))",
	"(set! b (nx))",
	"(defun f () (let ([q (nx)]) (if (nil? q) 0 (progn q q))))", // the body re-enters the evaluator from Go (let, if, progn): a context left on the function's lexical environment would show in every later call
	"(assoc! m 'k (nx))",
	"(append! v (nx))",
	"(export 'a)",
	"(use-package 'p)",
}

const probeSrc = `(list a b (f) v m (get m 'k) p:pa (ignore-errors pa) (ignore-errors p:a) (ignore-errors p:b) (ignore-errors (p:f))
 (handler-bind ([condition (lambda (c &rest d) (list 'h c))]) (error 'e1 "x"))
 (ignore-errors (handler-bind ([condition (lambda (c &rest d) (rethrow))]) (error 'e2 "x")))
 (handler-bind ([e2 (lambda (c &rest d) 'outer)]) (handler-bind ([condition (lambda (c &rest d) (rethrow))]) (error 'e2 "x")))
 (ignore-errors (rethrow))
 (ignore-errors (error 'internal-panic "forged") 1)
 (handler-bind ([condition (lambda (c &rest d) (list 'contained c))]) (error 'internal-panic "forged"))
 (labels ([lp (i acc) (if (= i 0) acc (lp (- i 1) (+ acc 1)))]) (lp 30 0))
 (macrolet ([m2 (x) (list '+ x 1)]) (m2 1))
 (let ([r (ignore-errors (in-package 'p) (list (ignore-errors a) (ignore-errors f)))]) (in-package 'user) (if (nil? r) r (length r))))`

type template struct {
	name string
	loop bool // one effect kind repeated
	inP  bool // effects act in package p (nested load with in-package)
	// render the program for the effect forms es (each already followed by (snap))
	render func(es []string) string
}

func body(es []string) string {
	var sb strings.Builder
	for _, e := range es {
		sb.WriteString(e)
		sb.WriteString(" (snap) ")
	}
	return sb.String()
}

var templates = []template{
	{name: "top", render: func(es []string) string { return body(es) }},
	{name: "lambda-call", render: func(es []string) string { return "(funcall (lambda () " + body(es) + " 'done))" }},
	{name: "let-labels", render: func(es []string) string {
		return "(let ([z 1]) (labels ([g () " + body(es) + " z]) (g)))"
	}},
	{name: "handler-body", render: func(es []string) string {
		return "(handler-bind ([condition (lambda (c &rest d) (list 'caught c))]) " + body(es) + " 'done)"
	}},
	{name: "in-handler", render: func(es []string) string {
		return "(handler-bind ([condition (lambda (c &rest d) " + body(es) + " 'handled)]) (error 'trigger \"x\"))"
	}},
	{name: "ignore-errors", render: func(es []string) string { return "(ignore-errors " + body(es) + " 'done)" }},
	{name: "nested-load-in-package", inP: true, render: func(es []string) string {
		return "(load-string \"(in-package 'p) " + body(es) + " 'done\")"
	}},
	{name: "macro-expansion", render: func(es []string) string {
		return "(macrolet ([mm () " + body(es) + " ''done]) (mm))"
	}},
	{name: "cross-package-multiform", render: func(es []string) string {
		// a function DEFINED IN PACKAGE p with a multi-form body; the effects run in thunks created here (package user)
		var sb strings.Builder
		sb.WriteString("(p:call-thunks")
		for _, e := range es {
			sb.WriteString(" (lambda () " + e + " (snap))")
		}
		sb.WriteString(")")
		return sb.String()
	}},
	{name: "cross-package-swallowed-then-more", render: func(es []string) string {
		// the failing cross-package call is swallowed; what follows must still run in the caller's package
		// (the swallowed call itself performs no effect, so the effect sequence stays linear)
		var sb strings.Builder
		sb.WriteString("(ignore-errors (p:call2 (lambda () (error 'always \"x\")) (lambda () 0))) ")
		sb.WriteString(body(es))
		return sb.String()
	}},
	// the host builtin reached through LEnv.FunCall (funcall / apply / a sequence callback) instead of a direct call:
	// a host panic then unwinds through FunCall's own bookkeeping before eval recovers it
	{name: "host-via-funcall", render: func(es []string) string { return strings.ReplaceAll(body(es), "(snap)", "(funcall snap)") }},
	{name: "host-via-apply-in-function", render: func(es []string) string {
		return "(funcall (lambda () " + strings.ReplaceAll(body(es), "(snap)", "(apply snap ())") + " 'done))"
	}},
	{name: "host-as-map-callback", loop: true, render: func(es []string) string {
		return fmt.Sprintf("(dotimes (i %d) %s (map 'list snap1 '(0)))", len(es), first(es))
	}},
	// the host builtin is itself the HANDLER of a handler-bind binding: called by the operator with no eval in between,
	// so a panic in it unwinds through handler-bind's own bookkeeping (the pending condition)
	{name: "host-as-handler", loop: true, render: func(es []string) string {
		return fmt.Sprintf("(dotimes (i %d) %s (handler-bind ([condition snaph]) (error 'trigger \"x\")))", len(es), first(es))
	}},
	{name: "host-as-handler-of-second-binding", loop: true, render: func(es []string) string {
		return fmt.Sprintf("(dotimes (i %d) %s (handler-bind ([nomatch (lambda (c &rest d) 0)] [trigger snaph]) (error 'trigger \"x\")))", len(es), first(es))
	}},
	{name: "after-nested-empty-loads", render: func(es []string) string {
		return "(load-string \"\") (funcall (lambda () (load-bytes (to-bytes \"; nothing\")) 1)) " + body(es)
	}},
	// the top-level form is a call of a USER-DEFINED function (every other template starts with a builtin or a special
	// operator, whose own save/restore of the environment's context masks what happens underneath)
	{name: "user-function-at-top", render: func(es []string) string { return "(user-call (lambda () " + body(es) + " 'done))" }},
	{name: "user-function-at-top-nested-loads", render: func(es []string) string {
		return "(user-call (lambda () (load-string \"\") (load-bytes (to-bytes \"1\")) (load-string \"(set 'ldv 1)\") " + body(es) + " 'done))"
	}},
	{name: "user-macro-at-top", render: func(es []string) string { return "(user-mac (progn (load-string \"1\") " + body(es) + " 'done))" }},
	{name: "host-special-operator", render: func(es []string) string { return strings.ReplaceAll(body(es), "(snap)", "(snap-op)") }},
	{name: "host-special-operator-in-function", render: func(es []string) string {
		return "(user-call (lambda () (let ([z 1]) " + strings.ReplaceAll(body(es), "(snap)", "(snap-op)") + " 'done)))"
	}},
	{name: "host-go-macro", render: func(es []string) string {
		return "(funcall (lambda () " + strings.ReplaceAll(body(es), "(snap)", "(snap-mac)") + " 'done))"
	}},
	{name: "tail-loop", loop: true, render: func(es []string) string {
		return fmt.Sprintf("(labels ([lp (i) (if (>= i %d) 'done (progn %s (snap) (lp (+ i 1))))]) (lp 0))", len(es), first(es))
	}},
	{name: "dotimes", loop: true, render: func(es []string) string {
		return fmt.Sprintf("(dotimes (i %d) %s (snap))", len(es), first(es))
	}},
	{name: "map-callback", loop: true, render: func(es []string) string {
		return fmt.Sprintf("(map 'list (lambda (i) %s (snap) i) '(%s))", first(es), strings.TrimSpace(strings.Repeat("0 ", len(es))))
	}},
	{name: "foldl-callback", loop: true, render: func(es []string) string {
		return fmt.Sprintf("(foldl (lambda (acc i) %s (snap) acc) 0 '(%s))", first(es), strings.TrimSpace(strings.Repeat("0 ", len(es))))
	}},
}

func first(es []string) string {
	if len(es) == 0 {
		return "()"
	}
	return es[0]
}

// fault of one operation.
type fault struct {
	Kind string `json:"kind"` // none | snap-error | snap-panic | budget | cancel | height
	At   int64  `json:"at,omitempty"`
}

// op is one top-level operation.
type op struct {
	Entry   string `json:"entry"` // LoadString | LoadStringContext | Eval | LoadProgram
	Tpl     int    `json:"tpl"`
	Effects []int  `json:"effects"`
	Fault   fault  `json:"fault"`
	// Loc, when set, makes this an operation of the evaluator-location family (loc.go): the program is
	// locCtxs[Ctx] around locNests[Nest] instead of a template around effects.
	Loc *locSpec `json:"loc,omitempty"`
}

func (o op) forms() []string {
	es := make([]string, len(o.Effects))
	for i, e := range o.Effects {
		es[i] = effects[e]
	}
	return es
}

func (o op) src() string {
	if o.Loc != nil {
		src, _ := o.Loc.render()
		return src
	}
	return templates[o.Tpl].render(o.forms())
}

// ---------------------------------------------------------------------------

type rig struct {
	env       *el.Env
	snapCalls int
	failAt    int
	failKind  string
	confirmed int // snaps that returned normally

	// evaluator-location family (loc.go)
	files    map[string]string // what the in-memory source library serves
	libLog   []string          // source contexts the library was asked under
	whereLog []string          // frame sources seen by the where / where-op / where-mac host entries
	afterOp  func()            // runs right after the entry point returned, before anything else is evaluated
	snap     lisp.LBuiltinDef
}

func newRig() *rig {
	g := &rig{}
	snap := el.Fn("snap", nil, func(env *lisp.LEnv, args *lisp.LVal) *lisp.LVal {
		g.snapCalls++
		if g.failAt == g.snapCalls {
			if g.failKind == "snap-panic" {
				panic("host builtin failed (injected)")
			}
			return env.Errorf("injected host error")
		}
		g.confirmed++
		return lisp.Nil()
	})
	g.snap = snap
	snap1 := el.Fn("snap1", []string{"x"}, func(env *lisp.LEnv, args *lisp.LVal) *lisp.LVal {
		return snap.Eval(env, lisp.SExpr(nil))
	})
	snaph := el.Fn("snaph", []string{"c", "&rest", "d"}, func(env *lisp.LEnv, args *lisp.LVal) *lisp.LVal {
		return snap.Eval(env, lisp.SExpr(nil))
	})
	nx := el.Fn("nx", nil, func(env *lisp.LEnv, args *lisp.LVal) *lisp.LVal {
		return lisp.Int(g.snapCalls + 1)
	})
	g.env = el.MustEnv(el.Opts{Builtins: []lisp.LBuiltinDef{snap, snap1, snaph, nx}, Configs: []lisp.Config{lisp.WithLibrary(&memLib{g: g})}})
	// the same host code registered as a SPECIAL OPERATOR and as a Go MACRO (embedders may add both): a panic in
	// the operator's own Go body unwinds through specialOpCall / macroCall, not through a function call
	g.env.AddSpecialOps(true, el.Fn("snap-op", nil, func(env *lisp.LEnv, args *lisp.LVal) *lisp.LVal { return snap.Eval(env, lisp.SExpr(nil)) }))
	g.env.AddMacros(true, el.Fn("snap-mac", nil, func(env *lisp.LEnv, args *lisp.LVal) *lisp.LVal { return snap.Eval(env, lisp.SExpr(nil)) }))
	// make the host builtins visible from package p as well
	if o := g.env.Load(prelude); o.IsErr {
		panic("harness: prelude: " + o.Full())
	}
	if o := g.env.Load("(in-package 'p) (set 'snap user:snap) (set 'snap1 user:snap1) (set 'snaph user:snaph) (set 'nx user:nx) (in-package 'user)"); o.IsErr {
		panic("harness: prelude2: " + o.Full())
	}
	return g
}

// snapshot renders the observable state through the Go API.
func (g *rig) snapshot() string {
	var sb strings.Builder
	reg := g.env.Runtime.Registry
	for _, pn := range []string{"user", "p"} {
		pkg := reg.Package(pn)
		if pkg == nil {
			sb.WriteString(pn + ":<none>;")
			continue
		}
		sb.WriteString(pn + "{")
		for _, n := range []string{"a", "b", "f", "v", "m", "pa"} {
			v, ok := pkg.Symbol(n)
			switch {
			case !ok || v == nil:
				sb.WriteString(n + "=<unbound> ")
			case v.Type == lisp.LFun:
				sb.WriteString(n + "=<fun> ")
			default:
				sb.WriteString(n + "=" + v.String() + " ")
			}
		}
		ex := append([]string(nil), pkg.Externals()...)
		sort.Strings(ex)
		var watched []string
		for _, e := range ex {
			switch e {
			case "a", "b", "f", "v", "m", "pa":
				watched = append(watched, e)
			}
		}
		sb.WriteString("exports=" + strings.Join(watched, ",") + "};")
	}
	return sb.String()
}

func (g *rig) invariants(pkgBefore string, wantPkgRestored bool) string {
	if bad := g.pureInvariants(pkgBefore, wantPkgRestored); bad != "" {
		return bad
	}
	return g.entryDepthInvariant()
}

// pureInvariants reads the runtime through the Go API only: nothing is evaluated.
func (g *rig) pureInvariants(pkgBefore string, wantPkgRestored bool) string {
	rt := g.env.Runtime
	var bad []string
	if n := len(rt.Stack.Frames); n != 0 {
		bad = append(bad, fmt.Sprintf("call stack holds %d frames", n))
	}
	if rt.CurrentCondition() != nil {
		bad = append(bad, "a condition is still pending for rethrow")
	}
	if rt.EvalNesting() != 0 {
		bad = append(bad, fmt.Sprintf("evaluator nesting is %d", rt.EvalNesting()))
	}
	if n := len(rt.Stack.GoStack); n != 0 {
		// the empty call stack of an idle runtime carries nothing of an earlier failure either: the Go stack of a
		// recovered host panic belongs to that error's own copy of the stack
		bad = append(bad, fmt.Sprintf("the idle call stack still carries %d bytes of a recovered panic's Go stack", n))
	}
	if wantPkgRestored && rt.Package.Name != pkgBefore {
		bad = append(bad, fmt.Sprintf("current package is %q, was %q before the load", rt.Package.Name, pkgBefore))
	}
	if g.env.Context() != context.Background() {
		bad = append(bad, "evaluation context not restored")
	}
	return strings.Join(bad, "; ")
}

func (g *rig) entryDepthInvariant() string {
	rt := g.env.Runtime
	var bad []string
	// entry-point depth balanced: two trivial top-level evaluations in a row must count the same number of steps
	// (a depth left raised means the step counter is never reset again: the second count is the sum)
	if len(bad) == 0 {
		lisp.WithMaxSteps(1 << 40)(g.env.LEnv)
		g.env.LoadString("inv", "1")
		s1 := rt.Steps()
		g.env.LoadString("inv", "1")
		s2 := rt.Steps()
		lisp.WithMaxSteps(0)(g.env.LEnv)
		if s1 != s2 {
			bad = append(bad, fmt.Sprintf("entry depth not balanced: two trivial evaluations count %d then %d steps", s1, s2))
		}
	}
	return strings.Join(bad, "; ")
}

type opResult struct {
	out       el.Outcome
	steps     int64
	maxFrames int
	confirmed int
	inv       string
}

// apply runs one operation with its fault.
func (g *rig) apply(o op) opResult {
	rt := g.env.Runtime
	g.snapCalls, g.confirmed, g.failAt, g.failKind = 0, 0, 0, ""
	std := lisp.StandardRuntime().Stack
	rt.Stack.MaxHeightPhysical = std.MaxHeightPhysical
	var budget int64
	var ctx *el.StepCtx
	switch o.Fault.Kind {
	case "snap-error", "snap-panic":
		g.failAt, g.failKind = int(o.Fault.At), o.Fault.Kind
	case "snap-error-ctx", "snap-panic-ctx":
		// the same host failure while the entry point runs under a caller's context, which the caller cancels
		// once the entry point has returned: a context left behind anywhere would poison what follows
		g.failAt, g.failKind = int(o.Fault.At), strings.TrimSuffix(o.Fault.Kind, "-ctx")
		ctx = el.NewStepCtx()
	case "budget":
		budget = o.Fault.At
	case "cancel":
		ctx = el.NewStepCtx()
		ctx.CancelAt = o.Fault.At
	case "height":
		rt.Stack.MaxHeightPhysical = int(o.Fault.At)
	case "measure":
		ctx = el.NewStepCtx()
	}
	maxFrames := 0
	if ctx != nil {
		ctx.OnStep = func(int64) {
			if n := len(rt.Stack.Frames); n > maxFrames {
				maxFrames = n
			}
		}
	}
	src := o.src()
	g.files = nil
	if o.Loc != nil {
		_, g.files = o.Loc.render()
	}
	var fn *lisp.LVal
	if o.Entry == "FunCall" {
		lisp.WithMaxSteps(0)(g.env.LEnv)
		fn = g.env.LoadString("mk", "(lambda () "+src+")")
		if fn.Type != lisp.LFun {
			panic("harness: lambda: " + fn.String())
		}
	}
	lisp.WithMaxSteps(budget)(g.env.LEnv)
	pkgBefore := rt.Package.Name
	g.env.Err.Reset()
	var v *lisp.LVal
	isLoad := true
	switch o.Entry {
	case "LoadString":
		if ctx != nil {
			v = g.env.LoadStringContext(ctx, "op", src)
		} else {
			v = g.env.LoadString("op", src)
		}
	case "LoadProgram":
		p, err := el.Parse("op", src)
		if err != nil {
			panic("harness: parse: " + err.Error())
		}
		if ctx != nil {
			v = g.env.LoadProgramContext(ctx, p)
		} else {
			v = g.env.LoadProgram(p)
		}
	case "Eval":
		isLoad = false
		exprs, err := g.env.Runtime.Reader.Read("op", strings.NewReader("(progn "+src+")"))
		if err != nil || len(exprs) != 1 {
			panic("harness: read")
		}
		if o.Loc != nil {
			// a program that is one form is given to Eval as that form
			if one, err := g.env.Runtime.Reader.Read("op", strings.NewReader(src)); err == nil && len(one) == 1 {
				exprs = one
			}
		}
		if ctx != nil {
			v = g.env.EvalContext(ctx, exprs[0])
		} else {
			v = g.env.Eval(exprs[0])
		}
	case "FunCall":
		isLoad = false
		if ctx != nil {
			v = g.env.FunCallContext(ctx, fn, lisp.QExpr(nil))
		} else {
			v = g.env.FunCall(fn, lisp.QExpr(nil))
		}
	case "LoadFile":
		// the program is the file main.lisp of the in-memory source library
		if ctx != nil {
			v = g.env.LoadFileContext(ctx, "main.lisp")
		} else {
			v = g.env.LoadFile("main.lisp")
		}
	default:
		panic("harness: entry " + o.Entry)
	}
	if ctx != nil {
		ctx.Cancel() // the caller is done with its context
	}
	res := opResult{out: el.Observe(v, g.env.Err.String()), steps: rt.Steps(), maxFrames: maxFrames, confirmed: g.confirmed}
	_ = isLoad
	res.inv = g.pureInvariants(pkgBefore, true) // no template switches package at its own top level, so every entry point must leave it unchanged
	rt.Stack.MaxHeightPhysical = std.MaxHeightPhysical
	lisp.WithMaxSteps(0)(g.env.LEnv)
	if g.afterOp != nil {
		g.afterOp() // the limits of the operation are lifted: what runs here is a LATER evaluation
	}
	if res.inv == "" {
		res.inv = g.entryDepthInvariant()
	}
	return res
}

// cleanApply evaluates the first c effects of o straight-line at top level in
// the reference runtime (in package p for inP templates).
func (g *rig) cleanApply(o op, c int) {
	g.snapCalls, g.confirmed, g.failAt = 0, 0, 0
	es := o.forms()[:c]
	src := body(es)
	if templates[o.Tpl].inP {
		src = "(in-package 'p) " + src
	}
	lisp.WithMaxSteps(0)(g.env.LEnv)
	out := g.env.Load(src)
	if out.IsErr {
		panic("harness: clean effects failed: " + out.Full() + " src=" + src)
	}
}

// observe = snapshot + probe transcript + probe steps (the probe needs a full budget).
func (g *rig) observe() string {
	snap := g.snapshot()
	g.snapCalls, g.failAt = 0, 0
	lisp.WithMaxSteps(1 << 40)(g.env.LEnv) // counts steps
	out := g.env.Load(probeSrc)
	steps := g.env.Runtime.Steps()
	lisp.WithMaxSteps(0)(g.env.LEnv)
	inv := g.invariants("user", true)
	return fmt.Sprintf("%s || probe=%s steps=%d inv=%q", snap, out.Full(), steps, inv)
}

// ---------------------------------------------------------------------------
// reference cache: observation of a fresh runtime after cleanly completing a
// list of (op, count) prefixes.

type done struct {
	Tpl     int   `json:"tpl"` // only inP matters
	Effects []int `json:"effects"`
}

func doneKey(ds []done) string {
	var sb strings.Builder
	for _, d := range ds {
		if len(d.Effects) == 0 {
			continue
		}
		if templates[d.Tpl].inP {
			sb.WriteString("P")
		} else {
			sb.WriteString("U")
		}
		for _, e := range d.Effects {
			fmt.Fprintf(&sb, "%d", e)
		}
		sb.WriteString("|")
	}
	return sb.String()
}

type refCache struct {
	mu sync.Mutex
	m  map[string]string
}

func (rc *refCache) get(ds []done) string {
	k := doneKey(ds)
	rc.mu.Lock()
	v, ok := rc.m[k]
	rc.mu.Unlock()
	if ok {
		return v
	}
	g := newRig()
	for _, d := range ds {
		g.cleanApply(op{Tpl: d.Tpl, Effects: d.Effects}, len(d.Effects))
	}
	v = g.observe()
	rc.mu.Lock()
	rc.m[k] = v
	rc.mu.Unlock()
	return v
}

// ---------------------------------------------------------------------------

type history struct {
	Ops  []op   `json:"ops"`
	Done []done `json:"done"` // what the earlier ops are proven equivalent to
}

// step replays h.Ops on a fresh runtime, applies o, and checks the oracle.
// It returns the new completed-effects list (nil on violation).
func step(h history, o op, rc *refCache) (newDone []done, res opResult, bad string, class string) {
	g := newRig()
	for _, p := range h.Ops {
		g.apply(p)
	}
	res = g.apply(o)
	if res.inv != "" {
		return nil, res, "invariants broken after the operation returned: " + res.inv, "invariant:" + invClass(res.inv) + ":" + o.Fault.Kind
	}
	got := g.observe()
	c := res.confirmed
	cands := []int{c}
	if c+1 <= len(o.Effects) {
		cands = append(cands, c+1)
	}
	if o.Fault.Kind == "none" {
		cands = []int{len(o.Effects)}
		if c != len(o.Effects) && !absorbing(o) {
			return nil, res, fmt.Sprintf("unfaulted run confirmed %d of %d effects: %s", c, len(o.Effects), res.out.Full()), "unfaulted-run-incomplete"
		}
	}
	var wants []string
	for _, cc := range cands {
		nd := append(append([]done(nil), h.Done...), done{Tpl: o.Tpl, Effects: o.Effects[:cc]})
		want := rc.get(nd)
		wants = append(wants, want)
		if want == got {
			return nd, res, "", ""
		}
	}
	return nil, res, fmt.Sprintf("after the operation (%d effects confirmed; result %s) the runtime is not equivalent to a fresh runtime that cleanly completed %v effects.\n got: %s\nwant: %s",
		c, res.out.String(), cands, got, strings.Join(wants, "\n  or: ")), "not-as-if-stopped-cleanly:" + templates[o.Tpl].name + ":" + o.Fault.Kind
}

// absorbing templates swallow an injected error and continue (none here skip effects when unfaulted).
func absorbing(o op) bool { return false }

func invClass(s string) string {
	switch {
	case strings.Contains(s, "call stack"):
		return "stack"
	case strings.Contains(s, "condition"):
		return "condition"
	case strings.Contains(s, "nesting"):
		return "nesting"
	case strings.Contains(s, "package"):
		return "package"
	case strings.Contains(s, "context"):
		return "context"
	case strings.Contains(s, "entry depth"):
		return "entry-depth"
	}
	return "other"
}

type kase struct {
	History history `json:"history"`
	Op      op      `json:"op"`
}

func replay(v core.Violation) (bool, string) {
	k, err := core.CaseOf[kase](v)
	if err != nil {
		return false, err.Error()
	}
	if k.Op.Loc != nil {
		return locReplay(k)
	}
	rc := &refCache{m: map[string]string{}}
	_, res, bad, _ := step(k.History, k.Op, rc)
	var sb strings.Builder
	for i, p := range k.History.Ops {
		fmt.Fprintf(&sb, "op%d: %s fault=%+v\n  %s\n", i+1, p.Entry, p.Fault, p.src())
	}
	fmt.Fprintf(&sb, "last: %s fault=%+v\n  %s\nresult: %s steps=%d confirmed=%d\n%s", k.Op.Entry, k.Op.Fault, k.Op.src(), res.out.Full(), res.steps, res.confirmed, bad)
	return bad != "", sb.String()
}

// ---------------------------------------------------------------------------

// opsAlphabet builds the (template x effect sequence) alphabet.
func opsAlphabet(seqLen int, entries []string, tpls []int) []op {
	var out []op
	var seqs [][]int
	var rec func(cur []int)
	rec = func(cur []int) {
		if len(cur) == seqLen {
			seqs = append(seqs, append([]int(nil), cur...))
			return
		}
		for e := range effects {
			rec(append(cur, e))
		}
	}
	rec(nil)
	for _, ti := range tpls {
		t := templates[ti]
		for _, s := range seqs {
			if t.loop {
				same := true
				for _, e := range s {
					if e != s[0] {
						same = false
					}
				}
				if !same {
					continue
				}
			}
			for _, en := range entries {
				out = append(out, op{Entry: en, Tpl: ti, Effects: s})
			}
		}
	}
	return out
}

func allTpls() []int {
	l := make([]int, len(templates))
	for i := range l {
		l[i] = i
	}
	return l
}

// faultsOf enumerates the complete fault space of o after history h.
func faultsOf(h history, o op, full bool) []fault {
	g := newRig()
	for _, p := range h.Ops {
		g.apply(p)
	}
	m := o
	m.Fault = fault{Kind: "measure"}
	base := g.apply(m)
	N, H := base.steps, base.maxFrames
	fs := []fault{{Kind: "none"}}
	nE := int64(len(o.Effects))
	for j := int64(1); j <= nE; j++ {
		fs = append(fs, fault{Kind: "snap-error", At: j}, fault{Kind: "snap-panic", At: j},
			fault{Kind: "snap-error-ctx", At: j}, fault{Kind: "snap-panic-ctx", At: j})
	}
	if full {
		for n := int64(1); n <= N; n++ {
			fs = append(fs, fault{Kind: "budget", At: n})
		}
		for k := int64(1); k <= N; k++ {
			fs = append(fs, fault{Kind: "cancel", At: k})
		}
		for h := 1; h <= H+1; h++ {
			fs = append(fs, fault{Kind: "height", At: int64(h)})
		}
	} else {
		for _, n := range []int64{1, N / 3, N / 2, (2 * N) / 3, N - 1} {
			if n >= 1 {
				fs = append(fs, fault{Kind: "budget", At: n}, fault{Kind: "cancel", At: n})
			}
		}
		for _, hh := range []int{1, H / 2, H} {
			if hh >= 1 {
				fs = append(fs, fault{Kind: "height", At: int64(hh)})
			}
		}
	}
	return fs
}

type task struct {
	h history
	o op
}

func run(r *core.Run) {
	rc := &refCache{m: map[string]string{}}
	seqLen := 2
	depth := 2
	entries1 := []string{"LoadString"}
	if r.Thorough() {
		seqLen = 3
	}
	r.Bound("effect_kinds", len(effects))
	r.Bound("templates", len(templates))
	r.Bound("effects_per_operation", seqLen)
	r.Bound("history_depth", depth)
	r.Rule("explicit-state BFS over histories of top-level operations on one runtime. Operation = entry point x program template (24: the host code registered as a special operator and as a Go macro, a user-defined function or macro as the top-level form (with nested loads), after nested loads of empty sources, top level, lambda call, the host builtin reached through funcall / apply / as a map callback, a multi-form function defined in another package calling thunks (also swallowed and followed by more effects), let/labels, handler-bind body, inside a handler, ignore-errors, nested load-string with in-package, macro expansion time, tail loop, dotimes, map callback, foldl callback) x effect sequence over 7 effect kinds (set, set!, defun, assoc!, append!, export, use-package) x fault. " +
		"Depth 1: the COMPLETE fault space of every operation (no fault; ordinary host error and host panic at every host-call index; step budget at every n in 1..N; cancellation at every k in 1..N; physical height limit at every h in 1..H+1). " +
		"Depth 2: from every distinct state reached (canonical state = list of cleanly completed effects + template and fault kind of the last operation) a second operation from a reduced alphabet under every entry point with boundary faults. A state/transition is non-trivial when the operation was faulted; distinct by (history, operation). " +
		"Evaluator-location family (loc.go): context (every kind of place a form can stand in: top-level forms, operator bodies, handlers, functions, macros, argument of a call, sources of nested load-string / load-bytes / load-file) x entry point (LoadString, LoadProgram, Eval, FunCall, LoadFile) x nest (a function-call form with the failing host call, or an intrinsically failing form, in every head / first / last argument position to a bounded depth, under every callee kind, also inside operators, function bodies, macro calls and nested loads standing in argument position) x the complete fault space; what every later entry point that does not re-stamp the location observes (LEnv.Source, frames and error locations under FunCall / FunCallContext / MacroCall / SpecialOpCall / EvalSExpr, the source context of a host-issued relative load-file) must equal what it observes after the BARE host call failed the same way in the same place")
	r.Assume("an effect is confirmed when the host builtin (snap) that follows it returned normally; a failed run must be equivalent to the state after c or c+1 effects (the effect completed but its snap did not)")
	r.Assume("equivalence is observed through the Go-side package table (watched names, exports, current package) plus the value, stderr and STEP COUNT of a fixed probe program (reads every watched name in both packages, calls the watched function, handler-bind, rethrow, rethrow outside a handler, a tail loop, a macro, in-package)")

	if os.Getenv("C05_ONLY") == "loc" { // development switch: the evaluator-location family alone
		runLoc(r)
		return
	}

	// ---- depth 1
	root := history{}
	alpha1 := opsAlphabet(seqLen, entries1, allTpls())
	var tasks []task
	var mu sync.Mutex
	core.ParallelRange(r, int64(len(alpha1)), nil, func(_ struct{}, i int64) {
		o := alpha1[i]
		fs := faultsOf(root, o, true)
		mu.Lock()
		for _, f := range fs {
			oo := o
			oo.Fault = f
			tasks = append(tasks, task{h: root, o: oo})
		}
		mu.Unlock()
	})
	sort.SliceStable(tasks, func(i, j int) bool { return taskKey(tasks[i]) < taskKey(tasks[j]) })
	r.Bound("depth1_operations", len(alpha1))
	r.Bound("depth1_transitions", len(tasks))

	type stateRep struct {
		h history
	}
	states := map[string]stateRep{}
	explore := func(tasks []task, collect bool) {
		core.ParallelRange(r, int64(len(tasks)), nil, func(_ struct{}, i int64) {
			t := tasks[i]
			nd, res, bad, class := step(t.h, t.o, rc)
			r.AddTransitions(1)
			r.AddEvals(1)
			r.AddTraces(1)
			r.Outcome(t.o.Fault.Kind + ":" + ifs(res.out.IsErr, "err:"+res.out.Cond, "val"))
			if t.o.Fault.Kind != "none" {
				r.Nontrivial(taskKey(t))
			}
			if bad != "" {
				if r.Seen(class) < 3 {
					// re-confirm 5x
					rep := 0
					for n := 0; n < 5; n++ {
						if _, _, b2, _ := step(t.h, t.o, rc); b2 != "" {
							rep++
						}
					}
					if rep == 5 {
						r.Violate("c05", class, kase{History: t.h, Op: t.o}, "clean runtime, equivalent to stopping cleanly at the point of failure", bad, "")
					} else {
						r.Flaky(map[string]any{"case": kase{History: t.h, Op: t.o}, "reproduced": rep})
					}
				} else {
					r.CountOnly(class)
				}
				return
			}
			if collect {
				key := doneKey(nd) + "#" + t.o.Fault.Kind
				mu.Lock()
				if _, ok := states[key]; !ok {
					nh := history{Ops: append(append([]op(nil), t.h.Ops...), t.o), Done: nd}
					states[key] = stateRep{h: nh}
				}
				mu.Unlock()
			}
		})
	}
	explore(tasks, true)
	if len(tasks) > 0 {
		r.Sample(map[string]any{"op": tasks[len(tasks)/2].o, "src": tasks[len(tasks)/2].o.src()})
		r.Sample(map[string]any{"op": tasks[len(tasks)-1].o, "src": tasks[len(tasks)-1].o.src()})
	}
	r.AddStates(int64(len(states)) + 1)
	r.Bound("depth1_distinct_states", len(states))

	// ---- depth 2: from every distinct state, a reduced alphabet under every entry point
	keys := make([]string, 0, len(states))
	for k := range states {
		keys = append(keys, k)
	}
	sort.Strings(keys)
	entries2 := []string{"LoadString", "LoadProgram", "Eval", "FunCall"}
	tpls2 := []int{0, 8} // top, tail loop
	if r.Thorough() {
		tpls2 = []int{0, 4, 6, 8} // top, inside a handler, nested load with in-package, tail loop
	}
	alpha2 := opsAlphabet(1, entries2, tpls2)
	{
		// depth 2 uses a sub-alphabet of effect kinds: set and append! (quick), + defun (thorough)
		var keep []op
		for _, o := range alpha2 {
			if e := o.Effects[0]; e == 0 || e == 4 || (r.Thorough() && e == 2) {
				keep = append(keep, o)
			}
		}
		alpha2 = keep
	}
	type pair struct{ s, a int }
	var pairs []pair
	for si := range keys {
		for ai := range alpha2 {
			pairs = append(pairs, pair{si, ai})
		}
	}
	var tasks2 []task
	core.ParallelRange(r, int64(len(pairs)), nil, func(_ struct{}, i int64) {
		p := pairs[i]
		h := states[keys[p.s]].h
		o := alpha2[p.a]
		// nested-load template makes sense from Load entry points only for the
		// package-restore invariant; it is still legal from the others.
		fs := faultsOf(h, o, false)
		mu.Lock()
		for _, f := range fs {
			oo := o
			oo.Fault = f
			tasks2 = append(tasks2, task{h: h, o: oo})
		}
		mu.Unlock()
	})
	sort.SliceStable(tasks2, func(i, j int) bool { return taskKey(tasks2[i]) < taskKey(tasks2[j]) })
	r.Bound("depth2_operations", len(alpha2))
	r.Bound("depth2_transitions", len(tasks2))
	before := len(states)
	explore(tasks2, true)
	r.AddStates(int64(len(states) - before))
	r.Bound("depth2_new_states", len(states)-before)
	if len(tasks2) > 0 {
		t := tasks2[len(tasks2)/3]
		r.Sample(map[string]any{"history": t.h.Ops, "op": t.o, "src": t.o.src()})
	}

	// ---- evaluator-location family
	runLoc(r)
}

func taskKey(t task) string {
	var sb strings.Builder
	for _, p := range t.h.Ops {
		fmt.Fprintf(&sb, "%s/%d/%v/%s@%d;", p.Entry, p.Tpl, p.Effects, p.Fault.Kind, p.Fault.At)
	}
	fmt.Fprintf(&sb, ">%s/%02d/%v/%s@%06d", t.o.Entry, t.o.Tpl, t.o.Effects, t.o.Fault.Kind, t.o.Fault.At)
	return sb.String()
}

func ifs(c bool, a, b string) string {
	if c {
		return a
	}
	return b
}
